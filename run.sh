#!/bin/bash
# usage: ./run.sh <property id> [quick|thorough]
# Static checks only: loads /repo's current source with go/packages and decides
# the rules registered for the property. Exit 0 held, 1 violation, 2 checker broken.
set -u
cd "$(dirname "$0")"
PROP="${1:?property id}"
TIER="${2:-${VERIF_TIER:-quick}}"
REPO="${VERIF_REPO:-/repo}"
export PATH=/opt/veriftools/go1.26.8/bin:$PATH
export GOTOOLCHAIN=local GOFLAGS=-mod=mod GOPROXY=off
unset GOWORK
mkdir -p bin evidence out
if ! (cd checker && go build -o ../bin/bbcheck . ) >out/build.log 2>&1; then
  cat out/build.log >&2
  echo "CHECKER-BROKEN: cannot build bbcheck" >&2
  exit 2
fi
exec ./bin/bbcheck -repo "$REPO" -property "$PROP" -tier "$TIER" \
  -evidence "evidence/$PROP.json" -known known_findings.json -out out \
  -mutants mutants -seed "${VERIF_SEED:-0}"
