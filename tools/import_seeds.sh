#!/bin/bash
# usage: tools/import_seeds.sh <round dir, e.g. /tmp/wt3> <id infix, e.g. r3> <property ids…>
# Copies <round dir>/<P>/SEED/<n>/{patch.diff,demo,meta.json} to /verif/seeded/<P>-<infix><n>
# and verifies each seed in its scratch worktree (build, pinned tests, demo with / without
# the patch); the verification result is recorded in meta.json as verified_by_me.
rd="$1"; infix="$2"; shift 2
export PATH=/opt/veriftools/go1.26.8/bin:$PATH GOFLAGS=-mod=mod GOPROXY=off GOSUMDB=off GOTOOLCHAIN=local
cd /verif
for p in "$@"; do for n in 1 2 3; do
  src=$rd/$p/SEED/$n; [ -f $src/patch.diff ] || { echo "$src: no patch"; continue; }
  d=seeded/$p-$infix$n; mkdir -p $d; cp $src/patch.diff $d/; rm -rf $d/demo; cp -r $src/demo $d/ 2>/dev/null; cp $src/meta.json $d/meta.json
  git -C /repo apply --check /verif/$d/patch.diff 2>/dev/null || echo "$d does not apply to /repo HEAD"
  r=$(tools/verify_seed.sh $src $rd/$p 2>&1 | grep '^RESULT' | sed "s|RESULT $src ||")
  python3 - "$d/meta.json" "$p-$infix$n" "$r" <<'PY'
import json,sys
p,sid,r=sys.argv[1:4]
m=json.load(open(p)); m['id']=sid
m['verified_by_me']={'result':r,'how':'tools/verify_seed.sh in a scratch worktree: build, pinned tests, demo with and without the patch'}
json.dump(m,open(p,'w'),indent=1)
PY
  echo "$p-$infix$n: $r"
done; done
