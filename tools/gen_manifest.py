#!/usr/bin/env python3
"""Regenerates /verif/MANIFEST.json from tools/claims.json (one entry per
property: claimed or not, text, technique, level note) – keeps the manifest
valid and in step with what the checker registers."""
import json, os, subprocess, sys

here = os.path.dirname(os.path.abspath(__file__))
root = os.path.dirname(here)
claims = json.load(open(os.path.join(here, "claims.json")))

BASELINE = json.load(open("/root/.vp/BASELINE.json"))["cmd"]

checks = []
na = []
for pid in sorted(claims):
    c = claims[pid]
    if not c.get("claimed"):
        na.append({"property_id": pid, "reason": c["reason"]})
        continue
    checks.append({
        "property_id": pid,
        "quick_cmd": f"./run.sh {pid} quick",
        "thorough_cmd": f"./run.sh {pid} thorough",
        "evidence_file": f"/verif/evidence/{pid}.json",
        "replay_cmd_template": "./bin/bbcheck -explain {path}",
        "engine": "bbcheck",
        "level_claimed": {
            "category": "other",
            "text": c["text"],
            "design_ref": c.get("design_ref", "DESIGN.md section 4, " + pid),
        },
        "level_note": c["note"],
        "technique": c["technique"],
    })

manifest = {
    "version": 1,
    "setup_cmd": "./setup.sh",
    "hooks": {
        "guard": "verif",
        "enable": "none needed: the checks are static and read /repo's source as it is; no instrumentation exists",
        "baseline_off_cmd": BASELINE,
        "source_commits": [],
        "add_only": True,
    },
    "engines": [{
        "name": "bbcheck",
        "path": "/verif/checker",
        "serves_properties": [c["property_id"] for c in checks],
        "kind_free_text": "repository-specific static analyser (go/packages + go/types + go/ssa + go/cfg): typestate/linearity, lock-state, event-order automata, dominance guards, provenance/taint, who-may-write, table agreement",
    }],
    "checks": checks,
    "not_applicable": na,
    "notes": "Static analysis only (DESIGN.md). Every claim is level 'other': named structural necessary conditions hold on every path / call site of the current tree; what each claim does not decide is listed in DESIGN.md section 4. Repairs of genuine defects found by the rules are 'fix:' commits in /repo, recorded in known_findings.json.",
}
json.dump(manifest, open(os.path.join(root, "MANIFEST.json"), "w"), indent=1)
print("checks:", len(checks), "not_applicable:", len(na))
