#!/usr/bin/env python3
"""Regenerates /verif/MANIFEST.json from tools/claims.json (one entry per
property: claimed or not, text, technique, level note) – keeps the manifest
valid and in step with what the checker registers."""
import json, os, subprocess, sys

here = os.path.dirname(os.path.abspath(__file__))
root = os.path.dirname(here)
claims = json.load(open(os.path.join(here, "claims.json")))

BASELINE = json.load(open("/root/.vp/BASELINE.json"))["cmd"]

def rules_by_prop():
    out = subprocess.run([os.path.join(root, "bin", "bbcheck"), "-list"], capture_output=True, text=True).stdout
    m = {}
    for line in out.splitlines():
        parts = line.split(None, 4)
        if len(parts) < 5:
            continue
        rid, props, _floor, _must, text = parts
        for pid in props.split(","):
            m.setdefault(pid, []).append((rid, text))
    return m

RULES = rules_by_prop()

def level_text(pid):
    rs = RULES.get(pid, [])
    parts = []
    for rid, text in rs:
        t = text.strip()
        if len(t) > 260:
            t = t[:257].rsplit(" ", 1)[0] + " …"
        parts.append(f"{rid}: {t}")
    return ("Level 'other' (static analysis of the current source, nothing executed): decides, on every control-flow path / call site, "
            "these structural necessary conditions of the property – " + " || ".join(parts) +
            ". It does not decide the behavioural statement itself; see level_note for what is left out.")

checks = []
na = []
for pid in sorted(claims):
    c = claims[pid]
    if not c.get("claimed"):
        na.append({"property_id": pid, "reason": c["reason"]})
        continue
    checks.append({
        "property_id": pid,
        "quick_cmd": f"./run.sh {pid} quick",
        "thorough_cmd": f"./run.sh {pid} thorough",
        "evidence_file": f"/verif/evidence/{pid}.json",
        "replay_cmd_template": "./bin/bbcheck -explain {path}",
        "engine": "bbcheck",
        "level_claimed": {
            "category": "other",
            "text": level_text(pid),
            "design_ref": c.get("design_ref", "DESIGN.md section 4, " + pid),
        },
        "level_note": c["note"],
        "technique": c["technique"],
    })

manifest = {
    "version": 1,
    "setup_cmd": "./setup.sh",
    "hooks": {
        "guard": "verif",
        "enable": "none needed: the checks are static and read /repo's source as it is; no instrumentation exists",
        "baseline_off_cmd": BASELINE,
        "source_commits": [],
        "add_only": True,
    },
    "engines": [{
        "name": "bbcheck",
        "path": "/verif/checker",
        "serves_properties": [c["property_id"] for c in checks],
        "kind_free_text": "repository-specific static analyser (go/packages + go/types + go/ssa + go/cfg): typestate/linearity, lock-state, event-order automata, dominance guards, provenance/taint, who-may-write, table agreement",
    }],
    "checks": checks,
    "not_applicable": na,
    "notes": "Static analysis only (DESIGN.md). Every claim is level 'other': named structural necessary conditions hold on every path / call site of the current tree; what each claim does not decide is listed in DESIGN.md section 4. Repairs of genuine defects found by the rules are 'fix:' commits in /repo, recorded in known_findings.json.",
}
json.dump(manifest, open(os.path.join(root, "MANIFEST.json"), "w"), indent=1)
print("checks:", len(checks), "not_applicable:", len(na))
