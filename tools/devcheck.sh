#!/bin/bash
# usage: tools/devcheck.sh <binary> <patch dir>... : like refactorcheck.sh / firstcontact.sh, but on the scratch
# worktree /tmp/devtree (git -C /repo worktree add --detach /tmp/devtree HEAD) with a development binary, so
# that /repo and bin/bbcheck stay free for a long run.  Prints the rules that report each patch.
bin=$1; shift
for d in "$@"; do
  f=$d/patch.diff; [ -f $f ] || continue
  git -C /tmp/devtree apply $f 2>/dev/null || { echo "$d: does not apply"; continue; }
  out=$($bin -repo /tmp/devtree -property ALL 2>&1)
  git -C /tmp/devtree checkout -- . ; git -C /tmp/devtree clean -fdq pkg
  r=$(echo "$out" | grep '^FAIL' | awk '{print $2 $3}' | sort -u | tr '\n' ' ')
  echo "$(basename $d): ${r:-silent}"
  [ -n "$VERBOSE" ] && echo "$out" | grep -E '^FAIL|^BROKEN' | cut -c1-500 | head -6 | sed 's/^/     /'
done
