#!/usr/bin/env python3
"""Lists every seeded change under /verif/seeded as a positive control for the
thorough self-test (mutants/seeds.json)."""
import json, glob, os
out=[]
for d in sorted(glob.glob('/verif/seeded/*/')):
    d=d.rstrip('/')
    m=json.load(open(d+'/meta.json'))
    out.append({"id":"seed-"+os.path.basename(d),"property":m["property"],"rules":[],"note":m.get("title",""),"patch":"seeded/"+os.path.basename(d)+"/patch.diff"})
json.dump(out,open('/verif/mutants/seeds.json','w'),indent=1)
print(len(out),"seed mutants")
