#!/bin/bash
# usage: tools/firstcontact.sh <seed ids…> : for each seed, which rules of ANY property report it (one run of all rules)
cd /verif
for id in "$@"; do prop=${id%%-*}; git -C /repo apply /verif/seeded/$id/patch.diff 2>/dev/null || { echo "$id: noapply"; continue; }
  r=$(./bin/bbcheck -property ALL 2>&1 | grep '^FAIL' | awk '{print $2 $3}' | sort -u | tr '\n' ' '); git -C /repo checkout -- .
  own=$(echo "$r" | tr ' ' '\n' | grep -c "$prop"); echo "$id: ${r:-MISSED} $([ -n "$r" ] && [ $own -eq 0 ] && echo '(other property only)')"; done
