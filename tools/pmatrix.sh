#!/bin/bash
# usage: tools/pmatrix.sh <binary> <shards> <out.tsv> <patch dir>...
# Runs every rule once per patch (seeded change or behaviour-preserving patch) on scratch worktrees
# of /repo's HEAD (/tmp/mx/<i>, created and removed here), <shards> at a time, with the given checker
# binary (its reference tables are the ones next to it).  One line per patch:
#   <name> TAB <rules that report it, or "silent">
bin=$1; n=$2; out=$3; shift 3
mkdir -p /tmp/mx
for i in $(seq 1 $n); do
  [ -d /tmp/mx/$i ] || git -C /repo worktree add --detach /tmp/mx/$i HEAD >/dev/null 2>&1
done
printf '%s\n' "$@" > /tmp/mx/all.list
rm -f /tmp/mx/part.*; split -n l/$n -d /tmp/mx/all.list /tmp/mx/part.
i=0
for part in /tmp/mx/part.*; do
  i=$((i+1))
  ( wt=/tmp/mx/$i
    while read d; do
      f=$d/patch.diff; [ -f $f ] || continue
      if ! git -C $wt apply $f 2>/dev/null; then echo -e "$(basename $d)\tDOES-NOT-APPLY"; continue; fi
      o=$($bin -repo $wt -property ALL 2>&1)
      git -C $wt checkout -- . ; git -C $wt clean -fdq pkg cmd
      r=$(echo "$o" | grep '^FAIL' | awk '{print $2 $3}' | sort -u | tr '\n' ' ')
      b=$(echo "$o" | grep -c '^BROKEN')
      echo -e "$(basename $d)\t${r:-silent}$([ "$b" -gt 0 ] && echo ' BROKEN')"
    done < $part > /tmp/mx/out.$i ) &
done
wait
cat /tmp/mx/out.* | sort -V > $out
for i in $(seq 1 $n); do git -C /repo worktree remove --force /tmp/mx/$i; done
git -C /repo worktree prune; rm -rf /tmp/mx
wc -l $out
