#!/usr/bin/env python3
"""Writes prompts for refactoring sub-agents: behaviour-preserving patches that
the checks must stay silent on.  usage: refactor_prompts.py <round-dir> <group>=<file with the FILES list> …
Creates <round-dir>/prompts/<group>.txt; the worktree of a group is <round-dir>/<group>."""
import sys, os
T = '''You are given a git worktree of the Go project buildbarn/bb-storage at {d} (a detached checkout; work ONLY inside this directory; never touch /repo or /verif, do not read them; never use `git stash`; do not commit).

Environment for every shell call (it does not persist between calls):
  export PATH=/opt/veriftools/go1.26.8/bin:$PATH GOFLAGS=-mod=mod GOPROXY=off GOSUMDB=off GOTOOLCHAIN=local
The sandbox is offline. `go build ./pkg/... ./cmd/...` works, except for ONE known, pre-existing error in cmd/bb_storage (RegisterByteStreamServer) which you must ignore. `go vet` is not needed.

TASK: produce 10 *behaviour-preserving refactorings* of the files listed below - the kind of tidy-up a maintainer would plausibly make - each as a separate patch against the pristine checkout. A refactoring must not change what the code does for ANY input, schedule or error: same results, same errors, same order of side effects, same locking, same allocation/aliasing behaviour that callers can observe. It must still compile.

Vary the kind of change across the 10 patches. Examples of acceptable kinds:
 - rename local variables, parameters, unexported fields or unexported helper functions;
 - extract a block into an unexported helper function or method (or inline an existing small helper);
 - invert an `if` condition and swap the branches; turn `if/else if` chains into a `switch` or vice versa; replace `if cond {{ return x }}; return y` forms with equivalent early-return forms;
 - change a loop form without changing iteration order or bounds (`for i := range s` <-> `for i := 0; i < len(s); i++`, `for _, x := range s` <-> indexed loop);
 - introduce or remove a temporary variable for a subexpression; hoist a pure expression that is evaluated identically on all paths;
 - swap operands of commutative operators or mirror a comparison (`a < b` -> `b > a`);
 - reorder two adjacent statements that are provably independent (no shared state, no calls with side effects between them);
 - replace a composite literal by field-by-field assignment of the same values (or vice versa), reorder keyed literal fields;
 - move a function within its file or to another file of the same package; change comments.
Do NOT: change any exported API, change error messages or codes, add or remove locking, add fast paths or caches, change which function performs an operation as seen by other packages, change arithmetic, or "fix" anything you believe is a bug.

Each patch should touch the interesting logic of the listed files (not only comments), should be small to medium (roughly 5-60 changed lines), and each of the 10 should concentrate on a different function where possible.

FILES (relative to the worktree root):
{files}

For each refactoring n = 1..10:
 1. start from the pristine tree (`git -C {d} checkout -- . && git -C {d} clean -fdq pkg cmd`),
 2. make the edit, run `go build ./pkg/... ./cmd/...` (only the known error may appear), and `gofmt -l` on the files you touched,
 3. save `git -C {d} diff > {d}/OUT/n/patch.diff` (create the directory) and write {d}/OUT/n/meta.json with keys: title, files_changed (list), kind (one of the kinds above), why_behaviour_preserving (2-4 sentences that argue it, mentioning errors/ordering/aliasing where relevant),
 4. restore the pristine tree again.
Finally verify that each saved patch applies cleanly to the pristine tree with `git apply --check`. Your final answer: a short list "n: title (files)" - nothing else is needed.
'''
rd = sys.argv[1]
os.makedirs(rd + '/prompts', exist_ok=True)
for a in sys.argv[2:]:
    g, f = a.split('=')
    open(f'{rd}/prompts/{g}.txt', 'w').write(T.format(d=f'{rd}/{g}', files=open(f).read()))
    print(f'{rd}/prompts/{g}.txt')
