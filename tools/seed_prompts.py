#!/usr/bin/env python3
"""Writes the prompts handed to seeding sub-agents (one per property): the
property record, nothing from /verif except the titles of earlier seeds (so
that rounds do not repeat each other).  usage: seed_prompts.py <round-dir> [ids…]
Creates <round-dir>/prompts/<id>.txt; the worktree of property X is <round-dir>/X."""
import json, os, glob, sys
T = '''You are helping to evaluate a verification framework by producing realistic *seeded defects* for the Go project buildbarn/bb-storage (a Remote Execution CAS/AC storage daemon). You work ONLY inside your own scratch git worktree: {wt} (a detached checkout of the project; do not touch /repo or /verif, do not read /verif; never use `git stash`; do not commit).

The property under test (JSON record, including pointers to the code that is meant to make it hold):

{prop}

TASK: produce THREE independent source changes (call them seed 1, seed 2 and seed 3; different mechanisms / different code sites / if possible different files and different clauses of the property) to the non-test Go sources of the project, each of which BREAKS the property above while
  (a) the project still compiles:   cd {wt} && go build ./pkg/... ./cmd/...    (note: `cmd/bb_storage` has one pre-existing, unrelated compile error about RegisterByteStreamServer under plain `go build`; that is expected - ignore exactly that one error, everything else must build; `go vet` is not required)
  (b) the project's pinned test suite still passes: cd {wt} && go test -vet=off -count=1 ./pkg/blockdevice/ ./pkg/eviction/ ./pkg/filesystem/ ./pkg/random/ ./pkg/zstd/   (these are the only test packages that compile without Bazel-generated mocks; TestLocalDirectoryIsWritable* fail already in the baseline - ignore those two). Do not edit or delete existing tests.
  (c) the change is *subtle*: it must need something specific to manifest - a particular interleaving, a crash or fault at a particular point, a multi-step sequence of operations, an unusual input, or two cooperating sites that each look fine alone. NOT something ordinary use would expose at once (e.g. do not simply make every Get fail). It should look like a plausible mistake or "optimisation" a developer could make (a dropped check, a reordered pair of operations, a lock released too early, a wrong variable used, an error path that forgets a release, an off-by-one in a guard, a fast path that skips a step, etc.).
  (d) you provide a DEMONSTRATION: a Go test file (or small Go program) that exercises the real code (no gomock mocks are available; write small hand-written fakes of interfaces if needed, or use the in-memory implementations in the repo) and that FAILS with your change applied and PASSES on the unmodified checkout. Race-detector (-race) based demonstrations are acceptable for concurrency defects if they are deterministic enough; prefer deterministic ones (e.g. fakes that block / inject a fault at the right moment).

Environment: offline sandbox, no network. For every shell call: export PATH=/opt/veriftools/go1.26.8/bin:$PATH GOFLAGS=-mod=mod GOPROXY=off GOSUMDB=off GOTOOLCHAIN=local (it does not persist between calls). The first build takes a minute or two. Many `_test.go` files in the repo do not compile (they import `internal/mock`, which only Bazel generates) - so put your demonstration in a NEW directory such as {wt}/seeddemo/<n>/ containing an external test package (package seeddemo_test) or a `main` program that imports the bb-storage packages it needs, and use exported constructors.

DELIVERABLES - for each seed n in {{1,2,3}} create directory {wt}/SEED/n/ containing:
  - patch.diff : output of `git diff` for ONLY the source change (not the demo), relative to the worktree HEAD, applicable with `git apply` from the repository root. Keep it small.
  - demo/ : the demonstration file(s) (copy of what you placed in the tree), plus
  - meta.json : {{"property": "{pid}", "title": "<one line>", "what_breaks": "<which clause of the property and how>", "needs_to_manifest": "<the specific interleaving/crash point/sequence/input>", "files_changed": [...], "demo_cmd": "<exact command, run from the repository root with the demo files in place; a plain shell command with nothing after it>", "demo_result_with_patch": "<fail summary>", "demo_result_without_patch": "<pass summary>"}}
After saving all three seeds, leave the worktree source files REVERTED to HEAD (git checkout -- . ; demo files may stay as untracked files). Verify yourself, before finishing, that for each seed: with patch applied -> build ok, pinned tests ok, demo FAILS; without patch -> demo PASSES.

In your final answer, summarise each seed in 3-4 lines (site, what it breaks, how it manifests). Do not try to guess how a verifier might detect it and do not optimise for or against detection - just make realistic, subtle, property-breaking changes.

Previous rounds already produced the following seeded defects for this property - do NOT repeat them or trivial variations of them; pick other sites, other clauses of the property, other files among the anchors (or code they depend on):
{prev}
'''
rd = sys.argv[1]; ids = set(sys.argv[2:])
prev = {}
for d in sorted(glob.glob('/verif/seeded/*/')):
    m = json.load(open(d + 'meta.json'))
    prev.setdefault(m['property'], []).append("- " + m.get('title', '') + " [" + ", ".join(m.get('files_changed', [])) + "]")
os.makedirs(rd + '/prompts', exist_ok=True)
for l in open('/verif/properties.jsonl'):
    p = json.loads(l); pid = p['id']
    if ids and pid not in ids: continue
    open(f'{rd}/prompts/{pid}.txt', 'w').write(T.format(wt=f'{rd}/{pid}', prop=json.dumps(p, indent=1), pid=pid, prev="\n".join(prev.get(pid, []))))
print("prompts written to", rd + '/prompts')
