#!/bin/bash
# usage: tools/refactorcheck.sh <dir with */patch.diff>...
# Applies each behaviour-preserving patch to /repo, runs every rule once, expects silence, reverts.
cd /verif
if [ -n "$(git -C /repo status --porcelain)" ]; then echo "/repo is not clean"; exit 2; fi
[ $# -eq 0 ] && set -- /verif/refactors
for d in "$@"; do
  for p in $(ls -d $d/*/ $d 2>/dev/null | sort -Vu); do
    f=$p/patch.diff
    [ -f $f ] || continue
    if ! git -C /repo apply $f 2>/dev/null; then echo "$f: does not apply"; continue; fi
    out=$(./bin/bbcheck -property ALL 2>&1); rc=$?
    git -C /repo checkout -- . ; git -C /repo clean -fdq pkg
    if [ $rc -eq 0 ]; then echo "$f: silent"; else echo "$f: ALARM rc=$rc"; echo "$out" | grep -E "^FAIL|^BROKEN" | head -5 | sed 's/^/     /'; fi
  done
done
