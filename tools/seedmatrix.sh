#!/bin/bash
# For every seeded change: which rules (of any property) report it. Writes seeded/MATRIX.tsv
cd /verif
if [ -n "$(git -C /repo status --porcelain)" ]; then echo "/repo is not clean"; exit 2; fi
: > seeded/MATRIX.tsv
for id in $(ls seeded | grep -v MATRIX); do
  d=seeded/$id
  prop=$(jq -r .property $d/meta.json)
  if ! git -C /repo apply /verif/$d/patch.diff 2>/dev/null; then echo -e "$id\t$prop\tPATCH-DOES-NOT-APPLY" >> seeded/MATRIX.tsv; continue; fi
  rules=$(./bin/bbcheck -property ALL 2>&1 | grep '^FAIL' | awk '{print $2 $3}' | sort -u | tr '\n' ' ')
  git -C /repo checkout -- .
  own=$(for r in $rules; do echo $r; done | grep -c "$prop")
  echo -e "$id\t$prop\t${rules:-MISSED}\t$( [ "$own" -gt 0 ] && echo own-property || ( [ -n "$rules" ] && echo other-property-only || echo missed ))" >> seeded/MATRIX.tsv
done
cat seeded/MATRIX.tsv
