#!/usr/bin/env python3
"""Regenerates the generated blocks of /verif/DESIGN.md:
  <!-- GEN:RULES:BEGIN --> … <!-- GEN:RULES:END -->    the armed rule catalogue (from `bbcheck -list`)
  <!-- GEN:MATRIX:BEGIN --> … <!-- GEN:MATRIX:END -->  seeded change -> rules that report it (from seeded/MATRIX.tsv)
Nothing else in DESIGN.md is touched."""
import json, os, re, subprocess

root = os.path.dirname(os.path.dirname(os.path.abspath(__file__)))

def rules():
    out = subprocess.run([os.path.join(root, "bin", "bbcheck"), "-list"], capture_output=True, text=True).stdout
    rs = []
    for line in out.splitlines():
        parts = line.split(None, 4)
        if len(parts) < 5:
            continue
        rid, props, floor, must, text = parts
        rs.append((rid, props.split(","), floor.split("=")[1], must.split("=")[1], text.strip()))
    def key(r):
        m = re.match(r"R(\d+)\.(\d+)", r[0])
        return (int(m.group(1)), int(m.group(2)))
    return sorted(rs, key=key)

def gen_rules():
    rs = rules()
    lines = ["", f"{len(rs)} rules are registered. `floor` is the number of instances confirmed on the reference tree; for a *must-exist* rule fewer instances are a violation (\"mechanism site missing\").", ""]
    props = sorted({p for r in rs for p in r[1]})
    for p in props:
        own = [r for r in rs if r[1][0] == p]
        shared = [r for r in rs if p in r[1][1:]]
        lines.append(f"**{p}**" + (" – also served by " + ", ".join(r[0] for r in shared) if shared else ""))
        lines.append("")
        for rid, ps, floor, must, text in own:
            extra = (" (also " + ", ".join(ps[1:]) + ")") if len(ps) > 1 else ""
            lines.append(f"* `{rid}`{extra} [floor {floor}{', must exist' if must == 'true' else ''}] {text}")
        lines.append("")
    return "\n".join(lines)

def gen_matrix():
    rows = []
    for line in open(os.path.join(root, "seeded", "MATRIX.tsv")):
        f = line.rstrip("\n").split("\t")
        if len(f) < 4:
            continue
        sid, prop, rs, verdict = f[0], f[1], f[2], f[3]
        try:
            title = json.load(open(os.path.join(root, "seeded", sid, "meta.json"))).get("title", "")
        except Exception:
            title = ""
        title = title.replace("|", "/")
        if len(title) > 150:
            title = title[:147] + "…"
        rl = sorted(set(re.sub(r"\[.*?\]", "", x) for x in rs.split()))
        rows.append((sid, prop, title, ", ".join(rl) if rs.strip() != "MISSED" else "— (not decided)", verdict))
    def key(r):
        m = re.match(r"C(\d+)-(r?)(\d+)", r[0])
        return (int(m.group(1)), m.group(2), int(m.group(3)))
    rows.sort(key=key)
    n = len(rows)
    own = sum(1 for r in rows if r[4] == "own-property")
    lines = ["", f"{n} seeded changes; {own} are reported by a rule of the property they were written to break, "
             f"{sum(1 for r in rows if r[4]=='other-property-only')} only by a rule of another property, {sum(1 for r in rows if r[4]=='missed')} by none.", "",
             "| seed | change | reported by |", "|------|--------|-------------|"]
    for sid, prop, title, rl, verdict in rows:
        lines.append(f"| {sid} | {title} | {rl} |")
    lines.append("")
    return "\n".join(lines)

def splice(s, tag, body):
    b, e = f"<!-- GEN:{tag}:BEGIN -->", f"<!-- GEN:{tag}:END -->"
    i, j = s.index(b) + len(b), s.index(e)
    return s[:i] + "\n" + body + "\n" + s[j:]

p = os.path.join(root, "DESIGN.md")
s = open(p).read()
s = splice(s, "RULES", gen_rules())
s = splice(s, "MATRIX", gen_matrix())
open(p, "w").write(s)
print("DESIGN.md tables regenerated")
