#!/bin/bash
# usage: tools/seedcheck.sh [seed-id ...]   (default: all under /verif/seeded)
# Applies each seeded change to /repo, runs the quick check of the property it
# breaks (and, with ALL=1, of every claimed property), then undoes the change.
cd /verif
ids="$@"; [ -z "$ids" ] && ids=$(ls seeded)
if [ -n "$(git -C /repo status --porcelain)" ]; then echo "/repo is not clean"; exit 2; fi
for id in $ids; do
  d=seeded/$id
  prop=$(jq -r .property $d/meta.json)
  if ! git -C /repo apply /verif/$d/patch.diff 2>/dev/null; then echo "$id: patch does not apply"; continue; fi
  props=$prop
  [ -n "${ALL:-}" ] && props=$(jq -r '.checks[].property_id' MANIFEST.json)
  hit=""
  for p in $props; do
    out=$(./run.sh $p quick 2>&1); rc=$?
    if [ $rc -eq 1 ]; then hit="$hit $p($(echo "$out" | grep -c '^VIOLATION'))"; fi
    if [ $rc -ge 2 ]; then hit="$hit $p(rc=$rc)"; fi
    if [ "$p" = "$prop" ]; then echo "$out" | grep -B1 '^VIOLATION' | grep -v '^VIOLATION\|^--' | head -3 | sed 's/^/      /'; fi
  done
  git -C /repo checkout -- .
  if [ -n "$hit" ]; then echo "$id: DETECTED by$hit"; else echo "$id: missed"; fi
done
