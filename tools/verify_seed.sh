#!/bin/bash
# usage: verify_seed.sh <seed dir (patch.diff, demo/, meta.json)> <scratch worktree>
# Confirms: with patch -> builds, pinned tests pass, demo FAILS; without -> demo PASSES.
set -u
SEED="$1"; WT="$2"
export GOFLAGS=-mod=mod
cd "$WT" || exit 2
git checkout -q -- . && git clean -fdq -e SEED -e seeddemo >/dev/null 2>&1
DEMO_CMD=$(jq -r .demo_cmd "$SEED/meta.json")
# place demo files
n=$(basename "$SEED")
mkdir -p seeddemo/$n && cp -r "$SEED"/demo/* seeddemo/$n/ 2>/dev/null
res() { echo "$1"; }
# without patch
if bash -c "$DEMO_CMD" >/tmp/vs_$$.log 2>&1; then WO=pass; else WO=fail; fi
git apply "$SEED/patch.diff" || { echo "RESULT $SEED apply=FAILED"; exit 1; }
B=ok
go build ./pkg/... >/tmp/vs_build_$$.log 2>&1 || B=FAIL
T=ok
go test -vet=off -count=1 ./pkg/blockdevice/ ./pkg/eviction/ ./pkg/filesystem/ ./pkg/random/ ./pkg/zstd/ >/tmp/vs_test_$$.log 2>&1
# only the two baseline failures are allowed
if grep -E "^--- FAIL" /tmp/vs_test_$$.log | grep -v "TestLocalDirectoryIsWritable" | grep -q .; then T=FAIL; fi
if grep -q "build failed" /tmp/vs_test_$$.log; then T=FAIL; fi
if bash -c "$DEMO_CMD" >/tmp/vs_with_$$.log 2>&1; then WITH=pass; else WITH=fail; fi
git checkout -q -- .
echo "RESULT $SEED build=$B tests=$T demo_with_patch=$WITH demo_without_patch=$WO"
rm -f /tmp/vs_$$.log /tmp/vs_build_$$.log /tmp/vs_test_$$.log /tmp/vs_with_$$.log
