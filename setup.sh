#!/bin/bash
# Builds the static checker offline (module cache only) and warms the Go build
# cache (export data of /repo's dependencies) so that the first check is fast.
set -eu
cd "$(dirname "$0")"
export PATH=/opt/veriftools/go1.26.8/bin:$PATH
export GOTOOLCHAIN=local GOFLAGS=-mod=mod GOPROXY=off
unset GOWORK
mkdir -p bin evidence out
(cd checker && go build -o ../bin/bbcheck .)
./bin/bbcheck -list >/dev/null
# warm-up: one load of /repo (compiles export data of dependencies on a cold cache)
./bin/bbcheck -repo "${VERIF_REPO:-/repo}" -property C04 -tier quick -known known_findings.json -out out >/dev/null 2>out/warmup.log || true
echo "setup ok"
