package main

import (
	"go/token"
	"go/types"

	"golang.org/x/tools/go/ssa"
)

const mirroredRel = "pkg/blobstore/mirrored"
const replicationRel = "pkg/blobstore/replication"

func init() {
	register(&Rule{
		ID: "R11.1", Props: []string{"C11"}, Engine: "flow + noerrdrop",
		Text:  "mirroredBlobAccess.Put writes both replicas: the upload is split by one CloneStream, each half is Put into a different backend field (backendA, backendB) inside a function handed to one errgroup, each function returns its backend's (wrapped) error, and Put returns that group's Wait()",
		Floor: 3, MustExist: true, Run: runR111,
	})
	register(&Rule{
		ID: "R11.2", Props: []string{"C11"}, Engine: "guard + flow",
		Text:  "errors are not masked and fail-over is single-shot: the selector closure of getBlobReplicatorSelector returns every non-NOT_FOUND error wrapped (never NOT_FOUND instead, never a replicator), hands out a replicator only on NOT_FOUND and clears the captured replicator before doing so, so that a second NOT_FOUND ends the read with that error; reading from backend A first pairs with the B-to-A replicator and vice versa",
		Floor: 4, MustExist: true, Run: runR112,
	})
	register(&Rule{
		ID: "R11.4", Props: []string{"C11"}, Engine: "guard + flow (path automaton)",
		Text:  "mirroredBlobAccess.FindMissing repairs before answering: every success return is dominated by the nil edge of the Wait of the group that ran both ReplicateMultiple calls; the set returned is the intersection component of GetDifferenceAndIntersection of backend A's and backend B's answers; the A-to-B replicator receives the objects only B misses and the B-to-A replicator those only A misses; a replicator's NOT_FOUND is relabelled INTERNAL; both backends' errors are wrapped with the backend name",
		Floor: 5, MustExist: true, Run: runR114,
	})
}

// fieldNameOfRecvLoad: v (in a closure or function) is a load of ba.<field> where ba is the receiver (possibly captured).
func recvFieldLoadName(g *ssa.Function, v ssa.Value) string {
	f, base := loadedField(v)
	if f == nil {
		return ""
	}
	base = captureOrigin(g, base)
	top := topFunc(g)
	if len(top.Params) > 0 && base == ssa.Value(top.Params[0]) {
		return f.Name()
	}
	// receiver spilled into a cell and reloaded
	if u, ok := base.(*ssa.UnOp); ok && u.Op == token.MUL {
		if al, ok := u.X.(*ssa.Alloc); ok {
			for _, s := range cellStores(al) {
				if s == ssa.Value(top.Params[0]) {
					return f.Name()
				}
			}
		}
		if fv, ok := u.X.(*ssa.FreeVar); ok {
			_ = fv
			return f.Name()
		}
	}
	return ""
}

func goClosures(fn *ssa.Function) map[*ssa.Function]ssa.Value {
	out := map[*ssa.Function]ssa.Value{}
	allInstrs(fn, func(ins ssa.Instruction) {
		cl, ok := ins.(*ssa.Call)
		if !ok || cl.Call.StaticCallee() == nil || cl.Call.StaticCallee().Name() != "Go" || len(cl.Call.Args) != 2 {
			return
		}
		if mc, ok := cl.Call.Args[1].(*ssa.MakeClosure); ok {
			out[mc.Fn.(*ssa.Function)] = cl.Call.Args[0]
		}
	})
	return out
}

func runR111(c *Ctx) {
	fn := c.Method(mirroredRel, "mirroredBlobAccess", "Put")
	if fn == nil {
		c.Broken("mirroredBlobAccess.Put not found")
		return
	}
	name := FuncName(fn)
	bufT := c.LookupType(bufferRel, "Buffer")
	var bparam ssa.Value
	for _, p := range fn.Params {
		if types.Identical(p.Type(), bufT) {
			bparam = p
		}
	}
	var clone *ssa.Call
	allInstrs(fn, func(ins ssa.Instruction) {
		if cl, ok := ins.(*ssa.Call); ok && cl.Call.IsInvoke() && cl.Call.Method.Name() == "CloneStream" && cl.Call.Value == bparam {
			clone = cl
		}
	})
	if clone == nil {
		c.Fail(name, "split", c.Pos(fn.Pos()), "the upload is not split with CloneStream")
		return
	}
	gos := goClosures(fn)
	backends := map[string]int{}
	halves := map[int]bool{}
	var group ssa.Value
	sameGroup := true
	for g, grp := range gos {
		allInstrs(g, func(ins ssa.Instruction) {
			cl, ok := ins.(*ssa.Call)
			if !ok || !cl.Call.IsInvoke() || cl.Call.Method.Name() != "Put" {
				return
			}
			fld := recvFieldLoadName(g, cl.Call.Value)
			if fld == "" {
				return
			}
			o := captureOrigin(g, cl.Call.Args[2])
			ex, ok := o.(*ssa.Extract)
			if !ok || ex.Tuple != ssa.Value(clone) {
				return
			}
			backends[fld]++
			halves[ex.Index] = true
			if group == nil {
				group = grp
			} else if group != grp {
				sameGroup = false
			}
			// the closure returns the error
			ret := false
			for _, r := range returnsOf(g) {
				deepSlice(g, r.Results[0], func(x ssa.Value) bool {
					if x == ssa.Value(cl) {
						ret = true
						return false
					}
					return true
				})
			}
			c.Check(ret, FuncName(g), "returns-error", c.Pos(cl.Pos()), "the backend's error is returned to the group", "the error of "+fld+".Put is dropped: a failed replica write would be reported as success")
			// … on every path on which the write failed
			bad := ""
			explorePaths(&pathSpec{Fn: g, Init: 0,
				Step: func(st int, ev pathEvent) int {
					if isNil, ok := edgeSaysErr(ev, cl); ok {
						if isNil {
							return 0
						}
						return 1
					}
					return st
				},
				AtReturn: func(st int, r *ssa.Return, _ map[int]bool) {
					if st != 1 || bad != "" {
						return
					}
					derived := false
					if !isNilConst(r.Results[0]) {
						deepSlice(g, r.Results[0], func(x ssa.Value) bool {
							if x == ssa.Value(cl) {
								derived = true
								return false
							}
							return true
						})
					}
					if !derived {
						bad = c.Pos(r.Pos())
					}
				}})
			c.Check(bad == "", FuncName(g), "failed-write-reported", c.Pos(cl.Pos()), "every path on which "+fld+".Put failed returns that error to the group", "a path on which "+fld+".Put failed returns something else than that error (return at "+bad+"): the upload can be acknowledged although this replica lacks the object")
		})
	}
	ok := backends["backendA"] == 1 && backends["backendB"] == 1 && halves[0] && halves[1] && sameGroup
	c.Check(ok, name, "both-replicas", c.Pos(clone.Pos()), "each half of one CloneStream goes to a different replica within one group", "the upload does not reach both replicas (each half of the CloneStream must be Put into a different backend within one errgroup)")
	// return group.Wait()
	okWait := false
	for _, r := range returnsOf(fn) {
		if cl, ok := r.Results[0].(*ssa.Call); ok && cl.Call.StaticCallee() != nil && cl.Call.StaticCallee().Name() == "Wait" && cl.Call.Args[0] == group {
			okWait = true
		}
	}
	c.Check(okWait, name, "returns-wait", c.Pos(fn.Pos()), "Put returns the joined result of both writes", "Put does not return the group's Wait(): a replica's failure can be lost")
}

func runR112(c *Ctx) {
	fn := c.Method(mirroredRel, "mirroredBlobAccess", "getBlobReplicatorSelector")
	if fn == nil || len(fn.AnonFuncs) == 0 {
		c.Broken("mirroredBlobAccess.getBlobReplicatorSelector / its selector closure not found")
		return
	}
	sel := fn.AnonFuncs[0]
	name := FuncName(sel)
	isCodeTest := func(cond ssa.Value, code int64) (match bool, eqWhenTrue bool) {
		b, ok := cond.(*ssa.BinOp)
		if !ok || (b.Op != token.EQL && b.Op != token.NEQ) {
			return false, false
		}
		var cl *ssa.Call
		var k ssa.Value
		if x, ok := b.X.(*ssa.Call); ok {
			cl, k = x, b.Y
		} else if y, ok := b.Y.(*ssa.Call); ok {
			cl, k = y, b.X
		}
		if cl == nil || !isPkgFuncCall(cl.Common(), "google.golang.org/grpc/status", "Code") || cl.Call.Args[0] != ssa.Value(sel.Params[0]) {
			return false, false
		}
		kc, ok := constInt(stripConv(k))
		if !ok || kc != code {
			return false, false
		}
		return true, b.Op == token.EQL
	}
	onNotFound := func(b *ssa.BasicBlock) (known bool, isNF bool) {
		edgeFacts(b, func(cond ssa.Value, val bool) bool {
			if m, eq := isCodeTest(cond, 5); m {
				known, isNF = true, eq == val
				return false
			}
			return true
		})
		return
	}
	nRepl := 0
	for _, r := range returnsOf(sel) {
		known, nf := onNotFound(r.Block())
		handsOut := !isNilConst(r.Results[0])
		if handsOut {
			nRepl++
			// only on NOT_FOUND, and the captured replicator was cleared first
			cleared := false
			allInstrs(sel, func(ins ssa.Instruction) {
				st, ok := ins.(*ssa.Store)
				if !ok || !isNilConst(st.Val) {
					return
				}
				if _, ok := st.Addr.(*ssa.FreeVar); ok && instrDominates(st, r) {
					cleared = true
				}
			})
			c.Check(known && nf && cleared, name, "fail-over", c.Pos(r.Pos()), "a replicator is handed out only on NOT_FOUND and only once", "a replicator is handed out on an error other than NOT_FOUND, or the captured replicator is not cleared first (a second failure would loop between the replicas instead of ending the read)")
			continue
		}
		// error return
		if known && !nf {
			// must be the observed error wrapped
			wrapped := false
			if cl, ok := r.Results[1].(*ssa.Call); ok && isPkgFuncCall(cl.Common(), modPath+"/pkg/util", "StatusWrap") && cl.Call.Args[0] == ssa.Value(sel.Params[0]) {
				wrapped = true
			}
			c.Check(wrapped, name, "fatal-error", c.Pos(r.Pos()), "a replica failure other than NOT_FOUND is returned wrapped with the replica's name", "a replica failure other than NOT_FOUND is not passed on wrapped with the replica's name (it may be masked)")
		} else {
			ok := r.Results[1] == ssa.Value(sel.Params[0])
			c.Check(ok, name, "both-not-found", c.Pos(r.Pos()), "when both replicas lack the object the NOT_FOUND is returned as is", "an error is replaced on the NOT_FOUND path")
		}
	}
	if nRepl == 0 {
		c.Fail(name, "fail-over", c.Pos(sel.Pos()), "the second replica is never consulted")
	}
	// pairing of first backend and replicator
	pair := map[string]string{}
	for _, b := range fn.Blocks {
		var be, rp string
		for _, ins := range b.Instrs {
			st, ok := ins.(*ssa.Store)
			if !ok {
				continue
			}
			al, ok := st.Addr.(*ssa.Alloc)
			if !ok {
				continue
			}
			if f, _ := loadedField(st.Val); f != nil {
				switch al.Comment {
				case "firstBackend":
					be = f.Name()
				case "replicator":
					rp = f.Name()
				}
			}
		}
		if be != "" {
			pair[be] = rp
		}
	}
	// phi-based variant: firstBackend may be lifted to a phi; fall back to scanning loads per block
	if len(pair) == 0 {
		for _, b := range fn.Blocks {
			var flds []string
			for _, ins := range b.Instrs {
				if v, ok := ins.(ssa.Value); ok {
					if f, _ := loadedField(v); f != nil {
						flds = append(flds, f.Name())
					}
				}
			}
			has := func(s string) bool {
				for _, f := range flds {
					if f == s {
						return true
					}
				}
				return false
			}
			if has("backendA") {
				if has("replicatorBToA") {
					pair["backendA"] = "replicatorBToA"
				} else if has("replicatorAToB") {
					pair["backendA"] = "replicatorAToB"
				}
			}
			if has("backendB") {
				if has("replicatorAToB") {
					pair["backendB"] = "replicatorAToB"
				} else if has("replicatorBToA") {
					pair["backendB"] = "replicatorBToA"
				}
			}
		}
	}
	c.Check(pair["backendA"] == "replicatorBToA" && pair["backendB"] == "replicatorAToB", FuncName(fn), "direction", c.Pos(fn.Pos()), "reading A first repairs from B to A, and vice versa", "the replica consulted first is paired with the wrong replicator direction (the repair would copy into the replica that already has the object)")
}

// mirrorStage describes where a group of goroutines (the two FindMissing
// calls, or the two ReplicateMultiple calls) lives: directly in FindMissing
// or in a helper method it calls; guard is the call whose nil error means the
// whole stage succeeded (the group's Wait, or the helper call).
type mirrorStage struct {
	guard       *ssa.Call
	home        *ssa.Function
	helperCall  *ssa.Call
	cellBackend map[*ssa.Alloc]string
	replArg     map[string]ssa.Value
	relabel     map[string]bool
	wrapped     map[string]bool
	sites       map[string]*ssa.Call
}

// mSite is one backend / replicator call of a stage: the invoke itself, the
// function it sits in (the goroutine closure, or a same-package helper the
// closure passes the receiver field to), the call inside the closure that
// stands for it, and a resolver from values of that function to values of the
// enclosing method (helper parameters are mapped to the closure's arguments).
type mSite struct {
	fld       string
	invoke    *ssa.Call
	scope     *ssa.Function
	surrogate *ssa.Call
	resolve   func(v ssa.Value) ssa.Value
}

func mirrorSites(g *ssa.Function, method string) []mSite {
	var out []mSite
	allInstrs(g, func(ins ssa.Instruction) {
		cl, ok := ins.(*ssa.Call)
		if !ok {
			return
		}
		if cl.Call.IsInvoke() {
			if cl.Call.Method.Name() == method {
				if fld := recvFieldLoadName(g, cl.Call.Value); fld != "" {
					out = append(out, mSite{fld, cl, g, cl, func(v ssa.Value) ssa.Value { return captureOrigin(g, v) }})
				}
			}
			return
		}
		callee := cl.Call.StaticCallee()
		if callee == nil || callee.Pkg == nil || callee.Pkg != topFunc(g).Pkg || len(callee.Blocks) == 0 {
			return
		}
		for k, a := range cl.Call.Args {
			fld := recvFieldLoadName(g, a)
			if fld == "" || k >= len(callee.Params) {
				continue
			}
			kk := k
			allInstrs(callee, func(i2 ssa.Instruction) {
				c2, ok := i2.(*ssa.Call)
				if !ok || !c2.Call.IsInvoke() || c2.Call.Method.Name() != method || stripConv(c2.Call.Value) != ssa.Value(callee.Params[kk]) {
					return
				}
				out = append(out, mSite{fld, c2, callee, cl, func(v ssa.Value) ssa.Value {
					v = stripConv(v)
					for j, p := range callee.Params {
						if v == ssa.Value(p) && j < len(cl.Call.Args) {
							return captureOrigin(g, cl.Call.Args[j])
						}
					}
					return v
				}})
			})
		}
	})
	return out
}

func scanMirrorStage(c *Ctx, home *ssa.Function, method string) *mirrorStage {
	st := &mirrorStage{home: home, cellBackend: map[*ssa.Alloc]string{}, replArg: map[string]ssa.Value{}, relabel: map[string]bool{}, wrapped: map[string]bool{}, sites: map[string]*ssa.Call{}}
	gos := goClosures(home)
	var group ssa.Value
	for g, grp := range gos {
		for _, site := range mirrorSites(g, method) {
			fld := site.fld
			group = grp
			st.sites[fld] = site.surrogate
			switch method {
			case "FindMissing":
				// the answer (result 0 of the invoke, or of the helper that returns it) is stored into a captured cell
				for _, r := range *site.surrogate.Referrers() {
					ex, ok := r.(*ssa.Extract)
					if !ok || ex.Index != 0 {
						continue
					}
					for _, rr := range *ex.Referrers() {
						if s2, ok := rr.(*ssa.Store); ok {
							if fv, ok := s2.Addr.(*ssa.FreeVar); ok {
								allInstrs(home, func(pi ssa.Instruction) {
									if mc, ok := pi.(*ssa.MakeClosure); ok && mc.Fn == ssa.Value(g) {
										for k, b := range mc.Bindings {
											if g.FreeVars[k] == fv {
												if al, ok := b.(*ssa.Alloc); ok {
													st.cellBackend[al] = fld
												}
											}
										}
									}
								})
							}
						}
					}
				}
				for _, sc := range []*ssa.Function{g, site.scope} {
					for _, r := range returnsOf(sc) {
						ei := errIndex(sc)
						if ei < 0 {
							continue
						}
						if w, ok := r.Results[ei].(*ssa.Call); ok && isPkgFuncCall(w.Common(), modPath+"/pkg/util", "StatusWrap") {
							st.wrapped[fld] = true
						}
					}
				}
			case "ReplicateMultiple":
				st.replArg[fld] = site.resolve(site.invoke.Call.Args[1])
				for _, sc := range []*ssa.Function{g, site.scope} {
					allInstrs(sc, func(i2 ssa.Instruction) {
						if w, ok := i2.(*ssa.Call); ok && isPkgFuncCall(w.Common(), modPath+"/pkg/util", "StatusWrapWithCode") {
							if k, ok := constInt(stripConv(w.Call.Args[1])); ok && k == 13 {
								st.relabel[fld] = true
							}
						}
					})
				}
			}
		}
	}
	if group == nil {
		return nil
	}
	allInstrs(home, func(ins ssa.Instruction) {
		if cl, ok := ins.(*ssa.Call); ok && cl.Call.StaticCallee() != nil && cl.Call.StaticCallee().Name() == "Wait" && cl.Call.Args[0] == group {
			st.guard = cl
		}
	})
	return st
}

// findMirrorStage looks for the stage in fn itself, then in the same-receiver
// helper methods fn calls.
func findMirrorStage(c *Ctx, fn *ssa.Function, method string) *mirrorStage {
	if st := scanMirrorStage(c, fn, method); st != nil && len(st.sites) > 0 {
		return st
	}
	var found *mirrorStage
	allInstrs(fn, func(ins ssa.Instruction) {
		cl, ok := ins.(*ssa.Call)
		if !ok || found != nil {
			return
		}
		callee := cl.Call.StaticCallee()
		if callee == nil || callee.Blocks == nil || callee.Signature.Recv() == nil || len(cl.Call.Args) == 0 || !isReceiverValue(fn, cl.Call.Args[0]) {
			return
		}
		if st := scanMirrorStage(c, callee, method); st != nil && len(st.sites) > 0 {
			// the helper must return its group's Wait error
			okErr := false
			if st.guard != nil {
				for _, r := range returnsOf(callee) {
					ei := errIndex(callee)
					if ei >= 0 && isErrResultOf(r.Results[ei], st.guard) {
						okErr = true
					}
				}
			}
			if okErr {
				st.helperCall = cl
				st.guard = cl
				found = st
			}
		}
	})
	return found
}

func runR114(c *Ctx) {
	fn := c.Method(mirroredRel, "mirroredBlobAccess", "FindMissing")
	if fn == nil {
		c.Broken("mirroredBlobAccess.FindMissing not found")
		return
	}
	name := FuncName(fn)
	var gdi *ssa.Call
	allInstrs(fn, func(ins ssa.Instruction) {
		if cl, ok := ins.(*ssa.Call); ok && isPkgFuncCall(cl.Common(), modPath+"/"+digestRel, "GetDifferenceAndIntersection") {
			gdi = cl
		}
	})
	if gdi == nil {
		c.Fail(name, "difference", c.Pos(fn.Pos()), "the two answers are not compared with GetDifferenceAndIntersection")
		return
	}
	find := findMirrorStage(c, fn, "FindMissing")
	repl := findMirrorStage(c, fn, "ReplicateMultiple")
	if find == nil || repl == nil {
		c.Fail(name, "stages", c.Pos(fn.Pos()), "the parallel FindMissing stage or the parallel replication stage was not found")
		return
	}
	for _, fld := range []string{"backendA", "backendB"} {
		site := find.sites[fld]
		if site == nil {
			c.Fail(name, "backend-error", c.Pos(fn.Pos()), fld+" is not asked")
			continue
		}
		c.Check(find.wrapped[fld], FuncName(site.Parent()), "backend-error", c.Pos(site.Pos()), "the backend's error is returned wrapped with its name", "a backend's FindMissing error is not returned wrapped with the backend's name")
	}
	// which backend's answer is an argument of GetDifferenceAndIntersection
	argBackend := func(v ssa.Value) string {
		if u, ok := v.(*ssa.UnOp); ok && u.Op == token.MUL {
			if al, ok := u.X.(*ssa.Alloc); ok {
				return find.cellBackend[al]
			}
		}
		if ex, ok := v.(*ssa.Extract); ok && find.helperCall != nil && ex.Tuple == ssa.Value(find.helperCall) {
			for _, r := range returnsOf(find.home) {
				if ex.Index < len(r.Results) {
					if u, ok := r.Results[ex.Index].(*ssa.UnOp); ok && u.Op == token.MUL {
						if al, ok := u.X.(*ssa.Alloc); ok {
							if b := find.cellBackend[al]; b != "" {
								return b
							}
						}
					}
				}
			}
		}
		return ""
	}
	a0, a1 := argBackend(gdi.Call.Args[0]), argBackend(gdi.Call.Args[1])
	okArgs := (a0 == "backendA" && a1 == "backendB") || (a0 == "backendB" && a1 == "backendA")
	c.Check(okArgs, name, "difference", c.Pos(gdi.Pos()), "difference/intersection of backend A's and backend B's answers", "GetDifferenceAndIntersection is not applied to the two backends' answers")
	// directions: the objects only the first argument's backend misses are index 0
	idxOf := func(v ssa.Value) int {
		if v == nil {
			return -1
		}
		// when the replication stage lives in a helper, the argument is one of its parameters: map to the call's argument
		if repl.helperCall != nil {
			if p, ok := v.(*ssa.Parameter); ok {
				for i, q := range repl.home.Params {
					if q == p {
						v = repl.helperCall.Call.Args[i]
					}
				}
			}
		}
		if ex, ok := v.(*ssa.Extract); ok && ex.Tuple == ssa.Value(gdi) {
			return ex.Index
		}
		return -1
	}
	onlyA, onlyB := 0, 2 // missing only from A / only from B when (a0,a1) = (A,B)
	if a0 == "backendB" {
		onlyA, onlyB = 2, 0
	}
	okDir := idxOf(repl.replArg["replicatorBToA"]) == onlyA && idxOf(repl.replArg["replicatorAToB"]) == onlyB
	c.Check(okDir, name, "directions", c.Pos(gdi.Pos()), "objects only A misses are copied from B to A and objects only B misses from A to B", "the one-sided differences are handed to the wrong replicators (or not at all): objects held by exactly one replica are not copied to the other")
	c.Check(repl.relabel["replicatorAToB"] && repl.relabel["replicatorBToA"], name, "relabel", c.Pos(gdi.Pos()), "a replicator's NOT_FOUND is reported as INTERNAL", "a replicator's NOT_FOUND is not relabelled INTERNAL: an inconsistent replica would look like a missing object")
	n := 0
	for _, r := range returnsOf(fn) {
		if !isNilConst(r.Results[1]) {
			continue
		}
		n++
		ok := find.guard != nil && repl.guard != nil && dominatedByErrNil(r.Block(), find.guard) && dominatedByErrNil(r.Block(), repl.guard)
		why := "FindMissing can answer successfully without having replicated the one-sided differences (the success return is not dominated by the nil result of the replication stage)"
		if ok {
			ex, isEx := r.Results[0].(*ssa.Extract)
			ok = isEx && ex.Tuple == ssa.Value(gdi) && ex.Index == 1
			why = "the set returned is not the objects missing from both replicas"
		}
		c.Check(ok, name, "success-return", c.Pos(r.Pos()), "answers only after both replications succeeded, with the objects missing from both replicas", why)
	}
	if n == 0 {
		c.Fail(name, "success-return", c.Pos(fn.Pos()), "FindMissing never succeeds")
	}
}
