package main

import (
	"go/ast"
	"go/constant"
	"go/token"
	"go/types"

	"golang.org/x/tools/go/ssa"
)

// Rules added after the third round of seeded changes (second half of the
// properties): each encodes a structural necessary condition that a seeded
// change showed to be undecided by the earlier catalogue.

const configurationRel = "pkg/blobstore/configuration"

func init() {
	register(&Rule{
		ID: "R11.5", Props: []string{"C11", "C20", "C12"}, Engine: "who-may-compare (SSA operands)",
		Text:  "set algebra orders and compares elements by their full identity: in the Set, SetBuilder and setHeap functions of pkg/digest every string comparison (<, ==, strings.Compare, …) with an operand computed from a Digest uses the whole value (Digest.String(), the value field, or GetKey(KeyWithInstance)) – never a projection that forgets the instance name, the size or the function",
		Floor: 3, MustExist: true, Run: runR115,
	})
	register(&Rule{
		ID: "R17.2", Props: []string{"C17", "C11"}, Engine: "flow (field roles from the constructor)",
		Text:  "localBlobReplicator copies from its source to its sink: NewLocalBlobReplicator stores its first parameter in one field (source) and its second in another (sink); every Put in the type's methods goes to the sink field and carries a buffer obtained from Get on the source field (for ReplicateSingle: the second half of the CloneStream of that Get, whose first half is what the caller reads); nothing is ever Put into the source",
		Floor: 3, MustExist: true, Run: runR172,
	})
	register(&Rule{
		ID: "R11.6", Props: []string{"C11", "C17"}, Engine: "flow (constructor wiring)",
		Text:  "replicators are wired in the direction their name says: in the configuration package the A-to-B replicator handed to NewMirroredBlobAccess is created with backend A as source and backend B as sink, the B-to-A replicator the other way round, and the two backends differ; the read-caching replicator copies slow to fast, the read-fallback replicator secondary to primary; NewBlobReplicatorFromConfiguration passes its source/sink parameters on in that order to NewLocalBlobReplicator, to nested calls and to the sink-side arguments of the limiting/queueing decorators",
		Floor: 8, MustExist: true, Run: runR116,
	})
}

// ---------------------------------------------------------------------------
// R11.5

func runR115(c *Ctx) {
	digT := c.LookupType(digestRel, "Digest")
	if digT == nil {
		c.Broken("digest.Digest not found")
		return
	}
	var kwi constant.Value
	if p := c.Pkg(digestRel); p != nil {
		if o, ok := p.Types.Scope().Lookup("KeyWithInstance").(*types.Const); ok {
			kwi = o.Val()
		}
	}
	inScope := func(f *ssa.Function) bool {
		t := topFunc(f)
		if t.Signature.Recv() != nil {
			rt := t.Signature.Recv().Type()
			if p, ok := rt.(*types.Pointer); ok {
				rt = p.Elem()
			}
			if n, ok := rt.(*types.Named); ok {
				switch n.Obj().Name() {
				case "Set", "SetBuilder", "setHeap":
					return true
				}
			}
			return false
		}
		switch t.Name() {
		case "GetDifferenceAndIntersection", "GetUnion":
			return true
		}
		return false
	}
	// classify an operand: (fromDigest, full, description)
	classify := func(v ssa.Value) (bool, bool, string) {
		v = stripConv(v)
		if cl, ok := v.(*ssa.Call); ok {
			o := calleeObjOf(cl.Common())
			if o == nil {
				return false, false, ""
			}
			if n := recvNamed(o); n == nil || n.Obj() != digT.Obj() {
				return false, false, ""
			}
			switch o.Name() {
			case "String":
				return true, true, "String()"
			case "GetKey":
				args := cl.Call.Args
				k := args[len(args)-1]
				if kc, ok := stripConv(k).(*ssa.Const); ok && kwi != nil && kc.Value != nil && constant.Compare(kc.Value, token.EQL, kwi) {
					return true, true, "GetKey(KeyWithInstance)"
				}
				return true, false, "GetKey(<not KeyWithInstance>)"
			}
			return true, false, o.Name() + "()"
		}
		if f := fieldOf(v); f != nil && f.Name() == "value" {
			// the value field of a Digest
			var base types.Type
			switch x := v.(type) {
			case *ssa.Field:
				base = x.X.Type()
			case *ssa.UnOp:
				if fa, ok := x.X.(*ssa.FieldAddr); ok {
					base = fa.X.Type().Underlying().(*types.Pointer).Elem()
				}
			}
			if base != nil && types.Identical(base, digT) {
				return true, true, "value"
			}
		}
		return false, false, ""
	}
	// in scope: the set / builder / heap functions and every function of the
	// package they call or hand on as a value (comparators, helpers)
	scope := map[*ssa.Function]bool{}
	var order []*ssa.Function
	var addScope func(f *ssa.Function)
	addScope = func(f *ssa.Function) {
		if f == nil || scope[f] || len(f.Blocks) == 0 || f.Pkg == nil || f.Pkg.Pkg.Path() != modPath+"/"+digestRel {
			return
		}
		if t := topFunc(f); t.Signature.Recv() != nil {
			rt := t.Signature.Recv().Type()
			if p, ok := rt.(*types.Pointer); ok {
				rt = p.Elem()
			}
			if types.Identical(rt, digT) {
				return // Digest's own methods define the identity; they are not set algebra
			}
		}
		scope[f] = true
		order = append(order, f)
		for _, a := range f.AnonFuncs {
			addScope(a)
		}
		allInstrs(f, func(ins ssa.Instruction) {
			for _, op := range ins.Operands(nil) {
				if g, ok := (*op).(*ssa.Function); ok {
					addScope(g)
				}
			}
		})
	}
	for _, tf := range c.pkgFuncs(digestRel) {
		if inScope(tf) {
			addScope(tf)
		}
	}
	for _, f := range order {
		func() {
			name := FuncName(f)
			allInstrs(f, func(ins ssa.Instruction) {
				var ops []ssa.Value
				switch x := ins.(type) {
				case *ssa.BinOp:
					switch x.Op {
					case token.EQL, token.NEQ, token.LSS, token.LEQ, token.GTR, token.GEQ:
					default:
						return
					}
					if b, ok := x.X.Type().Underlying().(*types.Basic); !ok || b.Info()&types.IsString == 0 {
						return
					}
					ops = []ssa.Value{x.X, x.Y}
				case *ssa.Call:
					if !isPkgFuncCall(x.Common(), "strings", "Compare") && !isPkgFuncCall(x.Common(), "cmp", "Compare") {
						return
					}
					ops = x.Call.Args
				default:
					return
				}
				any, bad := false, ""
				for _, o := range ops {
					from, full, desc := classify(o)
					if from {
						any = true
						if !full {
							bad = desc
						}
					}
				}
				if !any {
					return
				}
				c.Check(bad == "", name, "full-identity", c.Pos(ins.Pos()), "elements are compared by their whole value", "set elements are compared by "+bad+", a projection of the digest: two different digests (for instance the same hash under two instance names) are merged, de-duplicated or ordered as if they were one, so differences, intersections and unions lose elements")
			})
		}()
	}
}

// ---------------------------------------------------------------------------
// R17.2

// ctorFieldOfParam: which field of the struct literal built in ctor is
// initialised from parameter idx.
func ctorFieldOfParam(ctor *ssa.Function, idx int) string {
	if ctor == nil || idx >= len(ctor.Params) {
		return ""
	}
	out := ""
	allInstrs(ctor, func(ins ssa.Instruction) {
		st, ok := ins.(*ssa.Store)
		if !ok {
			return
		}
		fa, ok := st.Addr.(*ssa.FieldAddr)
		if !ok {
			return
		}
		if stripConv(st.Val) == ssa.Value(ctor.Params[idx]) {
			out = fieldOf(fa).Name()
		}
	})
	return out
}

func runR172(c *Ctx) {
	ctor := c.Func(replicationRel, "NewLocalBlobReplicator")
	T := c.LookupType(replicationRel, "localBlobReplicator")
	if ctor == nil || T == nil {
		c.Broken("NewLocalBlobReplicator / localBlobReplicator not found")
		return
	}
	src, snk := ctorFieldOfParam(ctor, 0), ctorFieldOfParam(ctor, 1)
	c.Check(src != "" && snk != "" && src != snk, FuncName(ctor), "roles", c.Pos(ctor.Pos()), "first parameter → "+src+", second parameter → "+snk, "the constructor does not store its first (source) and second (sink) parameter in two distinct fields")
	if src == "" || snk == "" || src == snk {
		return
	}
	for _, tf := range c.pkgFuncs(replicationRel) {
		if tf.Signature.Recv() == nil {
			continue
		}
		rt := tf.Signature.Recv().Type()
		if p, ok := rt.(*types.Pointer); ok {
			rt = p.Elem()
		}
		if !types.Identical(rt, T) {
			continue
		}
		withAnon(tf, func(f *ssa.Function) {
			name := FuncName(f)
			allInstrs(f, func(ins ssa.Instruction) {
				cl, ok := ins.(*ssa.Call)
				if !ok || !cl.Call.IsInvoke() || cl.Call.Method.Name() != "Put" {
					return
				}
				fld := recvFieldLoadName(f, cl.Call.Value)
				if fld == "" {
					return
				}
				if fld != snk {
					c.Fail(name, "put-to-sink", c.Pos(cl.Pos()), "the copy is written into "+fld+", not into the sink ("+snk+"): the replica that lacks the object is never repaired")
					return
				}
				// the buffer comes from source.Get
				fromSource := false
				var walk func(g *ssa.Function, v ssa.Value, depth int)
				walk = func(g *ssa.Function, v ssa.Value, depth int) {
					if depth > 4 || fromSource {
						return
					}
					v = captureOrigin(g, v)
					gg := g
					// captureOrigin may have moved to the parent
					if ins, ok := v.(ssa.Instruction); ok && ins.Parent() != nil {
						gg = ins.Parent()
					}
					deepSlice(gg, v, func(x ssa.Value) bool {
						if xc, ok := x.(*ssa.Call); ok && xc.Call.IsInvoke() {
							if xc.Call.Method.Name() == "Get" && recvFieldLoadName(gg, xc.Call.Value) == src {
								fromSource = true
								return false
							}
						}
						return !fromSource
					})
				}
				walk(f, cl.Call.Args[2], 0)
				c.Check(fromSource, name, "put-to-sink", c.Pos(cl.Pos()), "source.Get → sink.Put", "the buffer written into the sink is not obtained from Get on the source ("+src+")")
			})
		})
	}
}

// ---------------------------------------------------------------------------
// R11.6

// infoRoot strips field projections (x.BlobAccess, x.DigestKeyFormat) and
// conversions, so that `backendA.BlobAccess` and `backendA` have one root.
func infoRoot(v ssa.Value) ssa.Value {
	for i := 0; i < 8; i++ {
		v = stripConv(v)
		switch x := v.(type) {
		case *ssa.Field:
			v = x.X
			continue
		case *ssa.UnOp:
			if x.Op == token.MUL {
				if fa, ok := x.X.(*ssa.FieldAddr); ok {
					v = fa.X
					continue
				}
				if al, ok := x.X.(*ssa.Alloc); ok {
					if ss := cellStores(al); len(ss) == 1 {
						v = ss[0]
						continue
					}
					return al
				}
			}
		case *ssa.Alloc:
			if ss := cellStores(x); len(ss) == 1 {
				v = ss[0]
				continue
			}
		}
		return v
	}
	return v
}

func runR116(c *Ctx) {
	bare := c.Method(configurationRel, "simpleNestedBlobAccessCreator", "newNestedBlobAccessBare")
	nbr := c.Func(configurationRel, "NewBlobReplicatorFromConfiguration")
	if bare == nil || nbr == nil {
		c.Broken("newNestedBlobAccessBare / NewBlobReplicatorFromConfiguration not found")
		return
	}
	name := FuncName(bare)
	// replicator value -> (source root, sink root)
	replOf := func(v ssa.Value) (ssa.Value, ssa.Value, bool) {
		v = stripConv(v)
		ex, ok := v.(*ssa.Extract)
		if !ok {
			return nil, nil, false
		}
		cl, ok := ex.Tuple.(*ssa.Call)
		if !ok || cl.Call.StaticCallee() != nbr {
			return nil, nil, false
		}
		return infoRoot(cl.Call.Args[2]), infoRoot(cl.Call.Args[3]), true
	}
	type want struct {
		pkg, ctor string
		// (replicator arg, source arg, sink arg)
		triples  [][3]int
		distinct [2]int
	}
	wants := []want{
		{"pkg/blobstore/mirrored", "NewMirroredBlobAccess", [][3]int{{2, 0, 1}, {3, 1, 0}}, [2]int{0, 1}},
		{"pkg/blobstore/readcaching", "NewReadCachingBlobAccess", [][3]int{{2, 0, 1}}, [2]int{0, 1}},
		{"pkg/blobstore/readfallback", "NewReadFallbackBlobAccess", [][3]int{{2, 1, 0}}, [2]int{0, 1}},
	}
	for _, w := range wants {
		ctor := c.Func(w.pkg, w.ctor)
		if ctor == nil {
			c.Broken("%s.%s not found", w.pkg, w.ctor)
			continue
		}
		found := false
		allInstrs(bare, func(ins ssa.Instruction) {
			cl, ok := ins.(*ssa.Call)
			if !ok || cl.Call.StaticCallee() != ctor {
				return
			}
			found = true
			a := cl.Call.Args
			c.Check(infoRoot(a[w.distinct[0]]) != infoRoot(a[w.distinct[1]]), name, w.ctor+"-distinct", c.Pos(cl.Pos()), "two different backends", "both backend arguments of "+w.ctor+" are the same backend")
			for _, t := range w.triples {
				s, k, ok := replOf(a[t[0]])
				if !ok {
					c.Fail(name, w.ctor+"-replicator", c.Pos(cl.Pos()), "a replicator argument is not the result of NewBlobReplicatorFromConfiguration")
					continue
				}
				good := s == infoRoot(a[t[1]]) && k == infoRoot(a[t[2]])
				c.Check(good, name, w.ctor+"-replicator", c.Pos(cl.Pos()), "replicator direction matches the role of its argument position", "a replicator handed to "+w.ctor+" copies in the wrong direction (its source/sink are not the backends its argument position stands for): read repair and FindMissing synchronisation write the object back into the replica that already has it")
			}
		})
		if !found {
			c.Fail(name, w.ctor+"-replicator", c.Pos(bare.Pos()), "no call to "+w.ctor+" found in the configuration package")
		}
	}
	// inside NewBlobReplicatorFromConfiguration: source = Params[2], sink = Params[3]
	rname := FuncName(nbr)
	srcP, snkP := ssa.Value(nbr.Params[2]), ssa.Value(nbr.Params[3])
	isSrc := func(v ssa.Value) bool { return infoRoot(v) == srcP }
	isSnk := func(v ssa.Value) bool { return infoRoot(v) == snkP }
	baT := c.LookupType("pkg/blobstore", "BlobAccess")
	allInstrs(nbr, func(ins ssa.Instruction) {
		cl, ok := ins.(*ssa.Call)
		if !ok {
			return
		}
		callee := cl.Call.StaticCallee()
		var calleeName string
		var args []ssa.Value
		if callee != nil {
			calleeName, args = callee.Name(), cl.Call.Args
		} else if cl.Call.IsInvoke() {
			calleeName, args = cl.Call.Method.Name(), cl.Call.Args
		} else {
			return
		}
		switch calleeName {
		case "NewLocalBlobReplicator":
			c.Check(isSrc(args[0]) && isSnk(args[1]), rname, "local-direction", c.Pos(cl.Pos()), "NewLocalBlobReplicator(source, sink)", "NewLocalBlobReplicator is not given (source, sink) in that order")
		case "NewBlobReplicatorFromConfiguration", "NewCustomBlobReplicator":
			// recursion / custom: the pair is passed on unchanged
			var s, k ssa.Value
			for _, a := range args {
				if isSrc(a) {
					s = a
				}
				if isSnk(a) {
					k = a
				}
			}
			okOrder := false
			if s != nil && k != nil {
				si, ki := -1, -1
				for i, a := range args {
					if a == s {
						si = i
					}
					if a == k {
						ki = i
					}
				}
				okOrder = si >= 0 && ki == si+1
			}
			c.Check(okOrder, rname, "nested-direction", c.Pos(cl.Pos()), calleeName+"(…, source, sink, …)", calleeName+" is not given this function's source and sink in that order")
		default:
			// decorators: any BlobAccess-typed argument that is one of
			// the two is checked against the parameter name's role
			if callee == nil || callee.Pkg == nil || callee.Pkg.Pkg.Path() != modPath+"/"+replicationRel {
				return
			}
			for i, a := range args {
				if baT == nil || !types.Identical(a.Type(), baT) || i >= len(callee.Params) {
					continue
				}
				pn := callee.Params[i].Name()
				switch {
				case pn == "sink":
					c.Check(isSnk(a), rname, "decorator-role", c.Pos(cl.Pos()), calleeName+"."+pn+" ← sink", calleeName+" is given something other than this function's sink as its sink")
				case pn == "source":
					c.Check(isSrc(a), rname, "decorator-role", c.Pos(cl.Pos()), calleeName+"."+pn+" ← source", calleeName+" is given something other than this function's source as its source")
				}
			}
		}
	})
}

// ---------------------------------------------------------------------------
// R12.7, R12.8

func init() {
	register(&Rule{
		ID: "R12.7", Props: []string{"C12"}, Engine: "flow (iteration identity)",
		Text: "the shard list and the backend list are built in lock-step: in the configuration package the (Key, Weight) element appended to the slice given to NewRendezvousShardSelector and the (Backend, Key) element appended to the slice given to NewShardingBlobAccess are appended once each, in the same iteration of the same range over the configured shard map (Go randomises map iteration order, so two separate ranges would pair indices with different keys); key, weight and backend all come from that iteration's entry",
		Floor: 3, MustExist: true, Run: runR127,
	})
	register(&Rule{
		ID: "R12.8", Props: []string{"C12"}, Engine: "no-error-escape (SSA referrers)",
		Text: "errors carry the shard key: in every method of shardingBlobAccess the error of a call through backends[i].Backend is only tested for nil or wrapped by util.StatusWrap* with backends[i].Key of the same index – it is never returned, stored or passed on unwrapped – and a Buffer obtained from backends[i].Backend is only ever handed to buffer.WithErrorHandler with a shardKeyAddingErrorHandler built from backends[i].Key",
		Floor: 5, MustExist: true, Run: runR128,
	})
}

// rootAlloc follows FieldAddr/IndexAddr chains down to the Alloc they address.
func rootAlloc(v ssa.Value) *ssa.Alloc {
	for i := 0; i < 8; i++ {
		switch x := v.(type) {
		case *ssa.Alloc:
			return x
		case *ssa.FieldAddr:
			v = x.X
		case *ssa.IndexAddr:
			v = x.X
		case *ssa.Slice:
			v = x.X
		default:
			return nil
		}
	}
	return nil
}

// literalStores: field name -> value stored, for a composite literal built in
// the cell (or varargs array) that v points into.
func literalStores(fn *ssa.Function, v ssa.Value) map[string]ssa.Value {
	al := rootAlloc(v)
	if al == nil {
		return nil
	}
	out := map[string]ssa.Value{}
	allInstrs(fn, func(ins ssa.Instruction) {
		st, ok := ins.(*ssa.Store)
		if !ok || rootAlloc(st.Addr) != al {
			return
		}
		if fa, ok := st.Addr.(*ssa.FieldAddr); ok {
			out[fieldOf(fa).Name()] = st.Val
		} else {
			// a whole struct stored into the array element: look through
			if u, ok := st.Val.(*ssa.UnOp); ok && u.Op == token.MUL {
				for k, x := range literalStores(fn, u.X) {
					out[k] = x
				}
			}
		}
	})
	return out
}

func nextsOf(fn *ssa.Function, v ssa.Value) map[*ssa.Next]bool {
	out := map[*ssa.Next]bool{}
	deepSlice(fn, v, func(x ssa.Value) bool {
		if n, ok := x.(*ssa.Next); ok {
			out[n] = true
			return false
		}
		return true
	})
	return out
}

func runR127(c *Ctx) {
	bare := c.Method(configurationRel, "simpleNestedBlobAccessCreator", "newNestedBlobAccessBare")
	shardT := c.LookupType(shardingRel, "Shard")
	backT := c.LookupType(shardingRel, "ShardBackend")
	if bare == nil || shardT == nil || backT == nil {
		c.Broken("newNestedBlobAccessBare / sharding.Shard / sharding.ShardBackend not found")
		return
	}
	name := FuncName(bare)
	type app struct {
		call   *ssa.Call
		fields map[string]ssa.Value
	}
	var shards, backs []app
	allInstrs(bare, func(ins ssa.Instruction) {
		cl, ok := ins.(*ssa.Call)
		if !ok {
			return
		}
		bi, ok := cl.Call.Value.(*ssa.Builtin)
		if !ok || bi.Name() != "append" {
			return
		}
		sl, ok := cl.Type().Underlying().(*types.Slice)
		if !ok {
			return
		}
		a := app{cl, literalStores(bare, cl.Call.Args[1])}
		switch {
		case types.Identical(sl.Elem(), shardT):
			shards = append(shards, a)
		case types.Identical(sl.Elem(), backT):
			backs = append(backs, a)
		}
	})
	if len(shards) != 1 || len(backs) != 1 {
		c.Fail(name, "lock-step", c.Pos(bare.Pos()), "expected exactly one append to the []Shard and one to the []ShardBackend handed to the sharding constructors")
		return
	}
	s, b := shards[0], backs[0]
	one := func(m map[*ssa.Next]bool) *ssa.Next {
		if len(m) != 1 {
			return nil
		}
		for n := range m {
			return n
		}
		return nil
	}
	sk, sw := one(nextsOf(bare, s.fields["Key"])), one(nextsOf(bare, s.fields["Weight"]))
	bk, bb := one(nextsOf(bare, b.fields["Key"])), one(nextsOf(bare, b.fields["Backend"]))
	c.Check(sk != nil && sk == sw, name, "shard-entry", c.Pos(s.call.Pos()), "a shard's key and weight come from one map entry", "the Key and Weight of an appended Shard do not come from one and the same iteration of the range over the configured shards")
	c.Check(bk != nil && bk == bb, name, "backend-entry", c.Pos(b.call.Pos()), "a backend and its key come from one map entry", "the Backend and Key of an appended ShardBackend do not come from one and the same iteration of the range over the configured shards")
	c.Check(sk != nil && sk == bk, name, "lock-step", c.Pos(s.call.Pos()), "shards[i] and backends[i] are appended in the same iteration", "the []Shard and the []ShardBackend are filled in different iterations (two separate ranges over a map visit the entries in different random orders): the index the selector returns for key K addresses the backend of another key, differently on every start")
	// and the two appends are unconditional relative to each other: both in the same loop, neither skipped on a non-error path
	if sk != nil && sk == bk {
		hdr := sk.Block()
		c.Check(hdr.Dominates(s.call.Block()) && hdr.Dominates(b.call.Block()), name, "lock-step-dominance", c.Pos(b.call.Pos()), "both appends are inside that loop", "an append is outside the loop")
	}
}

func runR128(c *Ctx) {
	T := c.LookupType(shardingRel, "shardingBlobAccess")
	bufT := c.LookupType(bufferRel, "Buffer")
	if T == nil || bufT == nil {
		c.Broken("shardingBlobAccess / buffer.Buffer not found")
		return
	}
	// backendIndex: v is (a load of) backends[idx].<field>; returns idx
	backendElem := func(g *ssa.Function, v ssa.Value, field string) (ssa.Value, bool) {
		f, base := loadedField(v)
		if f == nil || f.Name() != field {
			return nil, false
		}
		ia, ok := base.(*ssa.IndexAddr)
		if !ok {
			return nil, false
		}
		if recvFieldLoadName(g, ia.X) != "backends" {
			return nil, false
		}
		return ia.Index, true
	}
	sameIdx := func(g *ssa.Function, a, b ssa.Value) bool {
		return sameSource(a, b) || sameSource(captureOrigin(g, a), captureOrigin(g, b))
	}
	keyOfIdx := func(g *ssa.Function, v ssa.Value, idx ssa.Value) bool {
		found := false
		deepSlice(g, v, func(x ssa.Value) bool {
			if i2, ok := backendElem(g, x, "Key"); ok && sameIdx(g, idx, i2) {
				found = true
				return false
			}
			return !found
		})
		return found
	}
	for _, tf := range c.pkgFuncs(shardingRel) {
		if tf.Signature.Recv() == nil {
			continue
		}
		rt := tf.Signature.Recv().Type()
		if p, ok := rt.(*types.Pointer); ok {
			rt = p.Elem()
		}
		if !types.Identical(rt, T) {
			continue
		}
		withAnon(tf, func(g *ssa.Function) {
			name := FuncName(g)
			allInstrs(g, func(ins ssa.Instruction) {
				cl, ok := ins.(*ssa.Call)
				if !ok || !cl.Call.IsInvoke() {
					return
				}
				idx, ok := backendElem(g, cl.Call.Value, "Backend")
				if !ok {
					return
				}
				res := cl.Call.Signature().Results()
				site := cl.Call.Method.Name()
				if res.Len() == 1 && types.Identical(res.At(0).Type(), bufT) {
					bad := ""
					for _, r := range *cl.Referrers() {
						wc, ok := r.(*ssa.Call)
						if !ok || !isPkgFuncCall(wc.Common(), modPath+"/"+bufferRel, "WithErrorHandler") || wc.Call.Args[0] != ssa.Value(cl) {
							bad = "the buffer read from a shard is used without buffer.WithErrorHandler"
							continue
						}
						mi, ok := wc.Call.Args[1].(*ssa.MakeInterface)
						if !ok {
							bad = "the error handler is not a shardKeyAddingErrorHandler literal"
							continue
						}
						if n, ok := mi.X.Type().(*types.Named); !ok || n.Obj().Name() != "shardKeyAddingErrorHandler" {
							bad = "the error handler is not a shardKeyAddingErrorHandler"
							continue
						}
						if !keyOfIdx(g, mi.X, idx) {
							bad = "the error handler is not built from the key of the shard that is read"
						}
					}
					c.Check(bad == "", name, site+"-key", c.Pos(cl.Pos()), "read errors carry this shard's key", bad+": a failure of this shard is reported without (or with another shard's) key")
					return
				}
				if res.Len() == 0 || !isErrorType(res.At(res.Len()-1).Type()) {
					return
				}
				// the error value(s)
				var errVals []ssa.Value
				if res.Len() == 1 {
					errVals = []ssa.Value{cl}
				} else {
					for _, r := range *cl.Referrers() {
						if ex, ok := r.(*ssa.Extract); ok && ex.Index == res.Len()-1 {
							errVals = append(errVals, ex)
						}
					}
				}
				bad := ""
				seen := map[ssa.Value]bool{}
				var visit func(v ssa.Value)
				visit = func(v ssa.Value) {
					if seen[v] {
						return
					}
					seen[v] = true
					refs := v.Referrers()
					if refs == nil {
						return
					}
					for _, r := range *refs {
						switch u := r.(type) {
						case *ssa.BinOp:
							if _, _, isNil := nilTest(u); !isNil {
								bad = "compared with something other than nil"
							}
						case *ssa.Phi:
							visit(u)
						case *ssa.Call:
							o := calleeObjOf(u.Common())
							if o == nil || o.Pkg() == nil || o.Pkg().Path() != modPath+"/pkg/util" || (o.Name() != "StatusWrapf" && o.Name() != "StatusWrap" && o.Name() != "StatusWrapfWithCode" && o.Name() != "StatusWrapWithCode") {
								bad = "passed on unwrapped"
								continue
							}
							hasKey := false
							for _, a := range u.Call.Args[1:] {
								if keyOfIdx(g, a, idx) {
									hasKey = true
								}
							}
							if !hasKey {
								bad = "wrapped without the key of the shard that failed"
							}
						case *ssa.DebugRef:
						default:
							bad = "returned or stored unwrapped"
						}
					}
				}
				for _, e := range errVals {
					visit(e)
				}
				c.Check(bad == "", name, site+"-key", c.Pos(cl.Pos()), "the shard's error is only tested for nil or wrapped with its key", "the error of "+site+" on a shard is "+bad+": the failure reaches the caller without the shard key")
			})
		})
	}
}


// ---------------------------------------------------------------------------
// R16.5, R16.6

func init() {
	register(&Rule{
		ID: "R16.5", Props: []string{"C16"}, Engine: "typestate (path automaton over the reader field)",
		Text: "a failed stream is closed exactly once: in errorHandlingReader.Read and errorHandlingChunkReader.Read, once the current underlying reader (the field the read goes through) has been closed, every path installs a replacement in that field before the method returns, loops or touches the field again – otherwise the reader's own Close would close the same stream a second time and its handler would see Done twice",
		Floor: 2, MustExist: true, Run: runR165,
	})
	register(&Rule{
		ID: "R16.6", Props: []string{"C16", "C09"}, Engine: "algebraic shape (SSA operands)",
		Text: "a stream opened at an offset ends at the end of the object: for every io.NewSectionReader(r, off, n) in package buffer, off + n equals the buffer's size field – off is the constant 0 and n the size, or n is the size minus that very off",
		Floor: 1, MustExist: true, Run: runR166,
	})
}

func runR165(c *Ctx) {
	for _, typ := range []string{"errorHandlingReader", "errorHandlingChunkReader"} {
		fn := c.Method(bufferRel, typ, "Read")
		if fn == nil {
			c.Broken("%s.Read not found", typ)
			continue
		}
		name := FuncName(fn)
		ops := underlyingReadCalls(fn)
		if len(ops) != 1 {
			c.Fail(name, "close-once", c.Pos(fn.Pos()), "expected exactly one underlying read")
			continue
		}
		rf, _ := loadedField(ops[0].Call.Value)
		isR := func(v ssa.Value) bool {
			f, base := loadedField(v)
			if f != rf {
				return false
			}
			if ins, ok := v.(ssa.Instruction); ok && ins.Parent() != nil {
				return isReceiverValue(ins.Parent(), base)
			}
			return isReceiverValue(fn, base)
		}
		bad := ""
		var badPos token.Pos
		nClose := 0
		// 0: current reader open; 1: closed, no replacement installed yet
		explorePaths(&pathSpec{Fn: fn, Init: 0, Inline: inlineOwnMethods,
			Step: func(st int, ev pathEvent) int {
				if ev.Ins == nil {
					return st
				}
				if s, ok := ev.Ins.(*ssa.Store); ok {
					if f := fieldOf(s.Addr); f == rf {
						return 0
					}
					return st
				}
				cl, ok := ev.Ins.(*ssa.Call)
				if !ok || !cl.Call.IsInvoke() || !isR(cl.Call.Value) {
					return st
				}
				if st == 1 && bad == "" {
					bad, badPos = "the underlying reader is used ("+cl.Call.Method.Name()+") after it was closed and before a replacement was installed", cl.Pos()
				}
				if cl.Call.Method.Name() == "Close" {
					nClose++
					return 1
				}
				return st
			},
			AtReturn: func(st int, r *ssa.Return, _ map[int]bool) {
				if st == 1 && bad == "" {
					bad, badPos = "Read returns with the closed reader still installed: the consumer's Close() closes that stream a second time (and a nested handler is told Done twice)", r.Pos()
				}
			}})
		if nClose == 0 {
			c.Fail(name, "close-once", c.Pos(fn.Pos()), "the failed reader is never closed when it is replaced")
			continue
		}
		if bad != "" {
			c.Fail(name, "close-once", c.Pos(badPos), bad)
		} else {
			c.Pass(name, "close-once", c.Pos(ops[0].Pos()), "a closed reader is always replaced before it can be touched again")
		}
	}
}

func runR166(c *Ctx) {
	for _, tf := range c.pkgFuncs(bufferRel) {
		withAnon(tf, func(f *ssa.Function) {
			allInstrs(f, func(ins ssa.Instruction) {
				cl, ok := ins.(*ssa.Call)
				if !ok || !isPkgFuncCall(cl.Common(), "io", "NewSectionReader") {
					return
				}
				off, n := stripConv(cl.Call.Args[1]), stripConv(cl.Call.Args[2])
				isSize := func(v ssa.Value) bool {
					fld, base := loadedField(stripConv(v))
					return fld != nil && isReceiverValue(f, base) && (fld.Name() == "sizeBytes" || fld.Name() == "size")
				}
				good := false
				if k, isC := constInt(off); isC && k == 0 {
					good = isSize(n)
				} else if bo, isB := n.(*ssa.BinOp); isB && bo.Op == token.SUB {
					good = isSize(bo.X) && sameSource(stripConv(bo.Y), off)
				}
				c.Check(good, FuncName(f), "section-end", c.Pos(cl.Pos()), "offset + length = object size", "the section handed out starts at an offset but its length is not (size − offset): the stream continues past the end of the object (into whatever follows it in the backing store) or stops early")
			})
		})
	}
}

// ---------------------------------------------------------------------------
// R18.6, R18.7

func init() {
	register(&Rule{
		ID: "R18.6", Props: []string{"C18"}, Engine: "local alias analysis (SSA)",
		Text: "Authorize never writes into its caller's list of instance names: in every implementation of auth.Authorizer.Authorize, no value that may share the backing array of the instanceNames parameter (the parameter, sub-slices of it, phis and appends over those) is appended to (unless its capacity was clipped), stored through, or used as the destination of copy – the authorizing BlobAccess and the gRPC layer go on to use that list after the call",
		Floor: 4, MustExist: true, Run: runR186,
	})
	register(&Rule{
		ID: "R18.7", Props: []string{"C18"}, Engine: "origin analysis (SSA)",
		Text: "the verdict list returned by Authorize belongs to the caller: every value returned by an implementation of Authorize is allocated during the call (make, a literal, appends onto those or onto nil) or is the list returned by another Authorizer – never a package-level variable, a field of the authorizer or the instanceNames argument; anyAuthorizer overwrites elements of the list it got from its first member, so a shared list would leak one request's verdicts into another's",
		Floor: 4, MustExist: true, Run: runR187,
	})
}

// authorizeImpls: all source methods named Authorize with the signature of
// auth.Authorizer.Authorize.
func authorizeImpls(c *Ctx) []*ssa.Function {
	im := c.IfaceMethod("pkg/auth", "Authorizer", "Authorize")
	if im == nil {
		return nil
	}
	want := im.Type().(*types.Signature)
	var out []*ssa.Function
	for _, f := range c.Funcs {
		if f.Parent() != nil || f.Name() != "Authorize" || f.Signature.Recv() == nil || len(f.Blocks) == 0 {
			continue
		}
		if f.Signature.Params().Len() != want.Params().Len() || f.Signature.Results().Len() != want.Results().Len() {
			continue
		}
		same := true
		for i := 0; i < want.Params().Len(); i++ {
			if !types.Identical(f.Signature.Params().At(i).Type(), want.Params().At(i).Type()) {
				same = false
			}
		}
		for i := 0; i < want.Results().Len(); i++ {
			if !types.Identical(f.Signature.Results().At(i).Type(), want.Results().At(i).Type()) {
				same = false
			}
		}
		if same {
			out = append(out, f)
		}
	}
	sortFuncs(out)
	return out
}

func sortFuncs(fs []*ssa.Function) {
	for i := 1; i < len(fs); i++ {
		for j := i; j > 0 && FuncName(fs[j]) < FuncName(fs[j-1]); j-- {
			fs[j], fs[j-1] = fs[j-1], fs[j]
		}
	}
}

func isAppend(v ssa.Value) (*ssa.Call, bool) {
	cl, ok := v.(*ssa.Call)
	if !ok {
		return nil, false
	}
	bi, ok := cl.Call.Value.(*ssa.Builtin)
	return cl, ok && bi.Name() == "append"
}

func runR186(c *Ctx) {
	impls := authorizeImpls(c)
	if len(impls) == 0 {
		c.Broken("no implementation of auth.Authorizer.Authorize found")
		return
	}
	for _, fn := range impls {
		name := FuncName(fn)
		param := ssa.Value(fn.Params[len(fn.Params)-1])
		// may-alias set (fixpoint); clipped: values whose capacity equals their length by construction
		alias := map[ssa.Value]bool{param: true}
		clipped := map[ssa.Value]bool{}
		for changed := true; changed; {
			changed = false
			allInstrs(fn, func(ins ssa.Instruction) {
				v, ok := ins.(ssa.Value)
				if !ok || alias[v] {
					return
				}
				add := false
				switch x := ins.(type) {
				case *ssa.Slice:
					if alias[x.X] {
						add = true
						if x.Max != nil && x.High != nil && sameSource(x.Max, x.High) {
							clipped[v] = true
						}
					}
				case *ssa.Phi:
					for _, e := range x.Edges {
						if alias[e] {
							add = true
						}
					}
				case *ssa.ChangeType:
					add = alias[x.X]
				case *ssa.Call:
					if cl, isApp := isAppend(x); isApp && alias[cl.Call.Args[0]] && !clipped[cl.Call.Args[0]] {
						add = true
					}
				}
				if add {
					alias[v] = true
					changed = true
				}
			})
		}
		bad := ""
		var badPos token.Pos
		allInstrs(fn, func(ins ssa.Instruction) {
			switch x := ins.(type) {
			case *ssa.Call:
				if cl, isApp := isAppend(x); isApp && alias[cl.Call.Args[0]] && !clipped[cl.Call.Args[0]] && bad == "" {
					bad, badPos = "appends to a slice that shares the backing array of the instanceNames argument", x.Pos()
				}
				if bi, ok := x.Call.Value.(*ssa.Builtin); ok && bi.Name() == "copy" && alias[x.Call.Args[0]] && bad == "" {
					bad, badPos = "copies into the instanceNames argument", x.Pos()
				}
			case *ssa.Store:
				if ia, ok := x.Addr.(*ssa.IndexAddr); ok && alias[ia.X] && bad == "" {
					bad, badPos = "stores into an element of the instanceNames argument", x.Pos()
				}
			}
		})
		if bad != "" {
			c.Fail(name, "input-untouched", c.Pos(badPos), "Authorize "+bad+": the caller's list is rewritten while the caller still uses it (the names it goes on to act on are no longer the names that were authorized)")
		} else {
			c.Pass(name, "input-untouched", c.Pos(fn.Pos()), "the instanceNames argument is only read")
		}
	}
}

func runR187(c *Ctx) {
	impls := authorizeImpls(c)
	if len(impls) == 0 {
		c.Broken("no implementation of auth.Authorizer.Authorize found")
		return
	}
	im := c.IfaceMethod("pkg/auth", "Authorizer", "Authorize")
	for _, fn := range impls {
		name := FuncName(fn)
		bad := ""
		seen := map[ssa.Value]bool{}
		var origin func(v ssa.Value)
		origin = func(v ssa.Value) {
			if seen[v] || bad != "" {
				return
			}
			seen[v] = true
			v = stripConv(v)
			switch x := v.(type) {
			case *ssa.Const:
				// nil
			case *ssa.MakeSlice:
			case *ssa.Phi:
				for _, e := range x.Edges {
					origin(e)
				}
			case *ssa.Slice:
				if al, ok := x.X.(*ssa.Alloc); ok {
					_ = al // literal backing array allocated here
					return
				}
				origin(x.X)
			case *ssa.Call:
				if _, isApp := isAppend(x); isApp {
					origin(x.Call.Args[0])
					return
				}
				if x.Call.IsInvoke() && x.Call.Method == im {
					return
				}
				if sc := x.Call.StaticCallee(); sc != nil && sc.Name() == "Authorize" {
					return
				}
				bad = "the result of " + x.Call.String()
			case *ssa.Parameter:
				bad = "a parameter (" + x.Name() + ")"
			case *ssa.UnOp:
				if x.Op == token.MUL {
					switch a := x.X.(type) {
					case *ssa.Global:
						bad = "the package-level variable " + a.Name()
						return
					case *ssa.FieldAddr:
						bad = "the field " + fieldOf(a).Name()
						return
					case *ssa.Alloc:
						for _, s := range cellStores(a) {
							origin(s)
						}
						return
					}
				}
				bad = "a value the checker cannot classify (" + v.String() + ")"
			default:
				bad = "a value the checker cannot classify (" + v.String() + ")"
			}
		}
		var badPos token.Pos
		for _, r := range returnsOf(fn) {
			origin(r.Results[0])
			if bad != "" && badPos == token.NoPos {
				badPos = r.Pos()
			}
		}
		if bad != "" {
			c.Fail(name, "fresh-verdicts", c.Pos(badPos), "Authorize returns "+bad+" instead of a list allocated for this call: callers (anyAuthorizer) overwrite elements of the list they receive, so verdicts of one request leak into concurrent and later requests")
		} else {
			c.Pass(name, "fresh-verdicts", c.Pos(fn.Pos()), "every returned list is allocated during the call or comes from another Authorizer")
		}
	}
}

// ---------------------------------------------------------------------------
// R19.6

func init() {
	register(&Rule{
		ID: "R19.6", Props: []string{"C19"}, Engine: "loop-invariant edge facts (SSA)",
		Text: "removing a name never cuts off another registered name: in InstanceNameTrie.Remove the edge that is finally deleted is the last one captured, and on every step where the walk keeps the previously captured edge instead of capturing the current node's, the current node is known (by the branch conditions on that very edge) to hold no value (value < 0) and to have at most one child – otherwise deleting the captured edge would drop that node's value or its other children",
		Floor: 1, MustExist: true, Run: runR196,
	})
}

func runR196(c *Ctx) {
	fn := c.Method(digestRel, "InstanceNameTrie", "Remove")
	if fn == nil {
		c.Broken("InstanceNameTrie.Remove not found")
		return
	}
	name := FuncName(fn)
	var del *ssa.Call
	allInstrs(fn, func(ins ssa.Instruction) {
		if cl, ok := ins.(*ssa.Call); ok {
			if bi, ok := cl.Call.Value.(*ssa.Builtin); ok && bi.Name() == "delete" {
				del = cl
			}
		}
	})
	if del == nil {
		c.Broken("InstanceNameTrie.Remove: no delete of a captured edge found (the rule is written for the iterative capture-and-cut form)")
		return
	}
	isHeader := func(b *ssa.BasicBlock) bool {
		for _, p := range b.Preds {
			if b.Dominates(p) {
				return true
			}
		}
		return false
	}
	// capture: a load of <node>.children ; returns the node
	captureOf := func(v ssa.Value) (ssa.Value, bool) {
		f, base := loadedField(v)
		if f != nil && f.Name() == "children" {
			return base, true
		}
		return nil, false
	}
	seen := map[*ssa.Phi]bool{}
	nDecisions := 0
	var walk func(v ssa.Value)
	walk = func(v ssa.Value) {
		phi, ok := v.(*ssa.Phi)
		if !ok || seen[phi] {
			return
		}
		seen[phi] = true
		blk := phi.Block()
		if isHeader(blk) {
			for _, e := range phi.Edges {
				walk(e)
			}
			return
		}
		// a decision point: which node would be captured here?
		var node ssa.Value
		for _, e := range phi.Edges {
			if n, ok := captureOf(e); ok {
				node = n
			}
		}
		for i, e := range phi.Edges {
			if _, ok := captureOf(e); ok {
				continue
			}
			walk(e)
			if node == nil {
				continue
			}
			nDecisions++
			p := blk.Preds[i]
			noValue, fewChildren := false, false
			isValue := func(x ssa.Value) bool {
				f, base := loadedField(x)
				return f != nil && f.Name() == "value" && sameSource(base, node)
			}
			isNChildren := func(x ssa.Value) bool {
				cl, ok := x.(*ssa.Call)
				if !ok {
					return false
				}
				bi, ok := cl.Call.Value.(*ssa.Builtin)
				if !ok || bi.Name() != "len" {
					return false
				}
				f, base := loadedField(cl.Call.Args[0])
				return f != nil && f.Name() == "children" && sameSource(base, node)
			}
			edgeFactsOn(p, blk, func(cond ssa.Value, val bool) bool {
				op, x, y, ok := normCmp(cond, val)
				if !ok {
					return true
				}
				if k, ok := cmpUpperBound(op, x, y, isValue); ok && k <= -1 {
					noValue = true
				}
				if k, ok := cmpUpperBound(op, x, y, isNChildren); ok && k <= 1 {
					fewChildren = true
				}
				return true
			})
			c.Check(noValue && fewChildren, name, "keep-edge", c.Pos(phi.Pos()), "the captured edge is kept only across nodes without a value and with at most one child", func() string {
				m := "the walk keeps the previously captured edge across a node that "
				switch {
				case !noValue && !fewChildren:
					m += "may hold a value and may have several children"
				case !noValue:
					m += "may itself hold a value"
				default:
					m += "may have other children"
				}
				return m + ": when the removed name ends in a leaf, the cut removes that node too, so a different, still registered instance name (a prefix of the removed one, or a sibling) silently disappears from the trie"
			}())
		}
	}
	walk(del.Call.Args[0])
	if nDecisions == 0 {
		c.Broken("InstanceNameTrie.Remove: no capture/keep decision found on the way to delete()")
	}
}

// ---------------------------------------------------------------------------
// R20.5

func init() {
	register(&Rule{
		ID: "R20.5", Props: []string{"C20", "C14"}, Engine: "difference-bound analysis (SSA, inductive over loop phis, call-site preconditions)",
		Text: "truncated resource names cannot make the parsers panic: every index and re-slice of a []string in NewDigestFromByteStreamReadPath, NewDigestFromByteStreamWritePath, newDigestFromByteStreamPathCommon and NewInstanceNameFromComponents is proven in range from the length checks that dominate it (len(fields) < n returns, loop exit conditions, the minimum length both callers guarantee for the trailer, and the lengths that remain after trailer = trailer[k:])",
		Floor: 10, MustExist: true, Run: runR205,
	})
}

var r205Funcs = []string{"NewDigestFromByteStreamReadPath", "NewDigestFromByteStreamWritePath", "newDigestFromByteStreamPathCommon", "NewInstanceNameFromComponents"}

func runR205(c *Ctx) {
	bp := newBoundsProver(c, digestRel)
	for _, fnName := range r205Funcs {
		fn := c.Func(digestRel, fnName)
		if fn == nil {
			c.Broken("digest.%s not found", fnName)
			continue
		}
		withAnon(fn, func(g *ssa.Function) {
			for _, op := range bp.checkFunc(g) {
				c.Check(op.proven, FuncName(g), op.what+"-in-range", c.Pos(op.ins.Pos()), "in range on every path", "an "+op.what+" operation on a list of path components is not proven in range ("+op.why+"): a truncated or oddly shaped resource name reaches it with too few components and the server panics instead of answering INVALID_ARGUMENT")
			}
		})
	}
}

// ---------------------------------------------------------------------------
// R20.6

func init() {
	register(&Rule{
		ID: "R20.6", Props: []string{"C20", "C13"}, Engine: "abstract evaluation of comparisons over the rune domain (SSA)",
		Text: "the hash alphabet is exactly lowercase hexadecimal: Function.NewDigest ranges over every character of the hash string before the digest is constructed, and evaluating the loop body's comparisons for every code point shows that the characters that do not lead to an error return are exactly 0-9 and a-f (an uppercase or otherwise non-canonical spelling of the same hash bytes would be a second, distinct key for one object)",
		Floor: 1, MustExist: true, Run: runR206,
	})
}

func runR206(c *Ctx) {
	top := c.Method(digestRel, "Function", "NewDigest")
	if top == nil {
		c.Broken("digest.Function.NewDigest not found")
		return
	}
	name := FuncName(top)
	stringParam := func(f *ssa.Function) ssa.Value {
		for _, p := range f.Params {
			if bt, ok := p.Type().Underlying().(*types.Basic); ok && bt.Kind() == types.String {
				return p
			}
		}
		return nil
	}
	findLoop := func(f *ssa.Function, str ssa.Value) *ssa.Next {
		var next *ssa.Next
		allInstrs(f, func(ins ssa.Instruction) {
			if n, ok := ins.(*ssa.Next); ok && n.IsString {
				if r, ok := n.Iter.(*ssa.Range); ok && r.X == str {
					next = n
				}
			}
		})
		return next
	}
	// the loop is in NewDigest itself, or in a validation helper that is
	// handed the hash and whose nil result guards the construction
	fn := top
	hash := stringParam(top)
	next := findLoop(top, hash)
	var helperCall *ssa.Call
	if next == nil && hash != nil {
		allInstrs(top, func(ins ssa.Instruction) {
			cl, ok := ins.(*ssa.Call)
			if !ok || next != nil {
				return
			}
			callee := cl.Call.StaticCallee()
			if callee == nil || len(callee.Blocks) == 0 || callee.Pkg != top.Pkg || errIndex(callee) < 0 {
				return
			}
			for k, a := range cl.Call.Args {
				if a == hash && k < len(callee.Params) {
					if n := findLoop(callee, callee.Params[k]); n != nil {
						next, fn, helperCall = n, callee, cl
					}
				}
			}
		})
	}
	if next == nil {
		c.Fail(name, "alphabet", c.Pos(top.Pos()), "NewDigest no longer examines the hash character by character: nothing establishes that only 0-9 and a-f are accepted (hex decoders accept A-F as well, giving one object several distinct digests)")
		return
	}
	loopPos := c.Pos(fn.Pos())
	if r, ok := next.Iter.(*ssa.Range); ok && r.Pos().IsValid() {
		loopPos = c.Pos(r.Pos())
	}
	var ch, okv ssa.Value
	for _, r := range *next.Referrers() {
		if ex, isEx := r.(*ssa.Extract); isEx {
			switch ex.Index {
			case 0:
				okv = ex
			case 2:
				ch = ex
			}
		}
	}
	hdr := next.Block()
	var body *ssa.BasicBlock
	if iff, isIf := hdr.Instrs[len(hdr.Instrs)-1].(*ssa.If); isIf && iff.Cond == okv {
		body = hdr.Succs[0]
	}
	if ch == nil || body == nil {
		c.Fail(name, "alphabet", loopPos, "the loop over the hash does not look at the characters")
		return
	}
	// every digest is returned only after the loop (or after the helper that contains it said nil)
	for _, r := range returnsOf(top) {
		if !isNilConst(returnedValue(r, len(r.Results)-1)) {
			continue
		}
		guarded := false
		if helperCall == nil {
			guarded = hdr.Dominates(r.Block())
		} else {
			guarded = dominatedByErrNil(r.Block(), helperCall)
		}
		if !guarded {
			c.Fail(name, "alphabet", c.Pos(r.Pos()), "a digest is returned on a path that bypasses the per-character validation")
			return
		}
	}
	if helperCall != nil {
		for _, r := range returnsOf(fn) {
			if isNilConst(returnedValue(r, errIndex(fn))) && !hdr.Dominates(r.Block()) {
				c.Fail(name, "alphabet", c.Pos(r.Pos()), "the validation helper can report success without having examined the characters")
				return
			}
		}
	}
	// abstract evaluation of the loop body for one code point: values are
	// computed along the path (phis from the edge taken)
	type aval struct {
		i     int64
		b     bool
		known bool
	}
	var dom []int64
	for r := int64(0); r < 0x100; r++ {
		dom = append(dom, r)
	}
	dom = append(dom, 0x100, 0x7FF, 0x800, 0xFFFD, 0xFFFF, 0x10000, 0x10FFFF)
	var wrong []string
	undecided := ""
	for _, r := range dom {
		env := map[ssa.Value]aval{ch: {i: r, known: true}}
		var eval func(v ssa.Value, depth int) aval
		eval = func(v ssa.Value, depth int) aval {
			if a, ok := env[v]; ok {
				return a
			}
			if depth > 12 {
				return aval{}
			}
			switch x := v.(type) {
			case *ssa.Const:
				if k, ok := constInt(x); ok {
					return aval{i: k, known: true}
				}
				if x.Value != nil && x.Value.Kind() == constant.Bool {
					return aval{b: constant.BoolVal(x.Value), known: true}
				}
			case *ssa.Convert:
				return eval(x.X, depth+1)
			case *ssa.ChangeType:
				return eval(x.X, depth+1)
			case *ssa.UnOp:
				if x.Op == token.NOT {
					a := eval(x.X, depth+1)
					return aval{b: !a.b, known: a.known}
				}
			case *ssa.BinOp:
				a, b := eval(x.X, depth+1), eval(x.Y, depth+1)
				if !a.known || !b.known {
					return aval{}
				}
				switch x.Op {
				case token.LSS:
					return aval{b: a.i < b.i, known: true}
				case token.LEQ:
					return aval{b: a.i <= b.i, known: true}
				case token.GTR:
					return aval{b: a.i > b.i, known: true}
				case token.GEQ:
					return aval{b: a.i >= b.i, known: true}
				case token.EQL:
					if isBoolType(x.X) {
						return aval{b: a.b == b.b, known: true}
					}
					return aval{b: a.i == b.i, known: true}
				case token.NEQ:
					if isBoolType(x.X) {
						return aval{b: a.b != b.b, known: true}
					}
					return aval{b: a.i != b.i, known: true}
				case token.SUB:
					return aval{i: a.i - b.i, known: true}
				case token.ADD:
					return aval{i: a.i + b.i, known: true}
				}
			}
			return aval{}
		}
		b, prev := body, hdr
		accepted, decided := false, false
		for steps := 0; steps < 128 && !decided; steps++ {
			if b == hdr {
				accepted, decided = true, true
				break
			}
			// phis of b from the edge prev -> b
			idx := -1
			for k, p := range b.Preds {
				if p == prev {
					idx = k
				}
			}
			for _, ins := range b.Instrs {
				phi, ok := ins.(*ssa.Phi)
				if !ok {
					break
				}
				if idx >= 0 {
					env[phi] = eval(phi.Edges[idx], 0)
				}
			}
			last := b.Instrs[len(b.Instrs)-1]
			switch t := last.(type) {
			case *ssa.If:
				v := eval(t.Cond, 0)
				if !v.known {
					undecided = c.Pos(t.Cond.Pos())
					if undecided == "?" {
						undecided = loopPos
					}
					decided = true
					break
				}
				prev = b
				if v.b {
					b = b.Succs[0]
				} else {
					b = b.Succs[1]
				}
			case *ssa.Jump:
				prev, b = b, b.Succs[0]
			case *ssa.Return:
				accepted, decided = isNilConst(returnedValue(t, len(t.Results)-1)), true
			default:
				undecided, decided = loopPos, true
			}
		}
		if !decided && undecided == "" {
			undecided = loopPos
		}
		if undecided != "" {
			break
		}
		want := (r >= '0' && r <= '9') || (r >= 'a' && r <= 'f')
		if accepted != want {
			if accepted {
				wrong = append(wrong, "accepts "+runeDesc(r))
			} else {
				wrong = append(wrong, "rejects "+runeDesc(r))
			}
		}
	}
	if undecided != "" {
		c.Fail(name, "alphabet", undecided, "the per-character validation of the hash contains a test the checker cannot evaluate over the rune domain; the accepted alphabet is not established")
		return
	}
	if len(wrong) > 0 {
		if len(wrong) > 6 {
			wrong = append(wrong[:6], "…")
		}
		c.Fail(name, "alphabet", loopPos, "the per-character validation "+joinComma(wrong)+": the accepted hash alphabet is not exactly 0-9a-f")
		return
	}
	c.Pass(name, "alphabet", loopPos, "accepted characters are exactly 0-9a-f (263 code points evaluated)")
}

func runeDesc(r int64) string {
	if r >= 0x21 && r < 0x7f {
		return "'" + string(rune(r)) + "'"
	}
	return "U+" + hex4(r)
}

func hex4(r int64) string {
	const d = "0123456789ABCDEF"
	s := ""
	for i := 20; i >= 0; i -= 4 {
		s += string(d[(r>>uint(i))&15])
	}
	for len(s) > 4 && s[0] == '0' {
		s = s[1:]
	}
	return s
}

func joinComma(s []string) string {
	out := ""
	for i, x := range s {
		if i > 0 {
			out += ", "
		}
		out += x
	}
	return out
}

// ---------------------------------------------------------------------------
// R19.7

func init() {
	register(&Rule{
		ID: "R19.7", Props: []string{"C19", "C20"}, Engine: "difference-bound analysis (SSA)",
		Text: "prefix rewriting never produces a name with a trailing slash: in patchInstanceName the remainder i[n:] is appended to the replacement prefix only where the dominating checks imply len(i) > n, i.e. the remainder is non-empty; the name that equals the old prefix exactly is answered with the slash-less replacement",
		Floor: 1, MustExist: true, Run: runR197,
	})
}

func runR197(c *Ctx) {
	fn := c.Func(digestRel, "patchInstanceName")
	if fn == nil {
		c.Broken("digest.patchInstanceName not found")
		return
	}
	bp := newBoundsProver(c, digestRel)
	n := 0
	allInstrs(fn, func(ins ssa.Instruction) {
		bo, ok := ins.(*ssa.BinOp)
		if !ok || bo.Op != token.ADD {
			return
		}
		sl, ok := bo.Y.(*ssa.Slice)
		if !ok || sl.High != nil || sl.Low == nil {
			return
		}
		if bt, ok := sl.X.Type().Underlying().(*types.Basic); !ok || bt.Info()&types.IsString == 0 {
			return
		}
		n++
		lo := bp.norm(sl.Low)
		ln := bAtom{lenOf: canonSlice(sl.X)}
		ok = bp.prove(lo.a, ln, -1-lo.k, bp.factsAt(bo.Block()), map[string]int64{})
		c.Check(ok, FuncName(fn), "non-empty-remainder", c.Pos(bo.Pos()), "the remainder appended to the prefix is non-empty", "the remainder of the name is appended to the replacement prefix without a dominating check that it is non-empty (len(name) > prefix length): a name equal to the old prefix is rewritten to the new prefix plus a trailing '/', which is not a valid instance name and matches no backend and no stored key")
	})
	if n == 0 {
		c.Broken("patchInstanceName: no prefix + remainder concatenation found")
	}
}

// ---------------------------------------------------------------------------
// R15.5

func init() {
	register(&Rule{
		ID: "R15.5", Props: []string{"C15"}, Engine: "counting conservation (SSA shape + call-site table)",
		Text: "the multiplexer counts its consumers correctly: readAndShareWithOthers sends the result to every waiting consumer (a complete range over the waiting list), then expects for the next round exactly the consumers it just served plus its argument, and empties the waiting list; Read – whose caller stays – passes 1, Close – whose caller leaves – passes 0, and nothing else calls it; a consumer that has left must not be waited for, or the remaining consumers block forever",
		Floor: 4, MustExist: true, Run: runR155,
	})
}

func runR155(c *Ctx) {
	helper := c.Method(bufferRel, "multiplexedChunkReader", "readAndShareWithOthers")
	T := c.LookupType(bufferRel, "multiplexedChunkReader")
	if helper == nil || T == nil || len(helper.Params) != 2 {
		c.Broken("multiplexedChunkReader.readAndShareWithOthers(int) not found")
		return
	}
	hname := FuncName(helper)
	isFieldLoad := func(v ssa.Value, name string) bool {
		f, base := loadedField(v)
		return f != nil && f.Name() == name && isReceiverValue(helper, base)
	}
	// next round's expectation
	var pendStore, waitStore *ssa.Store
	allInstrs(helper, func(ins ssa.Instruction) {
		if st, ok := ins.(*ssa.Store); ok {
			if f := fieldOf(st.Addr); f != nil {
				switch f.Name() {
				case "pendingConsumers":
					pendStore = st
				case "waitingConsumers":
					waitStore = st
				}
			}
		}
	})
	okPend := false
	if pendStore != nil {
		if bo, ok := pendStore.Val.(*ssa.BinOp); ok && bo.Op == token.ADD {
			isLenW := func(v ssa.Value) bool {
				cl, ok := v.(*ssa.Call)
				if !ok {
					return false
				}
				bi, ok := cl.Call.Value.(*ssa.Builtin)
				return ok && bi.Name() == "len" && isFieldLoad(cl.Call.Args[0], "waitingConsumers")
			}
			p := ssa.Value(helper.Params[1])
			okPend = (isLenW(bo.X) && bo.Y == p) || (isLenW(bo.Y) && bo.X == p)
		}
	}
	posOf := func(st *ssa.Store) string {
		if st != nil {
			return c.Pos(st.Pos())
		}
		return c.Pos(helper.Pos())
	}
	c.Check(okPend, hname, "next-round", posOf(pendStore), "pending := served waiters + argument", "the number of consumers expected for the next round is not (number of waiting consumers just served) + (the argument saying whether the caller continues)")
	okWait := false
	if waitStore != nil && pendStore != nil {
		if sl, ok := waitStore.Val.(*ssa.Slice); ok && isFieldLoad(sl.X, "waitingConsumers") && sl.High != nil {
			if k, isC := constInt(sl.High); isC && k == 0 {
				// emptied after the count was taken
				okWait = instrDominates(pendStore, waitStore)
			}
		}
		if isNilConst(waitStore.Val) {
			okWait = instrDominates(pendStore, waitStore)
		}
	}
	c.Check(okWait, hname, "waiters-reset", posOf(waitStore), "the waiting list is emptied after it was counted", "the waiting list is not emptied after being counted (or is emptied before): served consumers would be served twice or miscounted")
	// every waiter is served
	served := false
	allInstrs(helper, func(ins ssa.Instruction) {
		snd, ok := ins.(*ssa.Send)
		if !ok {
			return
		}
		X, idx, isElem := rangeElemOf(snd.Chan)
		if isElem && isFieldLoad(X, "waitingConsumers") && isFullRangeIndex(idx, X) {
			served = true
		}
	})
	c.Check(served, hname, "serve-all", c.Pos(helper.Pos()), "every waiting consumer receives the result", "the result is not sent to every waiting consumer (a complete range over the waiting list)")
	// call sites
	want := map[string]int64{"Read": 1, "Close": 0}
	seen := map[string]bool{}
	for _, tf := range c.pkgFuncs(bufferRel) {
		withAnon(tf, func(g *ssa.Function) {
			allInstrs(g, func(ins ssa.Instruction) {
				cc := callOf(ins)
				if cc == nil || cc.StaticCallee() != helper {
					return
				}
				top := topFunc(g)
				isMethod := top.Signature.Recv() != nil && isReceiverValue(g, cc.Args[0])
				w, known := want[top.Name()]
				if !isMethod || !known {
					c.Fail(FuncName(g), "continues-flag", c.Pos(ins.Pos()), "readAndShareWithOthers is called from somewhere other than the multiplexer's own Read or Close")
					return
				}
				seen[top.Name()] = true
				k, isC := constInt(cc.Args[1])
				role := "stays a consumer (Read)"
				if w == 0 {
					role = "leaves (Close)"
				}
				c.Check(isC && k == w, FuncName(g), "continues-flag", c.Pos(ins.Pos()), "the caller "+role, "the caller "+role+" but is counted differently for the next round: "+map[int64]string{0: "the multiplexer keeps waiting for a consumer that is gone, so every remaining clone blocks forever in its next Read and the source is never closed", 1: "a consumer that is still reading is not waited for, so it misses data or the source is closed under it"}[w])
			})
		})
	}
	for n := range want {
		if !seen[n] {
			c.Fail(hname, "continues-flag", c.Pos(helper.Pos()), "multiplexedChunkReader."+n+" no longer reads on behalf of the waiting consumers")
		}
	}
}

// ---------------------------------------------------------------------------
// R14.6

func init() {
	register(&Rule{
		ID: "R14.6", Props: []string{"C14"}, Engine: "path automaton with nil-knowledge (SSA)",
		Text: "a failed upload is never reported as stored: in every function of pkg/blobstore/grpcclients that returns an error, on a path on which some call's error was found to be non-nil (Send failed, the encoder could not be obtained, the reader failed …) the error returned is not one the same path has established to be nil (the nil constant, or the result of a call whose nil edge was taken) – `return err` must refer to the failure, not to an earlier, successful call's err that happens to be in scope",
		Floor: 8, MustExist: true, Run: runR146,
	})
}

func runR146(c *Ctx) {
	for _, tf := range c.pkgFuncs("pkg/blobstore/grpcclients") {
		withAnon(tf, func(fn *ssa.Function) {
			ei := errIndex(fn)
			if ei < 0 || fn.Blocks == nil {
				return
			}
			// error-producing values (call results) that are nil-tested
			var errVals []ssa.Value
			idxOf := func(v ssa.Value) int {
				for i, e := range errVals {
					if e == v {
						return i
					}
				}
				return -1
			}
			allInstrs(fn, func(ins ssa.Instruction) {
				iff, ok := ins.(*ssa.If)
				if !ok {
					return
				}
				cond := iff.Cond
				for {
					if u, ok := cond.(*ssa.UnOp); ok && u.Op == token.NOT {
						cond = u.X
						continue
					}
					break
				}
				x, _, isT := nilTest(cond)
				if !isT || !isErrorType(x.Type()) {
					return
				}
				switch x.(type) {
				case *ssa.Call, *ssa.Extract:
					if idxOf(x) < 0 && len(errVals) < 30 {
						errVals = append(errVals, x)
					}
				}
			})
			if len(errVals) == 0 {
				return
			}
			name := FuncName(fn)
			bad := ""
			var badPos token.Pos
			nFail := 0
			// state: bit 0 = a failure edge was taken; bit i+1 = errVals[i] known nil
			explorePaths(&pathSpec{Fn: fn, Init: 0,
				Step: func(st int, ev pathEvent) int {
					if ev.Cond == nil {
						// a value that is computed anew is no longer known
						if v, ok := ev.Ins.(ssa.Value); ok {
							for i, e := range errVals {
								if e == v {
									st &^= 1 << (uint(i) + 1)
								} else if ex, isEx := e.(*ssa.Extract); isEx && ex.Tuple == v {
									st &^= 1 << (uint(i) + 1)
								}
							}
						}
						return st
					}
					cnd, v := ev.Cond, ev.Val
					for {
						if u, ok := cnd.(*ssa.UnOp); ok && u.Op == token.NOT {
							cnd, v = u.X, !v
							continue
						}
						break
					}
					x, nilWhenTrue, isT := nilTest(cnd)
					if !isT {
						return st
					}
					i := idxOf(x)
					if i < 0 {
						return st
					}
					if nilWhenTrue == v {
						return st | 1<<(uint(i)+1)
					}
					return (st &^ (1 << (uint(i) + 1))) | 1
				},
				AtReturn: func(st int, r *ssa.Return, _ map[int]bool) {
					if st&1 == 0 {
						return
					}
					nFail++
					res := returnedValue(r, ei)
					known := isNilConst(res)
					if i := idxOf(res); i >= 0 && st&(1<<(uint(i)+1)) != 0 {
						known = true
					}
					if known && bad == "" {
						bad, badPos = "a path on which a call failed returns an error value that the same path has established to be nil", r.Pos()
					}
				}})
			if nFail == 0 {
				return
			}
			if bad != "" {
				c.Fail(name, "failure-reported", c.Pos(badPos), bad+": the caller is told the operation succeeded (for Put: that the object was stored) although the stream broke")
			} else {
				c.Pass(name, "failure-reported", c.Pos(fn.Pos()), "no failure path returns a provably nil error")
			}
		})
	}
}

// ---------------------------------------------------------------------------
// R18.5 (AST level: cmd/bb_storage does not type-check completely under
// plain `go build`, so there is no SSA for it; identifiers are still resolved
// through types.Info)

func init() {
	register(&Rule{
		ID: "R18.5", Props: []string{"C18"}, Engine: "wiring (AST + types.Info, cmd/bb_storage)",
		Text: "only authorizing backends are served: in cmd/bb_storage every storage backend handed to a grpcservers.New…Server constructor is a variable that is only ever assigned the result of blobstore.NewAuthorizingBlobAccess (through the helper functions that build it); in those helpers the Get, Put and FindMissing authorizers given to NewAuthorizingBlobAccess are built from the GetAuthorizer, PutAuthorizer and FindMissingAuthorizer fields of the configuration, in that order, and NewAuthorizingBlobAccess stores them in the fields that Get/Put/FindMissing consult",
		Floor: 8, MustExist: true, Run: runR185,
	})
}

func runR185(c *Ctx) {
	pkg := c.Pkg("cmd/bb_storage")
	if pkg == nil || pkg.TypesInfo == nil {
		c.Broken("cmd/bb_storage not loaded")
		return
	}
	info := pkg.TypesInfo
	calleeOf := func(call *ast.CallExpr) types.Object {
		switch f := call.Fun.(type) {
		case *ast.Ident:
			return info.Uses[f]
		case *ast.SelectorExpr:
			return info.Uses[f.Sel]
		}
		return nil
	}
	isFunc := func(o types.Object, pkgRel, name string) bool {
		return o != nil && o.Pkg() != nil && o.Pkg().Path() == modPath+"/"+pkgRel && o.Name() == name
	}
	// definitions: variable object -> (call that defined it, tuple index)
	type def struct {
		call *ast.CallExpr
		idx  int
	}
	defs := map[types.Object]def{}
	assigns := map[types.Object][]ast.Expr{} // plain `v = expr`
	for _, f := range pkg.Syntax {
		ast.Inspect(f, func(n ast.Node) bool {
			as, ok := n.(*ast.AssignStmt)
			if !ok {
				return true
			}
			if len(as.Rhs) == 1 {
				if call, ok := as.Rhs[0].(*ast.CallExpr); ok && len(as.Lhs) >= 1 {
					for i, l := range as.Lhs {
						if id, ok := l.(*ast.Ident); ok {
							if o := info.Defs[id]; o != nil {
								defs[o] = def{call, i}
							} else if o := info.Uses[id]; o != nil && len(as.Lhs) == 1 {
								assigns[o] = append(assigns[o], as.Rhs[0])
							} else if o != nil {
								defs[o] = def{call, i} // re-assignment from a tuple
							}
						}
					}
					return true
				}
			}
			if len(as.Lhs) == len(as.Rhs) {
				for i, l := range as.Lhs {
					if id, ok := l.(*ast.Ident); ok {
						if o := info.Uses[id]; o != nil {
							assigns[o] = append(assigns[o], as.Rhs[i])
						}
					}
				}
			}
			return true
		})
	}
	// (1) helper functions returning NewAuthorizingBlobAccess(...) at result index j
	type helper struct {
		obj types.Object
		idx int
	}
	var helpers []helper
	want := []string{"", "GetAuthorizer", "PutAuthorizer", "FindMissingAuthorizer"}
	for _, f := range pkg.Syntax {
		for _, d := range f.Decls {
			fd, ok := d.(*ast.FuncDecl)
			if !ok || fd.Body == nil {
				continue
			}
			fname := "cmd/bb_storage." + fd.Name.Name
			ast.Inspect(fd.Body, func(n ast.Node) bool {
				if _, isLit := n.(*ast.FuncLit); isLit {
					return false
				}
				ret, ok := n.(*ast.ReturnStmt)
				if !ok {
					return true
				}
				for j, r := range ret.Results {
					call, ok := r.(*ast.CallExpr)
					if !ok || !isFunc(calleeOf(call), "pkg/blobstore", "NewAuthorizingBlobAccess") {
						continue
					}
					helpers = append(helpers, helper{info.Defs[fd.Name], j})
					for k := 1; k < len(call.Args) && k < len(want); k++ {
						a := call.Args[k]
						if id, ok := a.(*ast.Ident); ok && id.Name == "nil" && info.Uses[id] == types.Universe.Lookup("nil") {
							c.PassTrivial(fname, "authorizer-role-"+want[k], c.Pos(a.Pos()), "no authorizer for this operation")
							continue
						}
						good := false
						if id, ok := a.(*ast.Ident); ok {
							if d, ok := defs[info.Uses[id]]; ok && d.idx == 0 && len(d.call.Args) > 0 {
								if sel, ok := d.call.Args[0].(*ast.SelectorExpr); ok && sel.Sel.Name == want[k] {
									if o := calleeOf(d.call); o != nil && o.Name() == "NewAuthorizerFromConfiguration" {
										good = true
									}
								}
							}
						}
						c.Check(good, fname, "authorizer-role-"+want[k], c.Pos(a.Pos()), "built from configuration."+want[k], "the authorizer passed to NewAuthorizingBlobAccess in the position that guards "+want[k][:len(want[k])-len("Authorizer")]+"() is not the one built from configuration."+want[k]+": that operation is checked against another operation's policy")
					}
				}
				return true
			})
		}
	}
	if len(helpers) == 0 {
		c.Fail("cmd/bb_storage", "authorizing-helper", "-", "no function of cmd/bb_storage returns blobstore.NewAuthorizingBlobAccess(…)")
		return
	}
	isHelperResult := func(o types.Object) bool {
		d, ok := defs[o]
		if !ok {
			return false
		}
		co := calleeOf(d.call)
		for _, h := range helpers {
			if h.obj == co && h.idx == d.idx {
				return true
			}
		}
		return false
	}
	// (2) every backend given to a grpcservers constructor
	for _, f := range pkg.Syntax {
		ast.Inspect(f, func(n ast.Node) bool {
			call, ok := n.(*ast.CallExpr)
			if !ok {
				return true
			}
			o := calleeOf(call)
			if o == nil || o.Pkg() == nil || o.Pkg().Path() != modPath+"/pkg/blobstore/grpcservers" || len(call.Args) == 0 {
				return true
			}
			sig, ok := o.Type().(*types.Signature)
			if !ok || sig.Params().Len() == 0 {
				return true
			}
			if n, ok := sig.Params().At(0).Type().(*types.Named); !ok || n.Obj().Name() != "BlobAccess" {
				return true
			}
			site := o.Name()
			id, ok := call.Args[0].(*ast.Ident)
			if !ok {
				c.Fail("cmd/bb_storage.main", "served-backend-"+site, c.Pos(call.Pos()), "the backend handed to "+site+" is not a plain variable; its origin cannot be established")
				return true
			}
			v := info.Uses[id]
			good := v != nil
			nAssign := 0
			if isHelperResult(v) {
				nAssign++
			}
			for _, rhs := range assigns[v] {
				nAssign++
				rid, ok := rhs.(*ast.Ident)
				if !ok || !isHelperResult(info.Uses[rid]) {
					good = false
				}
			}
			if nAssign == 0 {
				good = false
			}
			c.Check(good, "cmd/bb_storage.main", "served-backend-"+site, c.Pos(call.Pos()), "only ever assigned an authorizing backend", "the backend served by "+site+" can be a value that did not come from blobstore.NewAuthorizingBlobAccess: requests to this service reach storage without any authorization check")
			return true
		})
	}
	// (3) the constructor stores each authorizer in the field its position stands for
	ctor := c.Func("pkg/blobstore", "NewAuthorizingBlobAccess")
	if ctor == nil {
		c.Broken("blobstore.NewAuthorizingBlobAccess not found")
		return
	}
	for k, fld := range []string{"", "getAuthorizer", "putAuthorizer", "findMissingAuthorizer"} {
		if k == 0 {
			continue
		}
		got := ctorFieldOfParam(ctor, k)
		c.Check(got == fld, FuncName(ctor), "ctor-role-"+fld, c.Pos(ctor.Pos()), "parameter → "+fld, "NewAuthorizingBlobAccess stores its authorizer parameter #"+string(rune('0'+k))+" in field "+got+" instead of "+fld)
	}
}

// ---------------------------------------------------------------------------
// R02.8 (includes the designed R07.7)

func init() {
	register(&Rule{
		ID: "R02.8", Props: []string{"C02", "C03", "C07", "C01"}, Engine: "flow (constructor wiring, configuration package)",
		Text: "the persistent local store is wired as one unit: in newNestedBlobAccessBare the lock given to NewPeriodicSyncer is the very lock given to NewFlatBlobAccess and NewHierarchicalInstanceNamesLocalBlobAccess; the block list given to the syncer is the one the location-blob map is built on; the state store the syncer writes is the one the state was read from; the hash initialisation written into the state is the one the key-location map uses; on block devices the data syncer is the Sync method of the device the block allocator writes to; and both syncer loops are started – ProcessBlockRelease in a goroutine that calls it for ever, ProcessBlockPut in a routine of the termination group that calls it until it returns false",
		Floor: 7, MustExist: true, Run: runR028,
	})
}

func runR028(c *Ctx) {
	bare := c.Method(configurationRel, "simpleNestedBlobAccessCreator", "newNestedBlobAccessBare")
	if bare == nil {
		c.Broken("newNestedBlobAccessBare not found")
		return
	}
	name := FuncName(bare)
	find := func(pkgRel, fn string) []*ssa.Call {
		var out []*ssa.Call
		allInstrs(bare, func(ins ssa.Instruction) {
			cl, ok := ins.(*ssa.Call)
			if !ok {
				return
			}
			if sc := cl.Call.StaticCallee(); sc != nil && sc.Name() == fn && sc.Pkg != nil && sc.Pkg.Pkg.Path() == modPath+"/"+pkgRel {
				out = append(out, cl)
			}
			if cl.Call.IsInvoke() && cl.Call.Method.Name() == fn {
				out = append(out, cl)
			}
		})
		return out
	}
	argByType := func(cl *ssa.Call, pred func(t types.Type) bool) ssa.Value {
		for _, a := range cl.Call.Args {
			if pred(stripConv(a).Type()) || pred(a.Type()) {
				return a
			}
		}
		return nil
	}
	isLock := func(t types.Type) bool {
		if p, ok := t.(*types.Pointer); ok {
			if n, ok := p.Elem().(*types.Named); ok && n.Obj().Pkg() != nil && n.Obj().Pkg().Path() == "sync" {
				return true
			}
		}
		return false
	}
	// root: strip conversions, resolve single-store cells and single-edge phis
	var root func(v ssa.Value, depth int) []ssa.Value
	root = func(v ssa.Value, depth int) []ssa.Value {
		v = stripConv(v)
		if depth > 6 {
			return []ssa.Value{v}
		}
		switch x := v.(type) {
		case *ssa.Phi:
			var out []ssa.Value
			for _, e := range x.Edges {
				out = append(out, root(e, depth+1)...)
			}
			return out
		case *ssa.UnOp:
			if x.Op == token.MUL {
				if al, ok := x.X.(*ssa.Alloc); ok {
					var out []ssa.Value
					for _, s := range cellStores(al) {
						out = append(out, root(s, depth+1)...)
					}
					if len(out) > 0 {
						return out
					}
				}
			}
		}
		return []ssa.Value{v}
	}
	contains := func(vs []ssa.Value, w ssa.Value) bool {
		for _, v := range vs {
			if v == w {
				return true
			}
		}
		return false
	}
	syncers := find(localRel, "NewPeriodicSyncer")
	if len(syncers) != 1 {
		c.Fail(name, "syncer", c.Pos(bare.Pos()), "expected exactly one NewPeriodicSyncer call in the configuration of the local backend")
		return
	}
	ps := syncers[0]
	// (a) one lock
	sLock := argByType(ps, isLock)
	for _, ctorName := range []string{"NewFlatBlobAccess", "NewHierarchicalInstanceNamesLocalBlobAccess"} {
		cs := find(localRel, ctorName)
		if len(cs) == 0 {
			c.Fail(name, "one-lock-"+ctorName, c.Pos(bare.Pos()), "no call to "+ctorName+" found")
			continue
		}
		for _, cl := range cs {
			l := argByType(cl, isLock)
			c.Check(l != nil && sLock != nil && stripConv(l) == stripConv(sLock), name, "one-lock-"+ctorName, c.Pos(cl.Pos()), "store and syncer share one lock", "the lock given to "+ctorName+" is not the lock given to NewPeriodicSyncer: the syncer snapshots and acknowledges persistent state without excluding uploads and lookups, so the state file can describe data that is not there")
		}
	}
	// (b) one block list
	lbm := find(localRel, "NewOldCurrentNewLocationBlobMap")
	if len(lbm) == 1 && len(ps.Call.Args) > 0 {
		src := root(ps.Call.Args[0], 0)
		bl := root(lbm[0].Call.Args[0], 0)
		shared := false
		for _, s := range src {
			if contains(bl, s) {
				shared = true
			}
		}
		c.Check(shared, name, "one-block-list", c.Pos(ps.Pos()), "the syncer persists the block list the store writes to", "the block list given to NewPeriodicSyncer is not the one NewOldCurrentNewLocationBlobMap is built on: the persisted state describes a different list than the one that holds the data")
	} else {
		c.Fail(name, "one-block-list", c.Pos(bare.Pos()), "expected exactly one NewOldCurrentNewLocationBlobMap call")
	}
	// (c) one state store
	reads := find(localRel, "ReadPersistentState")
	okStore := false
	if len(reads) == 1 {
		var recv ssa.Value
		if reads[0].Call.IsInvoke() {
			recv = reads[0].Call.Value
		} else if len(reads[0].Call.Args) > 0 {
			recv = reads[0].Call.Args[0]
		}
		for _, a := range ps.Call.Args {
			if recv != nil && stripConv(a) == stripConv(recv) {
				okStore = true
			}
		}
	}
	c.Check(okStore, name, "one-state-store", c.Pos(ps.Pos()), "the state is written where it was read from", "the persistent state store given to NewPeriodicSyncer is not the one ReadPersistentState was called on: after a restart the store reloads a state file the syncer never updated")
	// (d) one hash initialisation
	klm := find(localRel, "NewHashingKeyLocationMap")
	okHash := false
	if len(klm) == 1 {
		isU64 := func(t types.Type) bool {
			b, ok := t.Underlying().(*types.Basic)
			return ok && b.Kind() == types.Uint64
		}
		a, b := argByType(ps, isU64), argByType(klm[0], isU64)
		if a != nil && b != nil {
			for _, ra := range root(a, 0) {
				if contains(root(b, 0), ra) {
					okHash = true
				}
			}
		}
	}
	c.Check(okHash, name, "one-hash-initialisation", c.Pos(ps.Pos()), "the persisted hash initialisation is the one in use", "the hash initialisation the syncer writes into the state file is not the value the key-location map was built with: after a restart every key hashes elsewhere and the restored blocks hold objects nobody can find (or finds wrongly)")
	// (e) data syncer of the device that holds the blocks
	alloc := find(localRel, "NewBlockDeviceBackedBlockAllocator")
	okSync := false
	if len(alloc) == 1 && len(alloc[0].Call.Args) > 0 {
		dev := stripConv(alloc[0].Call.Args[0])
		var ds ssa.Value
		for _, a := range ps.Call.Args {
			if _, ok := a.Type().Underlying().(*types.Signature); ok {
				ds = a
			}
		}
		if ds != nil {
			for _, r := range root(ds, 0) {
				if mc, ok := r.(*ssa.MakeClosure); ok && len(mc.Bindings) == 1 {
					if f, ok := mc.Fn.(*ssa.Function); ok && f.Synthetic != "" && len(f.Name()) >= 4 && f.Name()[:4] == "Sync" {
						for _, b := range root(mc.Bindings[0], 0) {
							if b == dev || contains(root(dev, 0), b) {
								okSync = true
							}
						}
					}
				}
			}
		}
	}
	c.Check(okSync, name, "data-syncer", c.Pos(ps.Pos()), "the data syncer is Sync of the block device that holds the blocks", "the data syncer given to NewPeriodicSyncer is not the Sync method of the block device handed to NewBlockDeviceBackedBlockAllocator: state files are written for data that was never flushed")
	// (f) both loops
	for _, m := range []struct {
		meth    string
		forever bool
	}{{"ProcessBlockRelease", true}, {"ProcessBlockPut", false}} {
		okLoop := false
		var at token.Pos = bare.Pos()
		for _, g := range bare.AnonFuncs {
			allInstrs(g, func(ins ssa.Instruction) {
				cl, ok := ins.(*ssa.Call)
				if !ok || cl.Call.StaticCallee() == nil || cl.Call.StaticCallee().Name() != m.meth {
					return
				}
				if !contains(root(captureOrigin(g, cl.Call.Args[0]), 0), ssa.Value(ps)) {
					return
				}
				// the call sits in a cycle
				blk := cl.Block()
				seen := map[*ssa.BasicBlock]bool{}
				var reach func(b *ssa.BasicBlock) bool
				reach = func(b *ssa.BasicBlock) bool {
					for _, s := range b.Succs {
						if s == blk {
							return true
						}
						if !seen[s] {
							seen[s] = true
							if reach(s) {
								return true
							}
						}
					}
					return false
				}
				if !reach(blk) {
					return
				}
				// the closure is started: bound into a `go` statement or handed to a Go(...) method
				started := false
				allInstrs(bare, func(pi ssa.Instruction) {
					switch x := pi.(type) {
					case *ssa.Go:
						if mc, ok := x.Call.Value.(*ssa.MakeClosure); ok && mc.Fn == ssa.Value(g) {
							started = true
						}
					case *ssa.Call:
						for _, a := range x.Call.Args {
							if mc, ok := stripConv(a).(*ssa.MakeClosure); ok && mc.Fn == ssa.Value(g) {
								nm := ""
								if x.Call.IsInvoke() {
									nm = x.Call.Method.Name()
								} else if sc := x.Call.StaticCallee(); sc != nil {
									nm = sc.Name()
								}
								if nm == "Go" {
									started = true
								}
							}
						}
					}
				})
				if started {
					okLoop = true
					at = cl.Pos()
				}
			})
		}
		c.Check(okLoop, name, "loop-"+m.meth, c.Pos(at), m.meth+" runs in a loop of a started routine", "PeriodicSyncer."+m.meth+" is not called in a loop of a goroutine / termination-group routine started here: "+map[bool]string{true: "released blocks are never followed by a state write, so their space is never handed back", false: "uploads are never followed by a sync and a state write; nothing survives a restart"}[m.forever])
	}
}
