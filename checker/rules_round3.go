package main

import (
	"fmt"
	"go/ast"
	"go/constant"
	"go/token"
	"go/types"
	"strings"

	"golang.org/x/tools/go/ssa"
)

// Rules added after the third round of seeded changes (second half of the
// properties): each encodes a structural necessary condition that a seeded
// change showed to be undecided by the earlier catalogue.

const configurationRel = "pkg/blobstore/configuration"

func init() {
	register(&Rule{
		ID: "R11.5", Props: []string{"C11", "C20", "C12"}, Engine: "who-may-compare (SSA operands)",
		Text:  "set algebra orders and compares elements by their full identity: in the Set, SetBuilder and setHeap functions of pkg/digest every string comparison (<, ==, strings.Compare, …) with an operand computed from a Digest uses the whole value (Digest.String(), the value field, or GetKey(KeyWithInstance)) – never a projection that forgets the instance name, the size or the function",
		Floor: 3, MustExist: true, Run: runR115,
	})
	register(&Rule{
		ID: "R17.2", Props: []string{"C17", "C11"}, Engine: "flow (field roles from the constructor)",
		Text:  "localBlobReplicator copies from its source to its sink: NewLocalBlobReplicator stores its first parameter in one field (source) and its second in another (sink); every Put in the type's methods goes to the sink field and carries a buffer obtained from Get on the source field (for ReplicateSingle: the second half of the CloneStream of that Get, whose first half is what the caller reads); nothing is ever Put into the source",
		Floor: 3, MustExist: true, Run: runR172,
	})
	register(&Rule{
		ID: "R11.6", Props: []string{"C11", "C17"}, Engine: "flow (constructor wiring)",
		Text:  "replicators are wired in the direction their name says: in the configuration package the A-to-B replicator handed to NewMirroredBlobAccess is created with backend A as source and backend B as sink, the B-to-A replicator the other way round, and the two backends differ; the read-caching replicator copies slow to fast, the read-fallback replicator secondary to primary; NewBlobReplicatorFromConfiguration passes its source/sink parameters on in that order to NewLocalBlobReplicator, to nested calls and to the sink-side arguments of the limiting/queueing decorators",
		Floor: 8, MustExist: true, Run: runR116,
	})
}

// ---------------------------------------------------------------------------
// R11.5

func runR115(c *Ctx) {
	digT := c.LookupType(digestRel, "Digest")
	if digT == nil {
		c.Broken("digest.Digest not found")
		return
	}
	var kwi constant.Value
	if p := c.Pkg(digestRel); p != nil {
		if o, ok := p.Types.Scope().Lookup("KeyWithInstance").(*types.Const); ok {
			kwi = o.Val()
		}
	}
	inScope := func(f *ssa.Function) bool {
		t := topFunc(f)
		if t.Signature.Recv() != nil {
			rt := t.Signature.Recv().Type()
			if p, ok := rt.(*types.Pointer); ok {
				rt = p.Elem()
			}
			if n, ok := rt.(*types.Named); ok {
				switch n.Obj().Name() {
				case "Set", "SetBuilder", "setHeap":
					return true
				}
			}
			return false
		}
		switch t.Name() {
		case "GetDifferenceAndIntersection", "GetUnion":
			return true
		}
		return false
	}
	// classify an operand: (fromDigest, full, description)
	classify := func(v ssa.Value) (bool, bool, string) {
		v = stripConv(v)
		if cl, ok := v.(*ssa.Call); ok {
			o := calleeObjOf(cl.Common())
			if o == nil {
				return false, false, ""
			}
			if n := recvNamed(o); n == nil || n.Obj() != digT.Obj() {
				return false, false, ""
			}
			switch o.Name() {
			case "String":
				return true, true, "String()"
			case "GetKey":
				args := cl.Call.Args
				k := args[len(args)-1]
				if kc, ok := stripConv(k).(*ssa.Const); ok && kwi != nil && kc.Value != nil && constant.Compare(kc.Value, token.EQL, kwi) {
					return true, true, "GetKey(KeyWithInstance)"
				}
				return true, false, "GetKey(<not KeyWithInstance>)"
			}
			return true, false, o.Name() + "()"
		}
		if f := fieldOf(v); f != nil && f.Name() == "value" {
			// the value field of a Digest
			var base types.Type
			switch x := v.(type) {
			case *ssa.Field:
				base = x.X.Type()
			case *ssa.UnOp:
				if fa, ok := x.X.(*ssa.FieldAddr); ok {
					base = fa.X.Type().Underlying().(*types.Pointer).Elem()
				}
			}
			if base != nil && types.Identical(base, digT) {
				return true, true, "value"
			}
		}
		return false, false, ""
	}
	// in scope: the set / builder / heap functions and every function of the
	// package they call or hand on as a value (comparators, helpers)
	scope := map[*ssa.Function]bool{}
	var order []*ssa.Function
	var addScope func(f *ssa.Function)
	addScope = func(f *ssa.Function) {
		if f == nil || scope[f] || len(f.Blocks) == 0 || f.Pkg == nil || f.Pkg.Pkg.Path() != modPath+"/"+digestRel {
			return
		}
		if t := topFunc(f); t.Signature.Recv() != nil {
			rt := t.Signature.Recv().Type()
			if p, ok := rt.(*types.Pointer); ok {
				rt = p.Elem()
			}
			if types.Identical(rt, digT) {
				return // Digest's own methods define the identity; they are not set algebra
			}
		}
		scope[f] = true
		order = append(order, f)
		for _, a := range f.AnonFuncs {
			addScope(a)
		}
		allInstrs(f, func(ins ssa.Instruction) {
			for _, op := range ins.Operands(nil) {
				if g, ok := (*op).(*ssa.Function); ok {
					addScope(g)
				}
			}
		})
	}
	for _, tf := range c.pkgFuncs(digestRel) {
		if inScope(tf) {
			addScope(tf)
		}
	}
	for _, f := range order {
		func() {
			name := FuncName(f)
			allInstrs(f, func(ins ssa.Instruction) {
				var ops []ssa.Value
				switch x := ins.(type) {
				case *ssa.BinOp:
					switch x.Op {
					case token.EQL, token.NEQ, token.LSS, token.LEQ, token.GTR, token.GEQ:
					default:
						return
					}
					if b, ok := x.X.Type().Underlying().(*types.Basic); !ok || b.Info()&types.IsString == 0 {
						return
					}
					ops = []ssa.Value{x.X, x.Y}
				case *ssa.Call:
					if !isPkgFuncCall(x.Common(), "strings", "Compare") && !isPkgFuncCall(x.Common(), "cmp", "Compare") {
						return
					}
					ops = x.Call.Args
				default:
					return
				}
				any, bad := false, ""
				for _, o := range ops {
					from, full, desc := classify(o)
					if from {
						any = true
						if !full {
							bad = desc
						}
					}
				}
				if !any {
					return
				}
				c.Check(bad == "", name, "full-identity", c.Pos(ins.Pos()), "elements are compared by their whole value", "set elements are compared by "+bad+", a projection of the digest: two different digests (for instance the same hash under two instance names) are merged, de-duplicated or ordered as if they were one, so differences, intersections and unions lose elements")
			})
		}()
	}
}

// ---------------------------------------------------------------------------
// R17.2

// ctorFieldOfParam: which field of the struct literal built in ctor is
// initialised from parameter idx.
func ctorFieldOfParam(ctor *ssa.Function, idx int) string {
	if ctor == nil || idx >= len(ctor.Params) {
		return ""
	}
	out := ""
	allInstrs(ctor, func(ins ssa.Instruction) {
		st, ok := ins.(*ssa.Store)
		if !ok {
			return
		}
		fa, ok := st.Addr.(*ssa.FieldAddr)
		if !ok {
			return
		}
		if stripConv(st.Val) == ssa.Value(ctor.Params[idx]) {
			out = fieldOf(fa).Name()
		}
	})
	return out
}

func runR172(c *Ctx) {
	ctor := c.Func(replicationRel, "NewLocalBlobReplicator")
	T := c.LookupType(replicationRel, "localBlobReplicator")
	if ctor == nil || T == nil {
		c.Broken("NewLocalBlobReplicator / localBlobReplicator not found")
		return
	}
	src, snk := ctorFieldOfParam(ctor, 0), ctorFieldOfParam(ctor, 1)
	c.Check(src != "" && snk != "" && src != snk, FuncName(ctor), "roles", c.Pos(ctor.Pos()), "first parameter → "+src+", second parameter → "+snk, "the constructor does not store its first (source) and second (sink) parameter in two distinct fields")
	if src == "" || snk == "" || src == snk {
		return
	}
	for _, tf := range c.pkgFuncs(replicationRel) {
		if tf.Signature.Recv() == nil {
			continue
		}
		rt := tf.Signature.Recv().Type()
		if p, ok := rt.(*types.Pointer); ok {
			rt = p.Elem()
		}
		if !types.Identical(rt, T) {
			continue
		}
		withAnon(tf, func(f *ssa.Function) {
			name := FuncName(f)
			allInstrs(f, func(ins ssa.Instruction) {
				cl, ok := ins.(*ssa.Call)
				if !ok || !cl.Call.IsInvoke() || cl.Call.Method.Name() != "Put" {
					return
				}
				fld := recvFieldLoadName(f, cl.Call.Value)
				if fld == "" {
					return
				}
				if fld != snk {
					c.Fail(name, "put-to-sink", c.Pos(cl.Pos()), "the copy is written into "+fld+", not into the sink ("+snk+"): the replica that lacks the object is never repaired")
					return
				}
				// the buffer comes from source.Get
				fromSource := false
				var walk func(g *ssa.Function, v ssa.Value, depth int)
				walk = func(g *ssa.Function, v ssa.Value, depth int) {
					if depth > 4 || fromSource {
						return
					}
					v = captureOrigin(g, v)
					gg := g
					// captureOrigin may have moved to the parent
					if ins, ok := v.(ssa.Instruction); ok && ins.Parent() != nil {
						gg = ins.Parent()
					}
					deepSlice(gg, v, func(x ssa.Value) bool {
						if xc, ok := x.(*ssa.Call); ok && xc.Call.IsInvoke() {
							if xc.Call.Method.Name() == "Get" && recvFieldLoadName(gg, xc.Call.Value) == src {
								fromSource = true
								return false
							}
						}
						return !fromSource
					})
				}
				walk(f, cl.Call.Args[2], 0)
				c.Check(fromSource, name, "put-to-sink", c.Pos(cl.Pos()), "source.Get → sink.Put", "the buffer written into the sink is not obtained from Get on the source ("+src+")")
			})
		})
	}
}

// ---------------------------------------------------------------------------
// R11.6

// infoRoot strips field projections (x.BlobAccess, x.DigestKeyFormat) and
// conversions, so that `backendA.BlobAccess` and `backendA` have one root.
func infoRoot(v ssa.Value) ssa.Value {
	for i := 0; i < 8; i++ {
		v = stripConv(v)
		switch x := v.(type) {
		case *ssa.Field:
			v = x.X
			continue
		case *ssa.UnOp:
			if x.Op == token.MUL {
				if fa, ok := x.X.(*ssa.FieldAddr); ok {
					v = fa.X
					continue
				}
				if al, ok := x.X.(*ssa.Alloc); ok {
					if ss := cellStores(al); len(ss) == 1 {
						v = ss[0]
						continue
					}
					return al
				}
			}
		case *ssa.Alloc:
			if ss := cellStores(x); len(ss) == 1 {
				v = ss[0]
				continue
			}
		}
		return v
	}
	return v
}

func runR116(c *Ctx) {
	bare := c.Method(configurationRel, "simpleNestedBlobAccessCreator", "newNestedBlobAccessBare")
	nbr := c.Func(configurationRel, "NewBlobReplicatorFromConfiguration")
	if bare == nil || nbr == nil {
		c.Broken("newNestedBlobAccessBare / NewBlobReplicatorFromConfiguration not found")
		return
	}
	name := FuncName(bare)
	// replicator value -> (source root, sink root)
	replOf := func(v ssa.Value) (ssa.Value, ssa.Value, bool) {
		v = stripConv(v)
		ex, ok := v.(*ssa.Extract)
		if !ok {
			return nil, nil, false
		}
		cl, ok := ex.Tuple.(*ssa.Call)
		if !ok || cl.Call.StaticCallee() != nbr {
			return nil, nil, false
		}
		return infoRoot(cl.Call.Args[2]), infoRoot(cl.Call.Args[3]), true
	}
	type want struct {
		pkg, ctor string
		// (replicator arg, source arg, sink arg)
		triples  [][3]int
		distinct [2]int
	}
	wants := []want{
		{"pkg/blobstore/mirrored", "NewMirroredBlobAccess", [][3]int{{2, 0, 1}, {3, 1, 0}}, [2]int{0, 1}},
		{"pkg/blobstore/readcaching", "NewReadCachingBlobAccess", [][3]int{{2, 0, 1}}, [2]int{0, 1}},
		{"pkg/blobstore/readfallback", "NewReadFallbackBlobAccess", [][3]int{{2, 1, 0}}, [2]int{0, 1}},
	}
	for _, w := range wants {
		ctor := c.Func(w.pkg, w.ctor)
		if ctor == nil {
			c.Broken("%s.%s not found", w.pkg, w.ctor)
			continue
		}
		found := false
		allInstrs(bare, func(ins ssa.Instruction) {
			cl, ok := ins.(*ssa.Call)
			if !ok || cl.Call.StaticCallee() != ctor {
				return
			}
			found = true
			a := cl.Call.Args
			c.Check(infoRoot(a[w.distinct[0]]) != infoRoot(a[w.distinct[1]]), name, w.ctor+"-distinct", c.Pos(cl.Pos()), "two different backends", "both backend arguments of "+w.ctor+" are the same backend")
			for _, t := range w.triples {
				s, k, ok := replOf(a[t[0]])
				if !ok {
					c.Fail(name, w.ctor+"-replicator", c.Pos(cl.Pos()), "a replicator argument is not the result of NewBlobReplicatorFromConfiguration")
					continue
				}
				good := s == infoRoot(a[t[1]]) && k == infoRoot(a[t[2]])
				c.Check(good, name, w.ctor+"-replicator", c.Pos(cl.Pos()), "replicator direction matches the role of its argument position", "a replicator handed to "+w.ctor+" copies in the wrong direction (its source/sink are not the backends its argument position stands for): read repair and FindMissing synchronisation write the object back into the replica that already has it")
			}
		})
		if !found {
			c.Fail(name, w.ctor+"-replicator", c.Pos(bare.Pos()), "no call to "+w.ctor+" found in the configuration package")
		}
	}
	// inside NewBlobReplicatorFromConfiguration: source = Params[2], sink = Params[3]
	rname := FuncName(nbr)
	srcP, snkP := ssa.Value(nbr.Params[2]), ssa.Value(nbr.Params[3])
	isSrc := func(v ssa.Value) bool { return infoRoot(v) == srcP }
	isSnk := func(v ssa.Value) bool { return infoRoot(v) == snkP }
	baT := c.LookupType("pkg/blobstore", "BlobAccess")
	allInstrs(nbr, func(ins ssa.Instruction) {
		cl, ok := ins.(*ssa.Call)
		if !ok {
			return
		}
		callee := cl.Call.StaticCallee()
		var calleeName string
		var args []ssa.Value
		if callee != nil {
			calleeName, args = callee.Name(), cl.Call.Args
		} else if cl.Call.IsInvoke() {
			calleeName, args = cl.Call.Method.Name(), cl.Call.Args
		} else {
			return
		}
		switch calleeName {
		case "NewLocalBlobReplicator":
			c.Check(isSrc(args[0]) && isSnk(args[1]), rname, "local-direction", c.Pos(cl.Pos()), "NewLocalBlobReplicator(source, sink)", "NewLocalBlobReplicator is not given (source, sink) in that order")
		case "NewBlobReplicatorFromConfiguration", "NewCustomBlobReplicator":
			// recursion / custom: the pair is passed on unchanged
			var s, k ssa.Value
			for _, a := range args {
				if isSrc(a) {
					s = a
				}
				if isSnk(a) {
					k = a
				}
			}
			okOrder := false
			if s != nil && k != nil {
				si, ki := -1, -1
				for i, a := range args {
					if a == s {
						si = i
					}
					if a == k {
						ki = i
					}
				}
				okOrder = si >= 0 && ki == si+1
			}
			c.Check(okOrder, rname, "nested-direction", c.Pos(cl.Pos()), calleeName+"(…, source, sink, …)", calleeName+" is not given this function's source and sink in that order")
		default:
			// decorators: any BlobAccess-typed argument that is one of
			// the two is checked against the parameter name's role
			if callee == nil || callee.Pkg == nil || callee.Pkg.Pkg.Path() != modPath+"/"+replicationRel {
				return
			}
			for i, a := range args {
				if baT == nil || !types.Identical(a.Type(), baT) || i >= len(callee.Params) {
					continue
				}
				pn := callee.Params[i].Name()
				switch {
				case pn == "sink":
					c.Check(isSnk(a), rname, "decorator-role", c.Pos(cl.Pos()), calleeName+"."+pn+" ← sink", calleeName+" is given something other than this function's sink as its sink")
				case pn == "source":
					c.Check(isSrc(a), rname, "decorator-role", c.Pos(cl.Pos()), calleeName+"."+pn+" ← source", calleeName+" is given something other than this function's source as its source")
				}
			}
		}
	})
}

// ---------------------------------------------------------------------------
// R12.7, R12.8

func init() {
	register(&Rule{
		ID: "R12.7", Props: []string{"C12"}, Engine: "flow (iteration identity)",
		Text:  "the shard list and the backend list are built in lock-step: in the configuration package the (Key, Weight) element appended to the slice given to NewRendezvousShardSelector and the (Backend, Key) element appended to the slice given to NewShardingBlobAccess are appended once each, in the same iteration of the same range over the configured shard map (Go randomises map iteration order, so two separate ranges would pair indices with different keys); key, weight and backend all come from that iteration's entry",
		Floor: 3, MustExist: true, Run: runR127,
	})
	register(&Rule{
		ID: "R12.8", Props: []string{"C12"}, Engine: "no-error-escape (SSA referrers)",
		Text:  "errors carry the shard key: in every method of shardingBlobAccess the error of a call through backends[i].Backend is only tested for nil or wrapped by util.StatusWrap* with backends[i].Key of the same index – it is never returned, stored or passed on unwrapped – and a Buffer obtained from backends[i].Backend is only ever handed to buffer.WithErrorHandler with a shardKeyAddingErrorHandler built from backends[i].Key",
		Floor: 5, MustExist: true, Run: runR128,
	})
}

// rootAlloc follows FieldAddr/IndexAddr chains down to the Alloc they address.
func rootAlloc(v ssa.Value) *ssa.Alloc {
	for i := 0; i < 8; i++ {
		switch x := v.(type) {
		case *ssa.Alloc:
			return x
		case *ssa.FieldAddr:
			v = x.X
		case *ssa.IndexAddr:
			v = x.X
		case *ssa.Slice:
			v = x.X
		default:
			return nil
		}
	}
	return nil
}

// literalStores: field name -> value stored, for a composite literal built in
// the cell (or varargs array) that v points into.
func literalStores(fn *ssa.Function, v ssa.Value) map[string]ssa.Value {
	al := rootAlloc(v)
	if al == nil {
		return nil
	}
	out := map[string]ssa.Value{}
	allInstrs(fn, func(ins ssa.Instruction) {
		st, ok := ins.(*ssa.Store)
		if !ok || rootAlloc(st.Addr) != al {
			return
		}
		if fa, ok := st.Addr.(*ssa.FieldAddr); ok {
			out[fieldOf(fa).Name()] = st.Val
		} else {
			// a whole struct stored into the array element: look through
			if u, ok := st.Val.(*ssa.UnOp); ok && u.Op == token.MUL {
				for k, x := range literalStores(fn, u.X) {
					out[k] = x
				}
			}
		}
	})
	return out
}

func nextsOf(fn *ssa.Function, v ssa.Value) map[*ssa.Next]bool {
	out := map[*ssa.Next]bool{}
	deepSlice(fn, v, func(x ssa.Value) bool {
		if n, ok := x.(*ssa.Next); ok {
			out[n] = true
			return false
		}
		return true
	})
	return out
}

func runR127(c *Ctx) {
	bare := c.Method(configurationRel, "simpleNestedBlobAccessCreator", "newNestedBlobAccessBare")
	shardT := c.LookupType(shardingRel, "Shard")
	backT := c.LookupType(shardingRel, "ShardBackend")
	if bare == nil || shardT == nil || backT == nil {
		c.Broken("newNestedBlobAccessBare / sharding.Shard / sharding.ShardBackend not found")
		return
	}
	name := FuncName(bare)
	type app struct {
		call   *ssa.Call
		fields map[string]ssa.Value
	}
	var shards, backs []app
	allInstrs(bare, func(ins ssa.Instruction) {
		cl, ok := ins.(*ssa.Call)
		if !ok {
			return
		}
		bi, ok := cl.Call.Value.(*ssa.Builtin)
		if !ok || bi.Name() != "append" {
			return
		}
		sl, ok := cl.Type().Underlying().(*types.Slice)
		if !ok {
			return
		}
		a := app{cl, literalStores(bare, cl.Call.Args[1])}
		switch {
		case types.Identical(sl.Elem(), shardT):
			shards = append(shards, a)
		case types.Identical(sl.Elem(), backT):
			backs = append(backs, a)
		}
	})
	if len(shards) != 1 || len(backs) != 1 {
		c.Fail(name, "lock-step", c.Pos(bare.Pos()), "expected exactly one append to the []Shard and one to the []ShardBackend handed to the sharding constructors")
		return
	}
	s, b := shards[0], backs[0]
	one := func(m map[*ssa.Next]bool) *ssa.Next {
		if len(m) != 1 {
			return nil
		}
		for n := range m {
			return n
		}
		return nil
	}
	sk, sw := one(nextsOf(bare, s.fields["Key"])), one(nextsOf(bare, s.fields["Weight"]))
	bk, bb := one(nextsOf(bare, b.fields["Key"])), one(nextsOf(bare, b.fields["Backend"]))
	c.Check(sk != nil && sk == sw, name, "shard-entry", c.Pos(s.call.Pos()), "a shard's key and weight come from one map entry", "the Key and Weight of an appended Shard do not come from one and the same iteration of the range over the configured shards")
	c.Check(bk != nil && bk == bb, name, "backend-entry", c.Pos(b.call.Pos()), "a backend and its key come from one map entry", "the Backend and Key of an appended ShardBackend do not come from one and the same iteration of the range over the configured shards")
	c.Check(sk != nil && sk == bk, name, "lock-step", c.Pos(s.call.Pos()), "shards[i] and backends[i] are appended in the same iteration", "the []Shard and the []ShardBackend are filled in different iterations (two separate ranges over a map visit the entries in different random orders): the index the selector returns for key K addresses the backend of another key, differently on every start")
	// the lists are not touched again before they reach the constructors: the
	// weights the selector sees are the configured ones
	for _, lst := range []struct {
		a    app
		what string
	}{{s, "shard"}, {b, "backend"}} {
		alias := map[ssa.Value]bool{ssa.Value(lst.a.call): true}
		for changed := true; changed; {
			changed = false
			allInstrs(bare, func(ins ssa.Instruction) {
				v, ok := ins.(ssa.Value)
				if !ok || alias[v] {
					return
				}
				switch x := ins.(type) {
				case *ssa.Phi:
					for _, e := range x.Edges {
						if alias[e] {
							alias[v], changed = true, true
						}
					}
				case *ssa.Slice:
					if alias[x.X] {
						alias[v], changed = true, true
					}
				}
			})
		}
		var badStore *ssa.Store
		allInstrs(bare, func(ins ssa.Instruction) {
			st, ok := ins.(*ssa.Store)
			if !ok || badStore != nil {
				return
			}
			a := st.Addr
			for i := 0; i < 4; i++ {
				switch x := a.(type) {
				case *ssa.FieldAddr:
					a = x.X
					continue
				case *ssa.IndexAddr:
					if alias[x.X] {
						badStore = st
					}
				}
				break
			}
		})
		c.Check(badStore == nil, name, lst.what+"-list-untouched", c.Pos(func() token.Pos {
			if badStore != nil {
				return badStore.Pos()
			}
			return lst.a.call.Pos()
		}()), "elements are not rewritten after they were appended", "an element of the "+lst.what+" list is rewritten after it was appended (for example weights rescaled across all shards): a shard's effective weight then depends on the other shards, so removing or adding one shard re-routes objects between shards that were not touched")
	}
	// and the two appends are unconditional relative to each other: both in the same loop, neither skipped on a non-error path
	if sk != nil && sk == bk {
		hdr := sk.Block()
		c.Check(hdr.Dominates(s.call.Block()) && hdr.Dominates(b.call.Block()), name, "lock-step-dominance", c.Pos(b.call.Pos()), "both appends are inside that loop", "an append is outside the loop")
	}
}

func runR128(c *Ctx) {
	T := c.LookupType(shardingRel, "shardingBlobAccess")
	bufT := c.LookupType(bufferRel, "Buffer")
	if T == nil || bufT == nil {
		c.Broken("shardingBlobAccess / buffer.Buffer not found")
		return
	}
	// backendIndex: v is (a load of) backends[idx].<field>; returns idx
	backendElem := func(g *ssa.Function, v ssa.Value, field string) (ssa.Value, bool) {
		f, base := loadedField(v)
		if f == nil || f.Name() != field {
			return nil, false
		}
		ia, ok := base.(*ssa.IndexAddr)
		if !ok {
			// `backend := &ba.backends[index]` taken outside a function literal and captured by it
			if org := captureOrigin(g, base); org != nil {
				ia, ok = org.(*ssa.IndexAddr)
			}
		}
		if !ok {
			return nil, false
		}
		if recvFieldLoadName(ia.Parent(), ia.X) != "backends" && recvFieldLoadName(g, ia.X) != "backends" {
			return nil, false
		}
		return ia.Index, true
	}
	sameIdx := func(g *ssa.Function, a, b ssa.Value) bool {
		return sameSource(a, b) || sameSource(captureOrigin(g, a), captureOrigin(g, b))
	}
	keyOfIdx := func(g *ssa.Function, v ssa.Value, idx ssa.Value) bool {
		found := false
		deepSlice(g, v, func(x ssa.Value) bool {
			if i2, ok := backendElem(g, x, "Key"); ok && sameIdx(g, idx, i2) {
				found = true
				return false
			}
			return !found
		})
		return found
	}
	for _, tf := range c.pkgFuncs(shardingRel) {
		if tf.Signature.Recv() == nil {
			continue
		}
		rt := tf.Signature.Recv().Type()
		if p, ok := rt.(*types.Pointer); ok {
			rt = p.Elem()
		}
		if !types.Identical(rt, T) {
			continue
		}
		withAnon(tf, func(g *ssa.Function) {
			name := FuncName(g)
			allInstrs(g, func(ins ssa.Instruction) {
				cl, ok := ins.(*ssa.Call)
				if !ok || !cl.Call.IsInvoke() {
					return
				}
				idx, ok := backendElem(g, cl.Call.Value, "Backend")
				if !ok {
					return
				}
				res := cl.Call.Signature().Results()
				site := cl.Call.Method.Name()
				if res.Len() == 1 && types.Identical(res.At(0).Type(), bufT) {
					bad := ""
					for _, r := range *cl.Referrers() {
						wc, ok := r.(*ssa.Call)
						if !ok || !isPkgFuncCall(wc.Common(), modPath+"/"+bufferRel, "WithErrorHandler") || wc.Call.Args[0] != ssa.Value(cl) {
							bad = "the buffer read from a shard is used without buffer.WithErrorHandler"
							continue
						}
						mi, ok := wc.Call.Args[1].(*ssa.MakeInterface)
						if !ok {
							bad = "the error handler is not a shardKeyAddingErrorHandler literal"
							continue
						}
						if n, ok := mi.X.Type().(*types.Named); !ok || n.Obj().Name() != "shardKeyAddingErrorHandler" {
							bad = "the error handler is not a shardKeyAddingErrorHandler"
							continue
						}
						if !keyOfIdx(g, mi.X, idx) {
							bad = "the error handler is not built from the key of the shard that is read"
						}
					}
					c.Check(bad == "", name, site+"-key", c.Pos(cl.Pos()), "read errors carry this shard's key", bad+": a failure of this shard is reported without (or with another shard's) key")
					return
				}
				if res.Len() == 0 || !isErrorType(res.At(res.Len()-1).Type()) {
					return
				}
				// the error value(s)
				var errVals []ssa.Value
				if res.Len() == 1 {
					errVals = []ssa.Value{cl}
				} else {
					for _, r := range *cl.Referrers() {
						if ex, ok := r.(*ssa.Extract); ok && ex.Index == res.Len()-1 {
							errVals = append(errVals, ex)
						}
					}
				}
				bad := ""
				seen := map[ssa.Value]bool{}
				var visit func(v ssa.Value)
				visit = func(v ssa.Value) {
					if seen[v] {
						return
					}
					seen[v] = true
					refs := v.Referrers()
					if refs == nil {
						return
					}
					for _, r := range *refs {
						switch u := r.(type) {
						case *ssa.BinOp:
							if _, _, isNil := nilTest(u); !isNil {
								bad = "compared with something other than nil"
							}
						case *ssa.Phi:
							visit(u)
						case *ssa.Call:
							o := calleeObjOf(u.Common())
							if o == nil || o.Pkg() == nil || o.Pkg().Path() != modPath+"/pkg/util" || (o.Name() != "StatusWrapf" && o.Name() != "StatusWrap" && o.Name() != "StatusWrapfWithCode" && o.Name() != "StatusWrapWithCode") {
								bad = "passed on unwrapped"
								continue
							}
							hasKey := false
							for _, a := range u.Call.Args[1:] {
								if keyOfIdx(g, a, idx) {
									hasKey = true
								}
							}
							if !hasKey {
								bad = "wrapped without the key of the shard that failed"
							}
						case *ssa.DebugRef:
						default:
							bad = "returned or stored unwrapped"
						}
					}
				}
				for _, e := range errVals {
					visit(e)
				}
				c.Check(bad == "", name, site+"-key", c.Pos(cl.Pos()), "the shard's error is only tested for nil or wrapped with its key", "the error of "+site+" on a shard is "+bad+": the failure reaches the caller without the shard key")
			})
		})
	}
}

// ---------------------------------------------------------------------------
// R16.5, R16.6

func init() {
	register(&Rule{
		ID: "R16.5", Props: []string{"C16", "C15"}, Engine: "typestate (path automaton over the reader field)",
		Text:  "a failed stream is closed exactly once: in errorHandlingReader.Read and errorHandlingChunkReader.Read, once the current underlying reader (the field the read goes through) has been closed, every path installs a replacement in that field before the method returns, loops or touches the field again – otherwise the reader's own Close would close the same stream a second time and its handler would see Done twice",
		Floor: 2, MustExist: true, Run: runR165,
	})
	register(&Rule{
		ID: "R16.6", Props: []string{"C16", "C09"}, Engine: "algebraic shape (SSA operands)",
		Text:  "a stream opened at an offset ends at the end of the object: for every io.NewSectionReader(r, off, n) in package buffer, off + n equals the buffer's size field – off is the constant 0 and n the size, or n is the size minus that very off",
		Floor: 1, MustExist: true, Run: runR166,
	})
}

func runR165(c *Ctx) {
	for _, typ := range []string{"errorHandlingReader", "errorHandlingChunkReader"} {
		fn := c.Method(bufferRel, typ, "Read")
		if fn == nil {
			c.Broken("%s.Read not found", typ)
			continue
		}
		name := FuncName(fn)
		ops := underlyingReadCalls(fn)
		if len(ops) != 1 {
			c.Fail(name, "close-once", c.Pos(fn.Pos()), "expected exactly one underlying read")
			continue
		}
		rf, _ := loadedField(ops[0].Call.Value)
		isR := func(v ssa.Value) bool {
			f, base := loadedField(v)
			if f != rf {
				return false
			}
			if ins, ok := v.(ssa.Instruction); ok && ins.Parent() != nil {
				return isReceiverValue(ins.Parent(), base)
			}
			return isReceiverValue(fn, base)
		}
		bad := ""
		var badPos token.Pos
		nClose := 0
		// 0: current reader open; 1: closed, no replacement installed yet
		explorePaths(&pathSpec{Fn: fn, Init: 0, Inline: inlineOwnMethods,
			Step: func(st int, ev pathEvent) int {
				if ev.Ins == nil {
					return st
				}
				if s, ok := ev.Ins.(*ssa.Store); ok {
					if f := fieldOf(s.Addr); f == rf {
						return 0
					}
					return st
				}
				cl, ok := ev.Ins.(*ssa.Call)
				if !ok || !cl.Call.IsInvoke() || !isR(cl.Call.Value) {
					return st
				}
				if st == 1 && bad == "" {
					bad, badPos = "the underlying reader is used ("+cl.Call.Method.Name()+") after it was closed and before a replacement was installed", cl.Pos()
				}
				if cl.Call.Method.Name() == "Close" {
					nClose++
					return 1
				}
				return st
			},
			AtReturn: func(st int, r *ssa.Return, _ map[int]bool) {
				if st == 1 && bad == "" {
					bad, badPos = "Read returns with the closed reader still installed: the consumer's Close() closes that stream a second time (and a nested handler is told Done twice)", r.Pos()
				}
			}})
		if nClose == 0 {
			c.Fail(name, "close-once", c.Pos(fn.Pos()), "the failed reader is never closed when it is replaced")
			continue
		}
		if bad != "" {
			c.Fail(name, "close-once", c.Pos(badPos), bad)
		} else {
			c.Pass(name, "close-once", c.Pos(ops[0].Pos()), "a closed reader is always replaced before it can be touched again")
		}
	}
}

func runR166(c *Ctx) {
	for _, tf := range c.pkgFuncs(bufferRel) {
		withAnon(tf, func(f *ssa.Function) {
			allInstrs(f, func(ins ssa.Instruction) {
				cl, ok := ins.(*ssa.Call)
				if !ok || !isPkgFuncCall(cl.Common(), "io", "NewSectionReader") {
					return
				}
				off, n := stripConv(cl.Call.Args[1]), stripConv(cl.Call.Args[2])
				isSize := func(v ssa.Value) bool {
					fld, base := loadedField(stripConv(v))
					return fld != nil && isReceiverValue(f, base) && (fld.Name() == "sizeBytes" || fld.Name() == "size")
				}
				good := false
				if k, isC := constInt(off); isC && k == 0 {
					good = isSize(n)
				} else if bo, isB := n.(*ssa.BinOp); isB && bo.Op == token.SUB {
					good = isSize(bo.X) && sameSource(stripConv(bo.Y), off)
				}
				c.Check(good, FuncName(f), "section-end", c.Pos(cl.Pos()), "offset + length = object size", "the section handed out starts at an offset but its length is not (size − offset): the stream continues past the end of the object (into whatever follows it in the backing store) or stops early")
			})
		})
	}
}

// ---------------------------------------------------------------------------
// R18.6, R18.7

func init() {
	register(&Rule{
		ID: "R18.6", Props: []string{"C18"}, Engine: "local alias analysis (SSA)",
		Text:  "Authorize never writes into its caller's list of instance names: in every implementation of auth.Authorizer.Authorize, no value that may share the backing array of the instanceNames parameter (the parameter, sub-slices of it, phis and appends over those) is appended to (unless its capacity was clipped), stored through, or used as the destination of copy – the authorizing BlobAccess and the gRPC layer go on to use that list after the call",
		Floor: 4, MustExist: true, Run: runR186,
	})
	register(&Rule{
		ID: "R18.7", Props: []string{"C18"}, Engine: "origin analysis (SSA)",
		Text:  "the verdict list returned by Authorize belongs to the caller: every value returned by an implementation of Authorize is allocated during the call (make, a literal, appends onto those or onto nil) or is the list returned by another Authorizer – never a package-level variable, a field of the authorizer or the instanceNames argument; anyAuthorizer overwrites elements of the list it got from its first member, so a shared list would leak one request's verdicts into another's",
		Floor: 4, MustExist: true, Run: runR187,
	})
}

// authorizeImpls: all source methods named Authorize with the signature of
// auth.Authorizer.Authorize.
func authorizeImpls(c *Ctx) []*ssa.Function {
	im := c.IfaceMethod("pkg/auth", "Authorizer", "Authorize")
	if im == nil {
		return nil
	}
	want := im.Type().(*types.Signature)
	var out []*ssa.Function
	for _, f := range c.Funcs {
		if f.Parent() != nil || f.Name() != "Authorize" || f.Signature.Recv() == nil || len(f.Blocks) == 0 {
			continue
		}
		if f.Signature.Params().Len() != want.Params().Len() || f.Signature.Results().Len() != want.Results().Len() {
			continue
		}
		same := true
		for i := 0; i < want.Params().Len(); i++ {
			if !types.Identical(f.Signature.Params().At(i).Type(), want.Params().At(i).Type()) {
				same = false
			}
		}
		for i := 0; i < want.Results().Len(); i++ {
			if !types.Identical(f.Signature.Results().At(i).Type(), want.Results().At(i).Type()) {
				same = false
			}
		}
		if same {
			out = append(out, f)
		}
	}
	sortFuncs(out)
	return out
}

func sortFuncs(fs []*ssa.Function) {
	for i := 1; i < len(fs); i++ {
		for j := i; j > 0 && FuncName(fs[j]) < FuncName(fs[j-1]); j-- {
			fs[j], fs[j-1] = fs[j-1], fs[j]
		}
	}
}

func isAppend(v ssa.Value) (*ssa.Call, bool) {
	cl, ok := v.(*ssa.Call)
	if !ok {
		return nil, false
	}
	bi, ok := cl.Call.Value.(*ssa.Builtin)
	return cl, ok && bi.Name() == "append"
}

func runR186(c *Ctx) {
	impls := authorizeImpls(c)
	if len(impls) == 0 {
		c.Broken("no implementation of auth.Authorizer.Authorize found")
		return
	}
	for _, fn := range impls {
		name := FuncName(fn)
		param := ssa.Value(fn.Params[len(fn.Params)-1])
		// may-alias set (fixpoint); clipped: values whose capacity equals their length by construction
		alias := map[ssa.Value]bool{param: true}
		clipped := map[ssa.Value]bool{}
		for changed := true; changed; {
			changed = false
			allInstrs(fn, func(ins ssa.Instruction) {
				v, ok := ins.(ssa.Value)
				if !ok || alias[v] {
					return
				}
				add := false
				switch x := ins.(type) {
				case *ssa.Slice:
					if alias[x.X] {
						add = true
						if x.Max != nil && x.High != nil && sameSource(x.Max, x.High) {
							clipped[v] = true
						}
					}
				case *ssa.Phi:
					for _, e := range x.Edges {
						if alias[e] {
							add = true
						}
					}
				case *ssa.ChangeType:
					add = alias[x.X]
				case *ssa.Call:
					if cl, isApp := isAppend(x); isApp && alias[cl.Call.Args[0]] && !clipped[cl.Call.Args[0]] {
						add = true
					}
				}
				if add {
					alias[v] = true
					changed = true
				}
			})
		}
		bad := ""
		var badPos token.Pos
		allInstrs(fn, func(ins ssa.Instruction) {
			switch x := ins.(type) {
			case *ssa.Call:
				if cl, isApp := isAppend(x); isApp && alias[cl.Call.Args[0]] && !clipped[cl.Call.Args[0]] && bad == "" {
					bad, badPos = "appends to a slice that shares the backing array of the instanceNames argument", x.Pos()
				}
				if bi, ok := x.Call.Value.(*ssa.Builtin); ok && bi.Name() == "copy" && alias[x.Call.Args[0]] && bad == "" {
					bad, badPos = "copies into the instanceNames argument", x.Pos()
				}
			case *ssa.Store:
				if ia, ok := x.Addr.(*ssa.IndexAddr); ok && alias[ia.X] && bad == "" {
					bad, badPos = "stores into an element of the instanceNames argument", x.Pos()
				}
			}
		})
		if bad != "" {
			c.Fail(name, "input-untouched", c.Pos(badPos), "Authorize "+bad+": the caller's list is rewritten while the caller still uses it (the names it goes on to act on are no longer the names that were authorized)")
		} else {
			c.Pass(name, "input-untouched", c.Pos(fn.Pos()), "the instanceNames argument is only read")
		}
	}
}

func runR187(c *Ctx) {
	impls := authorizeImpls(c)
	if len(impls) == 0 {
		c.Broken("no implementation of auth.Authorizer.Authorize found")
		return
	}
	im := c.IfaceMethod("pkg/auth", "Authorizer", "Authorize")
	for _, fn := range impls {
		name := FuncName(fn)
		bad := ""
		seen := map[ssa.Value]bool{}
		var origin func(v ssa.Value)
		origin = func(v ssa.Value) {
			if seen[v] || bad != "" {
				return
			}
			seen[v] = true
			v = stripConv(v)
			switch x := v.(type) {
			case *ssa.Const:
				// nil
			case *ssa.MakeSlice:
			case *ssa.Phi:
				for _, e := range x.Edges {
					origin(e)
				}
			case *ssa.Slice:
				if al, ok := x.X.(*ssa.Alloc); ok {
					_ = al // literal backing array allocated here
					return
				}
				origin(x.X)
			case *ssa.Call:
				if _, isApp := isAppend(x); isApp {
					origin(x.Call.Args[0])
					return
				}
				if x.Call.IsInvoke() && x.Call.Method == im {
					return
				}
				if sc := x.Call.StaticCallee(); sc != nil && sc.Name() == "Authorize" {
					return
				}
				bad = "the result of " + x.Call.String()
			case *ssa.Parameter:
				bad = "a parameter (" + x.Name() + ")"
			case *ssa.UnOp:
				if x.Op == token.MUL {
					switch a := x.X.(type) {
					case *ssa.Global:
						bad = "the package-level variable " + a.Name()
						return
					case *ssa.FieldAddr:
						bad = "the field " + fieldOf(a).Name()
						return
					case *ssa.Alloc:
						for _, s := range cellStores(a) {
							origin(s)
						}
						return
					}
				}
				bad = "a value the checker cannot classify (" + v.String() + ")"
			default:
				bad = "a value the checker cannot classify (" + v.String() + ")"
			}
		}
		var badPos token.Pos
		for _, r := range returnsOf(fn) {
			origin(r.Results[0])
			if bad != "" && badPos == token.NoPos {
				badPos = r.Pos()
			}
		}
		if bad != "" {
			c.Fail(name, "fresh-verdicts", c.Pos(badPos), "Authorize returns "+bad+" instead of a list allocated for this call: callers (anyAuthorizer) overwrite elements of the list they receive, so verdicts of one request leak into concurrent and later requests")
		} else {
			c.Pass(name, "fresh-verdicts", c.Pos(fn.Pos()), "every returned list is allocated during the call or comes from another Authorizer")
		}
	}
}

// ---------------------------------------------------------------------------
// R19.6

func init() {
	register(&Rule{
		ID: "R19.6", Props: []string{"C19"}, Engine: "loop-invariant edge facts (SSA)",
		Text:  "removing a name never cuts off another registered name: in InstanceNameTrie.Remove the edge that is finally deleted is the last one captured, and on every step where the walk keeps the previously captured edge instead of capturing the current node's, the current node is known (by the branch conditions on that very edge) to hold no value (value < 0) and to have at most one child – otherwise deleting the captured edge would drop that node's value or its other children",
		Floor: 1, MustExist: true, Run: runR196,
	})
}

func runR196(c *Ctx) {
	fn := c.Method(digestRel, "InstanceNameTrie", "Remove")
	if fn == nil {
		c.Broken("InstanceNameTrie.Remove not found")
		return
	}
	name := FuncName(fn)
	var del *ssa.Call
	allInstrs(fn, func(ins ssa.Instruction) {
		if cl, ok := ins.(*ssa.Call); ok {
			if bi, ok := cl.Call.Value.(*ssa.Builtin); ok && bi.Name() == "delete" {
				del = cl
			}
		}
	})
	if del == nil {
		c.Broken("InstanceNameTrie.Remove: no delete of a captured edge found (the rule is written for the iterative capture-and-cut form)")
		return
	}
	isHeader := func(b *ssa.BasicBlock) bool {
		for _, p := range b.Preds {
			if b.Dominates(p) {
				return true
			}
		}
		return false
	}
	// capture: a load of <node>.children ; returns the node
	captureOf := func(v ssa.Value) (ssa.Value, bool) {
		f, base := loadedField(v)
		if f != nil && f.Name() == "children" {
			return base, true
		}
		return nil, false
	}
	seen := map[*ssa.Phi]bool{}
	nDecisions := 0
	var walk func(v ssa.Value)
	walk = func(v ssa.Value) {
		phi, ok := v.(*ssa.Phi)
		if !ok || seen[phi] {
			return
		}
		seen[phi] = true
		blk := phi.Block()
		if isHeader(blk) {
			for _, e := range phi.Edges {
				walk(e)
			}
			return
		}
		// a decision point: which node would be captured here?
		var node ssa.Value
		for _, e := range phi.Edges {
			if n, ok := captureOf(e); ok {
				node = n
			}
		}
		for i, e := range phi.Edges {
			if _, ok := captureOf(e); ok {
				continue
			}
			walk(e)
			if node == nil {
				continue
			}
			nDecisions++
			p := blk.Preds[i]
			noValue, fewChildren := false, false
			isValue := func(x ssa.Value) bool {
				f, base := loadedField(x)
				return f != nil && f.Name() == "value" && sameSource(base, node)
			}
			isNChildren := func(x ssa.Value) bool {
				cl, ok := x.(*ssa.Call)
				if !ok {
					return false
				}
				bi, ok := cl.Call.Value.(*ssa.Builtin)
				if !ok || bi.Name() != "len" {
					return false
				}
				f, base := loadedField(cl.Call.Args[0])
				return f != nil && f.Name() == "children" && sameSource(base, node)
			}
			edgeFactsOn(p, blk, func(cond ssa.Value, val bool) bool {
				op, x, y, ok := normCmp(cond, val)
				if !ok {
					return true
				}
				if k, ok := cmpUpperBound(op, x, y, isValue); ok && k <= -1 {
					noValue = true
				}
				if k, ok := cmpUpperBound(op, x, y, isNChildren); ok && k <= 1 {
					fewChildren = true
				}
				return true
			})
			c.Check(noValue && fewChildren, name, "keep-edge", c.Pos(phi.Pos()), "the captured edge is kept only across nodes without a value and with at most one child", func() string {
				m := "the walk keeps the previously captured edge across a node that "
				switch {
				case !noValue && !fewChildren:
					m += "may hold a value and may have several children"
				case !noValue:
					m += "may itself hold a value"
				default:
					m += "may have other children"
				}
				return m + ": when the removed name ends in a leaf, the cut removes that node too, so a different, still registered instance name (a prefix of the removed one, or a sibling) silently disappears from the trie"
			}())
		}
	}
	walk(del.Call.Args[0])
	if nDecisions == 0 {
		c.Broken("InstanceNameTrie.Remove: no capture/keep decision found on the way to delete()")
	}
}

// ---------------------------------------------------------------------------
// R20.5

func init() {
	register(&Rule{
		ID: "R20.5", Props: []string{"C20", "C14"}, Engine: "difference-bound analysis (SSA, inductive over loop phis, call-site preconditions)",
		Text:  "truncated resource names cannot make the parsers panic: every index and re-slice of a []string in NewDigestFromByteStreamReadPath, NewDigestFromByteStreamWritePath, newDigestFromByteStreamPathCommon and NewInstanceNameFromComponents is proven in range from the length checks that dominate it (len(fields) < n returns, loop exit conditions, the minimum length both callers guarantee for the trailer, and the lengths that remain after trailer = trailer[k:])",
		Floor: 10, MustExist: true, Run: runR205,
	})
}

var r205Funcs = []string{"NewDigestFromByteStreamReadPath", "NewDigestFromByteStreamWritePath", "newDigestFromByteStreamPathCommon", "NewInstanceNameFromComponents"}

func runR205(c *Ctx) {
	bp := newBoundsProver(c, digestRel)
	for _, fnName := range r205Funcs {
		fn := c.Func(digestRel, fnName)
		if fn == nil {
			c.Broken("digest.%s not found", fnName)
			continue
		}
		withAnon(fn, func(g *ssa.Function) {
			for _, op := range bp.checkFunc(g) {
				c.Check(op.proven, FuncName(g), op.what+"-in-range", c.Pos(op.ins.Pos()), "in range on every path", "an "+op.what+" operation on a list of path components is not proven in range ("+op.why+"): a truncated or oddly shaped resource name reaches it with too few components and the server panics instead of answering INVALID_ARGUMENT")
			}
		})
	}
}

// ---------------------------------------------------------------------------
// R20.6

func init() {
	register(&Rule{
		ID: "R20.6", Props: []string{"C20", "C13"}, Engine: "abstract evaluation of comparisons over the rune domain (SSA)",
		Text:  "the hash alphabet is exactly lowercase hexadecimal: Function.NewDigest ranges over every character of the hash string before the digest is constructed, and evaluating the loop body's comparisons for every code point shows that the characters that do not lead to an error return are exactly 0-9 and a-f (an uppercase or otherwise non-canonical spelling of the same hash bytes would be a second, distinct key for one object)",
		Floor: 1, MustExist: true, Run: runR206,
	})
}

func runR206(c *Ctx) {
	top := c.Method(digestRel, "Function", "NewDigest")
	if top == nil {
		c.Broken("digest.Function.NewDigest not found")
		return
	}
	name := FuncName(top)
	stringParam := func(f *ssa.Function) ssa.Value {
		for _, p := range f.Params {
			if bt, ok := p.Type().Underlying().(*types.Basic); ok && bt.Kind() == types.String {
				return p
			}
		}
		return nil
	}
	findLoop := func(f *ssa.Function, str ssa.Value) *ssa.Next {
		var next *ssa.Next
		allInstrs(f, func(ins ssa.Instruction) {
			if n, ok := ins.(*ssa.Next); ok && n.IsString {
				if r, ok := n.Iter.(*ssa.Range); ok && r.X == str {
					next = n
				}
			}
		})
		return next
	}
	// the loop is in NewDigest itself, or in a validation helper that is
	// handed the hash and whose nil result guards the construction
	fn := top
	hash := stringParam(top)
	next := findLoop(top, hash)
	var helperCall *ssa.Call
	if next == nil && hash != nil {
		allInstrs(top, func(ins ssa.Instruction) {
			cl, ok := ins.(*ssa.Call)
			if !ok || next != nil {
				return
			}
			callee := cl.Call.StaticCallee()
			if callee == nil || len(callee.Blocks) == 0 || callee.Pkg != top.Pkg || errIndex(callee) < 0 {
				return
			}
			for k, a := range cl.Call.Args {
				if a == hash && k < len(callee.Params) {
					if n := findLoop(callee, callee.Params[k]); n != nil {
						next, fn, helperCall = n, callee, cl
					}
				}
			}
		})
	}
	if next == nil {
		c.Fail(name, "alphabet", c.Pos(top.Pos()), "NewDigest no longer examines the hash character by character: nothing establishes that only 0-9 and a-f are accepted (hex decoders accept A-F as well, giving one object several distinct digests)")
		return
	}
	loopPos := c.Pos(fn.Pos())
	if r, ok := next.Iter.(*ssa.Range); ok && r.Pos().IsValid() {
		loopPos = c.Pos(r.Pos())
	}
	var ch, okv ssa.Value
	for _, r := range *next.Referrers() {
		if ex, isEx := r.(*ssa.Extract); isEx {
			switch ex.Index {
			case 0:
				okv = ex
			case 2:
				ch = ex
			}
		}
	}
	hdr := next.Block()
	var body *ssa.BasicBlock
	if iff, isIf := hdr.Instrs[len(hdr.Instrs)-1].(*ssa.If); isIf && iff.Cond == okv {
		body = hdr.Succs[0]
	}
	if ch == nil || body == nil {
		c.Fail(name, "alphabet", loopPos, "the loop over the hash does not look at the characters")
		return
	}
	// every digest is returned only after the loop (or after the helper that contains it said nil)
	for _, r := range returnsOf(top) {
		if !isNilConst(returnedValue(r, len(r.Results)-1)) {
			continue
		}
		guarded := false
		if helperCall == nil {
			guarded = hdr.Dominates(r.Block())
		} else {
			guarded = dominatedByErrNil(r.Block(), helperCall)
		}
		if !guarded {
			c.Fail(name, "alphabet", c.Pos(r.Pos()), "a digest is returned on a path that bypasses the per-character validation")
			return
		}
	}
	if helperCall != nil {
		for _, r := range returnsOf(fn) {
			if isNilConst(returnedValue(r, errIndex(fn))) && !hdr.Dominates(r.Block()) {
				c.Fail(name, "alphabet", c.Pos(r.Pos()), "the validation helper can report success without having examined the characters")
				return
			}
		}
	}
	// abstract evaluation of the loop body for one code point: values are
	// computed along the path (phis from the edge taken)
	type aval struct {
		i     int64
		b     bool
		known bool
	}
	var dom []int64
	for r := int64(0); r < 0x100; r++ {
		dom = append(dom, r)
	}
	dom = append(dom, 0x100, 0x7FF, 0x800, 0xFFFD, 0xFFFF, 0x10000, 0x10FFFF)
	var wrong []string
	undecided := ""
	for _, r := range dom {
		env := map[ssa.Value]aval{ch: {i: r, known: true}}
		var eval func(v ssa.Value, depth int) aval
		eval = func(v ssa.Value, depth int) aval {
			if a, ok := env[v]; ok {
				return a
			}
			if depth > 12 {
				return aval{}
			}
			switch x := v.(type) {
			case *ssa.Const:
				if k, ok := constInt(x); ok {
					return aval{i: k, known: true}
				}
				if x.Value != nil && x.Value.Kind() == constant.Bool {
					return aval{b: constant.BoolVal(x.Value), known: true}
				}
			case *ssa.Convert:
				return eval(x.X, depth+1)
			case *ssa.ChangeType:
				return eval(x.X, depth+1)
			case *ssa.UnOp:
				if x.Op == token.NOT {
					a := eval(x.X, depth+1)
					return aval{b: !a.b, known: a.known}
				}
			case *ssa.BinOp:
				a, b := eval(x.X, depth+1), eval(x.Y, depth+1)
				if !a.known || !b.known {
					return aval{}
				}
				switch x.Op {
				case token.LSS:
					return aval{b: a.i < b.i, known: true}
				case token.LEQ:
					return aval{b: a.i <= b.i, known: true}
				case token.GTR:
					return aval{b: a.i > b.i, known: true}
				case token.GEQ:
					return aval{b: a.i >= b.i, known: true}
				case token.EQL:
					if isBoolType(x.X) {
						return aval{b: a.b == b.b, known: true}
					}
					return aval{b: a.i == b.i, known: true}
				case token.NEQ:
					if isBoolType(x.X) {
						return aval{b: a.b != b.b, known: true}
					}
					return aval{b: a.i != b.i, known: true}
				case token.SUB:
					return aval{i: a.i - b.i, known: true}
				case token.ADD:
					return aval{i: a.i + b.i, known: true}
				}
			}
			return aval{}
		}
		b, prev := body, hdr
		accepted, decided := false, false
		for steps := 0; steps < 128 && !decided; steps++ {
			if b == hdr {
				accepted, decided = true, true
				break
			}
			// phis of b from the edge prev -> b
			idx := -1
			for k, p := range b.Preds {
				if p == prev {
					idx = k
				}
			}
			for _, ins := range b.Instrs {
				phi, ok := ins.(*ssa.Phi)
				if !ok {
					break
				}
				if idx >= 0 {
					env[phi] = eval(phi.Edges[idx], 0)
				}
			}
			last := b.Instrs[len(b.Instrs)-1]
			switch t := last.(type) {
			case *ssa.If:
				v := eval(t.Cond, 0)
				if !v.known {
					undecided = c.Pos(t.Cond.Pos())
					if undecided == "?" {
						undecided = loopPos
					}
					decided = true
					break
				}
				prev = b
				if v.b {
					b = b.Succs[0]
				} else {
					b = b.Succs[1]
				}
			case *ssa.Jump:
				prev, b = b, b.Succs[0]
			case *ssa.Return:
				accepted, decided = isNilConst(returnedValue(t, len(t.Results)-1)), true
			default:
				undecided, decided = loopPos, true
			}
		}
		if !decided && undecided == "" {
			undecided = loopPos
		}
		if undecided != "" {
			break
		}
		want := (r >= '0' && r <= '9') || (r >= 'a' && r <= 'f')
		if accepted != want {
			if accepted {
				wrong = append(wrong, "accepts "+runeDesc(r))
			} else {
				wrong = append(wrong, "rejects "+runeDesc(r))
			}
		}
	}
	if undecided != "" {
		c.Fail(name, "alphabet", undecided, "the per-character validation of the hash contains a test the checker cannot evaluate over the rune domain; the accepted alphabet is not established")
		return
	}
	if len(wrong) > 0 {
		if len(wrong) > 6 {
			wrong = append(wrong[:6], "…")
		}
		c.Fail(name, "alphabet", loopPos, "the per-character validation "+joinComma(wrong)+": the accepted hash alphabet is not exactly 0-9a-f")
		return
	}
	c.Pass(name, "alphabet", loopPos, "accepted characters are exactly 0-9a-f (263 code points evaluated)")
}

func runeDesc(r int64) string {
	if r >= 0x21 && r < 0x7f {
		return "'" + string(rune(r)) + "'"
	}
	return "U+" + hex4(r)
}

func hex4(r int64) string {
	const d = "0123456789ABCDEF"
	s := ""
	for i := 20; i >= 0; i -= 4 {
		s += string(d[(r>>uint(i))&15])
	}
	for len(s) > 4 && s[0] == '0' {
		s = s[1:]
	}
	return s
}

func joinComma(s []string) string {
	out := ""
	for i, x := range s {
		if i > 0 {
			out += ", "
		}
		out += x
	}
	return out
}

// ---------------------------------------------------------------------------
// R19.7

func init() {
	register(&Rule{
		ID: "R19.7", Props: []string{"C19", "C20"}, Engine: "difference-bound analysis (SSA)",
		Text:  "prefix rewriting never produces a name with a trailing slash: in patchInstanceName the remainder i[n:] is appended to the replacement prefix only where the dominating checks imply len(i) > n, i.e. the remainder is non-empty; the name that equals the old prefix exactly is answered with the slash-less replacement",
		Floor: 1, MustExist: true, Run: runR197,
	})
}

func runR197(c *Ctx) {
	fn := c.Func(digestRel, "patchInstanceName")
	if fn == nil {
		c.Broken("digest.patchInstanceName not found")
		return
	}
	bp := newBoundsProver(c, digestRel)
	n := 0
	allInstrs(fn, func(ins ssa.Instruction) {
		bo, ok := ins.(*ssa.BinOp)
		if !ok || bo.Op != token.ADD {
			return
		}
		sl, ok := bo.Y.(*ssa.Slice)
		if !ok || sl.High != nil || sl.Low == nil {
			return
		}
		if bt, ok := sl.X.Type().Underlying().(*types.Basic); !ok || bt.Info()&types.IsString == 0 {
			return
		}
		n++
		lo := bp.norm(sl.Low)
		ln := bAtom{lenOf: canonSlice(sl.X)}
		ok = bp.prove(lo.a, ln, -1-lo.k, bp.factsAt(bo.Block()), map[string]int64{})
		c.Check(ok, FuncName(fn), "non-empty-remainder", c.Pos(bo.Pos()), "the remainder appended to the prefix is non-empty", "the remainder of the name is appended to the replacement prefix without a dominating check that it is non-empty (len(name) > prefix length): a name equal to the old prefix is rewritten to the new prefix plus a trailing '/', which is not a valid instance name and matches no backend and no stored key")
	})
	if n == 0 {
		c.Broken("patchInstanceName: no prefix + remainder concatenation found")
	}
}

// ---------------------------------------------------------------------------
// R15.5

func init() {
	register(&Rule{
		ID: "R15.5", Props: []string{"C15"}, Engine: "counting conservation (SSA shape + call-site table)",
		Text:  "the multiplexer counts its consumers correctly: readAndShareWithOthers sends the result to every waiting consumer (a complete range over the waiting list), then expects for the next round exactly the consumers it just served plus its argument, and empties the waiting list; Read – whose caller stays – passes 1, Close – whose caller leaves – passes 0, and nothing else calls it; a consumer that has left must not be waited for, or the remaining consumers block forever",
		Floor: 4, MustExist: true, Run: runR155,
	})
}

func runR155(c *Ctx) {
	helper := c.Method(bufferRel, "multiplexedChunkReader", "readAndShareWithOthers")
	T := c.LookupType(bufferRel, "multiplexedChunkReader")
	if helper == nil || T == nil || len(helper.Params) != 2 {
		c.Broken("multiplexedChunkReader.readAndShareWithOthers(int) not found")
		return
	}
	hname := FuncName(helper)
	isFieldLoad := func(v ssa.Value, name string) bool {
		f, base := loadedField(v)
		return f != nil && f.Name() == name && isReceiverValue(helper, base)
	}
	// next round's expectation
	var pendStore, waitStore *ssa.Store
	allInstrs(helper, func(ins ssa.Instruction) {
		if st, ok := ins.(*ssa.Store); ok {
			if f := fieldOf(st.Addr); f != nil {
				switch f.Name() {
				case "pendingConsumers":
					pendStore = st
				case "waitingConsumers":
					waitStore = st
				}
			}
		}
	})
	okPend := false
	if pendStore != nil {
		if bo, ok := pendStore.Val.(*ssa.BinOp); ok && bo.Op == token.ADD {
			isLenW := func(v ssa.Value) bool {
				cl, ok := v.(*ssa.Call)
				if !ok {
					return false
				}
				bi, ok := cl.Call.Value.(*ssa.Builtin)
				return ok && bi.Name() == "len" && isFieldLoad(cl.Call.Args[0], "waitingConsumers")
			}
			p := ssa.Value(helper.Params[1])
			okPend = (isLenW(bo.X) && bo.Y == p) || (isLenW(bo.Y) && bo.X == p)
		}
	}
	posOf := func(st *ssa.Store) string {
		if st != nil {
			return c.Pos(st.Pos())
		}
		return c.Pos(helper.Pos())
	}
	c.Check(okPend, hname, "next-round", posOf(pendStore), "pending := served waiters + argument", "the number of consumers expected for the next round is not (number of waiting consumers just served) + (the argument saying whether the caller continues)")
	okWait := false
	if waitStore != nil && pendStore != nil {
		if sl, ok := waitStore.Val.(*ssa.Slice); ok && isFieldLoad(sl.X, "waitingConsumers") && sl.High != nil {
			if k, isC := constInt(sl.High); isC && k == 0 {
				// emptied after the count was taken
				okWait = instrDominates(pendStore, waitStore)
			}
		}
		if isNilConst(waitStore.Val) {
			okWait = instrDominates(pendStore, waitStore)
		}
	}
	c.Check(okWait, hname, "waiters-reset", posOf(waitStore), "the waiting list is emptied after it was counted", "the waiting list is not emptied after being counted (or is emptied before): served consumers would be served twice or miscounted")
	// every waiter is served
	served := false
	allInstrs(helper, func(ins ssa.Instruction) {
		snd, ok := ins.(*ssa.Send)
		if !ok {
			return
		}
		X, idx, isElem := rangeElemOf(snd.Chan)
		if isElem && isFieldLoad(X, "waitingConsumers") && isFullRangeIndex(idx, X) {
			served = true
		}
	})
	c.Check(served, hname, "serve-all", c.Pos(helper.Pos()), "every waiting consumer receives the result", "the result is not sent to every waiting consumer (a complete range over the waiting list)")
	// call sites
	want := map[string]int64{"Read": 1, "Close": 0}
	seen := map[string]bool{}
	for _, tf := range c.pkgFuncs(bufferRel) {
		withAnon(tf, func(g *ssa.Function) {
			allInstrs(g, func(ins ssa.Instruction) {
				cc := callOf(ins)
				if cc == nil || cc.StaticCallee() != helper {
					return
				}
				top := topFunc(g)
				isMethod := top.Signature.Recv() != nil && isReceiverValue(g, cc.Args[0])
				w, known := want[top.Name()]
				if !isMethod || !known {
					c.Fail(FuncName(g), "continues-flag", c.Pos(ins.Pos()), "readAndShareWithOthers is called from somewhere other than the multiplexer's own Read or Close")
					return
				}
				seen[top.Name()] = true
				k, isC := constInt(cc.Args[1])
				role := "stays a consumer (Read)"
				if w == 0 {
					role = "leaves (Close)"
				}
				c.Check(isC && k == w, FuncName(g), "continues-flag", c.Pos(ins.Pos()), "the caller "+role, "the caller "+role+" but is counted differently for the next round: "+map[int64]string{0: "the multiplexer keeps waiting for a consumer that is gone, so every remaining clone blocks forever in its next Read and the source is never closed", 1: "a consumer that is still reading is not waited for, so it misses data or the source is closed under it"}[w])
			})
		})
	}
	for n := range want {
		if !seen[n] {
			c.Fail(hname, "continues-flag", c.Pos(helper.Pos()), "multiplexedChunkReader."+n+" no longer reads on behalf of the waiting consumers")
		}
	}
}

// ---------------------------------------------------------------------------
// R14.6

func init() {
	register(&Rule{
		ID: "R14.6", Props: []string{"C14"}, Engine: "path automaton with nil-knowledge (SSA)",
		Text:  "a failed upload is never reported as stored: in every function of pkg/blobstore/grpcclients that returns an error, on a path on which some call's error was found to be non-nil (Send failed, the encoder could not be obtained, the reader failed …) the error returned is not one the same path has established to be nil (the nil constant, or the result of a call whose nil edge was taken) – `return err` must refer to the failure, not to an earlier, successful call's err that happens to be in scope",
		Floor: 8, MustExist: true, Run: runR146,
	})
}

func runR146(c *Ctx) {
	for _, tf := range c.pkgFuncs("pkg/blobstore/grpcclients") {
		withAnon(tf, func(fn *ssa.Function) {
			ei := errIndex(fn)
			if ei < 0 || fn.Blocks == nil {
				return
			}
			// error-producing values (call results) that are nil-tested
			var errVals []ssa.Value
			idxOf := func(v ssa.Value) int {
				for i, e := range errVals {
					if e == v {
						return i
					}
				}
				return -1
			}
			allInstrs(fn, func(ins ssa.Instruction) {
				iff, ok := ins.(*ssa.If)
				if !ok {
					return
				}
				cond := iff.Cond
				for {
					if u, ok := cond.(*ssa.UnOp); ok && u.Op == token.NOT {
						cond = u.X
						continue
					}
					break
				}
				x, _, isT := nilTest(cond)
				if !isT || !isErrorType(x.Type()) {
					return
				}
				switch x.(type) {
				case *ssa.Call, *ssa.Extract:
					if idxOf(x) < 0 && len(errVals) < 30 {
						errVals = append(errVals, x)
					}
				}
			})
			if len(errVals) == 0 {
				return
			}
			name := FuncName(fn)
			bad := ""
			var badPos token.Pos
			nFail := 0
			// state: bit 0 = a failure edge was taken; bit i+1 = errVals[i] known nil
			explorePaths(&pathSpec{Fn: fn, Init: 0,
				Step: func(st int, ev pathEvent) int {
					if ev.Cond == nil {
						// a value that is computed anew is no longer known
						if v, ok := ev.Ins.(ssa.Value); ok {
							for i, e := range errVals {
								if e == v {
									st &^= 1 << (uint(i) + 1)
								} else if ex, isEx := e.(*ssa.Extract); isEx && ex.Tuple == v {
									st &^= 1 << (uint(i) + 1)
								}
							}
						}
						return st
					}
					cnd, v := ev.Cond, ev.Val
					for {
						if u, ok := cnd.(*ssa.UnOp); ok && u.Op == token.NOT {
							cnd, v = u.X, !v
							continue
						}
						break
					}
					x, nilWhenTrue, isT := nilTest(cnd)
					if !isT {
						return st
					}
					i := idxOf(x)
					if i < 0 {
						return st
					}
					if nilWhenTrue == v {
						return st | 1<<(uint(i)+1)
					}
					return (st &^ (1 << (uint(i) + 1))) | 1
				},
				AtReturn: func(st int, r *ssa.Return, _ map[int]bool) {
					if st&1 == 0 {
						return
					}
					nFail++
					res := returnedValue(r, ei)
					known := isNilConst(res)
					if i := idxOf(res); i >= 0 && st&(1<<(uint(i)+1)) != 0 {
						known = true
					}
					if known && bad == "" {
						bad, badPos = "a path on which a call failed returns an error value that the same path has established to be nil", r.Pos()
					}
				}})
			if nFail == 0 {
				return
			}
			if bad != "" {
				c.Fail(name, "failure-reported", c.Pos(badPos), bad+": the caller is told the operation succeeded (for Put: that the object was stored) although the stream broke")
			} else {
				c.Pass(name, "failure-reported", c.Pos(fn.Pos()), "no failure path returns a provably nil error")
			}
		})
	}
}

// ---------------------------------------------------------------------------
// R18.5 (AST level: cmd/bb_storage does not type-check completely under
// plain `go build`, so there is no SSA for it; identifiers are still resolved
// through types.Info)

func init() {
	register(&Rule{
		ID: "R18.5", Props: []string{"C18"}, Engine: "wiring (AST + types.Info, cmd/bb_storage)",
		Text:  "only authorizing backends are served: in cmd/bb_storage every storage backend handed to a grpcservers.New…Server constructor is a variable that is only ever assigned the result of blobstore.NewAuthorizingBlobAccess (through the helper functions that build it); in those helpers the Get, Put and FindMissing authorizers given to NewAuthorizingBlobAccess are built from the GetAuthorizer, PutAuthorizer and FindMissingAuthorizer fields of the configuration, in that order, and NewAuthorizingBlobAccess stores them in the fields that Get/Put/FindMissing consult",
		Floor: 8, MustExist: true, Run: runR185,
	})
}

func runR185(c *Ctx) {
	pkg := c.Pkg("cmd/bb_storage")
	if pkg == nil || pkg.TypesInfo == nil {
		c.Broken("cmd/bb_storage not loaded")
		return
	}
	info := pkg.TypesInfo
	calleeOf := func(call *ast.CallExpr) types.Object {
		switch f := call.Fun.(type) {
		case *ast.Ident:
			return info.Uses[f]
		case *ast.SelectorExpr:
			return info.Uses[f.Sel]
		}
		return nil
	}
	isFunc := func(o types.Object, pkgRel, name string) bool {
		return o != nil && o.Pkg() != nil && o.Pkg().Path() == modPath+"/"+pkgRel && o.Name() == name
	}
	// definitions: variable object -> (call that defined it, tuple index)
	type def struct {
		call *ast.CallExpr
		idx  int
	}
	defs := map[types.Object]def{}
	assigns := map[types.Object][]ast.Expr{} // plain `v = expr`
	for _, f := range pkg.Syntax {
		ast.Inspect(f, func(n ast.Node) bool {
			as, ok := n.(*ast.AssignStmt)
			if !ok {
				return true
			}
			if len(as.Rhs) == 1 {
				if call, ok := as.Rhs[0].(*ast.CallExpr); ok && len(as.Lhs) >= 1 {
					for i, l := range as.Lhs {
						if id, ok := l.(*ast.Ident); ok {
							if o := info.Defs[id]; o != nil {
								defs[o] = def{call, i}
							} else if o := info.Uses[id]; o != nil && len(as.Lhs) == 1 {
								assigns[o] = append(assigns[o], as.Rhs[0])
							} else if o != nil {
								defs[o] = def{call, i} // re-assignment from a tuple
							}
						}
					}
					return true
				}
			}
			if len(as.Lhs) == len(as.Rhs) {
				for i, l := range as.Lhs {
					if id, ok := l.(*ast.Ident); ok {
						if o := info.Uses[id]; o != nil {
							assigns[o] = append(assigns[o], as.Rhs[i])
						}
					}
				}
			}
			return true
		})
	}
	// which configuration field an authorizer value was built from – through
	// local variables and through helper functions of this package that build
	// several authorizers and return them
	paramIndex := map[types.Object]int{}
	funcDecls := map[types.Object]*ast.FuncDecl{}
	for _, f := range pkg.Syntax {
		for _, d := range f.Decls {
			if fd, ok := d.(*ast.FuncDecl); ok && fd.Body != nil {
				funcDecls[info.Defs[fd.Name]] = fd
				i := 0
				for _, fld := range fd.Type.Params.List {
					for _, nm := range fld.Names {
						paramIndex[info.Defs[nm]] = i
						i++
					}
					if len(fld.Names) == 0 {
						i++
					}
				}
			}
		}
	}
	var roleOfExpr func(e ast.Expr, depth int) string
	roleOfExpr = func(e ast.Expr, depth int) string {
		if depth > 4 {
			return ""
		}
		switch x := e.(type) {
		case *ast.SelectorExpr:
			return x.Sel.Name
		case *ast.Ident:
			obj := info.Uses[x]
			if obj == nil {
				obj = info.Defs[x]
			}
			if i, ok := paramIndex[obj]; ok {
				return fmt.Sprintf("param:%d", i)
			}
			d, ok := defs[obj]
			if !ok {
				return ""
			}
			callee := calleeOf(d.call)
			if callee == nil {
				return ""
			}
			if callee.Name() == "NewAuthorizerFromConfiguration" && d.idx == 0 && len(d.call.Args) > 0 {
				return roleOfExpr(d.call.Args[0], depth+1)
			}
			fd := funcDecls[callee]
			if fd == nil {
				return ""
			}
			role := ""
			consistent := true
			ast.Inspect(fd.Body, func(n ast.Node) bool {
				if _, isLit := n.(*ast.FuncLit); isLit {
					return false
				}
				ret, ok := n.(*ast.ReturnStmt)
				if !ok || len(ret.Results) <= d.idx {
					return true
				}
				r := ret.Results[d.idx]
				if id, ok := r.(*ast.Ident); ok && id.Name == "nil" {
					return true
				}
				rr := roleOfExpr(r, depth+1)
				var k int
				if n, _ := fmt.Sscanf(rr, "param:%d", &k); n == 1 {
					if k < len(d.call.Args) {
						rr = roleOfExpr(d.call.Args[k], depth+1)
					} else {
						rr = ""
					}
				}
				if role == "" {
					role = rr
				} else if role != rr {
					consistent = false
				}
				return true
			})
			if !consistent {
				return ""
			}
			return role
		}
		return ""
	}
	// (1) helper functions returning NewAuthorizingBlobAccess(...) at result index j
	type helper struct {
		obj types.Object
		idx int
	}
	var helpers []helper
	want := []string{"", "GetAuthorizer", "PutAuthorizer", "FindMissingAuthorizer"}
	for _, f := range pkg.Syntax {
		for _, d := range f.Decls {
			fd, ok := d.(*ast.FuncDecl)
			if !ok || fd.Body == nil {
				continue
			}
			fname := "cmd/bb_storage." + fd.Name.Name
			ast.Inspect(fd.Body, func(n ast.Node) bool {
				if _, isLit := n.(*ast.FuncLit); isLit {
					return false
				}
				ret, ok := n.(*ast.ReturnStmt)
				if !ok {
					return true
				}
				for j, r := range ret.Results {
					call, ok := r.(*ast.CallExpr)
					if !ok || !isFunc(calleeOf(call), "pkg/blobstore", "NewAuthorizingBlobAccess") {
						continue
					}
					helpers = append(helpers, helper{info.Defs[fd.Name], j})
					for k := 1; k < len(call.Args) && k < len(want); k++ {
						a := call.Args[k]
						if id, ok := a.(*ast.Ident); ok && id.Name == "nil" && info.Uses[id] == types.Universe.Lookup("nil") {
							c.PassTrivial(fname, "authorizer-role-"+want[k], c.Pos(a.Pos()), "no authorizer for this operation")
							continue
						}
						good := roleOfExpr(a, 0) == want[k]
						c.Check(good, fname, "authorizer-role-"+want[k], c.Pos(a.Pos()), "built from configuration."+want[k], "the authorizer passed to NewAuthorizingBlobAccess in the position that guards "+want[k][:len(want[k])-len("Authorizer")]+"() is not the one built from configuration."+want[k]+": that operation is checked against another operation's policy")
					}
				}
				return true
			})
		}
	}
	if len(helpers) == 0 {
		c.Fail("cmd/bb_storage", "authorizing-helper", "-", "no function of cmd/bb_storage returns blobstore.NewAuthorizingBlobAccess(…)")
		return
	}
	isHelperResult := func(o types.Object) bool {
		d, ok := defs[o]
		if !ok {
			return false
		}
		co := calleeOf(d.call)
		for _, h := range helpers {
			if h.obj == co && h.idx == d.idx {
				return true
			}
		}
		return false
	}
	// (2) every backend given to a grpcservers constructor
	for _, f := range pkg.Syntax {
		ast.Inspect(f, func(n ast.Node) bool {
			call, ok := n.(*ast.CallExpr)
			if !ok {
				return true
			}
			o := calleeOf(call)
			if o == nil || o.Pkg() == nil || o.Pkg().Path() != modPath+"/pkg/blobstore/grpcservers" || len(call.Args) == 0 {
				return true
			}
			sig, ok := o.Type().(*types.Signature)
			if !ok || sig.Params().Len() == 0 {
				return true
			}
			if n, ok := sig.Params().At(0).Type().(*types.Named); !ok || n.Obj().Name() != "BlobAccess" {
				return true
			}
			site := o.Name()
			id, ok := call.Args[0].(*ast.Ident)
			if !ok {
				c.Fail("cmd/bb_storage.main", "served-backend-"+site, c.Pos(call.Pos()), "the backend handed to "+site+" is not a plain variable; its origin cannot be established")
				return true
			}
			v := info.Uses[id]
			good := v != nil
			nAssign := 0
			if isHelperResult(v) {
				nAssign++
			}
			for _, rhs := range assigns[v] {
				nAssign++
				rid, ok := rhs.(*ast.Ident)
				if !ok || !isHelperResult(info.Uses[rid]) {
					good = false
				}
			}
			if nAssign == 0 {
				good = false
			}
			c.Check(good, "cmd/bb_storage.main", "served-backend-"+site, c.Pos(call.Pos()), "only ever assigned an authorizing backend", "the backend served by "+site+" can be a value that did not come from blobstore.NewAuthorizingBlobAccess: requests to this service reach storage without any authorization check")
			return true
		})
	}
	// (3) the constructor stores each authorizer in the field its position stands for
	ctor := c.Func("pkg/blobstore", "NewAuthorizingBlobAccess")
	if ctor == nil {
		c.Broken("blobstore.NewAuthorizingBlobAccess not found")
		return
	}
	for k, fld := range []string{"", "getAuthorizer", "putAuthorizer", "findMissingAuthorizer"} {
		if k == 0 {
			continue
		}
		got := ctorFieldOfParam(ctor, k)
		c.Check(got == fld, FuncName(ctor), "ctor-role-"+fld, c.Pos(ctor.Pos()), "parameter → "+fld, "NewAuthorizingBlobAccess stores its authorizer parameter #"+string(rune('0'+k))+" in field "+got+" instead of "+fld)
	}
}

// ---------------------------------------------------------------------------
// R02.8 (includes the designed R07.7)

func init() {
	register(&Rule{
		ID: "R02.8", Props: []string{"C02", "C03", "C07", "C01"}, Engine: "flow (constructor wiring, configuration package)",
		Text:  "the persistent local store is wired as one unit: in newNestedBlobAccessBare the lock given to NewPeriodicSyncer is the very lock given to NewFlatBlobAccess and NewHierarchicalInstanceNamesLocalBlobAccess; the block list given to the syncer is the one the location-blob map is built on; the state store the syncer writes is the one the state was read from; the hash initialisation written into the state is the one the key-location map uses; on block devices the data syncer is the Sync method of the device the block allocator writes to; and both syncer loops are started – ProcessBlockRelease in a goroutine that calls it for ever, ProcessBlockPut in a routine of the termination group that calls it until it returns false",
		Floor: 7, MustExist: true, Run: runR028,
	})
}

func runR028(c *Ctx) {
	bare := c.Method(configurationRel, "simpleNestedBlobAccessCreator", "newNestedBlobAccessBare")
	if bare == nil {
		c.Broken("newNestedBlobAccessBare not found")
		return
	}
	name := FuncName(bare)
	find := func(pkgRel, fn string) []*ssa.Call {
		var out []*ssa.Call
		allInstrs(bare, func(ins ssa.Instruction) {
			cl, ok := ins.(*ssa.Call)
			if !ok {
				return
			}
			if sc := cl.Call.StaticCallee(); sc != nil && sc.Name() == fn && sc.Pkg != nil && sc.Pkg.Pkg.Path() == modPath+"/"+pkgRel {
				out = append(out, cl)
			}
			if cl.Call.IsInvoke() && cl.Call.Method.Name() == fn {
				out = append(out, cl)
			}
		})
		return out
	}
	argByType := func(cl *ssa.Call, pred func(t types.Type) bool) ssa.Value {
		for _, a := range cl.Call.Args {
			if pred(stripConv(a).Type()) || pred(a.Type()) {
				return a
			}
		}
		return nil
	}
	isLock := func(t types.Type) bool {
		if p, ok := t.(*types.Pointer); ok {
			if n, ok := p.Elem().(*types.Named); ok && n.Obj().Pkg() != nil && n.Obj().Pkg().Path() == "sync" {
				return true
			}
		}
		return false
	}
	// root: strip conversions, resolve single-store cells and single-edge phis
	var root func(v ssa.Value, depth int) []ssa.Value
	root = func(v ssa.Value, depth int) []ssa.Value {
		v = stripConv(v)
		if depth > 6 {
			return []ssa.Value{v}
		}
		switch x := v.(type) {
		case *ssa.Phi:
			var out []ssa.Value
			for _, e := range x.Edges {
				out = append(out, root(e, depth+1)...)
			}
			return out
		case *ssa.UnOp:
			if x.Op == token.MUL {
				if al, ok := x.X.(*ssa.Alloc); ok {
					var out []ssa.Value
					for _, s := range cellStores(al) {
						out = append(out, root(s, depth+1)...)
					}
					if len(out) > 0 {
						return out
					}
				}
			}
		}
		return []ssa.Value{v}
	}
	contains := func(vs []ssa.Value, w ssa.Value) bool {
		for _, v := range vs {
			if v == w {
				return true
			}
		}
		return false
	}
	syncers := find(localRel, "NewPeriodicSyncer")
	if len(syncers) != 1 {
		c.Fail(name, "syncer", c.Pos(bare.Pos()), "expected exactly one NewPeriodicSyncer call in the configuration of the local backend")
		return
	}
	ps := syncers[0]
	// (a) one lock
	sLock := argByType(ps, isLock)
	for _, ctorName := range []string{"NewFlatBlobAccess", "NewHierarchicalInstanceNamesLocalBlobAccess"} {
		cs := find(localRel, ctorName)
		if len(cs) == 0 {
			c.Fail(name, "one-lock-"+ctorName, c.Pos(bare.Pos()), "no call to "+ctorName+" found")
			continue
		}
		for _, cl := range cs {
			l := argByType(cl, isLock)
			c.Check(l != nil && sLock != nil && stripConv(l) == stripConv(sLock), name, "one-lock-"+ctorName, c.Pos(cl.Pos()), "store and syncer share one lock", "the lock given to "+ctorName+" is not the lock given to NewPeriodicSyncer: the syncer snapshots and acknowledges persistent state without excluding uploads and lookups, so the state file can describe data that is not there")
		}
	}
	// (b) one block list
	lbm := find(localRel, "NewOldCurrentNewLocationBlobMap")
	if len(lbm) == 1 && len(ps.Call.Args) > 0 {
		src := root(ps.Call.Args[0], 0)
		bl := root(lbm[0].Call.Args[0], 0)
		shared := false
		for _, s := range src {
			if contains(bl, s) {
				shared = true
			}
		}
		c.Check(shared, name, "one-block-list", c.Pos(ps.Pos()), "the syncer persists the block list the store writes to", "the block list given to NewPeriodicSyncer is not the one NewOldCurrentNewLocationBlobMap is built on: the persisted state describes a different list than the one that holds the data")
	} else {
		c.Fail(name, "one-block-list", c.Pos(bare.Pos()), "expected exactly one NewOldCurrentNewLocationBlobMap call")
	}
	// (c) one state store
	reads := find(localRel, "ReadPersistentState")
	okStore := false
	if len(reads) == 1 {
		var recv ssa.Value
		if reads[0].Call.IsInvoke() {
			recv = reads[0].Call.Value
		} else if len(reads[0].Call.Args) > 0 {
			recv = reads[0].Call.Args[0]
		}
		for _, a := range ps.Call.Args {
			if recv != nil && stripConv(a) == stripConv(recv) {
				okStore = true
			}
		}
	}
	c.Check(okStore, name, "one-state-store", c.Pos(ps.Pos()), "the state is written where it was read from", "the persistent state store given to NewPeriodicSyncer is not the one ReadPersistentState was called on: after a restart the store reloads a state file the syncer never updated")
	// (d) one hash initialisation
	klm := find(localRel, "NewHashingKeyLocationMap")
	okHash := false
	if len(klm) == 1 {
		isU64 := func(t types.Type) bool {
			b, ok := t.Underlying().(*types.Basic)
			return ok && b.Kind() == types.Uint64
		}
		a, b := argByType(ps, isU64), argByType(klm[0], isU64)
		if a != nil && b != nil {
			for _, ra := range root(a, 0) {
				if contains(root(b, 0), ra) {
					okHash = true
				}
			}
		}
	}
	c.Check(okHash, name, "one-hash-initialisation", c.Pos(ps.Pos()), "the persisted hash initialisation is the one in use", "the hash initialisation the syncer writes into the state file is not the value the key-location map was built with: after a restart every key hashes elsewhere and the restored blocks hold objects nobody can find (or finds wrongly)")
	// (e) data syncer of the device that holds the blocks
	alloc := find(localRel, "NewBlockDeviceBackedBlockAllocator")
	okSync := false
	if len(alloc) == 1 && len(alloc[0].Call.Args) > 0 {
		dev := stripConv(alloc[0].Call.Args[0])
		var ds ssa.Value
		for _, a := range ps.Call.Args {
			if _, ok := a.Type().Underlying().(*types.Signature); ok {
				ds = a
			}
		}
		if ds != nil {
			for _, r := range root(ds, 0) {
				if mc, ok := r.(*ssa.MakeClosure); ok && len(mc.Bindings) == 1 {
					if f, ok := mc.Fn.(*ssa.Function); ok && f.Synthetic != "" && len(f.Name()) >= 4 && f.Name()[:4] == "Sync" {
						for _, b := range root(mc.Bindings[0], 0) {
							if b == dev || contains(root(dev, 0), b) {
								okSync = true
							}
						}
					}
				}
			}
		}
	}
	c.Check(okSync, name, "data-syncer", c.Pos(ps.Pos()), "the data syncer is Sync of the block device that holds the blocks", "the data syncer given to NewPeriodicSyncer is not the Sync method of the block device handed to NewBlockDeviceBackedBlockAllocator: state files are written for data that was never flushed")
	// (f) both loops
	for _, m := range []struct {
		meth    string
		forever bool
	}{{"ProcessBlockRelease", true}, {"ProcessBlockPut", false}} {
		okLoop := false
		var at token.Pos = bare.Pos()
		// the routines are started by the function itself or by a helper of the package it hands the syncer to
		type loopScope struct {
			fn     *ssa.Function
			syncer ssa.Value
		}
		scopes := []loopScope{{bare, ssa.Value(ps)}}
		allInstrs(bare, func(ins ssa.Instruction) {
			cl, ok := ins.(*ssa.Call)
			if !ok {
				return
			}
			h := cl.Call.StaticCallee()
			if h == nil || h.Pkg != bare.Pkg || len(h.Blocks) == 0 {
				return
			}
			for i, a := range cl.Call.Args {
				if i < len(h.Params) && contains(root(a, 0), ssa.Value(ps)) {
					scopes = append(scopes, loopScope{h, h.Params[i]})
				}
			}
		})
		for _, sc := range scopes {
			bare, ps := sc.fn, sc.syncer
			for _, g := range bare.AnonFuncs {
				allInstrs(g, func(ins ssa.Instruction) {
					cl, ok := ins.(*ssa.Call)
					if !ok || cl.Call.StaticCallee() == nil || cl.Call.StaticCallee().Name() != m.meth {
						return
					}
					if o := captureOrigin(g, cl.Call.Args[0]); o != ps && !contains(root(o, 0), ps) {
						return
					}
					// the call sits in a cycle
					blk := cl.Block()
					seen := map[*ssa.BasicBlock]bool{}
					var reach func(b *ssa.BasicBlock) bool
					reach = func(b *ssa.BasicBlock) bool {
						for _, s := range b.Succs {
							if s == blk {
								return true
							}
							if !seen[s] {
								seen[s] = true
								if reach(s) {
									return true
								}
							}
						}
						return false
					}
					if !reach(blk) {
						return
					}
					// the closure is started: bound into a `go` statement or handed to a Go(...) method
					started := false
					allInstrs(bare, func(pi ssa.Instruction) {
						switch x := pi.(type) {
						case *ssa.Go:
							if mc, ok := x.Call.Value.(*ssa.MakeClosure); ok && mc.Fn == ssa.Value(g) {
								started = true
							}
						case *ssa.Call:
							for _, a := range x.Call.Args {
								if mc, ok := stripConv(a).(*ssa.MakeClosure); ok && mc.Fn == ssa.Value(g) {
									nm := ""
									if x.Call.IsInvoke() {
										nm = x.Call.Method.Name()
									} else if sc := x.Call.StaticCallee(); sc != nil {
										nm = sc.Name()
									}
									if nm == "Go" {
										started = true
									}
								}
							}
						}
					})
					if started {
						okLoop = true
						at = cl.Pos()
					}
				})
			}
		}
		c.Check(okLoop, name, "loop-"+m.meth, c.Pos(at), m.meth+" runs in a loop of a started routine", "PeriodicSyncer."+m.meth+" is not called in a loop of a goroutine / termination-group routine started here: "+map[bool]string{true: "released blocks are never followed by a state write, so their space is never handed back", false: "uploads are never followed by a sync and a state write; nothing survives a restart"}[m.forever])
	}
}

// ---------------------------------------------------------------------------
// R09.6

func init() {
	register(&Rule{
		ID: "R09.6", Props: []string{"C09", "C01"}, Engine: "path automaton (SSA, own helper methods inlined)",
		Text:  "everything read is hashed before it counts: in casValidatingReader.doRead and casValidatingChunkReader.doRead, on every path from the underlying Read to (a) the point where the hash is finalised (hasher.Sum, directly or in a helper method), (b) a return that hands the data to the consumer, or (c) the next underlying Read, the data of that read was written into the hasher – unless the path is an error path that returns no data and gives no verdict",
		Floor: 2, MustExist: true, Run: runR096,
	})
}

func runR096(c *Ctx) {
	for _, typ := range []string{"casValidatingReader", "casValidatingChunkReader"} {
		fn := c.Method(bufferRel, typ, "doRead")
		if fn == nil {
			c.Broken("%s.doRead not found", typ)
			continue
		}
		name := FuncName(fn)
		// the underlying read: an invoke of Read on an embedded / field reader of the receiver
		var read *ssa.Call
		allInstrs(fn, func(ins ssa.Instruction) {
			if cl, ok := ins.(*ssa.Call); ok && cl.Call.IsInvoke() && cl.Call.Method.Name() == "Read" && read == nil {
				if f, base := loadedField(cl.Call.Value); f != nil && isReceiverValue(fn, base) {
					read = cl
				}
			}
		})
		if read == nil {
			c.Fail(name, "hash-all", c.Pos(fn.Pos()), "no underlying Read found")
			continue
		}
		var data ssa.Value
		for _, r := range *read.Referrers() {
			if ex, ok := r.(*ssa.Extract); ok && ex.Index == 0 {
				data = ex
			}
		}
		isHasherCall := func(ins ssa.Instruction, meth string) bool {
			cl, ok := ins.(*ssa.Call)
			if !ok || !cl.Call.IsInvoke() || cl.Call.Method.Name() != meth {
				return false
			}
			f, _ := loadedField(cl.Call.Value)
			return f != nil && f.Name() == "hasher"
		}
		bad := ""
		var badPos token.Pos
		nWrite := 0
		// 0 before the read; 1 read, not hashed; 2 hashed
		explorePaths(&pathSpec{Fn: fn, Init: 0, Inline: inlineOwnMethods,
			Step: func(st int, ev pathEvent) int {
				if ev.Ins == nil {
					return st
				}
				if ev.Ins == ssa.Instruction(read) {
					if st == 1 && bad == "" {
						bad, badPos = "the stream is read again while the data of the previous read has not been hashed", read.Pos()
					}
					return 1
				}
				if isHasherCall(ev.Ins, "Write") {
					nWrite++
					return 2
				}
				if isHasherCall(ev.Ins, "Sum") && st == 1 && bad == "" {
					bad, badPos = "the hash is finalised on a path on which the bytes of the last read were never written into the hasher (data delivered together with io.EOF): matching content is rejected as corrupted, or – with a colliding prefix – mismatching content accepted", ev.Ins.Pos()
				}
				return st
			},
			AtReturn: func(st int, r *ssa.Return, _ map[int]bool) {
				if st != 1 || bad != "" || data == nil {
					return
				}
				// data handed out without having been hashed
				res := r.Results[0]
				if res == data {
					bad, badPos = "data of the underlying read is handed to the consumer without having been hashed", r.Pos()
				}
			}})
		if nWrite == 0 && bad == "" {
			bad, badPos = "the data read is never written into the hasher", fn.Pos()
		}
		if bad != "" {
			c.Fail(name, "hash-all", c.Pos(badPos), bad)
		} else {
			c.Pass(name, "hash-all", c.Pos(read.Pos()), "every byte read is hashed before finalisation, hand-out or the next read")
		}
	}
}

// ---------------------------------------------------------------------------
// R06.7

func init() {
	register(&Rule{
		ID: "R06.7", Props: []string{"C06", "C02"}, Engine: "origin analysis + order (SSA)",
		Text:  "what a record array writes is computed from the record being written, in that call: in both LocationRecordArray.Put implementations no field of the receiver is written (no translation is remembered between calls – block indices are relative and change meaning with every rotation), the block reference stored is the result of resolver.BlockIndexToBlockReference applied to this record's BlockIndex in this call, and on the block device the checksum is computed after every other byte of the record was filled in (with the hash seed the same resolver call returned) and nothing but the checksum is written afterwards",
		Floor: 5, MustExist: true, Run: runR067,
	})
}

func runR067(c *Ctx) {
	for _, typ := range []string{"inMemoryLocationRecordArray", "blockDeviceBackedLocationRecordArray"} {
		put := c.Method(localRel, typ, "Put")
		T := c.LookupType(localRel, typ)
		if put == nil || T == nil {
			c.Broken("%s.Put not found", typ)
			continue
		}
		name := FuncName(put)
		// (a) no receiver state is written, except elements of the record storage itself
		badStore := ""
		var badPos token.Pos
		allInstrs(put, func(ins ssa.Instruction) {
			st, ok := ins.(*ssa.Store)
			if !ok {
				return
			}
			if fa, ok := st.Addr.(*ssa.FieldAddr); ok && isReceiverValue(put, fa.X) && badStore == "" {
				badStore, badPos = fieldOf(fa).Name(), st.Pos()
			}
		})
		c.Check(badStore == "", name, "stateless", c.Pos(func() token.Pos {
			if badStore != "" {
				return badPos
			}
			return put.Pos()
		}()), "Put keeps no state between calls", "Put writes the receiver's field "+badStore+": a value remembered from an earlier call (e.g. the translation of a block index) is wrong as soon as the block list has rotated, so records are stored against the wrong block")
		// (b) the resolver call of this invocation
		var resolve *ssa.Call
		nResolve := 0
		allInstrs(put, func(ins ssa.Instruction) {
			if cl, ok := ins.(*ssa.Call); ok && cl.Call.IsInvoke() && cl.Call.Method.Name() == "BlockIndexToBlockReference" {
				resolve = cl
				nResolve++
			}
		})
		if resolve == nil || nResolve != 1 {
			c.Fail(name, "fresh-reference", c.Pos(put.Pos()), "Put does not translate the block index through the resolver exactly once")
			continue
		}
		rec := put.Params[len(put.Params)-1]
		argOK, viaIndex := false, false
		deepSlice(put, resolve.Call.Args[0], func(x ssa.Value) bool {
			if x == ssa.Value(rec) {
				argOK = true
			}
			if f := fieldOf(x); f != nil && f.Name() == "BlockIndex" {
				viaIndex = true
			}
			return !argOK
		})
		argOK = argOK && viaIndex
		unconditional := resolve.Block() == put.Blocks[0]
		c.Check(argOK && unconditional, name, "fresh-reference", c.Pos(resolve.Pos()), "the record's own block index is translated, unconditionally, in this call", "the block index is not translated for this record in this call (the resolver call is conditional or takes something else than the record's BlockIndex)")
		// every use of a BlockReference value in Put must be the resolver's result
		var refVal ssa.Value
		for _, r := range *resolve.Referrers() {
			if ex, ok := r.(*ssa.Extract); ok && ex.Index == 0 {
				refVal = ex
			}
		}
		brT := c.LookupType(localRel, "BlockReference")
		badRef := ""
		allInstrs(put, func(ins ssa.Instruction) {
			v, ok := ins.(ssa.Value)
			if !ok || brT == nil || !types.Identical(v.Type(), brT) || v == refVal {
				return
			}
			switch x := v.(type) {
			case *ssa.UnOp:
				// a load: from a local cell holding the resolver's result is fine
				if al, ok := x.X.(*ssa.Alloc); ok {
					for _, s := range cellStores(al) {
						if s != refVal {
							badRef = "a value other than the resolver's result"
						}
					}
					return
				}
				badRef = "a block reference read from memory (" + x.X.String() + ")"
			case *ssa.Phi:
				for _, e := range x.Edges {
					if e != refVal {
						badRef = "a merged value"
					}
				}
			}
		})
		c.Check(badRef == "" && refVal != nil, name, "reference-origin", c.Pos(resolve.Pos()), "the reference stored is the resolver's answer of this call", "the record is written with "+badRef+" instead of the block reference the resolver returned in this call")
		// (c) checksum last
		var sum *ssa.Call
		allInstrs(put, func(ins ssa.Instruction) {
			if cl, ok := ins.(*ssa.Call); ok && cl.Call.StaticCallee() != nil && cl.Call.StaticCallee().Name() == "computeChecksumForRecord" {
				sum = cl
			}
		})
		if sum == nil {
			continue
		}
		recCell := rootAlloc(sum.Call.Args[0])
		// the seed is the resolver's second result
		seedOK := false
		if ex, ok := stripConv(sum.Call.Args[1]).(*ssa.Extract); ok && ex.Tuple == ssa.Value(resolve) && ex.Index == 1 {
			seedOK = true
		}
		c.Check(seedOK, name, "checksum-seed", c.Pos(sum.Pos()), "seeded by the epoch seed of the block the record points into", "the record checksum is not seeded with the hash seed BlockIndexToBlockReference returned for this record's block")
		late := ""
		allInstrs(put, func(ins ssa.Instruction) {
			cl, ok := ins.(*ssa.Call)
			if !ok || cl == sum || late != "" {
				return
			}
			// a call that writes into the record: an argument slices / addresses the record cell, and the callee is a writer (Put*, copy)
			writes := false
			nm := ""
			if bi, ok := cl.Call.Value.(*ssa.Builtin); ok {
				nm = bi.Name()
				writes = nm == "copy" && len(cl.Call.Args) > 0 && rootAlloc(cl.Call.Args[0]) == recCell && recCell != nil
			} else if o := calleeObjOf(cl.Common()); o != nil {
				nm = o.Name()
				if len(nm) >= 3 && nm[:3] == "Put" {
					for _, a := range cl.Call.Args {
						if rootAlloc(a) == recCell && recCell != nil {
							writes = true
						}
					}
				}
			}
			if !writes {
				return
			}
			// the write of the checksum itself
			for _, a := range cl.Call.Args {
				if stripConv(a) == ssa.Value(sum) {
					return
				}
			}
			if reachableAvoiding(sum, cl, func(ssa.Instruction) bool { return false }) {
				late = nm
				c.Fail(name, "checksum-last", c.Pos(cl.Pos()), "a field of the record is filled in ("+nm+") after its checksum was computed: the stored checksum does not cover that field, so the record fails validation when read back and is treated as an empty slot – the entry is lost although Put reported it as inserted")
			}
		})
		if late == "" {
			c.Pass(name, "checksum-last", c.Pos(sum.Pos()), "the checksum covers the record as it is written")
		}
	}
}

// ---------------------------------------------------------------------------
// R05.7, R05.8

func init() {
	register(&Rule{
		ID: "R05.7", Props: []string{"C05"}, Engine: "guard (SSA dominance) + provenance",
		Text:  "a touch never re-points an entry at a copy that is itself about to be evicted: in the read / existence paths of both local stores (everything except the upload method Put) every KeyLocationMap.Put whose Location was read from the KeyLocationMap in the same function – rather than returned by a put finalizer – is dominated by the false edge of the needs-refresh verdict of LocationBlobMap.Get applied to that very location",
		Floor: 1, MustExist: true, Run: runR057,
	})
	register(&Rule{
		ID: "R05.8", Props: []string{"C05", "C01", "C08"}, Engine: "path automaton (SSA)",
		Text:  "whatever cannot be found is reported missing: in FindMissing of both local stores, on every path on which a lookup (KeyLocationMap.Get / getLeastSpecificLookupEntry) failed with NOT_FOUND, the digest is added to the set of missing objects before the next lookup or the final answer (also in the second, refreshing scan: an object that vanished between the scans must not be reported present)",
		Floor: 4, MustExist: true, Run: runR058,
	})
}

func localStoreMethods(c *Ctx) []*ssa.Function {
	var out []*ssa.Function
	for _, typ := range []string{"flatBlobAccess", "hierarchicalCASBlobAccess"} {
		T := c.LookupType(localRel, typ)
		if T == nil {
			continue
		}
		for _, f := range c.pkgFuncs(localRel) {
			if f.Signature.Recv() == nil {
				continue
			}
			rt := f.Signature.Recv().Type()
			if p, ok := rt.(*types.Pointer); ok {
				rt = p.Elem()
			}
			if types.Identical(rt, T) {
				out = append(out, f)
			}
		}
	}
	sortFuncs(out)
	return out
}

func runR057(c *Ctx) {
	n := 0
	for _, tf := range localStoreMethods(c) {
		// upload paths (the function is handed the buffer.Buffer being stored) are not judged
		// here: they re-point after validating the client's copy, under R05.1 / R01.x
		takesUpload := false
		for _, p := range tf.Params {
			if n, ok := p.Type().(*types.Named); ok && n.Obj().Name() == "Buffer" && n.Obj().Pkg() != nil && strings.HasSuffix(n.Obj().Pkg().Path(), "/buffer") {
				takesUpload = true
			}
		}
		if takesUpload {
			continue
		}
		withAnon(tf, func(g *ssa.Function) {
			allInstrs(g, func(ins ssa.Instruction) {
				cl, ok := ins.(*ssa.Call)
				if !ok || !cl.Call.IsInvoke() || cl.Call.Method.Name() != "Put" || recvFieldLoadName(g, cl.Call.Value) != "keyLocationMap" {
					return
				}
				loc := cl.Call.Args[1]
				// is the location the very value KeyLocationMap.Get returned in this
				// function (an entry re-pointed at an existing copy – not a new
				// Location composed for a slice or returned by a finalizer)?
				var fromGet *ssa.Call
				if ex, ok := stripConv(loc).(*ssa.Extract); ok && ex.Index == 0 {
					if xc, ok := ex.Tuple.(*ssa.Call); ok && xc.Call.IsInvoke() && xc.Call.Method.Name() == "Get" {
						if f := fieldOf(xc.Call.Value); f != nil && f.Name() == "keyLocationMap" {
							fromGet = xc
						}
					}
				}
				if fromGet == nil {
					return
				}
				n++
				// dominated by !needsRefresh of locationBlobMap.Get(loc)
				ok2 := false
				edgeFacts(cl.Block(), func(cond ssa.Value, val bool) bool {
					cnd, v := cond, val
					for {
						if u, ok := cnd.(*ssa.UnOp); ok && u.Op == token.NOT {
							cnd, v = u.X, !v
							continue
						}
						break
					}
					ex, ok := cnd.(*ssa.Extract)
					if !ok || ex.Index != 1 || v {
						return true
					}
					gc, ok := ex.Tuple.(*ssa.Call)
					if !ok || !gc.Call.IsInvoke() || gc.Call.Method.Name() != "Get" {
						return true
					}
					if f := fieldOf(gc.Call.Value); f == nil || f.Name() != "locationBlobMap" {
						return true
					}
					if gc.Call.Args[0] == loc || sameSource(gc.Call.Args[0], loc) {
						ok2 = true
						return false
					}
					return true
				})
				c.Check(ok2, FuncName(g), "repoint-only-at-fresh-copy", c.Pos(cl.Pos()), "the entry is re-pointed only at a copy that does not need a refresh itself", "a lookup entry is re-pointed at a location read from the index without that copy having been found not to need a refresh: the read / existence check reports the object present, no new copy is written, and the object disappears after fewer than old_blocks+1 further allocations")
			})
		})
	}
	if n == 0 {
		c.Fail("local", "repoint-only-at-fresh-copy", "-", "no entry synchronisation from an existing copy found (syncFromCanonicalEntry changed shape?)")
	}
}

func runR058(c *Ctx) {
	for _, typ := range []string{"flatBlobAccess", "hierarchicalCASBlobAccess"} {
		fn := c.Method(localRel, typ, "FindMissing")
		if fn == nil {
			c.Broken("%s.FindMissing not found", typ)
			continue
		}
		name := FuncName(fn)
		// lookups: invoke KeyLocationMap.Get on the receiver's map, or the own helper getLeastSpecificLookupEntry
		isLookup := func(cl *ssa.Call) bool {
			if cl.Call.IsInvoke() && cl.Call.Method.Name() == "Get" {
				f := fieldOf(cl.Call.Value)
				return f != nil && f.Name() == "keyLocationMap"
			}
			if sc := cl.Call.StaticCallee(); sc != nil && sc.Name() == "getLeastSpecificLookupEntry" {
				return true
			}
			return false
		}
		var lookups []*ssa.Call
		allInstrs(fn, func(ins ssa.Instruction) {
			if cl, ok := ins.(*ssa.Call); ok && isLookup(cl) {
				lookups = append(lookups, cl)
			}
		})
		isNotFoundTest := func(cond ssa.Value, val bool) (lk *ssa.Call, isNF bool, ok bool) {
			cnd, v := cond, val
			for {
				if u, isU := cnd.(*ssa.UnOp); isU && u.Op == token.NOT {
					cnd, v = u.X, !v
					continue
				}
				break
			}
			bo, isB := cnd.(*ssa.BinOp)
			if !isB || (bo.Op != token.EQL && bo.Op != token.NEQ) {
				return nil, false, false
			}
			var code *ssa.Call
			var k ssa.Value
			if x, isC := bo.X.(*ssa.Call); isC {
				code, k = x, bo.Y
			} else if y, isC := bo.Y.(*ssa.Call); isC {
				code, k = y, bo.X
			}
			if code == nil || !isPkgFuncCall(code.Common(), "google.golang.org/grpc/status", "Code") {
				return nil, false, false
			}
			if kc, isK := constInt(stripConv(k)); !isK || kc != 5 {
				return nil, false, false
			}
			for _, l := range lookups {
				if isErrResultOf(code.Call.Args[0], l) {
					return l, (bo.Op == token.EQL) == v, true
				}
			}
			return nil, false, false
		}
		for li, l := range lookups {
			lk := l
			bad := ""
			var badPos token.Pos
			hasNF := false
			// 0 neutral; 1 this lookup said NOT_FOUND and the digest was not yet added
			explorePaths(&pathSpec{Fn: fn, Init: 0,
				Step: func(st int, ev pathEvent) int {
					if ev.Ins != nil {
						if cl, ok := ev.Ins.(*ssa.Call); ok {
							if cl == lk || (st == 1 && isLookup(cl)) {
								if st == 1 && bad == "" {
									bad, badPos = "the next lookup starts", cl.Pos()
								}
								return 0
							}
							if o := calleeObjOf(cl.Common()); o != nil && o.Name() == "Add" && st == 1 {
								if n := recvNamed(o); n != nil && n.Obj().Name() == "SetBuilder" {
									return 0
								}
							}
						}
						return st
					}
					if l2, nf, ok := isNotFoundTest(ev.Cond, ev.Val); ok && l2 == lk {
						if nf {
							hasNF = true
							return 1
						}
						return 0
					}
					return st
				},
				AtReturn: func(st int, r *ssa.Return, _ map[int]bool) {
					if st == 1 && bad == "" && isNilConst(returnedValue(r, len(r.Results)-1)) {
						bad, badPos = "FindMissing answers", r.Pos()
					}
				}})
			site := fmt.Sprintf("lookup-%d", li)
			if !hasNF {
				// a lookup whose NOT_FOUND is not distinguished: errors are returned as such (checked by R05.1) – nothing to decide here
				c.PassTrivial(name, "missing-reported "+site, c.Pos(l.Pos()), "NOT_FOUND of this lookup is not treated specially")
				continue
			}
			c.Check(bad == "", name, "missing-reported "+site, c.Pos(func() token.Pos {
				if bad != "" {
					return badPos
				}
				return l.Pos()
			}()), "a NOT_FOUND lookup adds the digest to the missing set", "on a path on which this lookup said NOT_FOUND, "+bad+" without the digest having been added to the missing set: an object that is gone (for instance rotated out between the two scans) is reported present")
		}
	}
}

// ---------------------------------------------------------------------------
// R02.9

func init() {
	register(&Rule{
		ID: "R02.9", Props: []string{"C02", "C03"}, Engine: "difference-bound analysis (SSA)",
		Text:  "no epoch that is not synchronised reaches the state file: in PersistentBlockList.GetPersistentState every re-slice of epochHashSeeds that is handed to a BlockState ends at an index that is proven – from the loop condition and the clamp – to be at most synchronizedEpochs (hash seeds of later epochs would let records of unsynchronised, possibly lost data validate after a crash)",
		Floor: 1, MustExist: true, Run: runR029,
	})
}

func runR029(c *Ctx) {
	fn := c.Method(localRel, "PersistentBlockList", "GetPersistentState")
	if fn == nil {
		c.Broken("PersistentBlockList.GetPersistentState not found")
		return
	}
	bp := newBoundsProver(c, localRel)
	name := FuncName(fn)
	n := 0
	allInstrs(fn, func(ins ssa.Instruction) {
		sl, ok := ins.(*ssa.Slice)
		if !ok {
			return
		}
		f, base := loadedField(sl.X)
		if f == nil || f.Name() != "epochHashSeeds" || !isReceiverValue(fn, base) {
			return
		}
		n++
		if sl.High == nil {
			c.Fail(name, "epochs-clamped", c.Pos(sl.Pos()), "the epoch seeds are handed out up to the end of the list, including epochs that are not synchronised")
			return
		}
		// find a load of synchronizedEpochs to compare with
		var sync ssa.Value
		allInstrs(fn, func(i2 ssa.Instruction) {
			if v, ok := i2.(ssa.Value); ok && sync == nil {
				if f2, b2 := loadedField(v); f2 != nil && f2.Name() == "synchronizedEpochs" && isReceiverValue(fn, b2) {
					sync = v
				}
			}
		})
		if sync == nil {
			c.Fail(name, "epochs-clamped", c.Pos(sl.Pos()), "GetPersistentState does not consult synchronizedEpochs")
			return
		}
		hi, sy := bp.norm(sl.High), bp.norm(sync)
		ok = bp.prove(hi.a, sy.a, sy.k-hi.k, bp.factsAt(sl.Block()), map[string]int64{})
		c.Check(ok, name, "epochs-clamped", c.Pos(sl.Pos()), "the range ends at or before synchronizedEpochs", "the range of epoch hash seeds written for a block is not proven to end at or before synchronizedEpochs: the seed of an epoch whose data was not yet flushed reaches the state file, so after a crash index records of lost uploads validate and the object is served from whatever is later written to that place")
	})
	if n == 0 {
		c.Broken("GetPersistentState: no re-slice of epochHashSeeds found")
	}
}

// ---------------------------------------------------------------------------
// R04.6

func init() {
	register(&Rule{
		ID: "R04.6", Props: []string{"C04", "C02", "C01", "C03"}, Engine: "path automaton (SSA)",
		Text:  "a region that is handed out leaves the free list: in blockDeviceBackedBlockAllocator.NewBlock and NewBlockAtLocation every path that creates a block object (newBlockObject) has first stored the free list re-sliced to one element less (freeOffsets[1:] or freeOffsets[:len-1]); a list that keeps its length still offers the region – or a duplicate of another one – to a later allocation while the first block is live",
		Floor: 2, MustExist: true, Run: runR046,
	})
}

func runR046(c *Ctx) {
	for _, m := range []string{"NewBlock", "NewBlockAtLocation"} {
		fn := c.Method(localRel, "blockDeviceBackedBlockAllocator", m)
		if fn == nil {
			c.Broken("blockDeviceBackedBlockAllocator.%s not found", m)
			continue
		}
		name := FuncName(fn)
		isFree := func(v ssa.Value) bool {
			f, base := loadedField(v)
			return f != nil && f.Name() == "freeOffsets" && isReceiverValue(fn, base)
		}
		shrinks := func(st *ssa.Store) bool {
			if f := fieldOf(st.Addr); f == nil || f.Name() != "freeOffsets" {
				return false
			}
			sl, ok := st.Val.(*ssa.Slice)
			if !ok || !isFree(sl.X) {
				return false
			}
			if sl.Low != nil && sl.High == nil {
				k, isK := constInt(sl.Low)
				return isK && k == 1
			}
			if sl.High != nil && (sl.Low == nil || func() bool { k, ok := constInt(sl.Low); return ok && k == 0 }()) {
				if bo, ok := sl.High.(*ssa.BinOp); ok && bo.Op == token.SUB {
					k, isK := constInt(bo.Y)
					if cl, isC := bo.X.(*ssa.Call); isC && isK && k == 1 {
						if bi, ok := cl.Call.Value.(*ssa.Builtin); ok && bi.Name() == "len" && isFree(cl.Call.Args[0]) {
							return true
						}
					}
				}
			}
			return false
		}
		bad := ""
		var badPos token.Pos
		nNew := 0
		explorePaths(&pathSpec{Fn: fn, Init: 0,
			Step: func(st int, ev pathEvent) int {
				if ev.Ins == nil {
					return st
				}
				if s, ok := ev.Ins.(*ssa.Store); ok && shrinks(s) {
					return 1
				}
				if cc := callOf(ev.Ins); cc != nil && cc.StaticCallee() != nil && cc.StaticCallee().Name() == "newBlockObject" {
					nNew++
					if st == 0 && bad == "" {
						bad, badPos = "a block object is created for a region that was not removed from the free list", ev.Ins.Pos()
					}
				}
				return st
			}})
		if nNew == 0 {
			c.Fail(name, "leaves-free-list", c.Pos(fn.Pos()), "no block object is created")
			continue
		}
		c.Check(bad == "", name, "leaves-free-list", c.Pos(func() token.Pos {
			if bad != "" {
				return badPos
			}
			return fn.Pos()
		}()), "the free list shrinks by one before the region is handed out", bad+": a later allocation hands the same device region (or a duplicated neighbour) to a second block, and two live blocks overwrite each other's objects")
	}
}

// ---------------------------------------------------------------------------
// R01.9, R01.10

func init() {
	register(&Rule{
		ID: "R01.9", Props: []string{"C01", "C04"}, Engine: "origin analysis (SSA)",
		Text:  "in-memory blocks never share memory: inMemoryBlock.data is only ever initialised with a slice allocated (make) for that block in the same function, and the memory of a block is never stored into allocator or package state (appended to a list, kept in a field or a global) – readers of an in-memory block hold plain sub-slices of its memory without a reference count, so memory that is handed out again is overwritten under them without any error",
		Floor: 1, MustExist: true, Run: runR019,
	})
	register(&Rule{
		ID: "R01.10", Props: []string{"C01"}, Engine: "loop-invariant edge facts (SSA)",
		Text:  "one shared-sector image per physical sector: in blockDeviceBackedBlock.Put the existing shared-sector image is kept for the next object only on an edge where it is non-nil and the allocation did not advance the block's sector cursor (sector count <= 0); whenever the allocation ends in a later sector a new image is created – otherwise the images of the object's first and last sector are one buffer and flushing one sector overwrites the other",
		Floor: 1, MustExist: true, Run: runR0110,
	})
}

func runR019(c *Ctx) {
	T := c.LookupType(localRel, "inMemoryBlock")
	if T == nil {
		c.Broken("inMemoryBlock not found")
		return
	}
	fns := c.pkgFuncs(localRel)
	nInit := 0
	for _, fs := range fieldStoresIn(fns, T, "data") {
		nInit++
		_, fresh := stripConv(fs.st.Val).(*ssa.MakeSlice)
		c.Check(fresh, FuncName(fs.fn), "fresh-memory", c.Pos(fs.st.Pos()), "allocated for this block", "the memory of an in-memory block is not allocated for that block (it is taken from somewhere else, e.g. a list of released blocks): readers that still hold sub-slices of the previous owner's data silently observe the new owner's bytes")
	}
	if nInit == 0 {
		c.Fail("local", "fresh-memory", "-", "inMemoryBlock.data is never initialised")
	}
	// no escape of block memory into longer-lived state
	for _, f := range fns {
		withAnon(f, func(g *ssa.Function) {
			allInstrs(g, func(ins ssa.Instruction) {
				v, ok := ins.(ssa.Value)
				if !ok {
					return
				}
				fld, base := loadedField(v)
				if fld == nil || fld.Name() != "data" || v.Referrers() == nil {
					return
				}
				bt := base.Type()
				if p, ok := bt.Underlying().(*types.Pointer); ok {
					bt = p.Elem()
				}
				if !types.Identical(bt, T) {
					return
				}
				for _, r := range *v.Referrers() {
					esc := ""
					switch x := r.(type) {
					case *ssa.Store:
						if x.Val == v {
							switch x.Addr.(type) {
							case *ssa.FieldAddr, *ssa.IndexAddr, *ssa.Global:
								esc = "stored into longer-lived state"
							}
							if fa, ok := x.Addr.(*ssa.FieldAddr); ok {
								// a writer / reader object created for one operation is fine
								if al := rootAlloc(fa); al != nil {
									esc = ""
								}
							}
						}
					case *ssa.Call:
						if _, isApp := isAppend(x); isApp {
							esc = "appended to a list"
						}
					case *ssa.MapUpdate:
						esc = "stored in a map"
					}
					if esc != "" {
						c.Fail(FuncName(g), "memory-escapes", c.Pos(r.Pos()), "the memory of an in-memory block is "+esc+": it can be handed to another block while readers of this block still alias it")
					}
				}
			})
		})
	}
}

func runR0110(c *Ctx) {
	fn := c.Method(localRel, "blockDeviceBackedBlock", "Put")
	if fn == nil {
		c.Broken("blockDeviceBackedBlock.Put not found")
		return
	}
	name := FuncName(fn)
	// the sector count: the value added to the block's sector cursor
	var sectorCount ssa.Value
	allInstrs(fn, func(ins ssa.Instruction) {
		st, ok := ins.(*ssa.Store)
		if !ok {
			return
		}
		if f := fieldOf(st.Addr); f == nil || f.Name() != "writeOffsetSectors" {
			return
		}
		if bo, ok := st.Val.(*ssa.BinOp); ok && bo.Op == token.ADD {
			if f, _ := loadedField(bo.X); f != nil && f.Name() == "writeOffsetSectors" {
				sectorCount = bo.Y
			} else if f, _ := loadedField(bo.Y); f != nil && f.Name() == "writeOffsetSectors" {
				sectorCount = bo.X
			}
		}
	})
	if sectorCount == nil {
		c.Broken("blockDeviceBackedBlock.Put: the advance of the sector cursor was not found")
		return
	}
	// creation sites: stores of a freshly allocated sharedSector into the field
	var creates []*ssa.Store
	allInstrs(fn, func(ins ssa.Instruction) {
		st, ok := ins.(*ssa.Store)
		if !ok {
			return
		}
		if f := fieldOf(st.Addr); f == nil || f.Name() != "sharedSector" {
			return
		}
		if _, isAlloc := stripConv(st.Val).(*ssa.Alloc); isAlloc {
			creates = append(creates, st)
		}
	})
	if len(creates) == 0 {
		c.Fail(name, "sector-image", c.Pos(fn.Pos()), "no shared-sector image is ever created")
		return
	}
	n := 0
	for _, cr := range creates {
		// the join after the conditional creation
		b := cr.Block()
		if len(b.Succs) != 1 {
			continue
		}
		join := b.Succs[0]
		for _, p := range join.Preds {
			if p == b {
				continue
			}
			n++
			nonNil, same := false, false
			edgeFactsOn(p, join, func(cond ssa.Value, val bool) bool {
				if x, nilWhenTrue, ok := nilTest(func() ssa.Value {
					cc := cond
					for {
						if u, ok := cc.(*ssa.UnOp); ok && u.Op == token.NOT {
							cc = u.X
							continue
						}
						return cc
					}
				}()); ok {
					neg := false
					for cc := cond; ; {
						if u, ok := cc.(*ssa.UnOp); ok && u.Op == token.NOT {
							neg, cc = !neg, u.X
							continue
						}
						break
					}
					if f, _ := loadedField(x); f != nil && f.Name() == "sharedSector" && (nilWhenTrue != (val != neg)) {
						nonNil = true
					}
				}
				if op, x, y, ok := normCmp(cond, val); ok {
					if ub, ok := cmpUpperBound(op, x, y, func(v ssa.Value) bool { return v == sectorCount }); ok && ub <= 0 {
						same = true
					}
				}
				return true
			})
			c.Check(nonNil && same, name, "sector-image", c.Pos(cr.Pos()), "the old image is kept only when it exists and the allocation stays within its sector", "the existing shared-sector image can be kept although "+map[bool]string{true: "it does not exist", false: "the allocation ends in a later sector than it started in"}[!nonNil]+": the object's first and last sector then share one buffer, and flushing one of them writes the other's bytes over an already committed neighbour")
		}
	}
	if n == 0 {
		c.Fail(name, "sector-image", c.Pos(creates[0].Pos()), "the creation of a new shared-sector image is not conditional in the expected way; the rule cannot establish when the old image is kept")
	}
}

// ---------------------------------------------------------------------------
// R08.3, R03.4

func init() {
	register(&Rule{
		ID: "R08.3", Props: []string{"C08"}, Engine: "guard (SSA dominance)",
		Text:  "condemned blocks leave before the list is looked at: in OldCurrentNewLocationBlobMap.findBlockWithSpace every BlockList.PushBack and BlockList.HasSpace call is only reachable through the exit edge of the loop that releases blocks while totalBlocksReleased < totalBlocksToBeReleased (so the layout counters and the list agree again before blocks are added or asked for space; otherwise a store whose newest block was condemned ends up with an empty list and panics on the next upload)",
		Floor: 3, MustExist: true, Run: runR083,
	})
	register(&Rule{
		ID: "R03.4", Props: []string{"C03", "C05"}, Engine: "guard (SSA dominance), sibling agreement",
		Text:  "one policy decides the layout: in OldCurrentNewLocationBlobMap (constructor and findBlockWithSpace alike) the count of new blocks is incremented only on the true edge of the growth policy's ShouldGrowNewBlocks, and the count of current blocks only on the true edge of ShouldGrowCurrentBlocks or as the transfer of an excess new block (same block of code decrements the new count); restored blocks that the policy would keep are therefore not pushed into the old group and released at start-up",
		Floor: 4, MustExist: true, Run: runR034,
	})
}

func runR083(c *Ctx) {
	fn := c.Method(localRel, "OldCurrentNewLocationBlobMap", "findBlockWithSpace")
	if fn == nil {
		c.Broken("OldCurrentNewLocationBlobMap.findBlockWithSpace not found")
		return
	}
	name := FuncName(fn)
	n := 0
	allInstrs(fn, func(ins ssa.Instruction) {
		cl, ok := ins.(*ssa.Call)
		if !ok || !cl.Call.IsInvoke() || (cl.Call.Method.Name() != "PushBack" && cl.Call.Method.Name() != "HasSpace") {
			return
		}
		if f, _ := loadedField(cl.Call.Value); f == nil || f.Name() != "blockList" {
			return
		}
		n++
		released := func(op token.Token, x, y ssa.Value) bool {
			f, _ := loadedField(x)
			return op == token.GEQ && f != nil && f.Name() == "totalBlocksReleased"
		}
		ok = dominatedByCmpDepth(cl.Block(), released, 2)
		if !ok {
			// the release loop may live in an own helper method that is called first
			allInstrs(fn, func(i2 ssa.Instruction) {
				hc, isC := i2.(*ssa.Call)
				if !isC || ok {
					return
				}
				h := inlineOwnMethods(hc)
				if h == nil || !instrDominates(hc, cl) {
					return
				}
				all := len(returnsOf(h)) > 0
				for _, r := range returnsOf(h) {
					if !dominatedByCmpDepth(r.Block(), released, 2) {
						all = false
					}
				}
				if all {
					ok = true
				}
			})
		}
		c.Check(ok, name, "release-first "+cl.Call.Method.Name(), c.Pos(cl.Pos()), "reached only after all condemned blocks were released", "BlockList."+cl.Call.Method.Name()+" can be reached before the blocks condemned because of corruption were released: the layout counters are adjusted afterwards, so the list can end up shorter than the counters say (after corruption in the newest block: empty) and the next upload indexes past its end")
	})
	if n == 0 {
		c.Fail(name, "release-first", c.Pos(fn.Pos()), "findBlockWithSpace neither grows nor inspects the block list")
	}
}

func runR034(c *Ctx) {
	T := c.LookupType(localRel, "OldCurrentNewLocationBlobMap")
	if T == nil {
		c.Broken("OldCurrentNewLocationBlobMap not found")
		return
	}
	onPolicyEdge := func(b *ssa.BasicBlock, meth string) bool {
		found := false
		edgeFacts(b, func(cond ssa.Value, val bool) bool {
			cnd, v := cond, val
			for {
				if u, ok := cnd.(*ssa.UnOp); ok && u.Op == token.NOT {
					cnd, v = u.X, !v
					continue
				}
				break
			}
			if cl, ok := cnd.(*ssa.Call); ok && v && cl.Call.IsInvoke() && cl.Call.Method.Name() == meth {
				found = true
				return false
			}
			return true
		})
		return found
	}
	n := 0
	for _, fld := range []string{"newBlocks", "currentBlocks"} {
		for _, fs := range fieldStoresIn(c.pkgFuncs(localRel), T, fld) {
			bo, ok := fs.st.Val.(*ssa.BinOp)
			if !ok || bo.Op != token.ADD {
				continue // decrements, resets
			}
			if k, isK := constInt(bo.Y); !isK || k <= 0 {
				continue
			}
			n++
			meth := "ShouldGrowNewBlocks"
			if fld == "currentBlocks" {
				meth = "ShouldGrowCurrentBlocks"
			}
			ok = onPolicyEdge(fs.st.Block(), meth)
			if !ok && fld == "currentBlocks" {
				// transfer of an excess new block: the same block decrements newBlocks
				for _, i2 := range fs.st.Block().Instrs {
					if s2, isS := i2.(*ssa.Store); isS {
						if f2 := fieldOf(s2.Addr); f2 != nil && f2.Name() == "newBlocks" {
							if b2, isB := s2.Val.(*ssa.BinOp); isB && b2.Op == token.SUB {
								ok = true
							}
						}
					}
				}
			}
			c.Check(ok, FuncName(fs.fn), "policy-decides "+fld, c.Pos(fs.st.Pos()), "incremented on the growth policy's say-so", "the number of "+map[string]string{"newBlocks": "new", "currentBlocks": "current"}[fld]+" blocks grows without the growth policy ("+meth+") having been asked: start-up and steady state disagree on the layout, so blocks restored after a restart are classified as old and released (their acknowledged contents are gone) or the layout grows beyond what the policy allows")
		}
	}
	if n == 0 {
		c.Fail("OldCurrentNewLocationBlobMap", "policy-decides", "-", "the layout counters are never incremented")
	}
}

// ---------------------------------------------------------------------------
// R13.5, R13.6

const completenessRel = "pkg/blobstore/completenesschecking"

func init() {
	register(&Rule{
		ID: "R13.5", Props: []string{"C13"}, Engine: "guard (SSA dominance) + loop-carried value shape",
		Text:  "the Tree size limit is a budget over all Trees of one ActionResult: in checkCompleteness every read of a Tree from the CAS is dominated by `size of this Tree <= remaining budget`, where the remaining budget is a loop-carried value that starts at maximumTotalTreeSizeBytes and is decreased by the size of every Tree that was admitted; and findMissingQueue.add enqueues every digest it is given – the only conditions under which a digest is not added to the pending set are: the digest pointer is nil, or an error is returned",
		Floor: 2, MustExist: true, Run: runR135,
	})
	register(&Rule{
		ID: "R13.6", Props: []string{"C13"}, Engine: "path automaton (SSA)",
		Text:  "a Tree that ends in the middle of a field is an error: in util.VisitProtoBytesFields, once a bufio.Reader.Discard reported any error – io.EOF included – no path continues with the next field or returns nil (only the Peek that starts a field may treat io.EOF with nothing buffered as the clean end of the message)",
		Floor: 2, MustExist: true, Run: runR136,
	})
}

func runR135(c *Ctx) {
	fn := c.Method(completenessRel, "completenessCheckingBlobAccess", "checkCompleteness")
	add := c.Method(completenessRel, "findMissingQueue", "add")
	if fn == nil || add == nil {
		c.Broken("checkCompleteness / findMissingQueue.add not found")
		return
	}
	name := FuncName(fn)
	n := 0
	allInstrs(fn, func(ins ssa.Instruction) {
		cl, ok := ins.(*ssa.Call)
		if !ok || !cl.Call.IsInvoke() || cl.Call.Method.Name() != "Get" {
			return
		}
		if f, _ := loadedField(cl.Call.Value); f == nil || f.Name() != "contentAddressableStorage" {
			return
		}
		n++
		okBudget := false
		why := "the read of a Tree is not guarded by a comparison of its size with a remaining budget"
		edgeFacts(cl.Block(), func(cond ssa.Value, val bool) bool {
			op, x, y, ok := normCmp(cond, val)
			if !ok {
				return true
			}
			var size, budget ssa.Value
			switch op {
			case token.LEQ:
				size, budget = x, y
			case token.GEQ:
				size, budget = y, x
			default:
				return true
			}
			sc, isCall := stripConv(size).(*ssa.Call)
			if !isCall {
				return true
			}
			if o := calleeObjOf(sc.Common()); o == nil || o.Name() != "GetSizeBytes" {
				return true
			}
			phi, isPhi := budget.(*ssa.Phi)
			if !isPhi {
				why = "the size of each Tree is compared with a fixed value instead of the budget that remains after the Trees already admitted: any number of Trees that each fit the limit are read, and the configured total is never enforced"
				return true
			}
			initOK, stepOK := false, false
			for _, e := range phi.Edges {
				if f, _ := loadedField(stripConv(e)); f != nil && f.Name() == "maximumTotalTreeSizeBytes" {
					initOK = true
				}
				if bo, isB := e.(*ssa.BinOp); isB && bo.Op == token.SUB && bo.X == ssa.Value(phi) && (bo.Y == size || sameSource(bo.Y, size)) {
					stepOK = true
				}
			}
			if initOK && stepOK {
				okBudget = true
				return false
			}
			why = "the budget the Tree size is compared with is not `starts at the configured maximum, minus every admitted Tree`"
			return true
		})
		c.Check(okBudget, name, "tree-budget", c.Pos(cl.Pos()), "size <= remaining budget, budget decreases by every admitted Tree", why)
	})
	if n == 0 {
		c.Fail(name, "tree-budget", c.Pos(fn.Pos()), "no Tree is read from the CAS")
	}
	// add(): which conditions can keep a digest out of the pending set
	aname := FuncName(add)
	nAdd := 0
	allInstrs(add, func(ins ssa.Instruction) {
		cl, ok := ins.(*ssa.Call)
		if !ok {
			return
		}
		o := calleeObjOf(cl.Common())
		if o == nil || o.Name() != "Add" {
			return
		}
		if nt := recvNamed(o); nt == nil || nt.Obj().Name() != "SetBuilder" {
			return
		}
		nAdd++
		bad := ""
		edgeFacts(cl.Block(), func(cond ssa.Value, val bool) bool {
			cnd := cond
			for {
				if u, ok := cnd.(*ssa.UnOp); ok && u.Op == token.NOT {
					cnd = u.X
					continue
				}
				break
			}
			if x, _, isNil := nilTest(cnd); isNil {
				if _, isParam := x.(*ssa.Parameter); isParam || isErrorType(x.Type()) {
					return true
				}
			}
			if bo, isB := cnd.(*ssa.BinOp); isB {
				for _, side := range []ssa.Value{bo.X, bo.Y} {
					if lc, isC := side.(*ssa.Call); isC {
						if lo := calleeObjOf(lc.Common()); lo != nil && lo.Name() == "Length" {
							return true
						}
					}
				}
			}
			bad = c.Pos(cond.Pos())
			return false
		})
		c.Check(bad == "", aname, "enqueues-all", c.Pos(cl.Pos()), "every non-nil digest is enqueued", "whether a digest is enqueued for the existence check depends on a condition (at "+bad+") other than `the pointer is nil` or an error: digests that meet it – for instance zero-sized ones – are never validated and never checked, so an ActionResult that references a missing object is returned")
	})
	if nAdd == 0 {
		c.Fail(aname, "enqueues-all", c.Pos(add.Pos()), "findMissingQueue.add never adds to the pending set")
	}
}

func runR136(c *Ctx) {
	fn := c.Func("pkg/util", "VisitProtoBytesFields")
	if fn == nil {
		c.Broken("util.VisitProtoBytesFields not found")
		return
	}
	name := FuncName(fn)
	var discards []*ssa.Call
	var peeks []*ssa.Call
	allInstrs(fn, func(ins ssa.Instruction) {
		if cl, ok := ins.(*ssa.Call); ok {
			if o := calleeObjOf(cl.Common()); o != nil && o.Pkg() != nil && o.Pkg().Path() == "bufio" {
				switch o.Name() {
				case "Discard":
					discards = append(discards, cl)
				case "Peek":
					peeks = append(peeks, cl)
				}
			}
		}
	})
	if len(discards) == 0 {
		c.Fail(name, "short-field", c.Pos(fn.Pos()), "no Discard found: the rule is written for the bufio-based visitor")
		return
	}
	for i, d := range discards {
		dc := d
		bad := ""
		var badPos token.Pos
		// 0 unknown / nil; 1 the error of this Discard is non-nil
		explorePaths(&pathSpec{Fn: fn, Init: 0,
			Step: func(st int, ev pathEvent) int {
				if ev.Ins != nil {
					if ev.Ins == ssa.Instruction(dc) {
						return 0
					}
					if st == 1 {
						for _, p := range peeks {
							if ev.Ins == ssa.Instruction(p) && bad == "" {
								bad, badPos = "the visitor goes on to the next field", p.Pos()
							}
						}
					}
					return st
				}
				if isNil, ok := edgeSaysErr(ev, dc); ok {
					if isNil {
						return 0
					}
					return 1
				}
				// err == io.EOF: true edge means non-nil
				if op, x, y, ok := normCmp(ev.Cond, ev.Val); ok && op == token.EQL {
					if (isIOEOF(y) && isErrResultOf(x, dc)) || (isIOEOF(x) && isErrResultOf(y, dc)) {
						return 1
					}
				}
				return st
			},
			AtReturn: func(st int, r *ssa.Return, _ map[int]bool) {
				if st == 1 && bad == "" && isNilConst(returnedValue(r, len(r.Results)-1)) {
					bad, badPos = "the visitor reports success", r.Pos()
				}
			}})
		c.Check(bad == "", name, fmt.Sprintf("short-field discard-%d", i), c.Pos(func() token.Pos {
			if bad != "" {
				return badPos
			}
			return d.Pos()
		}()), "a failed Discard ends the traversal with an error", "after a Discard failed (the input ended inside a field) "+bad+": a Tree that was cut off at a field boundary inside a Directory is accepted as complete, and the files listed after the cut are never checked")
	}
}

// ---------------------------------------------------------------------------
// R14.7, R16.7

func init() {
	register(&Rule{
		ID: "R14.7", Props: []string{"C14"}, Engine: "flow (result provenance)",
		Text:  "the client's FindMissing answers with everything it collected: in every function of pkg/blobstore/grpcclients that converts missing digests of a response into a digest.SetBuilder (one RPC per instance name and digest function), every return with a nil error returns Build() of that very builder – never an empty or partial set decided inside the loop over the groups",
		Floor: 2, MustExist: true, Run: runR147,
	})
	register(&Rule{
		ID: "R16.7", Props: []string{"C16"}, Engine: "who-may-call (closure body)",
		Text:  "only operations without a visible partial effect are retried as a whole: the function handed to casErrorHandlingBuffer.tryRepeatedly calls nothing on the buffer it is given except ReadAt, ToProto and ToByteSlice (whose results are discarded on failure); streaming into a caller's writer or handing out a reader must go through the stitching readers, otherwise the bytes delivered before the fault are delivered again",
		Floor: 3, MustExist: true, Run: runR167,
	})
}

func runR147(c *Ctx) {
	n := 0
	for _, tf := range c.pkgFuncs("pkg/blobstore/grpcclients") {
		fn := tf
		ei := errIndex(fn)
		if ei < 0 || len(fn.Blocks) == 0 || fn.Signature.Results().Len() != 2 {
			continue
		}
		// the collecting builder: receiver of SetBuilder.Add calls whose argument derives from a response
		var builders []ssa.Value
		allInstrs(fn, func(ins ssa.Instruction) {
			cl, ok := ins.(*ssa.Call)
			if !ok {
				return
			}
			o := calleeObjOf(cl.Common())
			if o == nil || o.Name() != "Add" {
				return
			}
			if nt := recvNamed(o); nt == nil || nt.Obj().Name() != "SetBuilder" {
				return
			}
			builders = append(builders, cl.Call.Args[0])
		})
		if len(builders) == 0 {
			continue
		}
		if rt, ok := fn.Signature.Results().At(0).Type().(*types.Named); !ok || rt.Obj().Name() != "Set" {
			continue
		}
		n++
		name := FuncName(fn)
		bad := token.NoPos
		for _, r := range returnsOf(fn) {
			if !isNilConst(returnedValue(r, ei)) {
				continue
			}
			v := returnedValue(r, 0)
			ok := false
			if bc, isC := stripConv(v).(*ssa.Call); isC {
				if o := calleeObjOf(bc.Common()); o != nil && o.Name() == "Build" {
					for _, b := range builders {
						if bc.Call.Args[0] == b || sameSource(bc.Call.Args[0], b) {
							ok = true
						}
					}
				}
			}
			if !ok && bad == token.NoPos {
				bad = r.Pos()
			}
		}
		c.Check(bad == token.NoPos, name, "returns-collected", c.Pos(func() token.Pos {
			if bad != token.NoPos {
				return bad
			}
			return fn.Pos()
		}()), "success returns the collected set", "a successful return does not return the set the missing digests were collected in: digests reported missing by the server (for other instance names or digest functions of the same request) are dropped, so missing objects are reported as present")
	}
	if n == 0 {
		c.Fail("grpcclients", "returns-collected", "-", "no FindMissing conversion loop found in the gRPC clients")
	}
}

func runR167(c *Ctx) {
	try := c.Method(bufferRel, "casErrorHandlingBuffer", "tryRepeatedly")
	if try == nil {
		c.Broken("casErrorHandlingBuffer.tryRepeatedly not found")
		return
	}
	allowed := map[string]bool{"ReadAt": true, "ToProto": true, "ToByteSlice": true}
	n := 0
	for _, tf := range c.pkgFuncs(bufferRel) {
		withAnon(tf, func(g *ssa.Function) {
			allInstrs(g, func(ins ssa.Instruction) {
				cc := callOf(ins)
				if cc == nil || cc.StaticCallee() != try {
					return
				}
				n++
				mc, ok := cc.Args[1].(*ssa.MakeClosure)
				if !ok {
					c.Fail(FuncName(g), "retry-whole", c.Pos(ins.Pos()), "the operation handed to tryRepeatedly is not a function literal; what it does with the buffer cannot be established")
					return
				}
				body := mc.Fn.(*ssa.Function)
				bad := ""
				allInstrs(body, func(i2 ssa.Instruction) {
					c2 := callOf(i2)
					if c2 == nil || !c2.IsInvoke() || len(body.Params) == 0 || stripConv(c2.Value) != ssa.Value(body.Params[0]) {
						return
					}
					if !allowed[c2.Method.Name()] {
						bad = c2.Method.Name()
					}
				})
				c.Check(bad == "", FuncName(g), "retry-whole", c.Pos(ins.Pos()), "only ReadAt / ToProto / ToByteSlice are retried as a whole", "tryRepeatedly is used for "+bad+", which hands bytes to the caller while it runs: after a fault in the middle the replacement starts from offset 0 again and the part already delivered is delivered twice")
			})
		})
	}
	if n == 0 {
		c.Fail(FuncName(try), "retry-whole", c.Pos(try.Pos()), "tryRepeatedly is never used")
	}
}

// ---------------------------------------------------------------------------
// R19.8, R19.9, R20.7, R20.8, R20.9

func init() {
	register(&Rule{
		ID: "R19.8", Props: []string{"C19"}, Engine: "flow (constructor wiring, configuration package)",
		Text:  "each demultiplexed backend is known by the prefix it is registered under: in the configuration of the demultiplexing backend the name stored for a backend (which FindMissing uses to partition digests per backend) is String() of the very prefix given to the trie's Set in the same iteration, that same prefix is the match side of the backend's InstanceNamePatcher, and the index stored in the trie is the position the backend is appended at",
		Floor: 3, MustExist: true, Run: runR198,
	})
	register(&Rule{
		ID: "R19.9", Props: []string{"C19"}, Engine: "sibling agreement (SSA, per block)",
		Text:  "the hierarchical fallback walks parent and child up together: in hierarchicalInstanceNamesGetFromCompositeErrorHandler.OnError every shortening of parentDigests is accompanied, in the same basic block, by the same shortening of childDigests, and the digests handed to the next GetFromComposite are the last elements of the two lists",
		Floor: 2, MustExist: true, Run: runR199,
	})
	register(&Rule{
		ID: "R20.7", Props: []string{"C20", "C10"}, Engine: "provenance of slice bounds (SSA)",
		Text:  "the key without instance name is the packed digest up to the end of its size: in Digest.GetKey the KeyWithoutInstance result is a prefix of the value (it starts at 0, so that the digest function is part of the key) whose end is exactly the size-end position reported by unpack() – not one further, which would include the separator and make it equal to the instance-aware key of the empty instance name",
		Floor: 1, MustExist: true, Run: runR207,
	})
	register(&Rule{
		ID: "R20.8", Props: []string{"C20", "C19"}, Engine: "who-may-parse (SSA)",
		Text:  "the packed representation of a Digest is parsed in one place: no function of pkg/digest other than Digest.unpack searches or splits a Digest's value string (strings.Index*, LastIndex*, Split*, Cut, Fields*) – instance names may contain every character the packed form uses as a separator, so only the length-driven walk of unpack finds the boundaries",
		Floor: 1, MustExist: false, Run: runR208,
	})
	register(&Rule{
		ID: "R20.9", Props: []string{"C20"}, Engine: "guard (SSA dominance)",
		Text:  "set filtering looks at every element, and unknown digest functions are rejected: in Set.RemoveEmptyBlob an element is appended to the result individually only under its own GetSizeBytes() != 0 test, and the only range copied in bulk is the prefix before the first empty element; in getBareFunction every non-nil result is returned on the true edge of an equality test of the digest function with one specific enum value (length-based inference only for UNKNOWN)",
		Floor: 8, MustExist: true, Run: runR209,
	})
}

func runR198(c *Ctx) {
	bare := c.Method(configurationRel, "simpleNestedBlobAccessCreator", "newNestedBlobAccessBare")
	if bare == nil {
		c.Broken("newNestedBlobAccessBare not found")
		return
	}
	name := FuncName(bare)
	var set *ssa.Call
	allInstrs(bare, func(ins ssa.Instruction) {
		if cl, ok := ins.(*ssa.Call); ok {
			if o := calleeObjOf(cl.Common()); o != nil && o.Name() == "Set" {
				if nt := recvNamed(o); nt != nil && nt.Obj().Name() == "InstanceNameTrie" {
					set = cl
				}
			}
		}
	})
	if set == nil {
		c.Fail(name, "demux-wiring", c.Pos(bare.Pos()), "no InstanceNameTrie.Set call found in the configuration of the demultiplexing backend")
		return
	}
	prefix := set.Call.Args[1]
	// the element appended in the same block region: composite literal with backendName / instanceNamePatcher
	var lit map[string]ssa.Value
	var app *ssa.Call
	allInstrs(bare, func(ins ssa.Instruction) {
		cl, ok := ins.(*ssa.Call)
		if !ok {
			return
		}
		if _, isApp := isAppend(cl); !isApp {
			return
		}
		fs := literalStores(bare, cl.Call.Args[1])
		// the record is recognised by what it holds, not by what its fields are called: a string
		// (the name) and an InstanceNamePatcher
		rec := map[string]ssa.Value{}
		for _, v := range fs {
			switch t := v.Type().(type) {
			case *types.Basic:
				if t.Kind() == types.String {
					rec["backendName"] = v
				}
			case *types.Named:
				if t.Obj().Name() == "InstanceNamePatcher" {
					rec["instanceNamePatcher"] = v
				}
			}
		}
		if len(rec) == 2 {
			lit, app = rec, cl
		}
	})
	if lit == nil {
		c.Fail(name, "demux-wiring", c.Pos(set.Pos()), "the per-backend record (backend, name, patcher) is not built next to the trie registration")
		return
	}
	// name = prefix.String()
	okName := false
	if nc, ok := stripConv(lit["backendName"]).(*ssa.Call); ok {
		if o := calleeObjOf(nc.Common()); o != nil && o.Name() == "String" && len(nc.Call.Args) > 0 && (nc.Call.Args[0] == prefix || sameSource(nc.Call.Args[0], prefix)) {
			okName = true
		}
	}
	c.Check(okName, name, "demux-name", c.Pos(app.Pos()), "a backend is named after the prefix it is registered under", "the name stored for a demultiplexed backend is not String() of the prefix it is registered under in the trie: two backends can end up with the same name, and FindMissing – which groups digests by that name – sends the digests of both to one of them and rewrites the answer with the wrong prefixes")
	// patcher(match = prefix, …)
	okPatch := false
	if pc, ok := stripConv(lit["instanceNamePatcher"]).(*ssa.Call); ok {
		if sc := pc.Call.StaticCallee(); sc != nil && sc.Name() == "NewInstanceNamePatcher" && (pc.Call.Args[0] == prefix || sameSource(pc.Call.Args[0], prefix)) && pc.Call.Args[1] != prefix {
			okPatch = true
		}
	}
	c.Check(okPatch, name, "demux-patcher", c.Pos(app.Pos()), "the patcher strips the registered prefix", "the backend's InstanceNamePatcher is not built with the registered prefix as the prefix to strip")
	// index = len(backends) of the list appended to
	okIdx := false
	if lc, ok := stripConv(set.Call.Args[2]).(*ssa.Call); ok {
		if bi, ok := lc.Call.Value.(*ssa.Builtin); ok && bi.Name() == "len" && (lc.Call.Args[0] == app.Call.Args[0] || sameSource(lc.Call.Args[0], app.Call.Args[0])) {
			okIdx = instrDominates(set, app) && set.Block() == app.Block()
		}
	}
	c.Check(okIdx, name, "demux-index", c.Pos(set.Pos()), "the trie stores the position the backend is appended at", "the index registered in the trie is not the position at which the backend is appended right afterwards")
}

func runR199(c *Ctx) {
	fn := c.Method("pkg/blobstore", "hierarchicalInstanceNamesGetFromCompositeErrorHandler", "OnError")
	if fn == nil {
		c.Broken("hierarchicalInstanceNamesGetFromCompositeErrorHandler.OnError not found")
		return
	}
	name := FuncName(fn)
	shrinkOf := func(st *ssa.Store) string {
		f := fieldOf(st.Addr)
		if f == nil {
			return ""
		}
		sl, ok := st.Val.(*ssa.Slice)
		if !ok || sl.High == nil {
			return ""
		}
		if lf, _ := loadedField(sl.X); lf != f {
			return ""
		}
		return f.Name()
	}
	perBlock := map[*ssa.BasicBlock]map[string]bool{}
	allInstrs(fn, func(ins ssa.Instruction) {
		if st, ok := ins.(*ssa.Store); ok {
			if n := shrinkOf(st); n != "" {
				if perBlock[st.Block()] == nil {
					perBlock[st.Block()] = map[string]bool{}
				}
				perBlock[st.Block()][n] = true
			}
		}
	})
	n := 0
	for b, m := range perBlock {
		if !m["parentDigests"] && !m["childDigests"] {
			continue
		}
		n++
		c.Check(m["parentDigests"] && m["childDigests"], name, "lock-step", c.Pos(b.Instrs[0].Pos()), "parent and child lists shrink together", "only one of parentDigests / childDigests is shortened when falling back to the parent instance name: the next attempt asks the ancestor's backend for the parent under the ancestor's name but for the child under the original name, so a child stored under the ancestor is never found")
	}
	if n == 0 {
		c.Fail(name, "lock-step", c.Pos(fn.Pos()), "the fallback never moves to a parent instance name")
	}
	// the next attempt uses the last elements of both lists
	okArgs := false
	allInstrs(fn, func(ins ssa.Instruction) {
		cl, ok := ins.(*ssa.Call)
		if !ok || !cl.Call.IsInvoke() || cl.Call.Method.Name() != "GetFromComposite" {
			return
		}
		last := func(v ssa.Value, field string) bool {
			u, ok := v.(*ssa.UnOp)
			if !ok {
				return false
			}
			ia, ok := u.X.(*ssa.IndexAddr)
			if !ok {
				return false
			}
			f, _ := loadedField(ia.X)
			if f == nil || f.Name() != field {
				return false
			}
			bo, ok := ia.Index.(*ssa.BinOp)
			return ok && bo.Op == token.SUB && isLenOfField(bo.X, field)
		}
		if last(cl.Call.Args[1], "parentDigests") && last(cl.Call.Args[2], "childDigests") {
			okArgs = true
		}
	})
	c.Check(okArgs, name, "next-attempt", c.Pos(fn.Pos()), "the next attempt uses the last parent and the last child digest", "the fallback GetFromComposite is not given the last element of parentDigests and the last element of childDigests")
}

func runR207(c *Ctx) {
	fn := c.Method(digestRel, "Digest", "GetKey")
	unpack := c.Method(digestRel, "Digest", "unpack")
	if fn == nil || unpack == nil {
		c.Broken("Digest.GetKey / Digest.unpack not found")
		return
	}
	name := FuncName(fn)
	// returns on the KeyWithoutInstance edge: those whose value is a Slice of the value field
	n := 0
	for _, r := range returnsOf(fn) {
		sl, ok := stripConv(r.Results[0]).(*ssa.Slice)
		if !ok {
			continue
		}
		if f := fieldOf(sl.X); f == nil || f.Name() != "value" {
			continue
		}
		n++
		fromStart := sl.Low == nil
		if k, isK := constInt(sl.Low); sl.Low != nil && isK && k == 0 {
			fromStart = true
		}
		endOK := false
		if sl.High != nil {
			if ex, isEx := stripConv(sl.High).(*ssa.Extract); isEx && ex.Index == 4 {
				if uc, isC := ex.Tuple.(*ssa.Call); isC && uc.Call.StaticCallee() == unpack {
					endOK = true
				}
			}
		}
		why := ""
		switch {
		case !fromStart:
			why = "the key without instance name does not start at the beginning of the packed value: the digest function is no longer part of the key, so digests of different functions with the same hash and size share one key"
		case !endOK:
			why = "the key without instance name does not end exactly at the size-end position reported by unpack(): it includes the separator (and equals the instance-aware key of the empty instance name) or cuts into the size"
		}
		c.Check(why == "", name, "key-without-instance", c.Pos(r.Pos()), "value[:sizeEnd]", why)
	}
	if n == 0 {
		c.Fail(name, "key-without-instance", c.Pos(fn.Pos()), "GetKey no longer derives the instance-less key as a prefix of the packed value; the rule cannot establish what the key contains")
	}
}

func runR208(c *Ctx) {
	digT := c.LookupType(digestRel, "Digest")
	if digT == nil {
		c.Broken("digest.Digest not found")
		return
	}
	searchers := map[string]bool{"Index": true, "IndexByte": true, "IndexRune": true, "IndexAny": true, "LastIndex": true, "LastIndexByte": true, "LastIndexAny": true, "Split": true, "SplitN": true, "SplitAfter": true, "Cut": true, "Fields": true, "FieldsFunc": true, "Contains": true, "ContainsRune": true, "TrimPrefix": true, "TrimSuffix": true, "HasSuffix": true}
	for _, tf := range c.pkgFuncs(digestRel) {
		withAnon(tf, func(g *ssa.Function) {
			if topFunc(g).Name() == "unpack" {
				return
			}
			allInstrs(g, func(ins ssa.Instruction) {
				cl, ok := ins.(*ssa.Call)
				if !ok {
					return
				}
				o := calleeObjOf(cl.Common())
				if o == nil || o.Pkg() == nil || (o.Pkg().Path() != "strings" && o.Pkg().Path() != "bytes") || !searchers[o.Name()] {
					return
				}
				// does an argument derive from a Digest's value field?
				fromDigest := false
				for _, a := range cl.Call.Args {
					deepSlice(g, a, func(x ssa.Value) bool {
						if f := fieldOf(x); f != nil && f.Name() == "value" {
							var bt types.Type
							switch y := x.(type) {
							case *ssa.Field:
								bt = y.X.Type()
							case *ssa.UnOp:
								if fa, ok := y.X.(*ssa.FieldAddr); ok {
									bt = fa.X.Type().Underlying().(*types.Pointer).Elem()
								}
							case *ssa.FieldAddr:
								bt = y.X.Type().Underlying().(*types.Pointer).Elem()
							}
							if bt != nil && types.Identical(bt, digT) {
								fromDigest = true
							}
						}
						return !fromDigest
					})
				}
				if fromDigest {
					c.Fail(FuncName(g), "single-parser", c.Pos(cl.Pos()), "the packed value of a Digest is searched with "+o.Pkg().Name()+"."+o.Name()+" outside unpack(): the characters that separate function, hash and size may also occur in instance names, so the boundary found is wrong for such names (patching and keys then cut the instance name in the middle)")
				}
			})
		})
	}
	c.PassTrivial("pkg/digest", "single-parser", "-", "examined every strings/bytes search call of the package")
}

func runR209(c *Ctx) {
	// (a) RemoveEmptyBlob
	if fn := c.Method(digestRel, "Set", "RemoveEmptyBlob"); fn == nil {
		c.Broken("Set.RemoveEmptyBlob not found")
	} else {
		name := FuncName(fn)
		n := 0
		allInstrs(fn, func(ins ssa.Instruction) {
			cl, ok := ins.(*ssa.Call)
			if !ok {
				return
			}
			if _, isApp := isAppend(cl); !isApp {
				return
			}
			n++
			arg := cl.Call.Args[1]
			// spread of a re-slice of the set's own storage: only the prefix up to the index of the first hit
			if sl, ok := arg.(*ssa.Slice); ok {
				if _, isAlloc := sl.X.(*ssa.Alloc); !isAlloc {
					okPrefix := false
					if f := fieldOf(sl.X); f != nil && f.Name() == "digests" && (sl.Low == nil) && sl.High != nil {
						// High is the index of an enclosing range over the same storage
						if hdr := rangeIndexHeader(sl.High); hdr != nil || isRangeKey(sl.High) {
							okPrefix = true
						}
					}
					c.Check(okPrefix, name, "filter-each", c.Pos(cl.Pos()), "only the prefix before the first empty element is copied in bulk", "a range of the set other than the prefix before the first empty element is copied into the result without testing its elements: empty blobs that are not adjacent in sort order (several digest functions, non-canonical hashes) stay in the set")
					return
				}
			}
			// a single element: must be under its own size test
			// the single element: the value stored into the variadic argument array
			var elem ssa.Value
			if al := rootAlloc(arg); al != nil {
				allInstrs(fn, func(i2 ssa.Instruction) {
					if st, ok := i2.(*ssa.Store); ok && rootAlloc(st.Addr) == al {
						elem = st.Val
					}
				})
			}
			okTest := false
			edgeFacts(cl.Block(), func(cond ssa.Value, val bool) bool {
				op, x, y, ok := normCmp(cond, val)
				if !ok || op != token.NEQ {
					return true
				}
				for _, pair := range [][2]ssa.Value{{x, y}, {y, x}} {
					if k, isK := constInt(pair[1]); isK && k == 0 {
						if sc, isC := pair[0].(*ssa.Call); isC {
							if o := calleeObjOf(sc.Common()); o != nil && o.Name() == "GetSizeBytes" && elem != nil && len(sc.Call.Args) > 0 && (sc.Call.Args[0] == elem || sameSource(sc.Call.Args[0], elem)) {
								okTest = true
							}
						}
					}
				}
				return !okTest
			})
			c.Check(okTest, name, "filter-each", c.Pos(cl.Pos()), "appended under its own non-empty test", "an element is appended to the filtered set without its own GetSizeBytes() != 0 test")
		})
		if n == 0 {
			c.Fail(name, "filter-each", c.Pos(fn.Pos()), "RemoveEmptyBlob builds no filtered copy")
		}
	}
	// (b) getBareFunction
	if fn := c.Func(digestRel, "getBareFunction"); fn == nil {
		c.Broken("digest.getBareFunction not found")
	} else {
		name := FuncName(fn)
		for _, r := range returnsOf(fn) {
			if isNilConst(r.Results[0]) {
				continue
			}
			ok := dominatedByCmpDepth(r.Block(), func(op token.Token, x, y ssa.Value) bool {
				_, isK := constInt(y)
				return op == token.EQL && x == ssa.Value(fn.Params[0]) && isK
			}, 2)
			c.Check(ok, name, "function-by-enum", c.Pos(r.Pos()), "selected by one specific enum value", "a digest function is selected on a path on which the enum value was not compared equal to one specific constant (a default branch): unsupported or unknown-to-this-version functions are silently mapped to a legacy function by hash length instead of being rejected")
		}
	}
}

// isRangeKey: v is the key (index) extracted from a `range` over a slice that
// go/ssa lowered to an explicit index loop (phi of -1 / +1).
func isRangeKey(v ssa.Value) bool {
	_, ok := v.(*ssa.Phi)
	if ok {
		return true
	}
	if bo, ok := v.(*ssa.BinOp); ok && bo.Op == token.ADD {
		_, isPhi := bo.X.(*ssa.Phi)
		return isPhi
	}
	return false
}

// ---------------------------------------------------------------------------
// R09.9

func init() {
	register(&Rule{
		ID: "R09.9", Props: []string{"C09", "C14", "C16"}, Engine: "return-shape (SSA, every implementation of an interface method)",
		Text:  "a chunk is never delivered together with an error: in every implementation of buffer.ChunkReader.Read in the module each return either carries no data (nil) or a nil error – or forwards both results of one call of another ChunkReader's Read (or of a helper of the same type) unchanged; every consumer (the validating readers first of all) treats io.EOF as `no more data` and drops a chunk that comes with it, so the tail of a healthy object would be reported as missing",
		Floor: 8, MustExist: true, Run: runR099,
	})
}

func runR099(c *Ctx) {
	im := c.IfaceMethod(bufferRel, "ChunkReader", "Read")
	if im == nil {
		c.Broken("buffer.ChunkReader.Read not found")
		return
	}
	want := im.Type().(*types.Signature)
	var impls []*ssa.Function
	for _, f := range c.Funcs {
		if f.Parent() != nil || f.Name() != "Read" || f.Signature.Recv() == nil || len(f.Blocks) == 0 {
			continue
		}
		if f.Signature.Params().Len() != 0 || f.Signature.Results().Len() != 2 {
			continue
		}
		if !types.Identical(f.Signature.Results().At(0).Type(), want.Results().At(0).Type()) || !types.Identical(f.Signature.Results().At(1).Type(), want.Results().At(1).Type()) {
			continue
		}
		impls = append(impls, f)
	}
	sortFuncs(impls)
	for _, fn := range impls {
		name := FuncName(fn)
		bad := token.NoPos
		for _, r := range returnsOf(fn) {
			data, err := returnedValue(r, 0), returnedValue(r, 1)
			if isNilConst(data) || isNilConst(err) {
				continue
			}
			// forwarding both results of one call
			if d, ok := stripConv(data).(*ssa.Extract); ok {
				if e, ok := stripConv(err).(*ssa.Extract); ok && d.Tuple == e.Tuple && d.Index == 0 && e.Index == 1 {
					if cl, ok := d.Tuple.(*ssa.Call); ok {
						if cl.Call.IsInvoke() && cl.Call.Method.Name() == "Read" {
							continue
						}
						if inlineOwnMethods(cl) != nil {
							continue
						}
					}
				}
			}
			// … or both fields of one result record that was handed over by the consumer that did the read
			if df, ok := stripConv(data).(*ssa.Field); ok {
				if ef, ok := stripConv(err).(*ssa.Field); ok && df.X == ef.X {
					continue
				}
			}
			if fd, bd := loadedField(stripConv(data)); fd != nil {
				if fe, be := loadedField(stripConv(err)); fe != nil && bd == be && fd != fe {
					continue
				}
			}
			// the error is nil on every path to this return?
			errNil := false
			if ex, ok := stripConv(err).(*ssa.Extract); ok {
				if cl, ok := ex.Tuple.(*ssa.Call); ok && dominatedByErrNil(r.Block(), cl) {
					errNil = true
				}
			}
			if errNil {
				continue
			}
			if bad == token.NoPos {
				bad = r.Pos()
			}
		}
		c.Check(bad == token.NoPos, name, "no-data-with-error", c.Pos(func() token.Pos {
			if bad != token.NoPos {
				return bad
			}
			return fn.Pos()
		}()), "data and error are never returned together", "Read can return a chunk together with a non-nil error (for instance the last decompressed bytes together with io.EOF): consumers drop a chunk that arrives with io.EOF, so a complete, matching object is reported as too short (INTERNAL, `corrupted`)")
	}
	if len(impls) == 0 {
		c.Fail("buffer.ChunkReader", "no-data-with-error", "-", "no implementation of ChunkReader.Read found")
	}
}

// ---------------------------------------------------------------------------
// R01.14, R02.10, R02.11, R06.8

func init() {
	register(&Rule{
		ID: "R01.14", Props: []string{"C01", "C04"}, Engine: "guard + order (SSA)",
		Text:  "a block writer's last sector is written only after a complete copy, and nothing is written after the writer let go of the block: in the function blockDeviceBackedBlock.Put returns, flush() of the block writer is called only on the nil edge of the IntoWriter that fed it (after a failed copy the writer still points at the first, shared sector – flushing would write the image of the last sector over a committed neighbour), and no path leads from the Release() that drops the writer's use count to a flush or to IntoWriter",
		Floor: 2, MustExist: true, Run: runR0114,
	})
	register(&Rule{
		ID: "R02.10", Props: []string{"C02", "C03", "C07"}, Engine: "table (literal completeness) + flow",
		Text:  "what is restored counts as written, synchronising and synchronised: in NewPersistentBlockList every re-attached block's bookkeeping record sets writtenOffsetBytes, synchronizingOffsetBytes and synchronizedOffsetBytes – all three – from the persisted write offset of that block and its epoch count from the persisted seeds; and the constructor sets both synchronizingEpochs and synchronizedEpochs to the number of restored epochs",
		Floor: 5, MustExist: true, Run: runR0210,
	})
	register(&Rule{
		ID: "R02.11", Props: []string{"C02", "C07", "C03", "C08"}, Engine: "guard + shape (SSA)",
		Text:  "when a block leaves, the epochs it carried leave every counter: PersistentBlockList.PopFront lowers synchronizingEpochs and synchronizedEpochs, each by the popped block's epoch count and each clamped at zero by a comparison of that count with the same counter (never by a shared amount derived from the other counter)",
		Floor: 2, MustExist: true, Run: runR0211,
	})
	register(&Rule{
		ID: "R06.8", Props: []string{"C06", "C02"}, Engine: "table agreement (writer vs reader)",
		Text:  "the record codec is symmetric: every field blockDeviceBackedLocationRecordArray.Put serialises with binary.LittleEndian.PutUintN at a constant offset of the record is read back by Get with UintN of the same width at the same offset, and vice versa (the key bytes are copied at the same offset in both directions)",
		Floor: 5, MustExist: true, Run: runR068,
	})
}

func runR0114(c *Ctx) {
	put := c.Method(localRel, "blockDeviceBackedBlock", "Put")
	if put == nil {
		c.Broken("blockDeviceBackedBlock.Put not found")
		return
	}
	n := 0
	withAnon(put, func(g *ssa.Function) {
		if g == put {
			return
		}
		var into *ssa.Call
		var flushes, releases []*ssa.Call
		allInstrs(g, func(ins ssa.Instruction) {
			cl, ok := ins.(*ssa.Call)
			if !ok {
				return
			}
			if cl.Call.IsInvoke() && cl.Call.Method.Name() == "IntoWriter" {
				into = cl
			}
			if sc := cl.Call.StaticCallee(); sc != nil {
				switch sc.Name() {
				case "flush":
					flushes = append(flushes, cl)
				case "Release":
					releases = append(releases, cl)
				}
			}
		})
		if into == nil {
			return
		}
		name := FuncName(g)
		for _, f := range flushes {
			n++
			okNil := dominatedByErrNil(f.Block(), into)
			if !okNil {
				// the error lives in a cell (it is captured by the finalizer that is returned): the
				// nil test is on a load of that cell which follows the store of IntoWriter's result
				// with no other store in between
				edgeFacts(f.Block(), func(cond ssa.Value, val bool) bool {
					cnd, v := cond, val
					for {
						if u, ok := cnd.(*ssa.UnOp); ok && u.Op == token.NOT {
							cnd, v = u.X, !v
							continue
						}
						break
					}
					x, nilWhenTrue, ok := nilTest(cnd)
					if !ok || nilWhenTrue != v {
						return true
					}
					ld, ok := x.(*ssa.UnOp)
					if !ok || ld.Op != token.MUL {
						return true
					}
					cell := ld.X
					var last ssa.Value
					for _, i2 := range ld.Block().Instrs {
						if i2 == ssa.Instruction(ld) {
							break
						}
						if st, ok := i2.(*ssa.Store); ok && st.Addr == cell {
							last = st.Val
						}
					}
					if last == ssa.Value(into) {
						okNil = true
						return false
					}
					return true
				})
			}
			c.Check(okNil, name, "flush-after-copy", c.Pos(f.Pos()), "flushed only after the copy succeeded", "the block writer is flushed although the copy into it may have failed: after an early failure the writer still points at the object's first sector, which it shares with the previous object, and the flush writes the image of the last sector there – the tail of an already committed neighbour is overwritten")
		}
		for _, r := range releases {
			n++
			bad := false
			for _, f := range append(append([]*ssa.Call{}, flushes...), into) {
				if reachableAvoiding(r, f, func(ssa.Instruction) bool { return false }) {
					bad = true
				}
			}
			c.Check(!bad, name, "release-last", c.Pos(r.Pos()), "the use count is dropped after the last write", "the writer's reference to the block is dropped before its last write (flush): the block can be released and its region handed to a new block in between, and the stale sector write lands in the new block's data")
		}
	})
	if n == 0 {
		c.Fail(FuncName(put), "flush-after-copy", c.Pos(put.Pos()), "the writer closure (IntoWriter · flush · Release) was not found")
	}
}

func runR0210(c *Ctx) {
	ctor := c.Func(localRel, "NewPersistentBlockList")
	T := c.LookupType(localRel, "persistentBlockInfo")
	if ctor == nil || T == nil {
		c.Broken("NewPersistentBlockList / persistentBlockInfo not found")
		return
	}
	name := FuncName(ctor)
	n := 0
	allInstrs(ctor, func(ins ssa.Instruction) {
		cl, ok := ins.(*ssa.Call)
		if !ok {
			return
		}
		if _, isApp := isAppend(cl); !isApp {
			return
		}
		sl, ok := cl.Type().Underlying().(*types.Slice)
		if !ok || !types.Identical(sl.Elem(), T) {
			return
		}
		n++
		fs := literalStores(ctor, cl.Call.Args[1])
		isPersistedOffset := func(v ssa.Value) bool {
			if v == nil {
				return false
			}
			f, _ := loadedField(stripConv(v))
			return f != nil && f.Name() == "WriteOffsetBytes"
		}
		for _, fld := range []string{"writtenOffsetBytes", "synchronizingOffsetBytes", "synchronizedOffsetBytes"} {
			c.Check(isPersistedOffset(fs[fld]), name, "restored-"+fld, c.Pos(cl.Pos()), "set from the persisted write offset", "a re-attached block starts with "+fld+" = 0 instead of its persisted write offset: the next state file records the block as (partly) empty, and after a further restart new uploads are written over objects that were acknowledged and synchronised")
		}
		okEpochs := false
		if lc, ok := stripConv(fs["epochCount"]).(*ssa.Call); ok {
			if bi, ok := lc.Call.Value.(*ssa.Builtin); ok && bi.Name() == "len" {
				if f, _ := loadedField(lc.Call.Args[0]); f != nil && f.Name() == "EpochHashSeeds" {
					okEpochs = true
				}
			}
		}
		c.Check(okEpochs, name, "restored-epochCount", c.Pos(cl.Pos()), "set from the persisted seeds", "a re-attached block's epoch count is not the number of its persisted epoch seeds")
	})
	if n == 0 {
		c.Fail(name, "restored-block", c.Pos(ctor.Pos()), "the constructor does not re-attach persisted blocks")
	}
	for _, fld := range []string{"synchronizingEpochs", "synchronizedEpochs"} {
		ok := false
		allInstrs(ctor, func(ins ssa.Instruction) {
			st, isS := ins.(*ssa.Store)
			if !isS {
				return
			}
			if f := fieldOf(st.Addr); f == nil || f.Name() != fld {
				return
			}
			if isLenOfField(stripConv(st.Val), "epochHashSeeds") {
				ok = true
			}
		})
		c.Check(ok, name, "restored-"+fld, c.Pos(ctor.Pos()), "starts at the number of restored epochs", fld+" is not initialised to the number of restored epochs: uploads into a restored block join an epoch that is already in the state file (their records validate after a crash although the data was never flushed) and do not wake the syncer")
	}
}

func runR0211(c *Ctx) {
	fn := c.Method(localRel, "PersistentBlockList", "PopFront")
	if fn == nil {
		c.Broken("PersistentBlockList.PopFront not found")
		return
	}
	name := FuncName(fn)
	isEpochCount := func(v ssa.Value) bool {
		f := fieldOf(stripConv(v))
		return f != nil && f.Name() == "epochCount"
	}
	for _, fld := range []string{"synchronizingEpochs", "synchronizedEpochs"} {
		isCounter := func(v ssa.Value) bool {
			f, base := loadedField(stripConv(v))
			return f != nil && f.Name() == fld && isReceiverValue(fn, base)
		}
		nStores, bad := 0, ""
		allInstrs(fn, func(ins ssa.Instruction) {
			st, ok := ins.(*ssa.Store)
			if !ok {
				return
			}
			if f := fieldOf(st.Addr); f == nil || f.Name() != fld {
				return
			}
			nStores++
			// judge: value v, produced in block blk, is "counter minus epoch count, clamped at zero"
			var judge func(blk *ssa.BasicBlock, v ssa.Value, isCtr, isEpc func(ssa.Value) bool, depth int) string
			judge = func(blk *ssa.BasicBlock, v ssa.Value, isCtr, isEpc func(ssa.Value) bool, depth int) string {
				if k, isK := constInt(v); isK && k == 0 {
					// clamped: on the edge epochCount >= counter
					if !dominatedByCmpDepth(blk, func(op token.Token, x, y ssa.Value) bool {
						return (op == token.GEQ && isEpc(x) && isCtr(y)) || (op == token.LEQ && isCtr(x) && isEpc(y))
					}, 2) {
						return "the counter is reset without a comparison of the popped block's epoch count with this counter"
					}
					return ""
				}
				if bo, isB := v.(*ssa.BinOp); isB && bo.Op == token.SUB && isCtr(bo.X) && isEpc(bo.Y) {
					if !dominatedByCmpDepth(blk, func(op token.Token, x, y ssa.Value) bool {
						return (op == token.LSS && isEpc(x) && isCtr(y)) || (op == token.GTR && isCtr(x) && isEpc(y))
					}, 2) {
						return "the subtraction is not guarded by `epoch count < counter`"
					}
					return ""
				}
				// a helper of the package computing the clamped difference of two of its parameters
				if cl, isC := v.(*ssa.Call); isC && depth == 0 {
					if h := cl.Call.StaticCallee(); h != nil && h.Pkg == fn.Pkg && len(h.Blocks) > 0 && h.Signature.Recv() == nil {
						ci, ei := -1, -1
						for i, a := range cl.Call.Args {
							if isCtr(a) {
								ci = i
							}
							if isEpc(a) {
								ei = i
							}
						}
						if ci >= 0 && ei >= 0 && ci != ei {
							pc, pe := h.Params[ci], h.Params[ei]
							res := ""
							nRet := 0
							allInstrs(h, func(hi ssa.Instruction) {
								r, ok := hi.(*ssa.Return)
								if !ok || len(r.Results) != 1 {
									return
								}
								nRet++
								rv := returnedValue(r, 0)
								vals := []ssa.Value{rv}
								blks := []*ssa.BasicBlock{r.Block()}
								if phi, isPhi := rv.(*ssa.Phi); isPhi {
									vals, blks = nil, nil
									for i, e := range phi.Edges {
										vals = append(vals, e)
										blks = append(blks, phi.Block().Preds[i])
									}
								}
								for i := range vals {
									if m := judge(blks[i], vals[i], func(x ssa.Value) bool { return stripConv(x) == ssa.Value(pc) }, func(x ssa.Value) bool { return stripConv(x) == ssa.Value(pe) }, 1); m != "" && res == "" {
										res = m + " (in " + h.Name() + ")"
									}
								}
							})
							if nRet > 0 {
								return res
							}
						}
					}
				}
				return "the counter is lowered by something other than the popped block's own epoch count"
			}
			if m := judge(st.Block(), st.Val, isCounter, isEpochCount, 0); m != "" {
				bad = m
			}
		})
		if nStores == 0 {
			bad = "the counter is not lowered at all"
		}
		c.Check(bad == "", name, "epochs-leave-"+fld, c.Pos(fn.Pos()), "lowered by the popped block's epoch count, clamped by itself", fld+": "+bad+" – after a rotation the counter no longer equals the number of (synchronising / synchronised) epochs that still exist, so later uploads join an epoch whose seed is already persisted or the syncer is never woken")
	}
}

func runR068(c *Ctx) {
	put := c.Method(localRel, "blockDeviceBackedLocationRecordArray", "Put")
	get := c.Method(localRel, "blockDeviceBackedLocationRecordArray", "Get")
	if put == nil || get == nil {
		c.Broken("blockDeviceBackedLocationRecordArray.Put/Get not found")
		return
	}
	// (offset, width) of every fixed-width field access on a [N]byte record
	collect := func(fn *ssa.Function, prefix string) map[int64]int {
		out := map[int64]int{}
		allInstrs(fn, func(ins ssa.Instruction) {
			cl, ok := ins.(*ssa.Call)
			if !ok {
				return
			}
			o := calleeObjOf(cl.Common())
			if o == nil || o.Pkg() == nil || o.Pkg().Path() != "encoding/binary" || !strings.HasPrefix(o.Name(), prefix) {
				return
			}
			width := 0
			fmt.Sscanf(strings.TrimPrefix(o.Name(), prefix), "%d", &width)
			if width == 0 {
				return
			}
			// the byte slice argument: record[off:]
			for _, a := range cl.Call.Args {
				if sl, ok := a.(*ssa.Slice); ok {
					off := int64(0)
					if sl.Low != nil {
						if k, isK := constInt(sl.Low); isK {
							off = k
						} else {
							return
						}
					}
					if _, isArr := sl.X.Type().Underlying().(*types.Pointer); isArr {
						out[off] = width
					}
				}
			}
		})
		return out
	}
	w := collect(put, "PutUint")
	r := collect(get, "Uint")
	name := FuncName(get)
	if len(w) < 4 || len(r) < 4 {
		c.Fail(name, "codec", c.Pos(get.Pos()), "the fixed-width fields of the record were not found in Put / Get")
		return
	}
	var offs []int64
	seen := map[int64]bool{}
	for o := range w {
		if !seen[o] {
			seen[o] = true
			offs = append(offs, o)
		}
	}
	for o := range r {
		if !seen[o] {
			seen[o] = true
			offs = append(offs, o)
		}
	}
	for i := 1; i < len(offs); i++ {
		for j := i; j > 0 && offs[j] < offs[j-1]; j-- {
			offs[j], offs[j-1] = offs[j-1], offs[j]
		}
	}
	for _, o := range offs {
		c.Check(w[o] == r[o] && w[o] != 0, name, fmt.Sprintf("codec-field@%d", o), c.Pos(get.Pos()), fmt.Sprintf("%d bits written and read", w[o]), fmt.Sprintf("the record field at byte offset %d is written with %d bits but read with %d bits: locations read back differ from the locations stored (e.g. offsets above 4 GiB come back truncated), so lookups return places that were never stored and the age comparison runs on wrong values", o, w[o], r[o]))
	}
}

// ---------------------------------------------------------------------------
// Round 4, second half

func init() {
	register(&Rule{
		ID: "R11.9", Props: []string{"C11", "C17"}, Engine: "guard + constant argument (SSA)",
		Text:  "a sink that lacks the object after a copy is a server fault, not NOT_FOUND: in notFoundToInternalErrorHandler.OnError every return on the NOT_FOUND edge carries an error built with an explicit INTERNAL code (StatusWrapWithCode / status.Error(f) with codes.Internal) – a wrapper that keeps the original code would let the mirrored and caching composites mistake the failed repair for `neither replica has it`",
		Floor: 1, MustExist: true, Run: runR119,
	})
	register(&Rule{
		ID: "R17.9", Props: []string{"C17", "C11"}, Engine: "return-shape (SSA)",
		Text:  "reads through a replicating composite always carry the fall-over: GetWithBlobReplicator and GetFromCompositeWithBlobReplicator return nothing but buffer.WithErrorHandler applied to the initial backend's buffer and a handler that holds the replicator selector – a buffer of the first backend is never returned bare (stream-backed buffers fail only when read)",
		Floor: 2, MustExist: true, Run: runR179,
	})
	register(&Rule{
		ID: "R12.12", Props: []string{"C12", "C11", "C17", "C19"}, Engine: "wiring table (configuration package)",
		Text:  "the configuration never hands out a composite's backend bare: in newNestedBlobAccessBare every successful return that names its backend type sharding, mirrored, read_caching, read_fallback or demultiplexing carries a BlobAccess built by the corresponding constructor (NewShardingBlobAccess, NewMirroredBlobAccess, NewReadCachingBlobAccess, NewReadFallbackBlobAccess, NewDemultiplexingBlobAccess)",
		Floor: 5, MustExist: true, Run: runR1212,
	})
	register(&Rule{
		ID: "R15.6", Props: []string{"C15", "C04"}, Engine: "order (SSA reachability)",
		Text:  "release before waiting: in the Close methods of the background-task decorators (chunkReaderWithBackgroundTask, readerWithBackgroundTask) the wrapped reader is closed before the task's completion is awaited – the task may be consuming the sibling of the same clone group and can only finish once this consumer has let go",
		Floor: 2, MustExist: true, Run: runR156,
	})
	register(&Rule{
		ID: "R04.7", Props: []string{"C04", "C15", "C16"}, Engine: "typestate over a reader field (path automaton)",
		Text:  "only Close closes: in package buffer, for every type whose Close method closes a reader it holds in a field, no other method of the type closes that field's reader unless it installs a replacement (or nil) in the field on every path before it returns – otherwise the consumer's Close closes the same stream twice and a shared, reference-counted source is released under its other clones",
		Floor: 2, MustExist: true, Run: runR047,
	})
	register(&Rule{
		ID: "R17.10", Props: []string{"C17"}, Engine: "who-may-call",
		Text:  "the existence cache keeps full-resolution times: no method of digest.ExistenceCache converts a clock value to a coarser unit (Time.Unix, UnixMilli, UnixMicro, Truncate, Round) – expiry decided on truncated timestamps keeps entries alive beyond the configured duration",
		Floor: 1, MustExist: false, Run: runR1710,
	})
	register(&Rule{
		ID: "R19.10", Props: []string{"C19"}, Engine: "order (path automaton)",
		Text:  "the hierarchical fallback tries every ancestor: in both error handlers of hierarchicalInstanceNamesBlobAccess the decision that no ancestor is left (the return that passes the NOT_FOUND on) is taken on the list as it stands – on no path has the list already been shortened in that call – and by comparing its length with exactly one",
		Floor: 2, MustExist: true, Run: runR1910,
	})
	register(&Rule{
		ID: "R19.11", Props: []string{"C19", "C20"}, Engine: "table (literal completeness, AST)",
		Text:  "a trie node without a registered value says so: every composite literal of instanceNameTrieNode in pkg/digest sets the value field explicitly (-1 for nodes that only lead to longer prefixes); the zero value would read as `backend 0 is registered here`",
		Floor: 2, MustExist: true, Run: runR1911,
	})
	register(&Rule{
		ID: "R20.12", Props: []string{"C20"}, Engine: "order of a length and an append (SSA)",
		Text:  "a position is recorded before the list grows: in Set.PartitionByInstanceName the index stored for a newly seen instance name is the length of the partition list taken before that name's partition is appended (so that it is the position of that partition)",
		Floor: 1, MustExist: true, Run: runR2012,
	})
	register(&Rule{
		ID: "R20.13", Props: []string{"C20"}, Engine: "guard (SSA dominance, enumerated idiom)",
		Text:  "redundant slashes are rejected: every successful return of digest.NewInstanceName is dominated by the failing edges of strings.HasPrefix(value, \"/\"), strings.HasSuffix(value, \"/\") and strings.Contains(value, \"//\") and by the nil result of validateInstanceNameComponents (the repository's idiom for `no leading, trailing or doubled separator and no reserved keyword`)",
		Floor: 1, MustExist: true, Run: runR2013,
	})
}

func runR119(c *Ctx) {
	fn := c.Method(replicationRel, "notFoundToInternalErrorHandler", "OnError")
	if fn == nil {
		c.Broken("notFoundToInternalErrorHandler.OnError not found")
		return
	}
	name := FuncName(fn)
	n := 0
	for _, r := range returnsOf(fn) {
		// on the NOT_FOUND edge?
		onNF := false
		edgeFacts(r.Block(), func(cond ssa.Value, val bool) bool {
			if op, x, y, ok := normCmp(cond, val); ok && op == token.EQL {
				for _, pair := range [][2]ssa.Value{{x, y}, {y, x}} {
					if sc, isC := pair[0].(*ssa.Call); isC && isPkgFuncCall(sc.Common(), "google.golang.org/grpc/status", "Code") {
						if k, isK := constInt(stripConv(pair[1])); isK && k == 5 {
							onNF = true
						}
					}
				}
			}
			return true
		})
		if !onNF {
			continue
		}
		n++
		ev := returnedValue(r, len(r.Results)-1)
		okCode := false
		if cl, ok := stripConv(ev).(*ssa.Call); ok {
			for _, a := range cl.Call.Args {
				if k, isK := constInt(stripConv(a)); isK && k == 13 {
					if t := a.Type().String(); strings.HasSuffix(t, "codes.Code") {
						okCode = true
					}
				}
			}
		}
		c.Check(okCode, name, "relabel-internal", c.Pos(r.Pos()), "NOT_FOUND from the sink is relabelled INTERNAL", "on the NOT_FOUND edge the handler returns an error that is not built with an explicit INTERNAL code: the original NOT_FOUND code survives, so a sink that lost the object after an acknowledged copy makes the mirrored / caching composite answer NOT_FOUND although the source replica holds the object")
	}
	if n == 0 {
		c.Fail(name, "relabel-internal", c.Pos(fn.Pos()), "the handler no longer distinguishes NOT_FOUND")
	}
}

func runR179(c *Ctx) {
	for _, fname := range []string{"GetWithBlobReplicator", "GetFromCompositeWithBlobReplicator"} {
		fn := c.Func(replicationRel, fname)
		if fn == nil {
			c.Broken("replication.%s not found", fname)
			continue
		}
		name := FuncName(fn)
		bad := token.NoPos
		for _, r := range returnsOf(fn) {
			ok := false
			if cl, isC := stripConv(r.Results[0]).(*ssa.Call); isC && isPkgFuncCall(cl.Common(), modPath+"/"+bufferRel, "WithErrorHandler") {
				// the buffer comes from the initial backend, the handler holds the selector parameter
				fromBackend, hasSelector := false, false
				deepSlice(fn, cl.Call.Args[0], func(x ssa.Value) bool {
					if xc, isX := x.(*ssa.Call); isX && xc.Call.IsInvoke() && (xc.Call.Method.Name() == "Get" || xc.Call.Method.Name() == "GetFromComposite") {
						if _, isP := xc.Call.Value.(*ssa.Parameter); isP {
							fromBackend = true
						}
					}
					return !fromBackend
				})
				deepSlice(fn, cl.Call.Args[1], func(x ssa.Value) bool {
					if p, isP := x.(*ssa.Parameter); isP {
						if _, isSig := p.Type().Underlying().(*types.Signature); isSig {
							hasSelector = true
						}
					}
					return !hasSelector
				})
				ok = fromBackend && hasSelector
			}
			if !ok && bad == token.NoPos {
				bad = r.Pos()
			}
		}
		c.Check(bad == token.NoPos, name, "always-wrapped", c.Pos(func() token.Pos {
			if bad != token.NoPos {
				return bad
			}
			return fn.Pos()
		}()), "every return is WithErrorHandler(initial backend's buffer, replicating handler)", "a buffer is returned that is not wrapped with the replicating error handler: a lazily failing (stream-backed) buffer of the first backend reports NOT_FOUND to the caller without the other backend being consulted, the object is not repaired, and other failures lose the backend's name")
	}
}

func runR1212(c *Ctx) {
	bare := c.Method(configurationRel, "simpleNestedBlobAccessCreator", "newNestedBlobAccessBare")
	if bare == nil {
		c.Broken("newNestedBlobAccessBare not found")
		return
	}
	name := FuncName(bare)
	table := map[string]string{"sharding": "NewShardingBlobAccess", "mirrored": "NewMirroredBlobAccess", "read_caching": "NewReadCachingBlobAccess", "read_fallback": "NewReadFallbackBlobAccess", "demultiplexing": "NewDemultiplexingBlobAccess"}
	seen := map[string]bool{}
	for _, r := range returnsOf(bare) {
		if len(r.Results) != 3 || !isNilConst(returnedValue(r, 2)) {
			continue
		}
		kc, ok := stripConv(returnedValue(r, 1)).(*ssa.Const)
		if !ok || kc.Value == nil || kc.Value.Kind() != constant.String {
			continue
		}
		kind := constant.StringVal(kc.Value)
		ctor, known := table[kind]
		if !known {
			continue
		}
		seen[kind] = true
		// the BlobAccess field of the returned info
		okCtor := false
		deepSlice(bare, returnedValue(r, 0), func(x ssa.Value) bool {
			if cl, isC := x.(*ssa.Call); isC {
				if sc := cl.Call.StaticCallee(); sc != nil && sc.Name() == ctor {
					okCtor = true
				}
				return false
			}
			return !okCtor
		})
		// deepSlice stops at calls; the info literal's BlobAccess field store
		if !okCtor {
			if fs := literalStores(bare, func() ssa.Value {
				if u, isU := stripConv(returnedValue(r, 0)).(*ssa.UnOp); isU {
					return u.X
				}
				return returnedValue(r, 0)
			}()); fs != nil {
				if cl, isC := stripConv(fs["BlobAccess"]).(*ssa.Call); isC {
					if sc := cl.Call.StaticCallee(); sc != nil && sc.Name() == ctor {
						okCtor = true
					}
				}
			}
		}
		c.Check(okCtor, name, "composite-not-bypassed "+kind, c.Pos(r.Pos()), "built by "+ctor, "a `"+kind+"` backend is handed out that was not built by "+ctor+" (a short cut returns a nested backend bare): the composite's guarantees – routing, error labelling with the shard / replica / backend name, repair – do not apply to this configuration")
	}
	for k := range table {
		if !seen[k] {
			c.Fail(name, "composite-not-bypassed "+k, c.Pos(bare.Pos()), "no successful return for backend type "+k+" found")
		}
	}
}

func runR156(c *Ctx) {
	n := 0
	for _, typ := range []string{"chunkReaderWithBackgroundTask", "readerWithBackgroundTask"} {
		fn := c.Method(bufferRel, typ, "Close")
		if fn == nil {
			c.Broken("%s.Close not found", typ)
			continue
		}
		var recvs []ssa.Instruction
		var closes []*ssa.Call
		allInstrs(fn, func(ins ssa.Instruction) {
			if waitsForTask(ins) {
				recvs = append(recvs, ins)
			}
			if cl, ok := ins.(*ssa.Call); ok && cl.Call.IsInvoke() && cl.Call.Method.Name() == "Close" {
				closes = append(closes, cl)
			}
		})
		if len(recvs) == 0 || len(closes) == 0 {
			c.Fail(FuncName(fn), "release-before-wait", c.Pos(fn.Pos()), "Close does not both close the wrapped reader and wait for the task")
			continue
		}
		n++
		bad := false
		for _, rv := range recvs {
			for _, cl := range closes {
				if reachableAvoiding(rv, cl, func(ssa.Instruction) bool { return false }) {
					bad = true
				}
			}
		}
		c.Check(!bad, FuncName(fn), "release-before-wait", c.Pos(closes[0].Pos()), "the wrapped reader is closed before the task is awaited", "Close waits for the background task before closing the wrapped reader: when the task consumes the sibling of the same clone group (a refresh copy, a replication) it waits for this consumer to read or close, while this consumer waits for the task – both block for ever and the source is never closed")
	}
	_ = n
}

func runR047(c *Ctx) {
	// types with a Close method that closes a field's reader
	n := 0
	for _, tf := range c.pkgFuncs(bufferRel) {
		if tf.Name() != "Close" || tf.Signature.Recv() == nil {
			continue
		}
		o, ok := tf.Object().(*types.Func)
		if !ok {
			continue
		}
		T := recvNamed(o)
		if T == nil {
			continue
		}
		// fields closed by Close
		closed := map[*types.Var]bool{}
		allInstrs(tf, func(ins ssa.Instruction) {
			if cl, ok := ins.(*ssa.Call); ok && cl.Call.IsInvoke() && cl.Call.Method.Name() == "Close" {
				if f, base := loadedField(cl.Call.Value); f != nil && isReceiverValue(tf, base) {
					closed[f] = true
				}
			}
		})
		if len(closed) == 0 {
			continue
		}
		for _, m := range c.pkgFuncs(bufferRel) {
			if m == tf || m.Signature.Recv() == nil {
				continue
			}
			mo, ok := m.Object().(*types.Func)
			if !ok || recvNamed(mo) == nil || recvNamed(mo).Obj() != T.Obj() {
				continue
			}
			for f := range closed {
				fld := f
				closesIt := false
				allInstrs(m, func(ins ssa.Instruction) {
					if cl, ok := ins.(*ssa.Call); ok && cl.Call.IsInvoke() && cl.Call.Method.Name() == "Close" {
						if f2, base := loadedField(cl.Call.Value); f2 == fld && isReceiverValue(m, base) {
							closesIt = true
						}
					}
				})
				if !closesIt {
					continue
				}
				n++
				bad := ""
				var badPos token.Pos
				explorePaths(&pathSpec{Fn: m, Init: 0, Inline: inlineOwnMethods,
					Step: func(st int, ev pathEvent) int {
						if ev.Ins == nil {
							return st
						}
						if s, ok := ev.Ins.(*ssa.Store); ok {
							if f2 := fieldOf(s.Addr); f2 == fld {
								return 0
							}
							return st
						}
						if cl, ok := ev.Ins.(*ssa.Call); ok && cl.Call.IsInvoke() && cl.Call.Method.Name() == "Close" {
							if f2, _ := loadedField(cl.Call.Value); f2 == fld {
								return 1
							}
						}
						return st
					},
					AtReturn: func(st int, r *ssa.Return, _ map[int]bool) {
						if st == 1 && bad == "" {
							bad, badPos = "returns with the closed reader still in the field", r.Pos()
						}
					}})
				c.Check(bad == "", FuncName(m), "only-close-closes "+fld.Name(), c.Pos(func() token.Pos {
					if bad != "" {
						return badPos
					}
					return m.Pos()
				}()), "a reader closed here is replaced before the method returns", T.Obj().Name()+"."+m.Name()+" closes the reader held in "+fld.Name()+" and "+bad+": "+T.Obj().Name()+".Close closes it a second time – for sources shared by clones (reference counted) the second close releases the source while another clone still reads it")
			}
		}
	}
	if n == 0 {
		c.Fail("buffer", "only-close-closes", "-", "no reader type that closes-and-replaces its reader outside Close was found (the error-handling readers do)")
	}
}

func runR1710(c *Ctx) {
	T := c.LookupType(digestRel, "ExistenceCache")
	if T == nil {
		c.Broken("digest.ExistenceCache not found")
		return
	}
	coarse := map[string]bool{"Unix": true, "UnixMilli": true, "UnixMicro": true, "Truncate": true, "Round": true}
	n := 0
	for _, tf := range c.pkgFuncs(digestRel) {
		if tf.Signature.Recv() == nil {
			continue
		}
		o, ok := tf.Object().(*types.Func)
		if !ok || recvNamed(o) == nil || recvNamed(o).Obj() != T.Obj() {
			continue
		}
		n++
		bad := token.NoPos
		withAnon(tf, func(g *ssa.Function) {
			allInstrs(g, func(ins ssa.Instruction) {
				if cc := callOf(ins); cc != nil {
					if co := calleeObjOf(cc); co != nil && co.Pkg() != nil && co.Pkg().Path() == "time" && coarse[co.Name()] {
						if rn := recvNamed(co); rn != nil && rn.Obj().Name() == "Time" {
							bad = ins.Pos()
						}
					}
				}
			})
		})
		c.Check(bad == token.NoPos, FuncName(tf), "full-resolution-time", c.Pos(func() token.Pos {
			if bad != token.NoPos {
				return bad
			}
			return tf.Pos()
		}()), "clock values are kept at full resolution", "a clock value is converted to a coarser unit in the existence cache: both sides of the expiry comparison are truncated, so an entry is still vouched for after the configured duration has passed (for sub-second durations several times as long) – an object the backend reported present too long ago is hidden as present")
	}
	if n == 0 {
		c.Broken("ExistenceCache has no methods")
	}
}

func runR1910(c *Ctx) {
	for _, typ := range []string{"hierarchicalInstanceNamesGetErrorHandler", "hierarchicalInstanceNamesGetFromCompositeErrorHandler"} {
		fn := c.Method("pkg/blobstore", typ, "OnError")
		if fn == nil {
			c.Broken("%s.OnError not found", typ)
			continue
		}
		name := FuncName(fn)
		isList := func(f *types.Var) bool {
			_, isSlice := f.Type().Underlying().(*types.Slice)
			return isSlice
		}
		// the exhausted return: (nil buffer, the parameter error itself)
		bad := ""
		var badPos token.Pos
		nEx := 0
		explorePaths(&pathSpec{Fn: fn, Init: 0,
			Step: func(st int, ev pathEvent) int {
				if ev.Ins == nil {
					return st
				}
				if s, ok := ev.Ins.(*ssa.Store); ok {
					if f := fieldOf(s.Addr); f != nil && isList(f) {
						if _, isSl := s.Val.(*ssa.Slice); isSl {
							return 1
						}
					}
				}
				return st
			},
			AtReturn: func(st int, r *ssa.Return, _ map[int]bool) {
				if len(r.Results) != 2 || !isNilConst(r.Results[0]) {
					return
				}
				if stripConv(r.Results[1]) != ssa.Value(fn.Params[len(fn.Params)-1]) {
					return
				}
				nEx++
				if st == 1 && bad == "" {
					bad, badPos = "the list was already shortened on this path", r.Pos()
				}
				// compared with exactly one
				okOne := dominatedByCmpDepth(r.Block(), func(op token.Token, x, y ssa.Value) bool {
					k, isK := constInt(y)
					if !isK || k != 1 || op != token.EQL {
						return false
					}
					lc, isC := x.(*ssa.Call)
					if !isC {
						return false
					}
					bi, isB := lc.Call.Value.(*ssa.Builtin)
					return isB && bi.Name() == "len"
				}, 2)
				if !okOne && bad == "" {
					bad, badPos = "the decision is not `exactly one name is left`", r.Pos()
				}
			}})
		if nEx == 0 {
			c.Fail(name, "every-ancestor", c.Pos(fn.Pos()), "the handler never gives up (no return passes the original error on)")
			continue
		}
		c.Check(bad == "", name, "every-ancestor", c.Pos(func() token.Pos {
			if bad != "" {
				return badPos
			}
			return fn.Pos()
		}()), "gives up only when exactly one (already tried) name is left, judged before shortening the list", "the handler decides that no ancestor is left although "+bad+": the walk up the instance name hierarchy stops one level early – the empty (root) instance name is never consulted, so an object stored there is NOT_FOUND through Get while FindMissing reports it present")
	}
}

func runR1911(c *Ctx) {
	pkg := c.Pkg(digestRel)
	T := c.LookupType(digestRel, "instanceNameTrieNode")
	if pkg == nil || T == nil {
		c.Broken("pkg/digest / instanceNameTrieNode not found")
		return
	}
	n := 0
	for _, f := range pkg.Syntax {
		var fnName string
		ast.Inspect(f, func(node ast.Node) bool {
			if fd, ok := node.(*ast.FuncDecl); ok {
				fnName = fd.Name.Name
			}
			cl, ok := node.(*ast.CompositeLit)
			if !ok {
				return true
			}
			tv, ok := pkg.TypesInfo.Types[cl]
			if !ok || !types.Identical(tv.Type, T) {
				return true
			}
			n++
			has := false
			st := T.Underlying().(*types.Struct)
			if len(cl.Elts) == st.NumFields() && len(cl.Elts) > 0 {
				if _, isKV := cl.Elts[0].(*ast.KeyValueExpr); !isKV {
					has = true
				}
			}
			for _, e := range cl.Elts {
				if kv, ok := e.(*ast.KeyValueExpr); ok {
					if id, ok := kv.Key.(*ast.Ident); ok && id.Name == "value" {
						has = true
					}
				}
			}
			c.Check(has, "digest."+fnName, "trie-node-value", c.Pos(cl.Pos()), "the node's value is set explicitly", "a trie node is created without setting its value: it carries 0, which reads as `index 0 is registered at this prefix` – names that only share the leading components of a registered prefix are routed to backend 0 instead of being rejected, and Remove never prunes the node")
			return true
		})
	}
	if n == 0 {
		c.Fail("digest", "trie-node-value", "-", "no literal of instanceNameTrieNode found")
	}
}

func runR2012(c *Ctx) {
	fn := c.Method(digestRel, "Set", "PartitionByInstanceName")
	if fn == nil {
		c.Broken("Set.PartitionByInstanceName not found")
		return
	}
	name := FuncName(fn)
	n := 0
	allInstrs(fn, func(ins ssa.Instruction) {
		mu, ok := ins.(*ssa.MapUpdate)
		if !ok {
			return
		}
		lc, ok := stripConv(mu.Value).(*ssa.Call)
		if !ok {
			return
		}
		bi, ok := lc.Call.Value.(*ssa.Builtin)
		if !ok || bi.Name() != "len" {
			return
		}
		n++
		// the argument of len must not be the result of an append
		_, afterAppend := isAppend(stripConv(lc.Call.Args[0]))
		// … and an append to that very list must follow
		follows := false
		allInstrs(fn, func(i2 ssa.Instruction) {
			if ac, ok := i2.(*ssa.Call); ok {
				if _, isApp := isAppend(ac); isApp && ac.Call.Args[0] == lc.Call.Args[0] && reachableAvoiding(mu, ac, func(ssa.Instruction) bool { return false }) {
					follows = true
				}
			}
		})
		c.Check(!afterAppend && follows, name, "position-before-append", c.Pos(mu.Pos()), "the recorded index is the position the partition is appended at", "the index recorded for an instance name is the length of the partition list after (not before) that name's partition was appended: it points one past the partition, so later digests of that name are filed under the next name's partition or the call panics")
	})
	if n == 0 {
		c.PassTrivial(name, "position-before-append", c.Pos(fn.Pos()), "no position is recorded from the length of a list (literal indices only)")
	}
}

func runR2013(c *Ctx) {
	fn := c.Func(digestRel, "NewInstanceName")
	if fn == nil {
		c.Broken("digest.NewInstanceName not found")
		return
	}
	name := FuncName(fn)
	n := 0
	for _, r := range returnsOf(fn) {
		if !isNilConst(returnedValue(r, len(r.Results)-1)) {
			continue
		}
		n++
		have := map[string]bool{}
		edgeFacts(r.Block(), func(cond ssa.Value, val bool) bool {
			cnd, v := cond, val
			for {
				if u, ok := cnd.(*ssa.UnOp); ok && u.Op == token.NOT {
					cnd, v = u.X, !v
					continue
				}
				break
			}
			if cl, ok := cnd.(*ssa.Call); ok && !v {
				if o := calleeObjOf(cl.Common()); o != nil && o.Pkg() != nil && o.Pkg().Path() == "strings" && len(cl.Call.Args) == 2 {
					if kc, ok := cl.Call.Args[1].(*ssa.Const); ok && kc.Value != nil && kc.Value.Kind() == constant.String {
						have[o.Name()+":"+constant.StringVal(kc.Value)] = true
					}
				}
			}
			if x, nilWhenTrue, ok := nilTest(cnd); ok && nilWhenTrue == v && isErrorType(x.Type()) {
				if cl, ok := x.(*ssa.Call); ok && cl.Call.StaticCallee() != nil && cl.Call.StaticCallee().Name() == "validateInstanceNameComponents" {
					have["validate"] = true
				}
			}
			return true
		})
		var missing []string
		for _, w := range []string{"HasPrefix:/", "HasSuffix:/", "Contains://", "validate"} {
			if !have[w] {
				missing = append(missing, w)
			}
		}
		c.Check(len(missing) == 0, name, "no-redundant-slashes", c.Pos(r.Pos()), "leading, trailing and doubled separators and reserved keywords are rejected first", "a name is accepted without the checks "+joinComma(missing)+" having failed: instance names with a leading, trailing or doubled `/` (or a reserved keyword) become valid values – `foo/` and `foo` are then two different keys for the same place, and resource names no longer round-trip")
	}
	if n == 0 {
		c.Fail(name, "no-redundant-slashes", c.Pos(fn.Pos()), "NewInstanceName never succeeds")
	}
}
