package main

import (
	"go/token"
	"go/types"
	"strings"

	"golang.org/x/tools/go/ssa"
)

// ---------------------------------------------------------------------------
// "Parallel slices stay parallel."
//
// When the index of a range over one slice A is used to index another slice B
// that the same function built with append (or make), B must have been built
// in step with A: one unconditional append per iteration of a range over A
// (or over what A itself was built from), or in the very loop – and block –
// in which A was built, or with make(len(A)). Otherwise B[i] belongs to
// another element than A[i] (a list computed for all requested digests indexed
// by the position in the shorter list of those that need work, weights kept
// in listing order indexed by the position in the sorted list, …).

var parallelGroups = []struct {
	rule  string
	props []string
	pkgs  []string
}{
	{"R01.13", []string{"C01", "C05", "C10", "C02", "C06"}, []string{"pkg/blobstore/local"}},
	{"R12.11", []string{"C12", "C11", "C13", "C14", "C17", "C18", "C19"}, []string{"pkg/blobstore/sharding", "pkg/blobstore/mirrored", "pkg/blobstore/completenesschecking", "pkg/blobstore/grpcservers", "pkg/blobstore/grpcclients", "pkg/blobstore/replication", "pkg/blobstore", "pkg/auth", "pkg/blobstore/configuration"}},
	{"R20.11", []string{"C20", "C15", "C16", "C09"}, []string{"pkg/digest", "pkg/blobstore/buffer"}},
}

func init() {
	for i := range parallelGroups {
		g := parallelGroups[i]
		register(&Rule{
			ID: g.rule, Props: g.props, Engine: "index-domain agreement (SSA loops and append chains)",
			Text:  "parallel slices stay parallel (" + strings.Join(g.pkgs, ", ") + "): when the index of a complete range over a slice A is used to index a slice B that the same function built itself, B was built in step with A – one unconditional append per iteration of a range over A (or over the same source A was built from, in the same loop), or make(len(A)); a list built over a different domain (all requested digests vs. those that need refreshing; listing order vs. sorted order) must not be indexed with A's positions",
			Floor: 1, MustExist: false, Run: func(c *Ctx) { runParallel(c, g.pkgs) },
		})
	}
}

// rangedContainer: the container whose length bounds the loop that idx is the
// induction variable of (both lowered loop forms), or nil.
func rangedContainer(idx ssa.Value) ssa.Value {
	lenArg := func(v ssa.Value) ssa.Value {
		c, ok := v.(*ssa.Call)
		if !ok {
			return nil
		}
		bi, ok := c.Call.Value.(*ssa.Builtin)
		if !ok || bi.Name() != "len" || len(c.Call.Args) != 1 {
			return nil
		}
		return c.Call.Args[0]
	}
	find := func(v ssa.Value) ssa.Value {
		if refs := v.Referrers(); refs != nil {
			for _, r := range *refs {
				if b, ok := r.(*ssa.BinOp); ok {
					if b.Op == token.LSS && b.X == v {
						if a := lenArg(b.Y); a != nil {
							return a
						}
					}
					if b.Op == token.GTR && b.Y == v {
						if a := lenArg(b.X); a != nil {
							return a
						}
					}
				}
			}
		}
		return nil
	}
	var X ssa.Value
	switch x := idx.(type) {
	case *ssa.BinOp:
		X = find(x)
	case *ssa.Phi:
		X = find(x)
	}
	if X != nil && isFullRangeIndex(idx, X) {
		return X
	}
	return nil
}

func sameContainer(a, b ssa.Value) bool {
	if sameSource(a, b) {
		return true
	}
	ca, ok1 := a.(*ssa.Call)
	cb, ok2 := b.(*ssa.Call)
	if ok1 && ok2 && ca.Call.StaticCallee() != nil && ca.Call.StaticCallee() == cb.Call.StaticCallee() && len(ca.Call.Args) == len(cb.Call.Args) {
		for i := range ca.Call.Args {
			if !sameContainer(ca.Call.Args[i], cb.Call.Args[i]) {
				return false
			}
		}
		// only getters
		n := ca.Call.StaticCallee().Name()
		return n == "Items" || strings.HasPrefix(n, "Get")
	}
	return false
}

type sliceBuild struct {
	kind    string // "append", "make"
	appends []*ssa.Call
	lenOf   ssa.Value       // make(len(lenOf))
	header  *ssa.BasicBlock // loop in which it is appended to
	uncond  bool
	over    ssa.Value // container that loop ranges over
}

func loopContainer(h *ssa.BasicBlock) ssa.Value {
	// the loop's bound: a comparison with len(X) in the header (or in the latch for the range form)
	var out ssa.Value
	check := func(b *ssa.BasicBlock) {
		for _, ins := range b.Instrs {
			bo, ok := ins.(*ssa.BinOp)
			if !ok || (bo.Op != token.LSS && bo.Op != token.GTR) {
				continue
			}
			for _, side := range []ssa.Value{bo.X, bo.Y} {
				if c, ok := side.(*ssa.Call); ok {
					if bi, ok := c.Call.Value.(*ssa.Builtin); ok && bi.Name() == "len" {
						out = c.Call.Args[0]
					}
				}
			}
			if n, ok := ins.(*ssa.Next); ok {
				if r, ok := n.Iter.(*ssa.Range); ok {
					out = r.X
				}
			}
		}
		for _, ins := range b.Instrs {
			if n, ok := ins.(*ssa.Next); ok {
				if r, ok := n.Iter.(*ssa.Range); ok {
					out = r.X
				}
			}
		}
	}
	check(h)
	return out
}

func buildOf(fn *ssa.Function, v ssa.Value) *sliceBuild {
	seen := map[ssa.Value]bool{}
	b := &sliceBuild{}
	unknown := false
	var walk func(x ssa.Value)
	walk = func(x ssa.Value) {
		x = stripConv(x)
		if seen[x] {
			return
		}
		seen[x] = true
		switch t := x.(type) {
		case *ssa.Phi:
			for _, e := range t.Edges {
				walk(e)
			}
		case *ssa.Call:
			if _, isApp := isAppend(t); isApp {
				b.appends = append(b.appends, t)
				walk(t.Call.Args[0])
				return
			}
			unknown = true
		case *ssa.MakeSlice:
			if lc, ok := t.Len.(*ssa.Call); ok {
				if bi, ok := lc.Call.Value.(*ssa.Builtin); ok && bi.Name() == "len" {
					b.lenOf = lc.Call.Args[0]
				}
			}
		case *ssa.Const:
		case *ssa.UnOp:
			// a local cell
			if al, ok := t.X.(*ssa.Alloc); ok && t.Op == token.MUL {
				for _, s := range cellStores(al) {
					walk(s)
				}
				return
			}
			unknown = true
		case *ssa.Slice:
			walk(t.X)
		default:
			unknown = true
		}
	}
	walk(v)
	if unknown {
		return nil
	}
	if len(b.appends) == 0 {
		if b.lenOf != nil {
			b.kind = "make"
			return b
		}
		return nil
	}
	b.kind = "append"
	for _, a := range b.appends {
		h := innermostLoopHeader(a.Block())
		if h == nil {
			return nil // appended outside a loop: not a per-element list
		}
		if b.header == nil {
			b.header = h
		} else if b.header != h {
			return nil
		}
	}
	b.over = loopContainer(b.header)
	b.uncond = len(b.appends) == 1
	if b.uncond {
		ab := b.appends[0].Block()
		for _, p := range b.header.Preds {
			if b.header.Dominates(p) && !(ab == p || ab.Dominates(p)) {
				b.uncond = false
			}
		}
	}
	return b
}

func runParallel(c *Ctx, pkgs []string) {
	n := 0
	for _, rel := range pkgs {
		for _, tf := range c.srcFuncs(rel) {
			withAnon(tf, func(g *ssa.Function) {
				allInstrs(g, func(ins ssa.Instruction) {
					ia, ok := ins.(*ssa.IndexAddr)
					if !ok {
						return
					}
					if _, isSlice := ia.X.Type().Underlying().(*types.Slice); !isSlice {
						return
					}
					A := rangedContainer(ia.Index)
					if A == nil || sameContainer(A, ia.X) {
						return
					}
					bB := buildOf(g, ia.X)
					if bB == nil {
						return
					}
					// A's own domain must be known: built here, or a plain container
					// (parameter, field, Items()/Get… getter) – the result of any other
					// call (for instance one verdict per name handed to an authorizer)
					// is parallel to its argument by that callee's contract, not by
					// anything visible here
					if buildOf(g, A) == nil {
						if ac, isCall := stripConv(A).(*ssa.Call); isCall {
							sc := ac.Call.StaticCallee()
							if sc == nil || !(sc.Name() == "Items" || strings.HasPrefix(sc.Name(), "Get")) {
								return
							}
						}
					}
					n++
					ok = false
					switch bB.kind {
					case "make":
						ok = sameContainer(bB.lenOf, A)
					case "append":
						if bB.uncond && bB.over != nil && sameContainer(bB.over, A) {
							ok = true
						}
						if !ok {
							if bA := buildOf(g, A); bA != nil && bA.kind == "append" && bA.header == bB.header {
								if bA.uncond && bB.uncond {
									ok = true
								}
								if len(bA.appends) == 1 && len(bB.appends) == 1 && bA.appends[0].Block() == bB.appends[0].Block() {
									ok = true
								}
							} else if bA != nil && bA.kind == "make" && bB.uncond && bB.over != nil && sameContainer(bA.lenOf, bB.over) {
								ok = true
							}
						}
					}
					c.Check(ok, FuncName(g), "parallel-index", c.Pos(ia.Pos()), "the indexed list was built element by element in step with the list that is ranged over", "a list is indexed with the position in another list it was not built in step with (it has one element per element of a different – longer or differently ordered – list): the entry read belongs to another object")
				})
			})
		}
	}
	if n == 0 {
		c.PassTrivial(strings.Join(pkgs, ","), "parallel-index", "-", "no cross-list indexing with a range position in these packages")
	}
}
