package main

import (
	"fmt"
	"go/token"
	"go/types"

	"golang.org/x/tools/go/ssa"
)

const shardingRel = "pkg/blobstore/sharding"

func init() {
	register(&Rule{
		ID: "R12.1", Props: []string{"C12"}, Engine: "order + flow + own",
		Text:  "canonical order: NewRendezvousShardSelector rejects shards whose key hashes collide, fills each shard's hash from hashServer(Key), and sorts the list by that hash (strict <) before the selector is built; rendezvousShardSelector.shards is never written afterwards",
		Floor: 3, MustExist: true, Run: runR121,
	})
	register(&Rule{
		ID: "R12.2", Props: []string{"C12"}, Engine: "flow (dependence) + guard",
		Text:  "independent score, strict first maximum: in GetShard the score compared depends only on the object hash and on fields of the shard of the current iteration (never on the running best or on other shards), the running best is replaced only on `current > best` (strict), starts at zero, and the value returned is the index field of the shard that produced the best score; score/Log2Fixed/splitmix64/hashServer are pure (no global writes, no maps, channels, goroutines, floats, time or randomness) and the lookup table is never written",
		Floor: 3, MustExist: true, Run: runR122,
	})
	register(&Rule{
		ID: "R12.5", Props: []string{"C12"}, Engine: "flow + own",
		Text:  "one routing function: every backend selected in shardingBlobAccess.{Get,GetFromComposite,Put,FindMissing} is indexed by getBackendIndexByDigest of the digest being operated on (the parent digest for composite reads); getBackendIndexByDigest feeds the selector with binary.BigEndian.Uint64 of the first eight hash bytes and nothing else (no instance name, size or operation)",
		Floor: 5, MustExist: true, Run: runR125,
	})
	register(&Rule{
		ID: "R12.6", Props: []string{"C12"}, Engine: "flow + noerrdrop",
		Text:  "FindMissing shape: each digest is added to the builder selected by getBackendIndexByDigest of that same digest; each backend is asked about exactly the builder with its own index; the answer is GetUnion of all per-backend answers; the result slots handed to the goroutines stay valid (the slice they point into is allocated once with capacity len(backends), so append never reallocates it); errors are wrapped with the shard key and Wait's error is returned",
		Floor: 5, MustExist: true, Run: runR126,
	})
}

func runR121(c *Ctx) {
	fn := c.Func(shardingRel, "NewRendezvousShardSelector")
	if fn == nil {
		c.Broken("NewRendezvousShardSelector not found")
		return
	}
	name := FuncName(fn)
	sel := c.LookupType(shardingRel, "rendezvousShardSelector")
	hs := c.Func(shardingRel, "hashServer")
	// the store of the shards field
	var shardsStore *ssa.Store
	for _, fs := range fieldStoresIn(c.pkgFuncs(shardingRel), sel, "shards") {
		if topFunc(fs.fn) != fn {
			c.Fail(FuncName(fs.fn), "shards-writer", c.Pos(fs.st.Pos()), "the shard list is modified after construction")
			continue
		}
		shardsStore = fs.st
	}
	if shardsStore == nil {
		c.Fail(name, "shards-writer", c.Pos(fn.Pos()), "the selector's shard list is never set")
		return
	}
	// sort call on the same slice, dominating the store
	var sortCall *ssa.Call
	allInstrs(fn, func(ins ssa.Instruction) {
		cl, ok := ins.(*ssa.Call)
		if !ok {
			return
		}
		cc := cl.Common()
		if isPkgFuncCall(cc, "sort", "Slice") || isPkgFuncCall(cc, "sort", "SliceStable") || isPkgFuncCall(cc, "slices", "SortFunc") || isPkgFuncCall(cc, "slices", "SortStableFunc") {
			if stripConv(cc.Args[0]) == stripConv(shardsStore.Val) || sameRootSlice(cc.Args[0], shardsStore.Val) {
				sortCall = cl
			}
		}
	})
	if sortCall == nil || !instrDominates(sortCall, shardsStore) {
		c.Fail(name, "sorted", c.Pos(shardsStore.Pos()), "the shard list is not sorted before the selector is built: ties between equal scores would be broken by configuration order")
	} else {
		// the less function compares the hash fields strictly
		okLess := false
		var less *ssa.Function
		switch a := sortCall.Call.Args[1].(type) {
		case *ssa.MakeClosure:
			less = a.Fn.(*ssa.Function)
		case *ssa.Function:
			less = a // a literal that captures nothing (a three-way comparator over its two arguments)
		}
		if less != nil {
			for _, r := range returnsOf(less) {
				// cmp.Compare(a.hash, b.hash): the three-way form of a strict comparison
				if cl, ok := r.Results[0].(*ssa.Call); ok && len(cl.Call.Args) == 2 {
					sc := cl.Call.StaticCallee()
					if sc != nil && sc.Origin() != nil {
						sc = sc.Origin()
					}
					if sc != nil && sc.Pkg != nil && sc.Pkg.Pkg.Path() == "cmp" && sc.Name() == "Compare" {
						fx, _ := loadedField(cl.Call.Args[0])
						fy, _ := loadedField(cl.Call.Args[1])
						if fx != nil && fy != nil && fx.Name() == "hash" && fy.Name() == "hash" {
							okLess = true
						}
					}
				}
				if bo, ok := r.Results[0].(*ssa.BinOp); ok && (bo.Op == token.LSS || bo.Op == token.GTR) {
					fx, _ := loadedField(bo.X)
					fy, _ := loadedField(bo.Y)
					if fx != nil && fy != nil && fx.Name() == "hash" && fy.Name() == "hash" {
						okLess = true
					}
				}
			}
		}
		c.Check(okLess, name, "sorted", c.Pos(sortCall.Pos()), "sorted by key hash with a strict comparison", "the sort does not order shards by their key hash with a strict comparison")
	}
	// hash filled from hashServer(Key); collision rejected
	okHash, okColl := false, false
	allInstrs(fn, func(ins ssa.Instruction) {
		if st, ok := ins.(*ssa.Store); ok {
			if f := fieldOf(st.Addr); f != nil && f.Name() == "hash" {
				if cl, ok := st.Val.(*ssa.Call); ok && cl.Call.StaticCallee() == hs {
					if kf, _ := loadedField(cl.Call.Args[0]); kf != nil && kf.Name() == "Key" {
						okHash = true
					}
					if fl, ok := cl.Call.Args[0].(*ssa.Field); ok && fieldOf(fl).Name() == "Key" {
						okHash = true
					}
				}
			}
		}
	})
	for _, r := range returnsOf(fn) {
		if isNilConst(r.Results[1]) {
			continue
		}
		edgeFacts(r.Block(), func(cond ssa.Value, val bool) bool {
			if ex, ok := cond.(*ssa.Extract); ok && val && ex.Index == 1 {
				if lk, ok := ex.Tuple.(*ssa.Lookup); ok && lk.CommaOk {
					if cl, ok := lk.Index.(*ssa.Call); ok && cl.Call.StaticCallee() == hs {
						okColl = true
					}
				}
			}
			return true
		})
	}
	c.Check(okHash, name, "hash-of-key", c.Pos(fn.Pos()), "each shard's hash is hashServer(Key)", "a shard's hash is not hashServer of its Key (routing would depend on something other than the key)")
	c.Check(okColl, name, "collision-rejected", c.Pos(fn.Pos()), "equal key hashes are rejected", "shards with equal key hashes are accepted: the canonical order would be ambiguous")
}

func sameRootSlice(a, b ssa.Value) bool {
	a, b = stripConv(a), stripConv(b)
	if ua, ok := a.(*ssa.UnOp); ok {
		if ub, ok := b.(*ssa.UnOp); ok && ua.Op == token.MUL && ub.Op == token.MUL && ua.X == ub.X {
			return true
		}
	}
	root := func(v ssa.Value) ssa.Value {
		seen := map[ssa.Value]bool{}
		for v != nil && !seen[v] {
			seen[v] = true
			switch x := v.(type) {
			case *ssa.Phi:
				// follow the first non-self edge that is not an append of itself
				var next ssa.Value
				for _, e := range x.Edges {
					if e != v {
						next = e
						break
					}
				}
				v = next
			case *ssa.Call:
				if bi, ok := x.Call.Value.(*ssa.Builtin); ok && bi.Name() == "append" {
					v = x.Call.Args[0]
					continue
				}
				return v
			case *ssa.Slice:
				v = x.X
			default:
				return v
			}
		}
		return v
	}
	return root(a) == root(b)
}

func runR122(c *Ctx) {
	fn := c.Method(shardingRel, "rendezvousShardSelector", "GetShard")
	scoreFn := c.Func(shardingRel, "score")
	if fn == nil || scoreFn == nil {
		c.Broken("rendezvousShardSelector.GetShard / score not found")
		return
	}
	name := FuncName(fn)
	// the comparison
	var cmp *ssa.BinOp
	var iff *ssa.If
	allInstrs(fn, func(ins ssa.Instruction) {
		i, ok := ins.(*ssa.If)
		if !ok {
			return
		}
		bo, ok := i.Cond.(*ssa.BinOp)
		if !ok {
			return
		}
		isScore := func(v ssa.Value) bool { cl, ok := v.(*ssa.Call); return ok && cl.Call.StaticCallee() == scoreFn }
		if isScore(bo.X) || isScore(bo.Y) {
			cmp, iff = bo, i
		}
	})
	if cmp == nil {
		c.Fail(name, "strict-max", c.Pos(fn.Pos()), "no comparison of a shard's score with the running best was found")
		return
	}
	var cur, best ssa.Value
	op := cmp.Op
	if cl, ok := cmp.X.(*ssa.Call); ok && cl.Call.StaticCallee() == scoreFn {
		cur, best = cmp.X, cmp.Y
	} else {
		cur, best = cmp.Y, cmp.X
		switch op {
		case token.LSS:
			op = token.GTR
		case token.LEQ:
			op = token.GEQ
		case token.GTR:
			op = token.LSS
		case token.GEQ:
			op = token.LEQ
		}
	}
	bestPhi, isPhi := best.(*ssa.Phi)
	okStrict := op == token.GTR && isPhi
	if okStrict {
		// phi edges: zero and current; updated on the true edge only
		for _, e := range bestPhi.Edges {
			if k, ok := constInt(e); ok && k == 0 {
				continue
			}
			if e == cur || e == ssa.Value(bestPhi) {
				continue
			}
			if p2, ok := e.(*ssa.Phi); ok {
				// inner merge phi [best, current]
				for _, e2 := range p2.Edges {
					if e2 != cur && e2 != ssa.Value(bestPhi) {
						okStrict = false
					}
				}
				continue
			}
			okStrict = false
		}
	}
	_ = iff
	c.Check(okStrict, name, "strict-max", c.Pos(cmp.Pos()), "the running best starts at zero and is replaced only when current > best", "the maximum is not a strict first maximum (`"+op.String()+"`): with equal scores the choice would depend on the shard order or a later shard would displace an earlier one")
	// independence
	bad := ""
	backwardSlice(cur, func(x ssa.Value) bool {
		switch v := x.(type) {
		case *ssa.Phi:
			if v.Comment == "rangeindex" {
				return false
			}
			bad = "a loop-carried value (" + v.Comment + ")"
			return false
		case *ssa.IndexAddr:
			if !isFullRangeIndex(v.Index, v.X) {
				bad = "a shard other than the one of the current iteration"
				return false
			}
			return false
		case *ssa.Index:
			if !isFullRangeIndex(v.Index, v.X) {
				bad = "a shard other than the one of the current iteration"
			}
			return false
		case *ssa.Global:
			bad = "global " + v.Name()
			return false
		}
		return true
	})
	c.Check(bad == "", name, "independent-score", c.Pos(cur.Pos()), "the score is a function of the object hash and the current shard only", "a shard's score depends on "+bad+": removing or adding another shard could re-route objects between the remaining shards")
	// returned value: index field of the current shard
	okRet := false
	for _, r := range returnsOf(fn) {
		backwardSlice(r.Results[0], func(x ssa.Value) bool {
			if f, _ := loadedField(x); f != nil && f.Name() == "index" {
				okRet = true
				return false
			}
			if fl, ok := x.(*ssa.Field); ok && fieldOf(fl).Name() == "index" {
				okRet = true
				return false
			}
			_, isPhi := x.(*ssa.Phi)
			return isPhi
		})
	}
	c.Check(okRet, name, "returns-index", c.Pos(fn.Pos()), "returns the configured index of the winning shard", "the value returned is not the index field of the winning shard (it would depend on the sorted position)")
	// purity
	for _, fname := range []string{"score", "Log2Fixed", "splitmix64", "hashServer"} {
		f := c.Func(shardingRel, fname)
		if f == nil {
			c.Broken("sharding.%s not found", fname)
			continue
		}
		impure := ""
		allInstrs(f, func(ins ssa.Instruction) {
			switch x := ins.(type) {
			case *ssa.Store:
				if _, ok := x.Addr.(*ssa.Global); ok {
					impure = "writes a global"
				}
				if ia, ok := x.Addr.(*ssa.IndexAddr); ok {
					if _, ok := ia.X.(*ssa.Global); ok {
						impure = "writes a global table"
					}
				}
			case *ssa.Go, *ssa.Select, *ssa.Send, *ssa.MapUpdate, *ssa.Range:
				impure = fmt.Sprintf("contains %T", ins)
			case *ssa.Call:
				cc := x.Common()
				if _, isB := cc.Value.(*ssa.Builtin); isB {
					return
				}
				o := calleeObjOf(cc)
				okCall := false
				if o != nil && o.Pkg() != nil {
					switch o.Pkg().Path() {
					case "math/bits", "crypto/sha256", "encoding/binary", modPath + "/" + shardingRel:
						okCall = true
					}
				}
				if !okCall {
					impure = "calls " + calleeName(cc)
				}
			}
			if v, ok := ins.(ssa.Value); ok {
				if b, ok := v.Type().Underlying().(*types.Basic); ok && b.Info()&types.IsFloat != 0 {
					impure = "uses floating point"
				}
			}
		})
		c.Check(impure == "", FuncName(f), "pure", c.Pos(f.Pos()), "deterministic integer arithmetic only", fname+" "+impure+": routing would not be a pure function of hash and shard set")
	}
	// lut never written outside init
	for _, f := range c.pkgFuncs(shardingRel) {
		withAnon(f, func(g *ssa.Function) {
			allInstrs(g, func(ins ssa.Instruction) {
				if st, ok := ins.(*ssa.Store); ok {
					var gl *ssa.Global
					if ia, ok := st.Addr.(*ssa.IndexAddr); ok {
						gl, _ = ia.X.(*ssa.Global)
					} else {
						gl, _ = st.Addr.(*ssa.Global)
					}
					if gl != nil && gl.Name() == "lut" && g.Name() != "init" {
						c.Fail(FuncName(g), "lut-write", c.Pos(st.Pos()), "the logarithm lookup table is modified at run time")
					}
				}
			})
		})
	}
}

func runR125(c *Ctx) {
	gb := c.Method(shardingRel, "shardingBlobAccess", "getBackendIndexByDigest")
	if gb == nil {
		c.Broken("shardingBlobAccess.getBackendIndexByDigest not found")
		return
	}
	dig := c.LookupType(digestRel, "Digest")
	// getBackendIndexByDigest: GetShard(binary.BigEndian.Uint64(GetHashBytes()[:8]))
	okArg, bad := false, ""
	allInstrs(gb, func(ins ssa.Instruction) {
		cl, ok := ins.(*ssa.Call)
		if !ok || !cl.Call.IsInvoke() || cl.Call.Method.Name() != "GetShard" {
			return
		}
		backwardSlice(cl.Call.Args[0], func(x ssa.Value) bool {
			if c2, ok := x.(*ssa.Call); ok {
				cc := c2.Common()
				if isMethodCall(cc, dig, "GetHashBytes") {
					okArg = true
					return false
				}
				if o := calleeObjOf(cc); o != nil && o.Pkg() != nil && o.Pkg().Path() == "encoding/binary" {
					return true
				}
				if _, isB := cc.Value.(*ssa.Builtin); isB {
					return true
				}
				bad = "call of " + calleeName(cc)
				return false
			}
			if sl, ok := x.(*ssa.Slice); ok {
				if sl.Low != nil {
					if k, ok := constInt(sl.Low); !ok || k != 0 {
						bad = "bytes other than the leading ones"
					}
				}
				if k, ok := constInt(sl.High); !ok || k != 8 {
					bad = "a prefix that is not the first eight hash bytes"
				}
			}
			return true
		})
	})
	c.Check(okArg && bad == "", FuncName(gb), "hash-prefix-only", c.Pos(gb.Pos()), "the selector is fed with the first eight hash bytes only", "the shard is chosen from "+bad+" rather than from the leading eight hash bytes alone")
	// every backends[...] index derives from getBackendIndexByDigest of the right digest
	for _, m := range []string{"Get", "GetFromComposite", "Put"} {
		fn := c.Method(shardingRel, "shardingBlobAccess", m)
		if fn == nil {
			c.Broken("shardingBlobAccess.%s not found", m)
			continue
		}
		var dparam ssa.Value
		for _, p := range fn.Params[1:] {
			if types.Identical(p.Type(), dig) {
				dparam = p
				break
			}
		}
		n := 0
		allInstrs(fn, func(ins ssa.Instruction) {
			ia, ok := ins.(*ssa.IndexAddr)
			if !ok {
				return
			}
			if f, _ := loadedField(ia.X); f == nil || f.Name() != "backends" {
				return
			}
			n++
			cl, ok := ia.Index.(*ssa.Call)
			ok2 := ok && cl.Call.StaticCallee() == gb && cl.Call.Args[1] == dparam
			c.Check(ok2, FuncName(fn), "backend-index", c.Pos(ia.Pos()), "backend chosen by getBackendIndexByDigest of the operation's digest", "a backend is chosen by something other than getBackendIndexByDigest of this operation's digest: Get, Put and FindMissing could address different shards for the same object")
		})
		if n == 0 {
			c.Fail(FuncName(fn), "backend-index", c.Pos(fn.Pos()), "no backend is selected")
		}
		// the digest handed to the backend is the one routed
		allInstrs(fn, func(ins ssa.Instruction) {
			cl, ok := ins.(*ssa.Call)
			if !ok || !cl.Call.IsInvoke() || cl.Call.Method.Name() != m {
				return
			}
			if f, _ := loadedField(cl.Call.Value); f == nil || f.Name() != "Backend" {
				return
			}
			c.Check(cl.Call.Args[1] == dparam, FuncName(fn), "same-digest", c.Pos(cl.Pos()), "the backend is asked about the digest that was routed", "the digest handed to the backend is not the one used for routing")
		})
	}
}

func runR126(c *Ctx) {
	fn := c.Method(shardingRel, "shardingBlobAccess", "FindMissing")
	gb := c.Method(shardingRel, "shardingBlobAccess", "getBackendIndexByDigest")
	if fn == nil || gb == nil {
		c.Broken("shardingBlobAccess.FindMissing not found")
		return
	}
	name := FuncName(fn)
	// (a) partition
	okPart := false
	allInstrs(fn, func(ins ssa.Instruction) {
		cl, ok := ins.(*ssa.Call)
		if !ok || cl.Call.StaticCallee() == nil || cl.Call.StaticCallee().Name() != "Add" {
			return
		}
		// receiver: &digestsPerBackend[getBackendIndexByDigest(d)], argument d
		recv := cl.Call.Args[0]
		var ia *ssa.IndexAddr
		if u, ok := recv.(*ssa.UnOp); ok {
			ia, _ = u.X.(*ssa.IndexAddr)
		} else {
			ia, _ = recv.(*ssa.IndexAddr)
		}
		if ia == nil {
			return
		}
		if c2, ok := ia.Index.(*ssa.Call); ok && c2.Call.StaticCallee() == gb && c2.Call.Args[1] == cl.Call.Args[1] {
			if _, _, isElem := rangeElemOf(cl.Call.Args[1]); isElem {
				okPart = true
			}
		}
	})
	c.Check(okPart, name, "partition", c.Pos(fn.Pos()), "every digest of the request goes into the builder of its own shard", "digests are not partitioned by getBackendIndexByDigest of the digest being added (a shard would be asked about another shard's objects, or some digests would not be asked about at all)")
	// (b) closure asks backend[index] about builder[index]
	okAsk, okKey := false, false
	var askSet ssa.Value
	var askClosure *ssa.Function
	for _, a := range fn.AnonFuncs {
		allInstrs(a, func(ins ssa.Instruction) {
			cl, ok := ins.(*ssa.Call)
			if !ok || !cl.Call.IsInvoke() || cl.Call.Method.Name() != "FindMissing" {
				return
			}
			// index of backends[...]
			var idxOrigin, setOrigin ssa.Value
			if ld, ok := cl.Call.Value.(*ssa.UnOp); ok {
				if fa, ok := ld.X.(*ssa.FieldAddr); ok {
					if ia, ok := fa.X.(*ssa.IndexAddr); ok {
						idxOrigin = captureOrigin(a, ia.Index)
					} else if org := captureOrigin(a, fa.X); org != nil {
						// `backend := &ba.backends[index]` taken outside the literal and captured
						if ia, ok := org.(*ssa.IndexAddr); ok {
							idxOrigin = ia.Index
						}
					}
				}
			}
			if bc, ok := cl.Call.Args[1].(*ssa.Call); ok && bc.Call.StaticCallee() != nil && bc.Call.StaticCallee().Name() == "Build" {
				setOrigin = captureOrigin(a, bc.Call.Args[0])
			}
			// both must be the index and the element of the same range iteration
			if idxOrigin != nil && setOrigin != nil {
				X, idx, isElem := rangeElemOf(setOrigin)
				if isElem && idxOrigin == idx {
					_ = X
					okAsk = true
					askSet, askClosure = setOrigin, a
				}
			}
		})
		allInstrs(a, func(ins ssa.Instruction) {
			cl, ok := ins.(*ssa.Call)
			if !ok || !isPkgFuncCall(cl.Common(), modPath+"/pkg/util", "StatusWrapf") {
				return
			}
			deepSlice(a, cl.Call.Args[2], func(x ssa.Value) bool {
				if f, _ := loadedField(x); f != nil && f.Name() == "Key" {
					okKey = true
					return false
				}
				return true
			})
		})
	}
	c.Check(okAsk, name, "own-builder", c.Pos(fn.Pos()), "backend i is asked about builder i", "a backend is not asked about exactly the builder filled under its own index")
	// a shard is contacted only when its own builder is non-empty
	if okAsk {
		okGuard := false
		var goPos token.Pos = fn.Pos()
		allInstrs(fn, func(ins ssa.Instruction) {
			cl, ok := ins.(*ssa.Call)
			if !ok || cl.Call.StaticCallee() == nil || cl.Call.StaticCallee().Name() != "Go" || len(cl.Call.Args) != 2 {
				return
			}
			mc, ok := cl.Call.Args[1].(*ssa.MakeClosure)
			if !ok || mc.Fn != ssa.Value(askClosure) {
				return
			}
			goPos = cl.Pos()
			okGuard = dominatedByLowerBound(cl.Block(), func(x ssa.Value) bool {
				lc, ok := x.(*ssa.Call)
				if !ok || lc.Call.StaticCallee() == nil || lc.Call.StaticCallee().Name() != "Length" || len(lc.Call.Args) == 0 {
					return false
				}
				o := captureOrigin(fn, lc.Call.Args[0])
				return o == askSet || sameSource(o, askSet)
			}, 1)
		})
		c.Check(okGuard, name, "only-involved-shards", c.Pos(goPos), "a shard is asked only if its own builder is non-empty", "the call to a shard is not guarded by the length of that shard's own builder: shards that own none of the digests are contacted as well (with an empty set), so a failure of an uninvolved shard fails the whole request")
	}
	c.Check(okKey, name, "shard-key-in-error", c.Pos(fn.Pos()), "errors are wrapped with the shard key", "errors of a shard are not wrapped with that shard's key")
	// (c) union of the collected answers, (d) slots stay valid
	okUnion := false
	var collected ssa.Value
	for _, r := range returnsOf(fn) {
		if cl, ok := r.Results[0].(*ssa.Call); ok && isPkgFuncCall(cl.Common(), modPath+"/"+digestRel, "GetUnion") {
			okUnion = true
			collected = cl.Call.Args[0]
		}
	}
	c.Check(okUnion, name, "union", c.Pos(fn.Pos()), "the answer is the union of the per-shard answers", "FindMissing does not return digest.GetUnion of the per-shard answers")
	if collected != nil {
		// find root MakeSlice and whether element addresses escape
		var root ssa.Value = collected
		seen := map[ssa.Value]bool{}
		var mk *ssa.MakeSlice
		var walk func(v ssa.Value)
		walk = func(v ssa.Value) {
			if v == nil || seen[v] {
				return
			}
			seen[v] = true
			switch x := v.(type) {
			case *ssa.Phi:
				for _, e := range x.Edges {
					walk(e)
				}
			case *ssa.Call:
				if bi, ok := x.Call.Value.(*ssa.Builtin); ok && bi.Name() == "append" {
					walk(x.Call.Args[0])
				}
			case *ssa.MakeSlice:
				mk = x
			case *ssa.UnOp:
				if al, ok := x.X.(*ssa.Alloc); ok {
					for _, s := range cellStores(al) {
						walk(s)
					}
				}
			}
		}
		walk(root)
		escapes, grows := false, false
		for v := range seen {
			if cl, ok := v.(*ssa.Call); ok {
				if bi, ok := cl.Call.Value.(*ssa.Builtin); ok && bi.Name() == "append" {
					grows = true
				}
			}
			if refs := v.Referrers(); refs != nil {
				for _, r := range *refs {
					if ia, ok := r.(*ssa.IndexAddr); ok && ia.X == v {
						for _, rr := range *ia.Referrers() {
							switch rr.(type) {
							case *ssa.Store, *ssa.MakeClosure:
								escapes = true
							}
						}
					}
				}
			}
		}
		if escapes && grows {
			okCap := false
			if mk != nil {
				okCap = isLenOfField(mk.Cap, "backends")
				if !okCap {
					// cap == len(digestsPerBackend) is fine as well (same length)
					if cl, ok := mk.Cap.(*ssa.Call); ok {
						if bi, ok := cl.Call.Value.(*ssa.Builtin); ok && bi.Name() == "len" {
							okCap = true
						}
					}
				}
			}
			c.Check(okCap, name, "result-slots", c.Pos(fn.Pos()), "result slots point into a slice allocated once with room for every shard", "pointers to result slots are handed to goroutines while the slice they point into can still be reallocated by append: answers of earlier shards are written into an abandoned array and dropped from the union")
		} else {
			c.Pass(name, "result-slots", c.Pos(fn.Pos()), "result slots are not invalidated by growth")
		}
	}
	// Wait's error returned
	okWait := false
	allInstrs(fn, func(ins ssa.Instruction) {
		cl, ok := ins.(*ssa.Call)
		if !ok || cl.Call.StaticCallee() == nil || cl.Call.StaticCallee().Name() != "Wait" {
			return
		}
		for _, r := range returnsOf(fn) {
			if isErrResultOf(r.Results[1], cl) {
				okWait = true
			}
		}
		// success return only on nil edge
		for _, r := range returnsOf(fn) {
			if isNilConst(r.Results[1]) && !dominatedByErrNil(r.Block(), cl) {
				// a way out before any shard was asked (nothing was started, nothing can have failed) is fine
				started := false
				allInstrs(fn, func(gi ssa.Instruction) {
					if gc, ok := gi.(*ssa.Call); ok && gc.Call.StaticCallee() != nil && gc.Call.StaticCallee().Name() == "Go" && gc.Call.StaticCallee().Signature.Recv() != nil {
						if reachableAvoiding(gc, r, func(ssa.Instruction) bool { return false }) {
							started = true
						}
					}
				})
				if started {
					okWait = false
				}
			}
		}
	})
	c.Check(okWait, name, "wait-error", c.Pos(fn.Pos()), "a shard's failure fails the whole call", "FindMissing can succeed although a shard failed (the group's error is not returned)")
}

// captureOrigin resolves a value read in closure g from a captured variable
// (or a parameter copy) to the value stored into that variable by the parent.
func captureOrigin(g *ssa.Function, v ssa.Value) ssa.Value {
	for i := 0; i < 6; i++ {
		u, ok := v.(*ssa.UnOp)
		if !ok || u.Op != token.MUL {
			return v
		}
		switch a := u.X.(type) {
		case *ssa.FreeVar:
			parent := g.Parent()
			var out ssa.Value
			allInstrs(parent, func(pi ssa.Instruction) {
				mc, ok := pi.(*ssa.MakeClosure)
				if !ok || mc.Fn != ssa.Value(g) {
					return
				}
				for k, b := range mc.Bindings {
					if g.FreeVars[k] == a {
						if al, ok := b.(*ssa.Alloc); ok {
							ss := cellStores(al)
							if len(ss) == 1 {
								out = ss[0]
							}
						}
					}
				}
			})
			if out == nil {
				return v
			}
			v, g = out, parent
		case *ssa.Alloc:
			ss := cellStores(a)
			if len(ss) != 1 {
				return v
			}
			v = ss[0]
		default:
			return v
		}
	}
	return v
}
