package main

import (
	"encoding/json"
	"fmt"
	"os"
	"os/exec"
	"path/filepath"
	"sort"
	"strings"
)

// Mutant is a one-site, still-compiling edit of /repo applied to a scratch copy of the sources. It is a positive control of the rules named: the
// rule must report the edited tree.
type Mutant struct {
	ID       string   `json:"id"`
	Property string   `json:"property"`
	Rules    []string `json:"rules"`
	Note     string   `json:"note"`
	// Patch: a unified diff (relative to /verif) applied to the scratch copy
	// with `git apply` – used for the seeded changes under /verif/seeded.
	Patch string `json:"patch,omitempty"`
	Edits []struct {
		File    string `json:"file"`
		Find    string `json:"find"`
		Replace string `json:"replace"`
		Nth     int    `json:"nth"` // 0 = must be unique; k>0 = k-th occurrence
	} `json:"edits"`
}

func loadMutants(path string) ([]Mutant, error) {
	b, err := os.ReadFile(path)
	if err != nil {
		return nil, err
	}
	var ms []Mutant
	if err := json.Unmarshal(b, &ms); err != nil {
		var m Mutant
		if err2 := json.Unmarshal(b, &m); err2 != nil {
			return nil, err
		}
		ms = []Mutant{m}
	}
	return ms, nil
}

// scratch materialises the mutant as a scratch copy of the repository's
// sources (no .git, a few MB) outside /repo and /verif; the caller removes it.
// (packages.Config.Overlay is not used: with an overlay go/packages type-checks
// every dependency from source, six times slower.)
func (m *Mutant) scratch(repo string) (dir string, why string) {
	edits := map[string]string{}
	for _, e := range m.Edits {
		p := filepath.Join(repo, e.File)
		s, ok := edits[e.File]
		if !ok {
			b, err := os.ReadFile(p)
			if err != nil {
				return "", "file missing: " + e.File
			}
			s = string(b)
		}
		n := strings.Count(s, e.Find)
		if n == 0 {
			return "", "anchor text gone in " + e.File
		}
		if e.Nth == 0 {
			if n != 1 {
				return "", fmt.Sprintf("anchor text occurs %d times in %s", n, e.File)
			}
			s = strings.Replace(s, e.Find, e.Replace, 1)
		} else {
			if n < e.Nth {
				return "", fmt.Sprintf("anchor text occurs only %d times in %s", n, e.File)
			}
			idx, from := -1, 0
			for k := 0; k < e.Nth; k++ {
				j := strings.Index(s[from:], e.Find)
				idx = from + j
				from = idx + len(e.Find)
			}
			s = s[:idx] + e.Replace + s[idx+len(e.Find):]
		}
		edits[e.File] = s
	}
	dir, err := os.MkdirTemp("", "bbcheck-mutant-")
	if err != nil {
		return "", "cannot create scratch dir: " + err.Error()
	}
	err = filepath.Walk(repo, func(p string, fi os.FileInfo, err error) error {
		if err != nil {
			return err
		}
		rel, _ := filepath.Rel(repo, p)
		if fi.IsDir() {
			if fi.Name() == ".git" || rel == "node_modules" {
				return filepath.SkipDir
			}
			return os.MkdirAll(filepath.Join(dir, rel), 0o755)
		}
		if !fi.Mode().IsRegular() {
			return nil
		}
		if strings.HasSuffix(rel, "_test.go") {
			return nil
		}
		if s, ok := edits[rel]; ok {
			return os.WriteFile(filepath.Join(dir, rel), []byte(s), 0o644)
		}
		b, err := os.ReadFile(p)
		if err != nil {
			return err
		}
		return os.WriteFile(filepath.Join(dir, rel), b, 0o644)
	})
	if err != nil {
		os.RemoveAll(dir)
		return "", "copy failed: " + err.Error()
	}
	if m.Patch != "" {
		p := m.Patch
		if !filepath.IsAbs(p) {
			p = filepath.Join(verifRoot(), p)
		}
		cmd := exec.Command("git", "apply", "--whitespace=nowarn", p)
		cmd.Dir = dir
		if out, err := cmd.CombinedOutput(); err != nil {
			os.RemoveAll(dir)
			return "", "patch does not apply: " + strings.TrimSpace(string(out))
		}
	}
	return dir, ""
}

func verifRoot() string {
	if exe, err := os.Executable(); err == nil {
		return filepath.Dir(filepath.Dir(exe)) // /verif/bin/bbcheck -> /verif
	}
	return "/verif"
}

type mutantVerdict struct {
	ID       string   `json:"id"`
	Rules    []string `json:"rules"`
	Status   string   `json:"status"` // detected | MISSED | not_applicable | does_not_compile
	Reports  []string `json:"reports,omitempty"`
	Note     string   `json:"note,omitempty"`
	Property string   `json:"property"`
}

func evalMutant(repo string, m *Mutant, baseFail map[string]bool) mutantVerdict {
	v := mutantVerdict{ID: m.ID, Rules: m.Rules, Property: m.Property, Note: m.Note}
	dir, why := m.scratch(repo)
	if dir == "" {
		v.Status = "not_applicable"
		v.Note = why
		return v
	}
	defer os.RemoveAll(dir)
	var rules []*Rule
	for _, id := range m.Rules {
		r := ruleByID(id)
		if r == nil {
			v.Status = "not_applicable"
			v.Note = "rule not registered: " + id
			return v
		}
		rules = append(rules, r)
	}
	if len(m.Rules) == 0 {
		rules = rulesFor(m.Property, "quick")
	}
	res := runRules(dir, rules, []BuildConfig{{"linux", "amd64"}}, false, nil)
	for _, b := range res.broken {
		if strings.Contains(b, "type/load errors") {
			v.Status = "does_not_compile"
			v.Note = b
			return v
		}
	}
	for _, o := range res.obs {
		if !o.OK && !baseFail[o.Key] {
			v.Reports = append(v.Reports, o.Rule+" "+o.Pos+" "+o.Msg)
		}
	}
	if len(v.Reports) > 0 {
		v.Status = "detected"
	} else if len(res.broken) > 0 {
		v.Status = "checker_error"
		v.Note = strings.Join(res.broken, "; ")
	} else {
		v.Status = "MISSED"
	}
	return v
}

var baseFailCache = map[string]map[string]bool{}

func baseFailures(repo string, rules []*Rule) map[string]bool {
	ck := repo
	for _, r := range rules {
		ck += "|" + r.ID
	}
	if bf, ok := baseFailCache[ck]; ok {
		return bf
	}
	bf := baseFailuresUncached(repo, rules)
	baseFailCache[ck] = bf
	return bf
}

func baseFailuresUncached(repo string, rules []*Rule) map[string]bool {
	res := runRules(repo, rules, []BuildConfig{{"linux", "amd64"}}, false, nil)
	bf := map[string]bool{}
	for _, o := range res.obs {
		if !o.OK {
			bf[o.Key] = true
		}
	}
	return bf
}

func runMutant(repo, path string, verbose bool) int {
	ms, err := loadMutants(path)
	if err != nil {
		fmt.Fprintln(os.Stderr, err)
		return 2
	}
	rc := 0
	for i := range ms {
		m := &ms[i]
		var rules []*Rule
		for _, id := range m.Rules {
			if r := ruleByID(id); r != nil {
				rules = append(rules, r)
			}
		}
		if len(m.Rules) == 0 {
			rules = rulesFor(m.Property, "quick")
		}
		bf := baseFailures(repo, rules)
		v := evalMutant(repo, m, bf)
		fmt.Printf("mutant %-40s %-16s %s\n", v.ID, v.Status, v.Note)
		if verbose || v.Status != "detected" {
			for _, r := range v.Reports {
				fmt.Printf("    %s\n", r)
			}
		}
		if v.Status != "detected" {
			rc = 1
		}
	}
	return rc
}

// runMutantSuite evaluates all mutants of one property (thorough tier,
// evidence only – never changes the exit status).
func runMutantSuite(repo, dir, prop string) map[string]any {
	files, _ := filepath.Glob(filepath.Join(dir, "*.json"))
	sort.Strings(files)
	var verdicts []mutantVerdict
	counts := map[string]int{}
	for _, f := range files {
		ms, err := loadMutants(f)
		if err != nil {
			continue
		}
		for i := range ms {
			m := &ms[i]
			if m.Property != prop {
				continue
			}
			var rules []*Rule
			for _, id := range m.Rules {
				if r := ruleByID(id); r != nil {
					rules = append(rules, r)
				}
			}
			if len(m.Rules) == 0 {
				rules = rulesFor(m.Property, "quick")
			}
			bf := baseFailures(repo, rules)
			v := evalMutant(repo, m, bf)
			counts[v.Status]++
			verdicts = append(verdicts, v)
		}
	}
	return map[string]any{"mutants": len(verdicts), "by_status": counts, "verdicts": verdicts,
		"note": "one-site still-compiling edits of /repo applied to a scratch copy of the sources; positive controls for the rules, evidence only"}
}
