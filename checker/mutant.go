package main

import (
	"encoding/json"
	"fmt"
	"os"
	"path/filepath"
	"sort"
	"strings"
)

// Mutant is a one-site, still-compiling edit of /repo applied through
// packages.Config.Overlay. It is a positive control of the rules named: the
// rule must report the edited tree.
type Mutant struct {
	ID       string   `json:"id"`
	Property string   `json:"property"`
	Rules    []string `json:"rules"`
	Note     string   `json:"note"`
	Edits    []struct {
		File    string `json:"file"`
		Find    string `json:"find"`
		Replace string `json:"replace"`
		Nth     int    `json:"nth"` // 0 = must be unique; k>0 = k-th occurrence
	} `json:"edits"`
}

func loadMutants(path string) ([]Mutant, error) {
	b, err := os.ReadFile(path)
	if err != nil {
		return nil, err
	}
	var ms []Mutant
	if err := json.Unmarshal(b, &ms); err != nil {
		var m Mutant
		if err2 := json.Unmarshal(b, &m); err2 != nil {
			return nil, err
		}
		ms = []Mutant{m}
	}
	return ms, nil
}

func (m *Mutant) overlay(repo string) (map[string][]byte, string) {
	ov := map[string][]byte{}
	for _, e := range m.Edits {
		p := filepath.Join(repo, e.File)
		src, ok := ov[p]
		if !ok {
			b, err := os.ReadFile(p)
			if err != nil {
				return nil, "file missing: " + e.File
			}
			src = b
		}
		s := string(src)
		n := strings.Count(s, e.Find)
		if n == 0 {
			return nil, "anchor text gone in " + e.File
		}
		if e.Nth == 0 {
			if n != 1 {
				return nil, fmt.Sprintf("anchor text occurs %d times in %s", n, e.File)
			}
			s = strings.Replace(s, e.Find, e.Replace, 1)
		} else {
			if n < e.Nth {
				return nil, fmt.Sprintf("anchor text occurs only %d times in %s", n, e.File)
			}
			idx := -1
			from := 0
			for k := 0; k < e.Nth; k++ {
				j := strings.Index(s[from:], e.Find)
				idx = from + j
				from = idx + len(e.Find)
			}
			s = s[:idx] + e.Replace + s[idx+len(e.Find):]
		}
		ov[p] = []byte(s)
	}
	return ov, ""
}

type mutantVerdict struct {
	ID       string   `json:"id"`
	Rules    []string `json:"rules"`
	Status   string   `json:"status"` // detected | MISSED | not_applicable | does_not_compile
	Reports  []string `json:"reports,omitempty"`
	Note     string   `json:"note,omitempty"`
	Property string   `json:"property"`
}

func evalMutant(repo string, m *Mutant, baseFail map[string]bool) mutantVerdict {
	v := mutantVerdict{ID: m.ID, Rules: m.Rules, Property: m.Property, Note: m.Note}
	ov, why := m.overlay(repo)
	if ov == nil {
		v.Status = "not_applicable"
		v.Note = why
		return v
	}
	var rules []*Rule
	for _, id := range m.Rules {
		r := ruleByID(id)
		if r == nil {
			v.Status = "not_applicable"
			v.Note = "rule not registered: " + id
			return v
		}
		rules = append(rules, r)
	}
	res := runRules(repo, rules, []BuildConfig{{"linux", "amd64"}}, false, ov)
	for _, b := range res.broken {
		if strings.Contains(b, "type/load errors") {
			v.Status = "does_not_compile"
			v.Note = b
			return v
		}
	}
	for _, o := range res.obs {
		if !o.OK && !baseFail[o.Key] {
			v.Reports = append(v.Reports, o.Rule+" "+o.Pos+" "+o.Msg)
		}
	}
	if len(v.Reports) > 0 {
		v.Status = "detected"
	} else {
		v.Status = "MISSED"
		if len(res.broken) > 0 {
			v.Note = strings.Join(res.broken, "; ")
		}
	}
	return v
}

func baseFailures(repo string, rules []*Rule) map[string]bool {
	res := runRules(repo, rules, []BuildConfig{{"linux", "amd64"}}, false, nil)
	bf := map[string]bool{}
	for _, o := range res.obs {
		if !o.OK {
			bf[o.Key] = true
		}
	}
	return bf
}

func runMutant(repo, path string, verbose bool) int {
	ms, err := loadMutants(path)
	if err != nil {
		fmt.Fprintln(os.Stderr, err)
		return 2
	}
	rc := 0
	for i := range ms {
		m := &ms[i]
		var rules []*Rule
		for _, id := range m.Rules {
			if r := ruleByID(id); r != nil {
				rules = append(rules, r)
			}
		}
		bf := baseFailures(repo, rules)
		v := evalMutant(repo, m, bf)
		fmt.Printf("mutant %-40s %-16s %s\n", v.ID, v.Status, v.Note)
		if verbose || v.Status != "detected" {
			for _, r := range v.Reports {
				fmt.Printf("    %s\n", r)
			}
		}
		if v.Status != "detected" {
			rc = 1
		}
	}
	return rc
}

// runMutantSuite evaluates all mutants of one property (thorough tier,
// evidence only – never changes the exit status).
func runMutantSuite(repo, dir, prop string) map[string]any {
	files, _ := filepath.Glob(filepath.Join(dir, "*.json"))
	sort.Strings(files)
	var verdicts []mutantVerdict
	counts := map[string]int{}
	for _, f := range files {
		ms, err := loadMutants(f)
		if err != nil {
			continue
		}
		for i := range ms {
			m := &ms[i]
			if m.Property != prop {
				continue
			}
			var rules []*Rule
			for _, id := range m.Rules {
				if r := ruleByID(id); r != nil {
					rules = append(rules, r)
				}
			}
			bf := baseFailures(repo, rules)
			v := evalMutant(repo, m, bf)
			counts[v.Status]++
			verdicts = append(verdicts, v)
		}
	}
	return map[string]any{"mutants": len(verdicts), "by_status": counts, "verdicts": verdicts,
		"note": "one-site still-compiling edits of /repo applied through a go/packages overlay; positive controls for the rules, evidence only"}
}
