package main

import (
	"go/token"
	"go/types"
	"strings"

	"golang.org/x/tools/go/ssa"
)

func init() {
	register(&Rule{
		ID: "R09.1", Props: []string{"C09", "C16"}, Engine: "flow (taint)",
		Text:  "no unvalidated bytes escape a CAS buffer: in every exported consumption method of casReaderBuffer, casChunkReaderBuffer and casErrorHandlingBuffer the raw stream (the r field, or the result of toUnvalidated*/newErrorHandling*Reader) reaches the caller, a writer or a conversion helper only through newCASValidatingReader / newCASValidatingChunkReader (directly or through the type's toValidated* helper); raw values may only be closed, or handed out by the toUnvalidated* methods themselves",
		Floor: 13, MustExist: true, Run: runR091,
	})
	register(&Rule{
		ID: "R09.2", Props: []string{"C09", "C08", "C14", "C16"}, Engine: "guard (SSA dominance)",
		Text:  "verdicts are guarded: every notifyDataValid() of the CAS validators and eager constructors is dominated by (a) evidence that exactly the expected number of bytes was seen (bytesRemaining == 0 / size equality), (b) evidence that the stream ended (io.EOF from the underlying read, or the one-byte trailing probe followed by a passed size check), and (c) the equal edge of the comparison of the digest's hash with the hasher's sum; notifyCASHashMismatch / notifyCASSizeMismatch / notifyCASTooBig are called only on the failing edge of the corresponding comparison; every Source.notify* failure helper reports false to the callback and builds its error with the source's error code (INTERNAL for BackendProvided, INVALID_ARGUMENT for UserProvided)",
		Floor: 12, MustExist: true, Run: runR092,
	})
	register(&Rule{
		ID: "R09.4", Props: []string{"C09", "C01"}, Engine: "guard + order",
		Text:  "an integrity error is sticky and the final data is withheld: both validating Read methods return a previously stored error before touching the stream, store the error of the current step before returning it, and return no data together with an error; casValidatingChunkReader.Read finalises right after the last chunk and replaces the chunk by the error when finalisation fails",
		Floor: 4, MustExist: true, Run: runR094,
	})
}

var rawProducers = map[string]bool{
	"toUnvalidatedChunkReader": true, "toUnvalidatedReader": true,
	"newErrorHandlingChunkReader": true, "newErrorHandlingReader": true,
}
var sanitizers = map[string]bool{"newCASValidatingReader": true, "newCASValidatingChunkReader": true}

// neutral wrappers preserve taint
var neutralWrappers = map[string]bool{
	"newOffsetChunkReader": true, "newNormalizingChunkReader": true, "newChunkReaderBackedReader": true, "newReaderBackedChunkReader": true,
	"decorateChunkReader": true, "decorateReader": true,
}

func runR091(c *Ctx) {
	for _, typ := range []string{"casReaderBuffer", "casChunkReaderBuffer", "casErrorHandlingBuffer"} {
		T := c.LookupType(bufferRel, typ)
		if T == nil {
			c.Broken("buffer.%s not found", typ)
			continue
		}
		for _, fn := range c.pkgFuncs(bufferRel) {
			o, ok := fn.Object().(*types.Func)
			if !ok || recvNamed(o) == nil || recvNamed(o).Obj() != T.Obj() {
				continue
			}
			name := FuncName(fn)
			mayHandOutRaw := strings.HasPrefix(fn.Name(), "toUnvalidated")
			// tainted roots
			var roots []ssa.Value
			allInstrs(fn, func(ins ssa.Instruction) {
				v, ok := ins.(ssa.Value)
				if !ok {
					return
				}
				if f, base := loadedField(v); f != nil && (f.Name() == "r") && base == ssa.Value(fn.Params[0]) {
					roots = append(roots, v)
				}
				if cl, ok := ins.(*ssa.Call); ok {
					n := ""
					if cl.Call.IsInvoke() {
						n = cl.Call.Method.Name()
					} else if cl.Call.StaticCallee() != nil {
						n = cl.Call.StaticCallee().Name()
					}
					if rawProducers[n] {
						roots = append(roots, cl)
					}
				}
			})
			if len(roots) == 0 {
				continue
			}
			bad := ""
			var badPos token.Pos
			seen := map[ssa.Value]bool{}
			var follow func(v ssa.Value)
			follow = func(v ssa.Value) {
				if seen[v] || v.Referrers() == nil {
					return
				}
				seen[v] = true
				for _, r := range *v.Referrers() {
					switch x := r.(type) {
					case *ssa.Call:
						n := ""
						if x.Call.IsInvoke() {
							n = x.Call.Method.Name()
							if x.Call.Value == v {
								if n == "Close" {
									continue
								}
								if n == "Read" {
									bad, badPos = "raw (unvalidated) data is read directly", x.Pos()
								}
								continue
							}
						} else if x.Call.StaticCallee() != nil {
							n = x.Call.StaticCallee().Name()
						}
						switch {
						case sanitizers[n]:
							// validated from here on
						case neutralWrappers[n]:
							follow(x)
						case rawProducers[n]:
							// e.g. newErrorHandlingReader(b.base, ...) receives a buffer, not a stream
						default:
							if mayHandOutRaw {
								follow(x)
								continue
							}
							bad, badPos = "the raw stream is passed to "+n+" without validation", x.Pos()
						}
					case *ssa.Return:
						if !mayHandOutRaw {
							bad, badPos = "the raw (unvalidated) stream is returned to the caller", x.Pos()
						}
					case *ssa.Defer:
						if x.Call.IsInvoke() && x.Call.Method.Name() == "Close" {
							continue
						}
						bad, badPos = "the raw stream is used in a deferred call", x.Pos()
					case *ssa.Store:
						if fa, ok := x.Addr.(*ssa.FieldAddr); ok {
							// stored into a struct literal: only error-handling readers may hold raw streams
							if pt, ok := fa.X.Type().Underlying().(*types.Pointer); ok {
								if nt, ok := pt.Elem().(*types.Named); ok && strings.HasPrefix(nt.Obj().Name(), "errorHandling") {
									continue
								}
							}
							bad, badPos = "the raw stream is stored into a value that is not an error-handling reader", x.Pos()
						}
					case *ssa.MakeInterface, *ssa.ChangeInterface, *ssa.Phi, *ssa.Extract:
						follow(x.(ssa.Value))
					case *ssa.BinOp, *ssa.If:
						// nil comparison
					}
				}
			}
			for _, r := range roots {
				follow(r)
			}
			if bad != "" {
				c.Fail(name, "taint", c.Pos(badPos), bad+": the consumer could complete a read of content that does not match the digest")
			} else {
				c.Pass(name, "taint", c.Pos(fn.Pos()), "raw stream values reach the outside only through the CAS validators (or are closed)")
			}
		}
	}
}

func isCallbackCallWith(ins ssa.Instruction, val bool) bool {
	cl, ok := ins.(*ssa.Call)
	if !ok || cl.Call.IsInvoke() || cl.Call.StaticCallee() != nil {
		return false
	}
	if f := fieldOf(cl.Call.Value); f == nil || f.Name() != "dataIntegrityCallback" {
		if fl, ok := cl.Call.Value.(*ssa.Field); !ok || fieldOf(fl).Name() != "dataIntegrityCallback" {
			return false
		}
	}
	return len(cl.Call.Args) == 1 && isBoolConst(cl.Call.Args[0], val)
}

func runR092(c *Ctx) {
	srcT := c.LookupType(bufferRel, "Source")
	if srcT == nil {
		c.Broken("buffer.Source not found")
		return
	}
	isNotify := func(cc *ssa.CallCommon, name string) bool {
		callee := cc.StaticCallee()
		if callee == nil || callee.Name() != name {
			return false
		}
		o, ok := callee.Object().(*types.Func)
		return ok && recvNamed(o) != nil && recvNamed(o).Obj() == srcT.Obj()
	}
	// hash-equality evidence at block b (possibly through a helper returning error)
	var hashEqualAt func(fn *ssa.Function, b *ssa.BasicBlock, depth int) bool
	isHashCompare := func(cond ssa.Value) (match bool, equalWhenTrue bool) {
		c0, pol := cond, true
		for {
			if u, ok := c0.(*ssa.UnOp); ok && u.Op == token.NOT {
				c0, pol = u.X, !pol
				continue
			}
			break
		}
		usesHash := func(cl *ssa.Call) bool {
			hasDigest, hasSum := false, false
			for _, a := range cl.Call.Args {
				backwardSlice(a, func(x ssa.Value) bool {
					if c2, ok := x.(*ssa.Call); ok {
						n := ""
						if c2.Call.IsInvoke() {
							n = c2.Call.Method.Name()
						} else if c2.Call.StaticCallee() != nil {
							n = c2.Call.StaticCallee().Name()
						}
						if n == "GetHashBytes" {
							hasDigest = true
						}
						if n == "Sum" || n == "Sum256" || n == "Sum384" || n == "Sum512" {
							hasSum = true
						}
						return false
					}
					return true
				})
			}
			return hasDigest && hasSum
		}
		if bo, ok := c0.(*ssa.BinOp); ok && (bo.Op == token.EQL || bo.Op == token.NEQ) {
			if cl, ok := bo.X.(*ssa.Call); ok && isPkgFuncCall(cl.Common(), "bytes", "Compare") && usesHash(cl) {
				if k, ok := constInt(bo.Y); ok && k == 0 {
					return true, (bo.Op == token.EQL) == pol
				}
			}
		}
		if cl, ok := c0.(*ssa.Call); ok && isPkgFuncCall(cl.Common(), "bytes", "Equal") && usesHash(cl) {
			return true, pol
		}
		return false, false
	}
	hashEqualAt = func(fn *ssa.Function, b *ssa.BasicBlock, depth int) bool {
		found := false
		edgeFacts(b, func(cond ssa.Value, val bool) bool {
			if m, eq := isHashCompare(cond); m {
				if eq == val {
					found = true
				}
				return false
			}
			// helper: err == nil of a same-package function whose nil returns are themselves guarded
			if x, nilWhenTrue, ok := nilTest(cond); ok && nilWhenTrue == val && depth < 2 {
				var call *ssa.Call
				switch v := stripConv(x).(type) {
				case *ssa.Call:
					call = v
				case *ssa.Extract:
					call, _ = v.Tuple.(*ssa.Call)
				}
				if call != nil {
					if callee := call.Call.StaticCallee(); callee != nil && callee.Blocks != nil && callee.Pkg == fn.Pkg {
						allGuarded, n := true, 0
						for _, r := range returnsOf(callee) {
							ei := errIndex(callee)
							if ei < 0 || !isNilConst(r.Results[ei]) {
								continue
							}
							n++
							if !hashEqualAt(callee, r.Block(), depth+1) {
								allGuarded = false
							}
						}
						if n > 0 && allGuarded {
							found = true
							return false
						}
					}
				}
			}
			return true
		})
		return found
	}
	sizeExactAt := func(b *ssa.BasicBlock) bool {
		return dominatedByCmp(b, func(op token.Token, x, y ssa.Value) bool {
			f, _ := loadedField(x)
			k, isK := constInt(y)
			if f != nil && f.Name() == "bytesRemaining" && isK && k == 0 && (op == token.EQL || op == token.LEQ) {
				return true
			}
			// eager constructors: expected == actual size
			if op == token.EQL {
				isSize := func(v ssa.Value) bool {
					hit := false
					backwardSlice(v, func(z ssa.Value) bool {
						if cl, ok := z.(*ssa.Call); ok {
							if cl.Call.StaticCallee() != nil && cl.Call.StaticCallee().Name() == "GetSizeBytes" {
								hit = true
							}
							if bi, ok := cl.Call.Value.(*ssa.Builtin); ok && bi.Name() == "len" {
								hit = true
							}
							return false
						}
						return true
					})
					return hit
				}
				return isSize(x) && isSize(y)
			}
			return false
		})
	}
	streamEndedAt := func(fn *ssa.Function, b *ssa.BasicBlock) bool {
		// err == io.EOF of an underlying Read
		if dominatedByCmp(b, func(op token.Token, x, y ssa.Value) bool {
			return op == token.EQL && isErrorType(x.Type()) && isIOEOF(y)
		}) {
			return true
		}
		// probe: checkSize(nFinal) == nil with nFinal from io.ReadFull
		found := false
		edgeFacts(b, func(cond ssa.Value, val bool) bool {
			if x, nilWhenTrue, ok := nilTest(cond); ok && nilWhenTrue == val {
				if cl, ok := stripConv(x).(*ssa.Call); ok && cl.Call.StaticCallee() != nil && cl.Call.StaticCallee().Name() == "checkSize" {
					backwardSlice(cl.Call.Args[len(cl.Call.Args)-1], func(z ssa.Value) bool {
						if c2, ok := z.(*ssa.Call); ok {
							if isPkgFuncCall(c2.Common(), "io", "ReadFull") {
								found = true
							}
							return false
						}
						return true
					})
				}
			}
			return !found
		})
		return found
	}
	nValid := 0
	for _, fn := range c.pkgFuncs(bufferRel) {
		withAnon(fn, func(g *ssa.Function) {
			allInstrs(g, func(ins ssa.Instruction) {
				cc := callOf(ins)
				if cc == nil {
					return
				}
				name := FuncName(g)
				switch {
				case isNotify(cc, "notifyDataValid"):
					isCAS := strings.Contains(strings.ToLower(g.Name()), "cas") || (g.Signature.Recv() != nil && strings.HasPrefix(recvNamed(g.Object().(*types.Func)).Obj().Name(), "cas")) || g.Name() == "NewCASBufferFromByteSlice"
					if !isCAS {
						// protobuf buffers: validity is the (un)marshalling itself
						c.PassTrivial(name, "valid-verdict", c.Pos(ins.Pos()), "not a CAS validator")
						return
					}
					nValid++
					eager := g.Signature.Recv() == nil
					okHash := hashEqualAt(g, ins.Block(), 0)
					okSize := sizeExactAt(ins.Block())
					okEnd := eager || streamEndedAt(g, ins.Block())
					why := ""
					switch {
					case !okHash:
						why = "a positive integrity verdict is given without the digest's hash having been compared equal with the hash of the data handed out"
					case !okSize:
						why = "a positive integrity verdict is given without evidence that exactly the expected number of bytes was seen"
					case !okEnd:
						why = "a positive integrity verdict is given without evidence that the stream ended (io.EOF, or the trailing-data probe and its size check): content longer than the digest's size could be accepted"
					}
					c.Check(why == "", name, "valid-verdict", c.Pos(ins.Pos()), "positive verdict only after size, end-of-stream and hash checks", why)
				case isNotify(cc, "notifyCASHashMismatch"):
					bad := true
					edgeFacts(ins.Block(), func(cond ssa.Value, val bool) bool {
						if m, eq := isHashCompare(cond); m {
							bad = eq == val
							return false
						}
						return true
					})
					c.Check(!bad, name, "hash-mismatch-verdict", c.Pos(ins.Pos()), "reported only when the hashes differ", "a hash mismatch is reported although the hashes were not found different")
				case isNotify(cc, "notifyCASSizeMismatch"), isNotify(cc, "notifyCASTooBig"):
					isSizeOperand := func(v ssa.Value) bool {
						found := false
						backwardSlice(v, func(x ssa.Value) bool {
							if f, _ := loadedField(x); f != nil && (f.Name() == "bytesRemaining" || f.Name() == "sizeBytes") {
								found = true
							}
							if cl, ok := x.(*ssa.Call); ok {
								if o := calleeObjOf(cl.Common()); o != nil && o.Name() == "GetSizeBytes" {
									found = true
								}
								if bi, ok := cl.Call.Value.(*ssa.Builtin); ok && bi.Name() == "len" {
									found = true
								}
							}
							if p, ok := x.(*ssa.Parameter); ok && isIntVal(p) {
								found = true // checkSize(n)
							}
							return !found
						})
						return found
					}
					sizeCmp := dominatedByCmpDepth(ins.Block(), func(op token.Token, x, y ssa.Value) bool {
						return (op == token.NEQ || op == token.GTR || op == token.LSS) && (isSizeOperand(x) || isSizeOperand(y))
					}, 2)
					ended := dominatedByCmpDepth(ins.Block(), func(op token.Token, x, y ssa.Value) bool {
						return op == token.EQL && (isIOEOF(y) || isIOEOF(x))
					}, 2)
					isReader := false
					if g.Signature.Recv() != nil {
						if n := recvNamed(g.Object().(*types.Func)); n != nil && (strings.HasSuffix(n.Obj().Name(), "Reader")) {
							isReader = true
						}
					}
					ok := sizeCmp || ended
					why := "a size error is reported unconditionally"
					if isNotify(cc, "notifyCASSizeMismatch") && isReader && !ended {
						// a stream is too short only once it has ended: any other error of the source is an I/O error, not a verdict about the content
						ok = false
						why = "a streaming validator reports a size mismatch (a negative integrity verdict) on a path that is not the io.EOF edge of the underlying read: an I/O error of the source would be reported as corruption of healthy data, and the block quarantined"
					}
					c.Check(ok, name, "size-verdict", c.Pos(ins.Pos()), "reported only on the failing edge of a size comparison / at the end of the stream", why)
				}
			})
		})
	}
	if nValid < 4 {
		c.Fail("buffer", "valid-verdict", "-", "fewer positive-verdict sites than expected in the CAS validators")
	}
	// Source helpers
	for _, fn := range c.pkgFuncs(bufferRel) {
		o, ok := fn.Object().(*types.Func)
		if !ok || recvNamed(o) == nil || recvNamed(o).Obj() != srcT.Obj() || !strings.HasPrefix(fn.Name(), "notify") {
			continue
		}
		name := FuncName(fn)
		if fn.Name() == "notifyDataValid" {
			okT := false
			allInstrs(fn, func(ins ssa.Instruction) {
				if isCallbackCallWith(ins, true) {
					okT = true
				}
				if isCallbackCallWith(ins, false) {
					okT = false
				}
			})
			c.Check(okT, name, "callback", c.Pos(fn.Pos()), "reports true", "notifyDataValid does not report a positive verdict")
			continue
		}
		calledFalse, usesCode := false, false
		allInstrs(fn, func(ins ssa.Instruction) {
			if isCallbackCallWith(ins, false) {
				calledFalse = true
			}
			if cl, ok := ins.(*ssa.Call); ok {
				for _, a := range cl.Call.Args {
					if fl, ok := stripConv(a).(*ssa.Field); ok && fieldOf(fl).Name() == "errorCode" {
						usesCode = true
					}
					if f, _ := loadedField(stripConv(a)); f != nil && f.Name() == "errorCode" {
						usesCode = true
					}
				}
			}
		})
		c.Check(calledFalse && usesCode, name, "callback", c.Pos(fn.Pos()), "reports false and builds the error with the source's code", "a failure helper does not report a negative verdict or does not use the source's error code")
	}
	// error codes of the two sources
	okCodes := true
	if bp := c.Func(bufferRel, "BackendProvided"); bp != nil {
		found := false
		allInstrs(bp, func(ins ssa.Instruction) {
			if st, ok := ins.(*ssa.Store); ok && fieldOf(st.Addr) != nil && fieldOf(st.Addr).Name() == "errorCode" {
				if k, ok := constInt(stripConv(st.Val)); ok && k == 13 {
					found = true
				}
			}
		})
		okCodes = okCodes && found
	} else {
		okCodes = false
	}
	if init := c.SSAPkg(bufferRel).Func("init"); init != nil {
		found := false
		allInstrs(init, func(ins ssa.Instruction) {
			st, ok := ins.(*ssa.Store)
			if !ok {
				return
			}
			g, ok := st.Addr.(*ssa.Global)
			if !ok || g.Name() != "UserProvided" {
				return
			}
			// the struct stored: a load of a local whose errorCode field was set to InvalidArgument
			if ld, ok := st.Val.(*ssa.UnOp); ok {
				if al, ok := ld.X.(*ssa.Alloc); ok && al.Referrers() != nil {
					for _, r := range *al.Referrers() {
						if fa, ok := r.(*ssa.FieldAddr); ok && fieldOf(fa).Name() == "errorCode" {
							for _, rr := range *fa.Referrers() {
								if s2, ok := rr.(*ssa.Store); ok {
									if k, ok := constInt(stripConv(s2.Val)); ok && k == 3 {
										found = true
									}
								}
							}
						}
					}
				}
			}
		})
		okCodes = okCodes && found
	}
	c.Check(okCodes, "buffer.Source", "error-codes", "-", "BackendProvided reports INTERNAL, UserProvided INVALID_ARGUMENT", "the sources' error codes are not INTERNAL (backend) / INVALID_ARGUMENT (user)")
}

func runR094(c *Ctx) {
	for _, typ := range []string{"casValidatingReader", "casValidatingChunkReader"} {
		fn := c.Method(bufferRel, typ, "Read")
		if fn == nil {
			c.Broken("%s.Read not found", typ)
			continue
		}
		name := FuncName(fn)
		var doRead *ssa.Call
		allInstrs(fn, func(ins ssa.Instruction) {
			if cl, ok := ins.(*ssa.Call); ok && cl.Call.StaticCallee() != nil && cl.Call.StaticCallee().Name() == "doRead" {
				doRead = cl
			}
		})
		if doRead == nil {
			c.Fail(name, "sticky-error", c.Pos(fn.Pos()), "Read does not delegate to doRead")
			continue
		}
		// dominated by r.err == nil
		okFirst := dominatedByNilEdge(doRead.Block(), func(x ssa.Value) bool {
			f, _ := loadedField(x)
			return f != nil && f.Name() == "err"
		}, true)
		// the step's error is stored before any return after doRead
		okStore := true
		for _, r := range returnsOf(fn) {
			if !instrDominates(doRead, r) {
				continue
			}
			if reachableAvoiding(doRead, r, func(i ssa.Instruction) bool {
				st, ok := i.(*ssa.Store)
				if !ok {
					return false
				}
				f := fieldOf(st.Addr)
				return f != nil && f.Name() == "err" && isErrResultOf(st.Val, doRead)
			}) {
				okStore = false
			}
		}
		c.Check(okFirst && okStore, name, "sticky-error", c.Pos(doRead.Pos()), "a stored error is returned first, and each step's error is stored before it is returned", "an integrity error is not sticky: after a mismatch was reported once, a later Read could resume the stream")
		// no data together with an error in doRead
		if dr := c.Method(bufferRel, typ, "doRead"); dr != nil {
			ok := true
			var pos token.Pos
			for _, r := range returnsOf(dr) {
				errv := r.Results[1]
				if isNilConst(errv) {
					continue
				}
				if isIOEOF(errv) && typ == "casValidatingReader" {
					// (n, io.EOF) at the verified end of the stream is the final, validated portion
					if dominatedByCmp(r.Block(), func(op token.Token, x, y ssa.Value) bool { return true }) {
						continue
					}
				}
				if k, isK := constInt(r.Results[0]); isK && k == 0 {
					continue
				}
				if isNilConst(r.Results[0]) {
					continue
				}
				ok, pos = false, r.Pos()
			}
			c.Check(ok, FuncName(dr), "withholds-data-on-error", c.Pos(func() token.Pos {
				if ok {
					return dr.Pos()
				}
				return pos
			}()), "errors are never accompanied by data", "data is returned together with an error: the final portion of mismatching content would reach the consumer")
		}
	}
	// chunk reader: finalise after the last chunk
	fn := c.Method(bufferRel, "casValidatingChunkReader", "Read")
	if fn != nil {
		var mf *ssa.Call
		allInstrs(fn, func(ins ssa.Instruction) {
			if cl, ok := ins.(*ssa.Call); ok && cl.Call.StaticCallee() != nil && cl.Call.StaticCallee().Name() == "maybeFinalize" {
				mf = cl
			}
		})
		ok := mf != nil
		if ok {
			// every return of a non-nil chunk passes through maybeFinalize
			for _, r := range returnsOf(fn) {
				if isNilConst(r.Results[0]) {
					continue
				}
				if entryReachesAvoiding(fn, r, func(i ssa.Instruction) bool { return i == ssa.Instruction(mf) }) {
					ok = false
				}
			}
		}
		c.Check(ok, FuncName(fn), "finalise-before-last-chunk", c.Pos(fn.Pos()), "the last chunk is released only after finalisation was attempted", "the last chunk can be handed out before size and hash were verified")
	}
}
