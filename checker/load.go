package main

import (
	"fmt"
	"go/ast"
	"go/token"
	"go/types"
	"os"
	"sort"
	"strings"

	"golang.org/x/tools/go/packages"
	"golang.org/x/tools/go/ssa"
	"golang.org/x/tools/go/ssa/ssautil"
)

const modPath = "github.com/buildbarn/bb-storage"

// The one type error the pinned tree has under a plain (non-Bazel) build.
// Accepted only in exactly this package, matched on the message, never on a
// position.
const knownTypeErrPkg = modPath + "/cmd/bb_storage"
const knownTypeErrText = "RegisterByteStreamServer"

// BuildConfig is one GOOS/GOARCH pair analysed.
type BuildConfig struct{ GOOS, GOARCH string }

func (b BuildConfig) String() string { return b.GOOS + "/" + b.GOARCH }

// Program is the resolved program one rule run works on.
type Program struct {
	Repo    string
	Config  BuildConfig
	Fset    *token.FileSet
	Roots   []*packages.Package
	ByPath  map[string]*packages.Package
	SSA     *ssa.Program
	SSAPkgs map[string]*ssa.Package
	// all source-level functions (incl. anonymous ones) of root packages
	Funcs []*ssa.Function
	// AST-only packages (ill-typed, whitelisted)
	ASTOnly map[string]bool
	Whole   bool
}

func goEnv(cfg BuildConfig) []string {
	env := []string{}
	for _, e := range os.Environ() {
		if strings.HasPrefix(e, "GOWORK=") || strings.HasPrefix(e, "GOOS=") || strings.HasPrefix(e, "GOARCH=") ||
			strings.HasPrefix(e, "GOFLAGS=") || strings.HasPrefix(e, "GOTOOLCHAIN=") || strings.HasPrefix(e, "GOPROXY=") ||
			strings.HasPrefix(e, "PATH=") || strings.HasPrefix(e, "CGO_ENABLED=") {
			continue
		}
		env = append(env, e)
	}
	env = append(env,
		"PATH=/opt/veriftools/go1.26.8/bin:"+os.Getenv("PATH"),
		"GOTOOLCHAIN=local", "GOFLAGS=-mod=mod", "GOPROXY=off", "GOWORK=off",
		"GOOS="+cfg.GOOS, "GOARCH="+cfg.GOARCH, "CGO_ENABLED=0")
	return env
}

// LoadProgram loads ./pkg/... and ./cmd/... of repo. whole = also load the
// syntax of every dependency (needed for a whole-program call graph).
func LoadProgram(repo string, cfg BuildConfig, whole bool, overlay map[string][]byte) (*Program, error) {
	mode := packages.NeedName | packages.NeedFiles | packages.NeedCompiledGoFiles | packages.NeedImports |
		packages.NeedDeps | packages.NeedTypes | packages.NeedSyntax | packages.NeedTypesInfo | packages.NeedTypesSizes | packages.NeedModule
	pcfg := &packages.Config{
		Mode:    mode,
		Dir:     repo,
		Env:     goEnv(cfg),
		Tests:   false,
		Overlay: overlay,
	}
	if !whole {
		// Only root packages need syntax; go/packages does that by itself
		// when NeedDeps is set together with NeedTypes: deps come from
		// export data unless NeedSyntax… which forces source. Drop NeedDeps
		// syntax by using the legacy LoadSyntax set.
		pcfg.Mode = packages.LoadSyntax | packages.NeedModule
	}
	roots, err := packages.Load(pcfg, "./pkg/...", "./cmd/...")
	if err != nil {
		return nil, fmt.Errorf("packages.Load: %w", err)
	}
	if len(roots) == 0 {
		return nil, fmt.Errorf("no packages loaded from %s", repo)
	}
	p := &Program{Repo: repo, Config: cfg, Roots: roots, ByPath: map[string]*packages.Package{}, SSAPkgs: map[string]*ssa.Package{}, ASTOnly: map[string]bool{}, Whole: whole}
	var bad []string
	packages.Visit(roots, nil, func(pkg *packages.Package) {
		p.ByPath[pkg.PkgPath] = pkg
		if p.Fset == nil && pkg.Fset != nil {
			p.Fset = pkg.Fset
		}
		if !strings.HasPrefix(pkg.PkgPath, modPath) {
			return
		}
		for _, e := range pkg.Errors {
			if pkg.PkgPath == knownTypeErrPkg && strings.Contains(e.Msg, knownTypeErrText) {
				p.ASTOnly[pkg.PkgPath] = true
				continue
			}
			bad = append(bad, fmt.Sprintf("%s: %s", pkg.PkgPath, e.Error()))
		}
	})
	if len(bad) > 0 {
		sort.Strings(bad)
		return nil, fmt.Errorf("type/load errors (the tree must compile):\n  %s", strings.Join(bad, "\n  "))
	}
	var prog *ssa.Program
	if whole {
		prog, _ = ssautil.AllPackages(roots, ssa.InstantiateGenerics)
	} else {
		// function bodies for the root (module) packages only
		prog, _ = ssautil.Packages(roots, ssa.InstantiateGenerics)
	}
	prog.Build()
	p.SSA = prog
	for _, sp := range prog.AllPackages() {
		p.SSAPkgs[sp.Pkg.Path()] = sp
	}
	// Collect source functions of module packages.
	seen := map[*ssa.Function]bool{}
	var add func(f *ssa.Function)
	add = func(f *ssa.Function) {
		if f == nil || seen[f] {
			return
		}
		seen[f] = true
		if f.Blocks != nil {
			p.Funcs = append(p.Funcs, f)
		}
		for _, a := range f.AnonFuncs {
			add(a)
		}
	}
	for path, sp := range p.SSAPkgs {
		if !strings.HasPrefix(path, modPath) {
			continue
		}
		for _, m := range sp.Members {
			switch m := m.(type) {
			case *ssa.Function:
				add(m)
			case *ssa.Type:
				for _, rt := range []types.Type{m.Type(), types.NewPointer(m.Type())} {
					mset := prog.MethodSets.MethodSet(rt)
					for i := 0; i < mset.Len(); i++ {
						fn := prog.MethodValue(mset.At(i))
						if fn != nil && fn.Pkg == sp && fn.Synthetic == "" {
							add(fn)
						}
					}
				}
			}
		}
	}
	sort.Slice(p.Funcs, func(i, j int) bool {
		pi, pj := p.Fset.Position(p.Funcs[i].Pos()), p.Fset.Position(p.Funcs[j].Pos())
		if pi.Filename != pj.Filename {
			return pi.Filename < pj.Filename
		}
		if pi.Offset != pj.Offset {
			return pi.Offset < pj.Offset
		}
		return p.Funcs[i].String() < p.Funcs[j].String()
	})
	return p, nil
}

// Pkg returns the module package with the given path relative to the module
// root ("pkg/blobstore/local").
func (p *Program) Pkg(rel string) *packages.Package { return p.ByPath[modPath+"/"+rel] }

func (p *Program) SSAPkg(rel string) *ssa.Package { return p.SSAPkgs[modPath+"/"+rel] }

func (p *Program) Pos(pos token.Pos) string {
	if !pos.IsValid() {
		return "?"
	}
	ps := p.Fset.Position(pos)
	f := ps.Filename
	if strings.HasPrefix(f, p.Repo+"/") {
		f = f[len(p.Repo)+1:]
	}
	return fmt.Sprintf("%s:%d", f, ps.Line)
}

// FuncName gives a stable, position-free name for an SSA function.
func FuncName(f *ssa.Function) string {
	if f == nil {
		return "<nil>"
	}
	s := f.String()
	return strings.ReplaceAll(s, modPath+"/", "")
}

// LookupType returns the named type rel.name or nil.
func (p *Program) LookupType(rel, name string) *types.Named {
	pkg := p.Pkg(rel)
	if pkg == nil || pkg.Types == nil {
		return nil
	}
	o := pkg.Types.Scope().Lookup(name)
	if o == nil {
		return nil
	}
	tn, ok := o.(*types.TypeName)
	if !ok {
		return nil
	}
	n, _ := tn.Type().(*types.Named)
	return n
}

// LookupExt returns a named type of any loaded package (full import path).
func (p *Program) LookupExt(path, name string) types.Object {
	pkg := p.ByPath[path]
	if pkg == nil || pkg.Types == nil {
		return nil
	}
	return pkg.Types.Scope().Lookup(name)
}

// Method returns the SSA function for method name of (pointer to) named type.
func (p *Program) Method(rel, typ, name string) *ssa.Function {
	n := p.LookupType(rel, typ)
	if n == nil {
		return nil
	}
	for _, t := range []types.Type{n, types.NewPointer(n)} {
		sel := p.SSA.MethodSets.MethodSet(t).Lookup(n.Obj().Pkg(), name)
		if sel != nil {
			return p.SSA.MethodValue(sel)
		}
	}
	return nil
}

// Func returns package-level function rel.name.
func (p *Program) Func(rel, name string) *ssa.Function {
	sp := p.SSAPkg(rel)
	if sp == nil {
		return nil
	}
	return sp.Func(name)
}

// FuncDecl finds the AST of a source function.
func (p *Program) FuncDecl(f *ssa.Function) *ast.FuncDecl {
	if f == nil {
		return nil
	}
	d, _ := f.Syntax().(*ast.FuncDecl)
	return d
}

// IfaceMethod returns the *types.Func of method name on interface rel.iface.
func (p *Program) IfaceMethod(rel, iface, name string) *types.Func {
	n := p.LookupType(rel, iface)
	if n == nil {
		return nil
	}
	it, ok := n.Underlying().(*types.Interface)
	if !ok {
		return nil
	}
	for i := 0; i < it.NumMethods(); i++ {
		if it.Method(i).Name() == name {
			return it.Method(i)
		}
	}
	return nil
}
