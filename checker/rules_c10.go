package main

import (
	"go/token"
	"go/types"

	"golang.org/x/tools/go/ssa"
)

// Rules about the hierarchical CAS store (C10) and publish-after-success (C01).

func init() {
	register(&Rule{
		ID: "R01.1", Props: []string{"C01", "C10"}, Engine: "guard + flow",
		Text:  "publish only after a successful copy: in both finalizePut helpers every KeyLocationMap.Put is dominated by the nil edge of the put finalizer's error and publishes the very Location that finalizer returned; in flatBlobAccess.GetFromComposite slices are registered only after finalizePut / the parent lookup succeeded",
		Floor: 3, MustExist: true, Run: runR011,
	})
	register(&Rule{
		ID: "R10.1", Props: []string{"C10"}, Engine: "flow + table",
		Text:  "reads consult only lookup keys of the requested name and its ancestors: getAllLookupKeys maps GetDigestsWithParentInstanceNames() through the instance-aware key format (KeyWithInstance), the canonical key uses KeyWithoutInstance; in Get and FindMissing the keys handed to getLeastSpecificLookupEntry derive from getAllLookupKeys of the requested digest, the KeyLocationMap is read directly only in helpers, and the canonical entry is consulted only in syncFromCanonicalEntry / Put",
		Floor: 6, MustExist: true, Run: runR101,
	})
	register(&Rule{
		ID: "R10.2", Props: []string{"C10", "C01"}, Engine: "guard",
		Text:  "possession proven before access is granted: in hierarchicalCASBlobAccess.Put a lookup entry for content that already exists is written only after the uploader's buffer was consumed without error (dominated by the nil edge of IntoWriter on the uploaded buffer), otherwise only through finalizePut of the data the uploader supplied",
		Floor: 1, MustExist: true, Run: runR102,
	})
	register(&Rule{
		ID: "R10.3", Props: []string{"C10"}, Engine: "flow (provenance)",
		Text:  "no widening: the lookup key rewritten by a refresh (syncFromCanonicalEntry, finalizePut in Get/FindMissing) is the key that getLeastSpecificLookupEntry returned for this request in this hold; the lookup key written by Put is getMostSpecificLookupKey of the uploaded digest; canonical keys are getCanonicalKey of the digest; nothing else writes lookup entries",
		Floor: 6, MustExist: true, Run: runR103,
	})
}

func runR011(c *Ctx) {
	finT := c.LookupType(localRel, "LocationBlobPutFinalizer")
	for _, typ := range []string{"flatBlobAccess", "hierarchicalCASBlobAccess"} {
		fp := c.Method(localRel, typ, "finalizePut")
		if fp == nil {
			c.Broken("%s.finalizePut not found", typ)
			continue
		}
		name := FuncName(fp)
		var fin *ssa.Call
		allInstrs(fp, func(ins ssa.Instruction) {
			if cl, ok := ins.(*ssa.Call); ok && !cl.Call.IsInvoke() && cl.Call.StaticCallee() == nil && types.Identical(cl.Call.Value.Type(), finT) {
				fin = cl
			}
		})
		if fin == nil {
			c.Fail(name, "finalizer", c.Pos(fp.Pos()), "finalizePut does not invoke the put finalizer")
			continue
		}
		n := 0
		allInstrs(fp, func(ins ssa.Instruction) {
			cl, ok := ins.(*ssa.Call)
			if !ok || !cl.Call.IsInvoke() || cl.Call.Method.Name() != "Put" || !loadOfRecvField(fp, cl.Call.Value, "keyLocationMap") {
				return
			}
			n++
			okDom := dominatedByErrNil(cl.Block(), fin)
			okLoc := false
			if ex, isEx := cl.Call.Args[1].(*ssa.Extract); isEx && ex.Tuple == ssa.Value(fin) && ex.Index == 0 {
				okLoc = true
			}
			why := "the index entry is written although the put finalizer may have failed (a failed upload would become visible)"
			if okDom && !okLoc {
				why = "the Location published is not the one the put finalizer returned"
			}
			c.Check(okDom && okLoc, name, "publish", c.Pos(cl.Pos()), "published only after the finalizer succeeded, with the location it returned", why)
		})
		if n == 0 {
			c.Fail(name, "publish", c.Pos(fp.Pos()), "finalizePut never publishes the location")
		}
	}
}

func keyFormatConst(c *Ctx, fn *ssa.Function) (int64, bool) {
	dig := c.LookupType(digestRel, "Digest")
	var k int64
	found := false
	allInstrs(fn, func(ins ssa.Instruction) {
		if cl, ok := ins.(*ssa.Call); ok && isMethodCall(cl.Common(), dig, "GetKey") {
			if v, ok := constInt(cl.Call.Args[1]); ok {
				k, found = v, true
			}
		}
	})
	return k, found
}

func runR101(c *Ctx) {
	most := c.Func(localRel, "getMostSpecificLookupKey")
	all := c.Func(localRel, "getAllLookupKeys")
	canon := c.Func(localRel, "getCanonicalKey")
	if most == nil || all == nil || canon == nil {
		c.Broken("getMostSpecificLookupKey / getAllLookupKeys / getCanonicalKey not found")
		return
	}
	// key format constants
	withInst, withoutInst := int64(-1), int64(-1)
	if o := c.Pkg(digestRel).Types.Scope().Lookup("KeyWithInstance"); o != nil {
		if k, ok := o.(*types.Const); ok {
			withInst, _ = constantInt64(k)
		}
	}
	if o := c.Pkg(digestRel).Types.Scope().Lookup("KeyWithoutInstance"); o != nil {
		if k, ok := o.(*types.Const); ok {
			withoutInst, _ = constantInt64(k)
		}
	}
	k1, ok1 := keyFormatConst(c, most)
	c.Check(ok1 && k1 == withInst, FuncName(most), "key-format", c.Pos(most.Pos()), "lookup keys include the instance name", "lookup keys are not built with digest.KeyWithInstance: objects would be visible regardless of instance name")
	k2, ok2 := keyFormatConst(c, canon)
	c.Check(ok2 && k2 == withoutInst, FuncName(canon), "key-format", c.Pos(canon.Pos()), "the canonical key omits the instance name", "the canonical key is not built with digest.KeyWithoutInstance")
	// getAllLookupKeys: keys of GetDigestsWithParentInstanceNames only
	dig := c.LookupType(digestRel, "Digest")
	okAll := false
	allInstrs(all, func(ins ssa.Instruction) {
		cl, ok := ins.(*ssa.Call)
		if !ok || cl.Call.StaticCallee() != most {
			return
		}
		X, _, isElem := rangeElemOf(cl.Call.Args[0])
		if isElem {
			if pc, ok := X.(*ssa.Call); ok && isMethodCall(pc.Common(), dig, "GetDigestsWithParentInstanceNames") && pc.Call.Args[0] == ssa.Value(all.Params[0]) {
				okAll = true
			}
		}
	})
	c.Check(okAll, FuncName(all), "ancestors-only", c.Pos(all.Pos()), "the keys consulted are those of the digest's own and ancestor instance names", "getAllLookupKeys does not enumerate exactly GetDigestsWithParentInstanceNames() of the requested digest")
	// Get / FindMissing
	gl := c.Method(localRel, "hierarchicalCASBlobAccess", "getLeastSpecificLookupEntry")
	for _, m := range []string{"Get", "FindMissing"} {
		fn := c.Method(localRel, "hierarchicalCASBlobAccess", m)
		if fn == nil || gl == nil {
			c.Broken("hierarchicalCASBlobAccess.%s / getLeastSpecificLookupEntry not found", m)
			continue
		}
		name := FuncName(fn)
		withAnon(fn, func(g *ssa.Function) {
			allInstrs(g, func(ins ssa.Instruction) {
				cl, ok := ins.(*ssa.Call)
				if !ok {
					return
				}
				if cl.Call.IsInvoke() && loadOfRecvField(topFunc(g), cl.Call.Value, "keyLocationMap") {
					c.Fail(name, "direct-index-access", c.Pos(cl.Pos()), "the key-location map is accessed directly in "+m+" (only getLeastSpecificLookupEntry / syncFromCanonicalEntry / finalizePut may): a read could be served from a key outside the requester's ancestor chain")
					return
				}
				if cl.Call.StaticCallee() != gl {
					return
				}
				derives := false
				deepSlice(g, cl.Call.Args[1], func(x ssa.Value) bool {
					if c2, ok := x.(*ssa.Call); ok {
						if c2.Call.StaticCallee() == all {
							derives = true
							return false
						}
						if _, isB := c2.Call.Value.(*ssa.Builtin); isB {
							return true
						}
						return false
					}
					return true
				})
				c.Check(derives, name, "lookup-keys", c.Pos(cl.Pos()), "keys searched derive from getAllLookupKeys", "the keys searched do not derive from getAllLookupKeys of the requested digest")
			})
		})
	}
}

func constantInt64(k *types.Const) (int64, bool) {
	return constInt(ssa.NewConst(k.Val(), k.Type()))
}

func runR102(c *Ctx) {
	put := c.Method(localRel, "hierarchicalCASBlobAccess", "Put")
	if put == nil {
		c.Broken("hierarchicalCASBlobAccess.Put not found")
		return
	}
	name := FuncName(put)
	bufT := c.LookupType(bufferRel, "Buffer")
	var bparam *ssa.Parameter
	for _, p := range put.Params {
		if types.Identical(p.Type(), bufT) {
			bparam = p
		}
	}
	var intoWriter []*ssa.Call
	allInstrs(put, func(ins ssa.Instruction) {
		if cl, ok := ins.(*ssa.Call); ok && cl.Call.IsInvoke() && cl.Call.Method.Name() == "IntoWriter" && cl.Call.Value == ssa.Value(bparam) {
			intoWriter = append(intoWriter, cl)
		}
	})
	n := 0
	allInstrs(put, func(ins ssa.Instruction) {
		cl, ok := ins.(*ssa.Call)
		if !ok || !cl.Call.IsInvoke() || cl.Call.Method.Name() != "Put" || !loadOfRecvField(put, cl.Call.Value, "keyLocationMap") {
			return
		}
		n++
		ok2 := false
		for _, iw := range intoWriter {
			if dominatedByErrNil(cl.Block(), iw) {
				ok2 = true
			}
		}
		c.Check(ok2, name, "grant-existing", c.Pos(cl.Pos()), "the lookup entry for existing content is written only after the uploaded buffer was consumed and validated without error", "an uploader can obtain a lookup entry for content it does not possess: the entry is written before (or without) consuming and validating the uploaded buffer")
	})
	if n == 0 {
		c.PassTrivial(name, "grant-existing", c.Pos(put.Pos()), "Put writes lookup entries only through finalizePut")
	}
	// what is ingested is what the uploader sent: every buffer handed to a
	// put writer (the function LocationBlobMap.Put returned) is the upload
	// parameter itself – never a buffer obtained from the store
	nIngest := 0
	allInstrs(put, func(ins ssa.Instruction) {
		cl, ok := ins.(*ssa.Call)
		if !ok || cl.Call.IsInvoke() || cl.Call.StaticCallee() != nil || len(cl.Call.Args) != 1 || !types.Identical(cl.Call.Args[0].Type(), bufT) {
			return
		}
		nIngest++
		bad := ""
		seen := map[ssa.Value]bool{}
		var origin func(v ssa.Value)
		origin = func(v ssa.Value) {
			v = stripConv(v)
			if seen[v] || bad != "" {
				return
			}
			seen[v] = true
			switch x := v.(type) {
			case *ssa.Parameter:
				if x != bparam {
					bad = "another parameter"
				}
			case *ssa.Phi:
				for _, e := range x.Edges {
					origin(e)
				}
			case *ssa.UnOp:
				if al, ok := x.X.(*ssa.Alloc); ok && x.Op == token.MUL {
					for _, s := range cellStores(al) {
						origin(s)
					}
					return
				}
				bad = "a value read from memory"
			case *ssa.Call:
				bad = "the result of " + x.Call.String()
			default:
				bad = v.String()
			}
		}
		origin(cl.Call.Args[0])
		c.Check(bad == "", name, "ingests-upload", c.Pos(cl.Pos()), "the data written (and thereby validated) is the uploader's", "the buffer handed to the put writer can be "+bad+" instead of the uploaded buffer: the object is (re)stored and the uploader's lookup entry registered without the uploader having supplied valid content – access to an object it does not possess")
	})
	if nIngest == 0 {
		c.Fail(name, "ingests-upload", c.Pos(put.Pos()), "Put never hands the uploaded buffer to a put writer")
	}
}

func runR103(c *Ctx) {
	gl := c.Method(localRel, "hierarchicalCASBlobAccess", "getLeastSpecificLookupEntry")
	sync := c.Method(localRel, "hierarchicalCASBlobAccess", "syncFromCanonicalEntry")
	fp := c.Method(localRel, "hierarchicalCASBlobAccess", "finalizePut")
	most := c.Func(localRel, "getMostSpecificLookupKey")
	canon := c.Func(localRel, "getCanonicalKey")
	if gl == nil || sync == nil || fp == nil || most == nil || canon == nil {
		c.Broken("hierarchical helpers not found")
		return
	}
	// resolve a value through closure capture to the defining values in the enclosing function
	var origins func(g *ssa.Function, v ssa.Value, depth int) []ssa.Value
	origins = func(g *ssa.Function, v ssa.Value, depth int) []ssa.Value {
		if depth > 4 {
			return []ssa.Value{v}
		}
		if u, ok := v.(*ssa.UnOp); ok && u.Op == token.MUL {
			switch a := u.X.(type) {
			case *ssa.FreeVar:
				parent := g.Parent()
				var out []ssa.Value
				allInstrs(parent, func(pi ssa.Instruction) {
					mc, ok := pi.(*ssa.MakeClosure)
					if !ok || mc.Fn != ssa.Value(g) {
						return
					}
					for i, b := range mc.Bindings {
						if g.FreeVars[i] == a {
							if al, ok := b.(*ssa.Alloc); ok {
								for _, s := range cellStores(al) {
									out = append(out, origins(parent, s, depth+1)...)
								}
							}
						}
					}
				})
				return out
			case *ssa.Alloc:
				var out []ssa.Value
				for _, s := range cellStores(a) {
					out = append(out, origins(g, s, depth+1)...)
				}
				if len(out) > 0 {
					return out
				}
			}
		}
		if p, ok := v.(*ssa.Phi); ok {
			var out []ssa.Value
			for _, e := range p.Edges {
				out = append(out, origins(g, e, depth+1)...)
			}
			return out
		}
		return []ssa.Value{v}
	}
	fromLeast := func(g *ssa.Function, v ssa.Value) bool {
		os := origins(g, v, 0)
		if len(os) == 0 {
			return false
		}
		for _, o := range os {
			ex, ok := o.(*ssa.Extract)
			if !ok || ex.Index != 0 {
				return false
			}
			cl, ok := ex.Tuple.(*ssa.Call)
			if !ok || cl.Call.StaticCallee() != gl {
				return false
			}
		}
		return true
	}
	fromFunc := func(g *ssa.Function, v ssa.Value, f *ssa.Function) bool {
		os := origins(g, v, 0)
		if len(os) == 0 {
			return false
		}
		for _, o := range os {
			// element of a slice filled with f(...) results counts too
			hit := false
			deepSlice(g, o, func(x ssa.Value) bool {
				if cl, ok := x.(*ssa.Call); ok {
					if cl.Call.StaticCallee() == f {
						hit = true
						return false
					}
					if _, isB := cl.Call.Value.(*ssa.Builtin); isB {
						return true
					}
					return false
				}
				return true
			})
			if !hit {
				return false
			}
		}
		return true
	}
	for _, m := range []string{"Get", "FindMissing", "Put", "GetFromComposite"} {
		fn := c.Method(localRel, "hierarchicalCASBlobAccess", m)
		if fn == nil {
			continue
		}
		withAnon(fn, func(g *ssa.Function) {
			allInstrs(g, func(ins ssa.Instruction) {
				cl, ok := ins.(*ssa.Call)
				if !ok {
					return
				}
				name := FuncName(g)
				switch cl.Call.StaticCallee() {
				case sync:
					c.Check(fromLeast(g, cl.Call.Args[2]), name, "sync-lookup-key", c.Pos(cl.Pos()), "the lookup entry refreshed is the one found for this request", "syncFromCanonicalEntry rewrites a lookup key other than the one getLeastSpecificLookupEntry found for this request: a refresh could make the object visible under other instance names")
					c.Check(fromFunc(g, cl.Call.Args[1], canon), name, "sync-canonical-key", c.Pos(cl.Pos()), "canonical key derives from getCanonicalKey", "the canonical key passed to syncFromCanonicalEntry does not derive from getCanonicalKey")
				case fp:
					if m == "Put" {
						c.Check(fromFunc(g, cl.Call.Args[3], most), name, "put-lookup-key", c.Pos(cl.Pos()), "uploads are published under the uploader's own (most specific) lookup key", "Put publishes the upload under a lookup key other than getMostSpecificLookupKey of the uploaded digest")
					} else {
						c.Check(fromLeast(g, cl.Call.Args[3]), name, "refresh-lookup-key", c.Pos(cl.Pos()), "the refreshed copy is published under the lookup key found for this request", "a refresh publishes the copy under a lookup key other than the one getLeastSpecificLookupEntry found for this request")
					}
					c.Check(fromFunc(g, cl.Call.Args[2], canon), name, "canonical-key", c.Pos(cl.Pos()), "canonical key derives from getCanonicalKey", "the canonical key passed to finalizePut does not derive from getCanonicalKey")
				}
			})
		})
	}
	// Put's direct lookup write uses the most specific key
	if put := c.Method(localRel, "hierarchicalCASBlobAccess", "Put"); put != nil {
		allInstrs(put, func(ins ssa.Instruction) {
			cl, ok := ins.(*ssa.Call)
			if !ok || !cl.Call.IsInvoke() || cl.Call.Method.Name() != "Put" || !loadOfRecvField(put, cl.Call.Value, "keyLocationMap") {
				return
			}
			c.Check(fromFunc(put, cl.Call.Args[0], most), FuncName(put), "grant-key", c.Pos(cl.Pos()), "the entry granted is the uploader's own lookup key", "Put grants access under a key other than getMostSpecificLookupKey of the uploaded digest")
		})
	}
}
