package main

import (
	"encoding/json"
	"fmt"
	"go/token"
	"os"
	"path/filepath"
	"sort"
	"strings"

	"golang.org/x/tools/go/ssa"
)

// ---------------------------------------------------------------------------
// "What happened first still happens first."
//
// Per function of the reference tree: the pairs (A, B) of distinct calls with
// an effect such that every occurrence of B is dominated by an occurrence of
// A – B is never reached without A having been called first (sync before
// rename, snapshot before write, validate before register, insert before
// notify) – and not the other way round.  On the current tree, while both
// calls are still made by the function, B must still be dominated by A.
// Swapping two such steps, or adding a path that reaches B around A, breaks
// the pair; moving either into a helper removes it from the function and
// switches the judgement off.

type orderRef struct {
	Note   string                    `json:"note"`
	Pairs  map[string][]string       `json:"pairs"`  // function -> "A < B"
	Counts map[string]map[string]int `json:"counts"` // function -> callee -> occurrences (of callees that are first in a pair)
	// LoopExits: function -> number of ways it returns success (a nil error) out of the body of a loop
	LoopExits map[string]int `json:"loop_exits"`
	// Loops: function -> number of loops (blocks with a back edge)
	Loops map[string]int `json:"loops"`
}

var orderGroups = groupsOf([][]string{
	{"R01.18", "local"},
	{"R09.13", "buffer"},
	{"R11.13", "mirrored", "sharding", "completeness", "replication"},
	{"R14.13", "grpc"},
	{"R18.13", "top"},
	{"R20.18", "digest"},
	{"R02.17", "config"},
})

func init() {
	for i := range orderGroups {
		g := orderGroups[i]
		register(&Rule{
			ID: g.rule, Props: g.props, Engine: "must-precede pairs of effectful calls (dominance, SSA) against the reference tree",
			Text:  "what happened first still happens first (" + strings.Join(g.pkgs, ", ") + "): for every pair of distinct calls with an effect (getters and pure helpers excluded; lock operations included) of which, on the reference tree, the second is only ever reached after the first was made in the same function, the second is still only reached after the first – two steps swapped, or a new path that reaches the second around the first, is reported; a step that moved out of the function is not judged",
			Floor: 1, MustExist: false, Run: func(c *Ctx) { runOrderDrift(c, g.pkgs) },
		})
	}
}

func allOrderPkgs() []string {
	var out []string
	for _, g := range orderGroups {
		out = append(out, g.pkgs...)
	}
	return out
}

// effectfulCallSites: callee id -> the call instructions (plain calls only: a
// deferred or spawned call has no place in the order of the function body).
func effectfulCallSites(g *ssa.Function) map[string][]*ssa.Call {
	out := map[string][]*ssa.Call{}
	allInstrs(g, func(ins ssa.Instruction) {
		cl, ok := ins.(*ssa.Call)
		if !ok {
			return
		}
		id := calleeID(cl.Common())
		if id == "dyn" {
			return
		}
		if sc := cl.Call.StaticCallee(); sc != nil && isErrorConstructor(sc) {
			return // building an error is not a step that has a place in an order
		}
		if strings.HasPrefix(id, "B:") {
			if id != "B:close" && id != "B:delete" && id != "B:copy" {
				return
			}
		} else {
			name := id
			if i := strings.LastIndex(name, "."); i >= 0 {
				name = name[i+1:]
			}
			if pureLooking(name) {
				return
			}
		}
		out[id] = append(out[id], cl)
	})
	return out
}

// mustPrecede: every occurrence of b is dominated by an occurrence of a.
func mustPrecede(as, bs []*ssa.Call) bool {
	for _, b := range bs {
		ok := false
		for _, a := range as {
			if a != b && instrDominates(a, b) {
				ok = true
				break
			}
		}
		if !ok {
			return false
		}
	}
	return len(bs) > 0
}

func orderPairs(g *ssa.Function) []string {
	sites := effectfulCallSites(g)
	if len(sites) > 40 {
		return nil
	}
	var ids []string
	for id := range sites {
		ids = append(ids, id)
	}
	sort.Strings(ids)
	var out []string
	for _, a := range ids {
		for _, b := range ids {
			if a == b {
				continue
			}
			if mustPrecede(sites[a], sites[b]) && !mustPrecede(sites[b], sites[a]) {
				out = append(out, a+" < "+b)
			}
		}
	}
	return out
}

// pureLoopTest: the header does nothing but evaluate the loop's condition (`for i < n`, `for range`):
// its exit edge is the loop ending by itself.  The header of `for { … }` is the first part of the body;
// leaving from there is leaving from inside.
func pureLoopTest(h *ssa.BasicBlock) bool {
	for _, ins := range h.Instrs {
		switch x := ins.(type) {
		case *ssa.Call:
			if _, isB := x.Call.Value.(*ssa.Builtin); !isB {
				return false
			}
		case *ssa.Store, *ssa.Send, *ssa.Select, *ssa.MapUpdate, *ssa.Go, *ssa.Defer:
			return false
		case *ssa.UnOp:
			if x.Op == token.ARROW {
				return false
			}
		}
	}
	return true
}

func countLoops(g *ssa.Function) int {
	n := 0
	for _, b := range g.Blocks {
		if isLoopHeader(b) {
			n++
		}
	}
	return n
}

func hasLoop(g *ssa.Function) bool {
	for _, b := range g.Blocks {
		if isLoopHeader(b) {
			return true
		}
	}
	return false
}

// successExitsFromLoops: the returns of g that report success (a nil error; for functions without an
// error result: any return) and are entered from the body of a loop – `return nil` inside a loop, or
// `break` followed by it – as opposed to the return after the loop ran to completion.
func successExitsFromLoops(g *ssa.Function) []*ssa.Return {
	var out []*ssa.Return
	res := g.Signature.Results()
	errIdx := -1
	if res.Len() > 0 && isErrorType(res.At(res.Len()-1).Type()) {
		errIdx = res.Len() - 1
	}
	// blocks that are reached by leaving the body of some loop through an edge that is not the
	// loop header's own exit (a return or a break in the body; the exit of an inner loop counts as
	// part of the body of the outer one)
	earlyExit := map[*ssa.BasicBlock]bool{}
	for _, h := range g.Blocks {
		if !isLoopHeader(h) {
			continue
		}
		body := map[*ssa.BasicBlock]bool{h: true}
		var work []*ssa.BasicBlock
		for _, l := range h.Preds {
			if h.Dominates(l) && !body[l] {
				body[l] = true
				work = append(work, l)
			}
		}
		for len(work) > 0 {
			b := work[len(work)-1]
			work = work[:len(work)-1]
			for _, p := range b.Preds {
				if !body[p] {
					body[p] = true
					work = append(work, p)
				}
			}
		}
		for b := range body {
			if b == h && pureLoopTest(h) {
				continue // the loop's own exit: the condition of `for cond` / the end of a range
			}
			for _, x := range b.Succs {
				if body[x] {
					continue
				}
				// everything reachable from x without re-entering the loop and without going round an
				// enclosing loop (what follows the header of an enclosing loop is that loop's business)
				seen := map[*ssa.BasicBlock]bool{}
				st := []*ssa.BasicBlock{x}
				for len(st) > 0 {
					y := st[len(st)-1]
					st = st[:len(st)-1]
					if seen[y] || body[y] || (isLoopHeader(y) && y.Dominates(h)) {
						continue
					}
					seen[y] = true
					earlyExit[y] = true
					st = append(st, y.Succs...)
				}
			}
		}
	}
	if errIdx < 0 {
		// without an error result there is no telling a successful exit from any other (a search
		// loop returns true or false from inside the loop as a matter of course)
		return nil
	}
	for _, r := range returnsOf(g) {
		if len(r.Results) <= errIdx {
			continue
		}
		// `return nil`, and equally `return err` where nothing says that err is set (the result of the
		// step handed back as is: the first element decides for all)
		if rv := returnedValue(r, errIdx); !isNilConst(rv) && !errMayBeNil(rv, r.Block(), 0) {
			continue
		}
		fromLoop := earlyExit[r.Block()]
		if fromLoop {
			out = append(out, r)
		}
	}
	return out
}

func genOrderReference(repo string) error {
	p, err := LoadProgram(repo, BuildConfig{"linux", "amd64"}, false, nil)
	if err != nil {
		return err
	}
	ref := orderRef{Note: "per function of the reference tree: pairs of effectful calls of which the second is only reached after the first; generated by `bbcheck -gen-reference`, never written by a check", Pairs: map[string][]string{}, Counts: map[string]map[string]int{}, LoopExits: map[string]int{}, Loops: map[string]int{}}
	for _, rel := range allOrderPkgs() {
		for _, tf := range p.srcFuncs(rel) {
			withAnon(tf, func(g *ssa.Function) {
				if n := len(successExitsFromLoops(g)); n > 0 || hasLoop(g) {
					ref.LoopExits[FuncName(g)] = n
					ref.Loops[FuncName(g)] = countLoops(g)
				}
				if ps := orderPairs(g); len(ps) > 0 {
					ref.Pairs[FuncName(g)] = ps
					sites := effectfulCallSites(g)
					cnt := map[string]int{}
					for _, pr := range ps {
						ab := strings.SplitN(pr, " < ", 2)
						cnt[ab[0]] = len(sites[ab[0]])
						cnt[ab[1]] = len(sites[ab[1]])
					}
					ref.Counts[FuncName(g)] = cnt
				}
			})
		}
	}
	b, _ := json.MarshalIndent(ref, "", " ")
	return os.WriteFile(filepath.Join(refDir, "order.json"), append(b, '\n'), 0o644)
}

var orderRefCache *orderRef

func runOrderDrift(c *Ctx, pkgs []string) {
	if !referenceConfig(c) {
		return
	}
	if orderRefCache == nil {
		b, err := os.ReadFile(filepath.Join(refDir, "order.json"))
		if err != nil {
			c.Broken("reference table of call order cannot be read: %v", err)
			return
		}
		var r orderRef
		if err := json.Unmarshal(b, &r); err != nil {
			c.Broken("reference table of call order: %v", err)
			return
		}
		orderRefCache = &r
	}
	short := func(id string) string {
		if i := strings.LastIndex(id, "/"); i >= 0 {
			return id[i+1:]
		}
		return id
	}
	for _, rel := range pkgs {
		for _, tf := range c.srcFuncs(rel) {
			withAnon(tf, func(g *ssa.Function) {
				fk := refKey(g)
				if fk == "" {
					return
				}
				// a loop whose body now always leaves (an unconditional return at its end) is no loop any
				// more: only the first element is looked at.  Judged while no helper was extracted or inlined
				// (then the loop may live elsewhere).
				if nl, knownN := orderRefCache.Loops[fk]; knownN && countLoops(g) < nl {
					if provR, _ := loadProvRef(); provR != nil {
						if rs, ok := provR.Sigs[fk]; ok {
							refDef := map[string]bool{}
							for _, id := range provR.Defined {
								refDef[id] = true
							}
							// … nor a library routine (slices.Contains, maps.Copy …): nothing is called that was not called before
							newCallee := false
							had := map[string]bool{}
							for _, e := range rs {
								if i := strings.LastIndex(e, "×"); i >= 0 {
									had[e[:i]] = true
								}
							}
							for _, e := range callSignature(g) {
								if i := strings.LastIndex(e, "×"); i >= 0 && !had[e[:i]] {
									newCallee = true
								}
							}
							if !newCallee && gateOpen(rs, callSignature(g), refDef, definedCallees(c.Program)) {
								c.Fail(fk, "loops-still-repeat", c.Pos(g.Pos()), fmt.Sprintf("the function has %d loop(s), %d on the reference tree, and no helper took one over: the body of a loop now always leaves it, so only the first element – the first partition, the first backend, the first chunk – is dealt with", countLoops(g), nl))
							}
						}
					}
				}
				if n, knownL := orderRefCache.LoopExits[fk]; knownL {
					if ex := successExitsFromLoops(g); len(ex) > n {
						c.Fail(fk, "loops-run-to-completion", c.Pos(ex[len(ex)-1].Pos()), fmt.Sprintf("the function now reports success from inside a loop in %d place(s) (%d on the reference tree): the remaining elements – the other digests of the request, the other backends, the later chunks – are no longer looked at although nothing failed", len(ex), n))
					} else {
						c.Pass(fk, "loops-run-to-completion", "-", "no new successful exit from inside a loop")
					}
				}
				want, known := orderRefCache.Pairs[fk]
				if !known {
					return
				}
				sites := effectfulCallSites(g)
				for _, pr := range want {
					ab := strings.SplitN(pr, " < ", 2)
					as, bs := sites[ab[0]], sites[ab[1]]
					if len(as) == 0 || len(bs) == 0 {
						continue // one of the steps left the function: not judged
					}
					if len(as) < orderRefCache.Counts[fk][ab[0]] {
						continue // some occurrences of the first step left the function (moved into a helper): not judged
					}
					if n, knownN := orderRefCache.Counts[fk][ab[1]]; knownN && len(bs) > n {
						continue // the second step is made in more places than before (a clean-up added on another path): the new places have nothing to be compared with
					}
					if mustPrecede(as, bs) {
						c.Pass(fk, "order "+short(ab[0])+" < "+short(ab[1]), c.Pos(bs[0].Pos()), "still only reached after it")
						continue
					}
					// the offending occurrence
					var at *ssa.Call
					for _, b := range bs {
						dom := false
						for _, a := range as {
							if instrDominates(a, b) {
								dom = true
							}
						}
						if !dom {
							at = b
							break
						}
					}
					c.Fail(fk, "order "+short(ab[0])+" < "+short(ab[1]), c.Pos(at.Pos()), "on the reference tree "+short(ab[1])+" is only ever reached after "+short(ab[0])+" was called in this function; now there is a path on which it is reached without it (two steps were swapped, or a new path goes around the first)")
				}
			})
		}
	}
}
