package main

import (
	"crypto/sha256"
	"encoding/hex"
	"encoding/json"
	"fmt"
	"os"
	"path/filepath"
	"sort"
	"strings"
)

// Oblig is one rule instance: a rule applied to one construct.
type Oblig struct {
	Rule       string   `json:"rule"`
	Key        string   `json:"key"` // rule|function|site|ordinal – never a line number
	Pos        string   `json:"pos"`
	OK         bool     `json:"ok"`
	Msg        string   `json:"msg,omitempty"`
	Nontrivial bool     `json:"nontrivial,omitempty"`
	Path       []string `json:"path,omitempty"`
	Config     string   `json:"config,omitempty"`
}

// Rule is a registered rule.
type Rule struct {
	ID    string
	Props []string // properties it serves
	Text  string   // the rule in words
	// Floor: minimum number of instances confirmed by hand on the pinned
	// tree. MustExist: fewer than Floor is a violation ("mechanism site
	// missing"); otherwise reported in the evidence only.
	Floor     int
	MustExist bool
	Engine    string
	Run       func(c *Ctx)
	// AST-level rules can run on ill-typed whitelisted packages.
	Thorough bool // only in thorough tier
}

// Ctx is what a rule sees.
type Ctx struct {
	*Program
	rule   *Rule
	obs    []Oblig
	broken []string
	seq    map[string]int
	exUsed map[string]string
}

func (c *Ctx) key(fn, site string) string {
	base := c.rule.ID + "|" + fn + "|" + site
	if c.seq == nil {
		c.seq = map[string]int{}
	}
	n := c.seq[base]
	c.seq[base] = n + 1
	return fmt.Sprintf("%s|%d", base, n)
}

// Pass records a discharged obligation.
func (c *Ctx) Pass(fn, site, pos, msg string) {
	c.obs = append(c.obs, Oblig{Rule: c.rule.ID, Key: c.key(fn, site), Pos: pos, OK: true, Msg: msg, Nontrivial: true, Config: c.Config.String()})
}

// PassTrivial records a discharged obligation that needed no path/flow argument.
func (c *Ctx) PassTrivial(fn, site, pos, msg string) {
	c.obs = append(c.obs, Oblig{Rule: c.rule.ID, Key: c.key(fn, site), Pos: pos, OK: true, Msg: msg, Config: c.Config.String()})
}

// Fail records a violated obligation.
func (c *Ctx) Fail(fn, site, pos, msg string, path ...string) {
	c.obs = append(c.obs, Oblig{Rule: c.rule.ID, Key: c.key(fn, site), Pos: pos, OK: false, Msg: msg, Nontrivial: true, Path: path, Config: c.Config.String()})
}

// Check is Pass or Fail.
func (c *Ctx) Check(ok bool, fn, site, pos, okmsg, failmsg string) {
	if ok {
		c.Pass(fn, site, pos, okmsg)
	} else {
		c.Fail(fn, site, pos, failmsg)
	}
}

// Broken: the checker cannot decide (unresolved anchor etc.).
func (c *Ctx) Broken(format string, a ...any) {
	c.broken = append(c.broken, c.rule.ID+": "+fmt.Sprintf(format, a...))
}

// Exception records use of a frozen, named exception.
func (c *Ctx) Exception(symbol, reason string) {
	if c.exUsed == nil {
		c.exUsed = map[string]string{}
	}
	c.exUsed[c.rule.ID+" "+symbol] = reason
}

// ---------------------------------------------------------------------------
// Known findings

type KnownFinding struct {
	Property  string `json:"property"`
	Rule      string `json:"rule"`
	Key       string `json:"key"`
	WhatFails string `json:"what_fails"`
}

type KnownFile struct {
	Findings []KnownFinding `json:"findings"`
	Fixed    []string       `json:"fixed"`
}

func loadKnown(path string) (*KnownFile, error) {
	kf := &KnownFile{}
	b, err := os.ReadFile(path)
	if err != nil {
		if os.IsNotExist(err) {
			return kf, nil
		}
		return nil, err
	}
	if len(b) == 0 {
		return kf, nil
	}
	if err := json.Unmarshal(b, kf); err != nil {
		return nil, err
	}
	return kf, nil
}

func (k *KnownFile) match(prop string, o Oblig) *KnownFinding {
	for i := range k.Findings {
		f := &k.Findings[i]
		if f.Property == prop && f.Rule == o.Rule && f.Key == o.Key {
			return f
		}
	}
	return nil
}

// ---------------------------------------------------------------------------
// Evidence

type Evidence struct {
	PropertyID  string         `json:"property_id"`
	Tier        string         `json:"tier"`
	Seed        int            `json:"seed"`
	Level       string         `json:"level"`
	Coverage    map[string]any `json:"coverage"`
	Assumptions []string       `json:"assumptions"`
	WallS       float64        `json:"wall_s"`
	Violations  int            `json:"violations"`
}

func keyHash(k string) string {
	h := sha256.Sum256([]byte(k))
	return hex.EncodeToString(h[:6])
}

type violationReport struct {
	Property string   `json:"property"`
	Rule     string   `json:"rule"`
	RuleText string   `json:"rule_text"`
	Key      string   `json:"key"`
	Pos      string   `json:"pos"`
	Msg      string   `json:"msg"`
	Path     []string `json:"path,omitempty"`
	Config   string   `json:"config"`
	Explain  string   `json:"explain"`
}

func writeViolation(outDir, prop string, r *Rule, o Oblig) (string, error) {
	dir := filepath.Join(outDir, prop)
	if err := os.MkdirAll(dir, 0o755); err != nil {
		return "", err
	}
	p := filepath.Join(dir, "v-"+keyHash(o.Key)+".json")
	vr := violationReport{Property: prop, Rule: o.Rule, RuleText: r.Text, Key: o.Key, Pos: o.Pos, Msg: o.Msg, Path: o.Path, Config: o.Config,
		Explain: "static rule violated at the named construct; re-run `./run.sh " + prop + " quick` after editing to re-decide"}
	b, _ := json.MarshalIndent(vr, "", " ")
	return p, os.WriteFile(p, append(b, '\n'), 0o644)
}

func sortObligs(obs []Oblig) {
	sort.SliceStable(obs, func(i, j int) bool {
		if obs[i].Rule != obs[j].Rule {
			return ruleLess(obs[i].Rule, obs[j].Rule)
		}
		return obs[i].Key < obs[j].Key
	})
}

func ruleLess(a, b string) bool {
	// "R04.10" vs "R04.2": numeric compare of the parts
	pa, pb := strings.Split(strings.TrimPrefix(a, "R"), "."), strings.Split(strings.TrimPrefix(b, "R"), ".")
	for i := 0; i < len(pa) && i < len(pb); i++ {
		var x, y int
		fmt.Sscanf(pa[i], "%d", &x)
		fmt.Sscanf(pb[i], "%d", &y)
		if x != y {
			return x < y
		}
		if pa[i] != pb[i] {
			return pa[i] < pb[i]
		}
	}
	return len(pa) < len(pb)
}
