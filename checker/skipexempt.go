package main

import (
	"go/constant"
	"go/token"
	"go/types"
	"strings"

	"golang.org/x/tools/go/ssa"
)

// ---------------------------------------------------------------------------
// Guards that are not ways *around* a step.
//
// The skip rules report a kind of condition that newly decides whether a step
// is taken.  Two shapes of new condition do not let anything pass silently and
// are what ordinary hardening looks like; they are recognised structurally and
// left out of the comparison (on the reference tree and on the current tree
// alike):
//
//   * a *rejecting test*: the other side of the condition does nothing but
//     build a fresh error (status.Error(f), fmt.Errorf, errors.New – not
//     NOT_FOUND, which callers read as "absent" and act upon) and return it,
//     releasing what it holds on the way.  The inputs that no longer reach the
//     step are refused loudly, not served differently;
//   * an *empty-input exit*: the condition is an emptiness test of a collection
//     that is a parameter (Set.Empty(), Length() == 0, len(p) == 0), nothing
//     with an effect happens before it, and the other side returns constants /
//     zero values / package-level values with a nil error and does nothing else
//     – "nothing asked, nothing to do".

// otherSide: the block entered when cond evaluates to !val at the conditional jump that tests it.
func otherSide(cond ssa.Value, val bool) (*ssa.If, *ssa.BasicBlock) {
	v, pol := cond, val
	for depth := 0; depth < 4; depth++ {
		refs := v.Referrers()
		if refs == nil {
			return nil, nil
		}
		var next ssa.Value
		for _, r := range *refs {
			switch t := r.(type) {
			case *ssa.If:
				if t.Cond == v {
					b := t.Block()
					if len(b.Succs) != 2 {
						return nil, nil
					}
					if pol {
						return t, b.Succs[1]
					}
					return t, b.Succs[0]
				}
			case *ssa.UnOp:
				if t.Op == token.NOT && t.X == v {
					next = t
				}
			}
		}
		if next == nil {
			return nil, nil
		}
		v, pol = next, !pol
	}
	return nil, nil
}

func isFreshErrorCall(v ssa.Value) bool {
	// the error result of a helper of the module every return of which hands back a fresh error
	// (`return invalidPath()` for `return BadDigest, status.Error(…)`)
	if ex, isEx := stripConv(v).(*ssa.Extract); isEx {
		if hc, isCall := ex.Tuple.(*ssa.Call); isCall {
			if sc := hc.Call.StaticCallee(); sc != nil && len(sc.Blocks) > 0 && sc.Pkg != nil && strings.HasPrefix(sc.Pkg.Pkg.Path(), modPath) {
				rs := returnsOf(sc)
				for _, r := range rs {
					if ex.Index >= len(r.Results) {
						return false
					}
					if inner, ok := stripConv(returnedValue(r, ex.Index)).(*ssa.Call); !ok || !isFreshErrorCall(inner) {
						return false
					}
				}
				return len(rs) > 0
			}
		}
		return false
	}
	cl, ok := stripConv(v).(*ssa.Call)
	if !ok {
		return false
	}
	sc := cl.Call.StaticCallee()
	if sc == nil || sc.Pkg == nil {
		return false
	}
	switch sc.Pkg.Pkg.Path() {
	case "google.golang.org/grpc/status":
		if sc.Name() != "Error" && sc.Name() != "Errorf" {
			return false
		}
		if len(cl.Call.Args) == 0 {
			return false
		}
		k, isK := stripConv(cl.Call.Args[0]).(*ssa.Const)
		if !isK || k.Value == nil || k.Value.Kind() != constant.Int {
			return false
		}
		code, _ := constant.Int64Val(k.Value)
		return code != 5 && code != 0 // codes.NotFound, codes.OK
	case "errors":
		return sc.Name() == "New"
	case "fmt":
		return sc.Name() == "Errorf"
	}
	return false
}

var releaseNames = map[string]bool{"Discard": true, "Close": true, "Unlock": true, "RUnlock": true, "Release": true, "Done": true}

// quietBlock: apart from building its results the block only releases things.
func quietBlock(b *ssa.BasicBlock) bool {
	for _, ins := range b.Instrs {
		switch x := ins.(type) {
		case *ssa.Call:
			if x.Call.IsInvoke() {
				if !releaseNames[x.Call.Method.Name()] {
					return false
				}
				continue
			}
			if _, isB := x.Call.Value.(*ssa.Builtin); isB {
				continue
			}
			sc := x.Call.StaticCallee()
			if sc == nil {
				return false
			}
			if isErrorConstructor(sc) || releaseNames[sc.Name()] || pureLooking(sc.Name()) || pureModuleFunc(sc, 0) || onlyBuildsErrors(sc) {
				continue
			}
			if sc.Pkg != nil && sc.Pkg.Pkg.Path() == modPath+"/pkg/blobstore/buffer" && sc.Name() == "NewBufferFromError" {
				continue
			}
			return false
		case *ssa.Store:
			// filling in the variadic arguments of Errorf, or a local
			root := x.Addr
			for {
				switch a := root.(type) {
				case *ssa.IndexAddr:
					root = a.X
					continue
				case *ssa.FieldAddr:
					root = a.X
					continue
				}
				break
			}
			if _, local := root.(*ssa.Alloc); !local {
				return false
			}
		case *ssa.MapUpdate, *ssa.Send, *ssa.Go, *ssa.Defer, *ssa.Panic:
			return false
		}
	}
	return true
}

// loudRejectBlock: b does nothing but return a freshly built error (directly, or wrapped in an error buffer).
func loudRejectBlock(b *ssa.BasicBlock) bool {
	if b == nil || len(b.Instrs) == 0 {
		return false
	}
	ret, ok := b.Instrs[len(b.Instrs)-1].(*ssa.Return)
	if !ok || !quietBlock(b) {
		return false
	}
	for i := range ret.Results {
		r := returnedValue(ret, i)
		if isErrorType(r.Type()) && isFreshErrorCall(r) {
			return true
		}
		if cl, ok := stripConv(r).(*ssa.Call); ok {
			if sc := cl.Call.StaticCallee(); sc != nil && sc.Pkg != nil && sc.Pkg.Pkg.Path() == modPath+"/pkg/blobstore/buffer" && sc.Name() == "NewBufferFromError" && len(cl.Call.Args) == 1 && isFreshErrorCall(cl.Call.Args[0]) {
				return true
			}
		}
	}
	return false
}

// emptinessOfParam: cond (either polarity) tests whether a collection that is a parameter of the
// function (not its receiver) is empty; emptyWhen is the value of cond for which it is.
func emptinessOfParam(cond ssa.Value) (emptyWhen bool, ok bool) {
	pol := true
	for {
		if u, isU := cond.(*ssa.UnOp); isU && u.Op == token.NOT {
			cond, pol = u.X, !pol
			continue
		}
		break
	}
	isCollParam := func(v ssa.Value) bool {
		p, isP := stripConv(v).(*ssa.Parameter)
		if !isP {
			return false
		}
		fn := p.Parent()
		if fn.Signature.Recv() != nil && len(fn.Params) > 0 && fn.Params[0] == p {
			return false
		}
		switch t := p.Type().Underlying().(type) {
		case *types.Slice, *types.Map:
			return true
		case *types.Struct:
			_ = t
			return strings.HasSuffix(typeKey(p.Type()), "digest.Set")
		}
		return false
	}
	sizeOfParam := func(v ssa.Value) bool {
		cl, isC := stripConv(v).(*ssa.Call)
		if !isC {
			return false
		}
		if bi, isB := cl.Call.Value.(*ssa.Builtin); isB && bi.Name() == "len" {
			return isCollParam(cl.Call.Args[0])
		}
		if sc := cl.Call.StaticCallee(); sc != nil && (sc.Name() == "Length" || sc.Name() == "Len") && len(cl.Call.Args) == 1 {
			return isCollParam(cl.Call.Args[0])
		}
		return false
	}
	switch x := cond.(type) {
	case *ssa.Call:
		if sc := x.Call.StaticCallee(); sc != nil && sc.Name() == "Empty" && len(x.Call.Args) == 1 && isCollParam(x.Call.Args[0]) {
			return pol, true
		}
	case *ssa.BinOp:
		zero := func(v ssa.Value) bool {
			k, isK := stripConv(v).(*ssa.Const)
			if !isK || k.Value == nil || k.Value.Kind() != constant.Int {
				return false
			}
			n, _ := constant.Int64Val(k.Value)
			return n == 0
		}
		switch {
		case x.Op == token.EQL && ((sizeOfParam(x.X) && zero(x.Y)) || (sizeOfParam(x.Y) && zero(x.X))):
			return pol, true
		case x.Op == token.NEQ && ((sizeOfParam(x.X) && zero(x.Y)) || (sizeOfParam(x.Y) && zero(x.X))):
			return !pol, true
		case x.Op == token.GTR && sizeOfParam(x.X) && zero(x.Y), x.Op == token.LSS && zero(x.X) && sizeOfParam(x.Y):
			return !pol, true
		}
	}
	return false, false
}

// emptyInputExit: the conditional jump iff leaves through `out` for an empty collection parameter,
// before anything with an effect happened, returning only constants / zero values / globals and a nil error.
func emptyInputExit(iff *ssa.If, cond ssa.Value, val bool, out *ssa.BasicBlock) bool {
	emptyWhen, ok := emptinessOfParam(cond)
	if !ok || emptyWhen == val || out == nil || len(out.Instrs) == 0 {
		return false // the site is on the empty side, or this is no emptiness test
	}
	ret, isRet := out.Instrs[len(out.Instrs)-1].(*ssa.Return)
	if !isRet || !quietBlock(out) {
		return false
	}
	for i := range ret.Results {
		r := returnedValue(ret, i)
		switch x := stripConv(r).(type) {
		case *ssa.Const:
		case *ssa.UnOp:
			if _, isG := x.X.(*ssa.Global); !isG || x.Op != token.MUL {
				return false
			}
		case *ssa.Alloc, *ssa.MakeSlice, *ssa.MakeMap:
		default:
			return false
		}
		if isErrorType(r.Type()) {
			if k, isK := r.(*ssa.Const); !isK || k.Value != nil {
				return false
			}
		}
	}
	// nothing with an effect on the way to the test: the block of the test and its dominators are quiet
	for b := iff.Block(); b != nil; b = b.Idom() {
		if !quietBlock(b) {
			return false
		}
	}
	return true
}

// exemptGuard: the fact (cond == val) holds at a site only because the other side of the test is a
// rejecting test or an empty-input exit.
func exemptGuard(cond ssa.Value, val bool) bool {
	iff, out := otherSide(cond, val)
	if iff == nil {
		return false
	}
	// the other side must be entered only through this test
	if len(out.Preds) != 1 {
		return false
	}
	return loudRejectBlock(out) || emptyInputExit(iff, cond, val, out)
}

// exemptExit: a return that is itself a loud rejection or the quiet side of an empty-input exit.
func exemptExit(ret *ssa.Return) bool {
	b := ret.Block()
	if loudRejectBlock(b) {
		return true
	}
	if len(b.Preds) != 1 {
		return false
	}
	p := b.Preds[0]
	iff, ok := p.Instrs[len(p.Instrs)-1].(*ssa.If)
	if !ok {
		return false
	}
	// b is reached when cond == (b is the true successor)
	return emptyInputExit(iff, iff.Cond, p.Succs[0] != b, b)
}

// onlyBuildsErrors: a helper of the module that does nothing but construct the values it returns (an error among them).
func onlyBuildsErrors(f *ssa.Function) bool {
	if f == nil || len(f.Blocks) == 0 {
		return false
	}
	ok := true
	allInstrs(f, func(ins ssa.Instruction) {
		switch x := ins.(type) {
		case *ssa.Call:
			if _, isB := x.Call.Value.(*ssa.Builtin); isB {
				return
			}
			sc := x.Call.StaticCallee()
			if sc == nil || !(isErrorConstructor(sc) || pureLooking(sc.Name())) {
				ok = false
			}
		case *ssa.MapUpdate, *ssa.Send, *ssa.Go, *ssa.Defer, *ssa.Panic:
			ok = false
		case *ssa.Store:
			root := x.Addr
			for {
				switch a := root.(type) {
				case *ssa.IndexAddr:
					root = a.X
					continue
				case *ssa.FieldAddr:
					root = a.X
					continue
				}
				break
			}
			if _, local := root.(*ssa.Alloc); !local {
				ok = false
			}
		}
	})
	return ok
}
