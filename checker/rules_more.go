package main

import (
	"fmt"
	"go/token"
	"go/types"

	"golang.org/x/tools/go/ssa"
)

// Rules added after the second round of seeded changes.

func init() {
	register(&Rule{
		ID: "R02.1", Props: []string{"C02", "C07", "C03"}, Engine: "order (path automaton, err-edge sensitive)",
		Text:  "atomic state file: in directoryBackedPersistentStateStore.WritePersistentState every path to the nil return performs, in this order and each only after the previous one succeeded: remove a left-over temporary file, OpenAppend of the temporary name with CreateExcl, Write, Sync and Close of that file, Rename of the temporary name over the state name, Sync of the directory; no step's error is ignored",
		Floor: 1, MustExist: true, Run: runR021,
	})
	register(&Rule{
		ID: "R06.4", Props: []string{"C06", "C02"}, Engine: "order (must-pass-through) + sibling agreement",
		Text:  "both LocationRecordArray implementations consult the resolver for every record they return or reject: every return of Get is preceded by a BlockReferenceResolver.BlockReferenceToBlockIndex call on the record's own block reference; ErrLocationRecordInvalid is returned only on the resolver's miss edge (block device: or the checksum mismatch edge, the checksum being computed with the hash seed that resolver call returned); Put converts through BlockIndexToBlockReference",
		Floor: 4, MustExist: true, Run: runR064,
	})
	register(&Rule{
		ID: "R06.5", Props: []string{"C06"}, Engine: "abstract evaluation over a finite order domain",
		Text:  "Location.IsOlder is the strict lexicographic order on (BlockIndex, OffsetBytes): evaluated abstractly for all nine combinations of {<,=,>} on the two fields, the function's control flow yields true exactly for (<,*) and (=,<)",
		Floor: 1, MustExist: true, Run: runR065,
	})
	register(&Rule{
		ID: "R06.6", Props: []string{"C06"}, Engine: "guard",
		Text:  "a lookup gives up only at the end of the probe chain: every NOT_FOUND return of hashingKeyLocationMap.Get is on the edge where the slot's record is unresolvable (ErrLocationRecordInvalid) or where the attempt limit was reached",
		Floor: 2, MustExist: true, Run: runR066,
	})
	register(&Rule{
		ID: "R05.6", Props: []string{"C05"}, Engine: "guard + order",
		Text:  "a copy is written only for an object that still needs one: in Get, GetFromComposite and FindMissing of both local stores every refresh allocation (LocationBlobMap.Put) is dominated by the true edge of the needs-refresh verdict of a LocationBlobMap.Get made in the same lock hold (no unlock in between), so an object refreshed by someone else in the meantime is not copied again",
		Floor: 5, MustExist: true, Run: runR056,
	})
	register(&Rule{
		ID: "R09.5", Props: []string{"C09"}, Engine: "flow",
		Text:  "no CAS buffer manufactures a clean end of stream: in package buffer newErrorChunkReader / newErrorReader / NewBufferFromError are never given io.EOF (a reader that immediately reports io.EOF is a successful, empty, unvalidated read)",
		Floor: 10, MustExist: false, Run: runR095,
	})
	register(&Rule{
		ID: "R10.4", Props: []string{"C10"}, Engine: "flow (wiring)",
		Text:  "a hierarchical local store announces instance-aware keys: in the configuration code that calls NewHierarchicalInstanceNamesLocalBlobAccess the digest key format given to the store and reported in BlobAccessInfo is digest.KeyWithInstance whenever HierarchicalInstanceNames is set (decorators such as existence caches key their state by it)",
		Floor: 1, MustExist: true, Run: runR104,
	})
}

func runR021(c *Ctx) {
	fn := c.Method(localRel, "directoryBackedPersistentStateStore", "WritePersistentState")
	if fn == nil {
		c.Broken("directoryBackedPersistentStateStore.WritePersistentState not found")
		return
	}
	name := FuncName(fn)
	isDir := func(v ssa.Value) bool {
		f, _ := loadedField(v)
		if f != nil && f.Name() == "directory" {
			return true
		}
		if fl, ok := v.(*ssa.Field); ok && fieldOf(fl).Name() == "directory" {
			return true
		}
		return false
	}
	var open *ssa.Call
	allInstrs(fn, func(ins ssa.Instruction) {
		if cl, ok := ins.(*ssa.Call); ok && cl.Call.IsInvoke() && cl.Call.Method.Name() == "OpenAppend" && isDir(cl.Call.Value) {
			open = cl
		}
	})
	if open == nil {
		c.Fail(name, "atomic-write", c.Pos(fn.Pos()), "the temporary state file is not created with OpenAppend")
		return
	}
	isFile := func(v ssa.Value) bool {
		ex, ok := v.(*ssa.Extract)
		return ok && ex.Tuple == ssa.Value(open) && ex.Index == 0
	}
	isGlobal := func(v ssa.Value, n string) bool {
		u, ok := v.(*ssa.UnOp)
		if !ok {
			return false
		}
		g, ok := u.X.(*ssa.Global)
		return ok && g.Name() == n
	}
	// step numbers
	const (
		sRemove = iota + 1
		sOpen
		sWrite
		sSync
		sClose
		sRename
		sDirSync
	)
	stepName := map[int]string{sRemove: "remove left-over temporary file", sOpen: "create temporary file", sWrite: "write", sSync: "sync file", sClose: "close file", sRename: "rename over the state file", sDirSync: "sync directory"}
	stepOf := func(cl *ssa.Call) int {
		if !cl.Call.IsInvoke() {
			return 0
		}
		m := cl.Call.Method.Name()
		switch {
		case m == "Remove" && isDir(cl.Call.Value) && isGlobal(cl.Call.Args[0], "componentStateNew"):
			return sRemove
		case cl == open:
			// exclusive creation of the temporary name
			okExcl := false
			if c2, ok := cl.Call.Args[1].(*ssa.Call); ok && c2.Call.StaticCallee() != nil && c2.Call.StaticCallee().Name() == "CreateExcl" {
				okExcl = true
			}
			if okExcl && isGlobal(cl.Call.Args[0], "componentStateNew") {
				return sOpen
			}
			return -1
		case m == "Write" && isFile(cl.Call.Value):
			return sWrite
		case m == "Sync" && isFile(cl.Call.Value):
			return sSync
		case m == "Close" && isFile(cl.Call.Value):
			return sClose
		case m == "Rename" && isDir(cl.Call.Value):
			if isGlobal(cl.Call.Args[0], "componentStateNew") && isGlobal(cl.Call.Args[2], "componentState") {
				return sRename
			}
			return -1
		case m == "Sync" && isDir(cl.Call.Value):
			return sDirSync
		}
		return 0
	}
	bad := ""
	var badPos token.Pos
	setBad := func(m string, p token.Pos) {
		if bad == "" {
			bad, badPos = m, p
		}
	}
	// the state file's own name is only ever the target of the rename: removing, truncating or
	// re-creating it first leaves a window without any state file
	allInstrs(fn, func(ins ssa.Instruction) {
		cl, ok := ins.(*ssa.Call)
		if !ok || !cl.Call.IsInvoke() || !isDir(cl.Call.Value) {
			return
		}
		for i, a := range cl.Call.Args {
			if isGlobal(a, "componentState") && !(cl.Call.Method.Name() == "Rename" && i == 2) {
				setBad("the state file's own name is handed to "+cl.Call.Method.Name()+"(): replacing the state file is atomic only if that name is never touched except as the target of the final rename (a crash or an I/O error after this call leaves no state file at all, and the store restarts empty)", cl.Pos())
			}
		}
	})
	// state: done steps d (0..7) encoded as d, pending step p encoded as 10+p, failed = 100
	var pendingCall *ssa.Call
	nSuccess := 0
	explorePaths(&pathSpec{Fn: fn, Init: 0,
		Step: func(st int, ev pathEvent) int {
			if ev.Ins != nil {
				cl, ok := ev.Ins.(*ssa.Call)
				if !ok {
					return st
				}
				s := stepOf(cl)
				if s == 0 {
					return st
				}
				if s < 0 {
					setBad("the temporary file is not created exclusively under the temporary name, or the rename does not move it over the state file", cl.Pos())
					return 100
				}
				if st == 100 {
					if s == sClose {
						return st // closing the file on an error path
					}
					return st
				}
				if st >= 10 {
					// previous step's verdict was not consulted
					if s == sClose && st-10 >= sWrite {
						return st
					}
					setBad(fmt.Sprintf("step %q starts although the result of %q was not checked", stepName[s], stepName[st-10]), cl.Pos())
					return 100
				}
				if s == sRemove {
					if st != 0 {
						setBad("unexpected second removal of the temporary file", cl.Pos())
					}
					pendingCall = cl
					return sRemove // its error is handled leniently (not-exist is fine)
				}
				if s != st+1 {
					setBad(fmt.Sprintf("step %q happens after %d completed step(s); expected order: remove, create, write, sync, close, rename, sync directory", stepName[s], st), cl.Pos())
					return 100
				}
				pendingCall = cl
				return 10 + s
			}
			if st >= 10 && pendingCall != nil {
				if isNil, ok := edgeSaysErr(ev, pendingCall); ok {
					if isNil {
						return st - 10
					}
					return 100
				}
			}
			return st
		},
		AtReturn: func(st int, r *ssa.Return, _ map[int]bool) {
			if isNilConst(r.Results[0]) {
				nSuccess++
				if st != sDirSync {
					setBad(fmt.Sprintf("success is reported after %d of the 7 steps (remove, create, write, sync, close, rename, sync directory) completed", st%10), r.Pos())
				}
			}
		}})
	if nSuccess == 0 {
		setBad("WritePersistentState never succeeds", fn.Pos())
	}
	if bad != "" {
		c.Fail(name, "atomic-write", c.Pos(badPos), bad)
	} else {
		c.Pass(name, "atomic-write", c.Pos(fn.Pos()), "remove · create(excl) · write · fsync · close · rename · fsync(dir), each checked, on every successful path")
	}
}

func runR064(c *Ctx) {
	for _, typ := range []string{"inMemoryLocationRecordArray", "blockDeviceBackedLocationRecordArray"} {
		get := c.Method(localRel, typ, "Get")
		put := c.Method(localRel, typ, "Put")
		if get == nil || put == nil {
			c.Broken("%s.Get/Put not found", typ)
			continue
		}
		var res *ssa.Call
		allInstrs(get, func(ins ssa.Instruction) {
			if cl, ok := ins.(*ssa.Call); ok && cl.Call.IsInvoke() && cl.Call.Method.Name() == "BlockReferenceToBlockIndex" {
				res = cl
			}
		})
		if res == nil {
			c.Fail(FuncName(get), "resolver", c.Pos(get.Pos()), "records are returned without resolving their block reference (entries of released blocks would stay visible)")
			continue
		}
		okAll := true
		var pos token.Pos
		for _, r := range returnsOf(get) {
			// device read errors may return before the resolver
			if !isNilConst(r.Results[1]) {
				if u, ok := r.Results[1].(*ssa.UnOp); !ok {
					continue
				} else if g, ok := u.X.(*ssa.Global); !ok || g.Name() != "ErrLocationRecordInvalid" {
					continue
				}
			}
			if entryReachesAvoiding(get, r, func(i ssa.Instruction) bool { return i == ssa.Instruction(res) }) {
				okAll, pos = false, r.Pos()
			}
		}
		c.Check(okAll, FuncName(get), "resolver", c.Pos(func() token.Pos {
			if okAll {
				return res.Pos()
			}
			return pos
		}()), "every verdict about a record follows a resolver lookup of its block reference", "a record is declared valid or invalid without asking the resolver about its block reference (the two index backends would disagree, and entries could vanish or survive silently)")
		// invalid only on miss / checksum mismatch
		for _, r := range returnsOf(get) {
			u, ok := r.Results[1].(*ssa.UnOp)
			if !ok {
				continue
			}
			if g, ok := u.X.(*ssa.Global); !ok || g.Name() != "ErrLocationRecordInvalid" {
				continue
			}
			// every way into the return has its reason (two reasons may share one return: `!found || mismatch`)
			reasonOn := func(enum func(f func(cond ssa.Value, val bool) bool)) bool {
				onMiss := false
				enum(func(cond ssa.Value, val bool) bool {
					c0, v := cond, val
					if n, ok := c0.(*ssa.UnOp); ok && n.Op == token.NOT {
						c0, v = n.X, !v
					}
					if ex, ok := c0.(*ssa.Extract); ok && ex.Tuple == ssa.Value(res) && !v {
						onMiss = true
						return false
					}
					if bo, ok := c0.(*ssa.BinOp); ok && (bo.Op == token.NEQ && v || bo.Op == token.EQL && !v) {
						// checksum mismatch: one side is computeChecksumForRecord(..., seed of res)
						for _, side := range []ssa.Value{bo.X, bo.Y} {
							if cl, ok := side.(*ssa.Call); ok && cl.Call.StaticCallee() != nil && cl.Call.StaticCallee().Name() == "computeChecksumForRecord" {
								if ex, ok := cl.Call.Args[1].(*ssa.Extract); ok && ex.Tuple == ssa.Value(res) {
									onMiss = true
									return false
								}
							}
						}
					}
					return true
				})
				return onMiss
			}
			onMiss := reasonOn(func(f func(cond ssa.Value, val bool) bool) { edgeFacts(r.Block(), f) })
			if !onMiss && len(r.Block().Preds) > 1 {
				onMiss = true
				for _, p := range r.Block().Preds {
					p := p
					if !reasonOn(func(f func(cond ssa.Value, val bool) bool) { edgeFactsOn(p, r.Block(), f) }) {
						onMiss = false
					}
				}
			}
			c.Check(onMiss, FuncName(get), "invalid-verdict", c.Pos(r.Pos()), "a record is invalid only when its block is gone or its epoch-bound checksum fails", "ErrLocationRecordInvalid is returned for a reason other than the resolver's miss or a checksum mismatch under the resolver's hash seed")
		}
		okPut := false
		allInstrs(put, func(ins ssa.Instruction) {
			if cl, ok := ins.(*ssa.Call); ok && cl.Call.IsInvoke() && cl.Call.Method.Name() == "BlockIndexToBlockReference" {
				okPut = true
			}
		})
		c.Check(okPut, FuncName(put), "converts-reference", c.Pos(put.Pos()), "locations are stored as stable block references", "Put stores the relative block index instead of converting it to a block reference")
	}
}

// runR065 evaluates IsOlder abstractly: every comparison between field F of
// the receiver and field F of the argument is decided by the chosen order
// relation for F.
func runR065(c *Ctx) {
	fn := c.Method(localRel, "Location", "IsOlder")
	if fn == nil || len(fn.Params) != 2 {
		c.Broken("Location.IsOlder not found")
		return
	}
	name := FuncName(fn)
	a, b := fn.Params[0], fn.Params[1]
	fieldSide := func(v ssa.Value) (field string, side int) {
		fl, ok := v.(*ssa.Field)
		if !ok {
			if f, base := loadedField(v); f != nil {
				if u, ok := base.(*ssa.Alloc); ok {
					for _, s := range cellStores(u) {
						if s == ssa.Value(a) {
							return f.Name(), 0
						}
						if s == ssa.Value(b) {
							return f.Name(), 1
						}
					}
				}
			}
			return "", -1
		}
		switch fl.X {
		case ssa.Value(a):
			return fieldOf(fl).Name(), 0
		case ssa.Value(b):
			return fieldOf(fl).Name(), 1
		}
		return "", -1
	}
	type rel int // -1: a<b, 0: equal, 1: a>b
	undecided := ""
	evalCmp := func(bo *ssa.BinOp, rels map[string]rel) (bool, bool) {
		fx, sx := fieldSide(bo.X)
		fy, sy := fieldSide(bo.Y)
		if fx == "" || fx != fy || sx == sy {
			return false, false
		}
		r, ok := rels[fx]
		if !ok {
			return false, false
		}
		if sx == 1 { // b.F op a.F
			r = -r
		}
		switch bo.Op {
		case token.LSS:
			return r < 0, true
		case token.LEQ:
			return r <= 0, true
		case token.GTR:
			return r > 0, true
		case token.GEQ:
			return r >= 0, true
		case token.EQL:
			return r == 0, true
		case token.NEQ:
			return r != 0, true
		}
		return false, false
	}
	var eval func(v ssa.Value, rels map[string]rel, from *ssa.BasicBlock) (bool, bool)
	cameFrom := map[*ssa.BasicBlock]*ssa.BasicBlock{}
	run := func(rels map[string]rel) (bool, bool) {
		// walk the CFG deterministically
		blk := fn.Blocks[0]
		var prev *ssa.BasicBlock
		for k := range cameFrom {
			delete(cameFrom, k)
		}
		for steps := 0; steps < 64; steps++ {
			cameFrom[blk] = prev
			last := blk.Instrs[len(blk.Instrs)-1]
			switch t := last.(type) {
			case *ssa.Return:
				return eval(t.Results[0], rels, prev)
			case *ssa.If:
				v, ok := eval(t.Cond, rels, prev)
				if !ok {
					return false, false
				}
				prev = blk
				if v {
					blk = blk.Succs[0]
				} else {
					blk = blk.Succs[1]
				}
			case *ssa.Jump:
				prev = blk
				blk = blk.Succs[0]
			default:
				return false, false
			}
		}
		return false, false
	}
	eval = func(v ssa.Value, rels map[string]rel, from *ssa.BasicBlock) (bool, bool) {
		switch x := v.(type) {
		case *ssa.Const:
			if isBoolConst(x, true) {
				return true, true
			}
			if isBoolConst(x, false) {
				return false, true
			}
		case *ssa.BinOp:
			return evalCmp(x, rels)
		case *ssa.UnOp:
			if x.Op == token.NOT {
				r, ok := eval(x.X, rels, from)
				return !r, ok
			}
		case *ssa.Phi:
			src := cameFrom[x.Block()]
			for i, p := range x.Block().Preds {
				if p == src {
					return eval(x.Edges[i], rels, from)
				}
			}
		}
		undecided = fmt.Sprintf("%T", v)
		return false, false
	}
	okAll := true
	wrong := ""
	for _, bi := range []rel{-1, 0, 1} {
		for _, off := range []rel{-1, 0, 1} {
			got, ok := run(map[string]rel{"BlockIndex": bi, "OffsetBytes": off})
			if !ok {
				c.Fail(name, "lexicographic", c.Pos(fn.Pos()), "IsOlder cannot be evaluated over the order abstraction (it uses something other than comparisons of BlockIndex and OffsetBytes of its two operands: "+undecided+")")
				return
			}
			want := bi < 0 || (bi == 0 && off < 0)
			if got != want {
				okAll = false
				wrong = fmt.Sprintf("for BlockIndex %s and OffsetBytes %s it answers %v", relStr(int(bi)), relStr(int(off)), got)
			}
		}
	}
	c.Check(okAll, name, "lexicographic", c.Pos(fn.Pos()), "strict lexicographic order on (BlockIndex, OffsetBytes) in all 9 abstract cases", "Location.IsOlder is not the strict lexicographic order on (block, offset): "+wrong+"; records in newer blocks could be treated as older and be displaced or overwritten")
}

func relStr(r int) string {
	switch {
	case r < 0:
		return "a<b"
	case r > 0:
		return "a>b"
	}
	return "a=b"
}

func runR066(c *Ctx) {
	fn := c.Method(localRel, "hashingKeyLocationMap", "Get")
	if fn == nil {
		c.Broken("hashingKeyLocationMap.Get not found")
		return
	}
	name := FuncName(fn)
	n := 0
	for _, r := range returnsOf(fn) {
		u, ok := r.Results[1].(*ssa.UnOp)
		if !ok {
			continue
		}
		g, ok := u.X.(*ssa.Global)
		if !ok || g.Name() != "errKeyLocationMapNotFound" {
			continue
		}
		n++
		invalid := dominatedByCmp(r.Block(), func(op token.Token, x, y ssa.Value) bool {
			if op != token.EQL {
				return false
			}
			for _, s := range []ssa.Value{x, y} {
				if u2, ok := s.(*ssa.UnOp); ok {
					if g2, ok := u2.X.(*ssa.Global); ok && g2.Name() == "ErrLocationRecordInvalid" {
						return true
					}
				}
			}
			return false
		})
		limit := dominatedByCmp(r.Block(), func(op token.Token, x, y ssa.Value) bool {
			fx, _ := loadedField(x)
			fy, _ := loadedField(y)
			return fx != nil && fy != nil && fx.Name() == "Attempt" && fy.Name() == "maximumGetAttempts" && (op == token.GEQ || op == token.GTR || op == token.EQL)
		})
		c.Check(invalid || limit, name, "not-found", c.Pos(r.Pos()), "NOT_FOUND only at an unresolvable slot or at the attempt limit", "Get reports NOT_FOUND before the probe chain ended (neither an unresolvable slot nor the attempt limit): a key stored further along its chain would be lost without any discard being reported")
	}
	if n == 0 {
		c.Fail(name, "not-found", c.Pos(fn.Pos()), "Get never reports NOT_FOUND")
	}
}

func runR056(c *Ctx) {
	lbmGet := c.IfaceMethod(localRel, "LocationBlobMap", "Get")
	lbmPut := c.IfaceMethod(localRel, "LocationBlobMap", "Put")
	if lbmGet == nil || lbmPut == nil {
		c.Broken("LocationBlobMap.Get/Put not found")
		return
	}
	for _, typ := range []string{"flatBlobAccess", "hierarchicalCASBlobAccess"} {
		for _, m := range []string{"Get", "GetFromComposite", "FindMissing"} {
			fn := c.Method(localRel, typ, m)
			if fn == nil {
				continue
			}
			name := FuncName(fn)
			var gets []*ssa.Call
			allInstrs(fn, func(ins ssa.Instruction) {
				if cl, ok := ins.(*ssa.Call); ok && isCallTo(cl.Common(), lbmGet) {
					gets = append(gets, cl)
				}
			})
			isUnlock := func(i ssa.Instruction) bool {
				cc := callOf(i)
				if cc == nil || cc.StaticCallee() == nil {
					return false
				}
				n := cc.StaticCallee().Name()
				if n != "Unlock" && n != "RUnlock" {
					return false
				}
				f, _ := loadedField(cc.Args[0])
				return f != nil && f.Name() == "lock"
			}
			allInstrs(fn, func(ins ssa.Instruction) {
				put, ok := ins.(*ssa.Call)
				if !ok || !isCallTo(put.Common(), lbmPut) {
					return
				}
				good := false
				why := "a refresh copy is allocated without a needs-refresh verdict for this object"
				for _, g := range gets {
					// needsRefresh of g true on a dominating edge
					onTrue := false
					edgeFacts(put.Block(), func(cond ssa.Value, val bool) bool {
						c0, v := cond, val
						if u, ok := c0.(*ssa.UnOp); ok && u.Op == token.NOT {
							c0, v = u.X, !v
						}
						if ex, ok := c0.(*ssa.Extract); ok && ex.Tuple == ssa.Value(g) && ex.Index == 1 && v {
							onTrue = true
							return false
						}
						return true
					})
					if !onTrue {
						continue
					}
					// same hold: no path g -> unlock -> put that does not pass through g again
					stale := false
					allInstrs(fn, func(u ssa.Instruction) {
						if !isUnlock(u) {
							return
						}
						avoidG := func(i ssa.Instruction) bool { return i == ssa.Instruction(g) }
						if reachableAvoiding(g, u, avoidG) && reachableAvoiding(u, put, avoidG) {
							stale = true
						}
					})
					if stale {
						why = "the needs-refresh verdict was obtained in an earlier lock hold: by now another caller may have refreshed the object, and it would be copied a second time"
						continue
					}
					good = true
				}
				c.Check(good, name, "refresh-needed", c.Pos(put.Pos()), "allocation only under a needs-refresh verdict obtained in the same hold", why)
			})
		}
	}
}

func runR095(c *Ctx) {
	for _, f := range c.pkgFuncs(bufferRel) {
		withAnon(f, func(g *ssa.Function) {
			allInstrs(g, func(ins ssa.Instruction) {
				cl, ok := ins.(*ssa.Call)
				if !ok || cl.Call.StaticCallee() == nil {
					return
				}
				switch cl.Call.StaticCallee().Name() {
				case "newErrorChunkReader", "newErrorReader", "NewBufferFromError":
				default:
					return
				}
				c.Check(!isIOEOF(cl.Call.Args[0]), FuncName(g), "error-reader", c.Pos(cl.Pos()), "carries a real error", "an error reader is built around io.EOF: consumers see a clean, empty and unvalidated end of stream instead of the object's content")
			})
		})
	}
}

func runR104(c *Ctx) {
	confRel := "pkg/blobstore/configuration"
	var host *ssa.Function
	var call *ssa.Call
	for _, f := range c.pkgFuncs(confRel) {
		withAnon(f, func(g *ssa.Function) {
			allInstrs(g, func(ins ssa.Instruction) {
				if cl, ok := ins.(*ssa.Call); ok && cl.Call.IsInvoke() && cl.Call.Method.Name() == "NewHierarchicalInstanceNamesLocalBlobAccess" {
					host, call = g, cl
				}
			})
		})
	}
	if host == nil {
		c.Broken("no call of NewHierarchicalInstanceNamesLocalBlobAccess found in %s", confRel)
		return
	}
	name := FuncName(host)
	withInst := int64(-1)
	if o := c.Pkg(digestRel).Types.Scope().Lookup("KeyWithInstance"); o != nil {
		withInst, _ = constantInt64(o.(*types.Const))
	}
	// the BlobAccessInfo.DigestKeyFormat stored in the block(s) reachable from the hierarchical branch
	ok := false
	var pos token.Pos = call.Pos()
	isHier := func(cond ssa.Value) (match bool, hierWhenTrue bool) {
		c0, pol := cond, true
		if u, isU := c0.(*ssa.UnOp); isU && u.Op == token.NOT {
			c0, pol = u.X, !pol
		}
		f, _ := loadedField(c0)
		if f != nil && f.Name() == "HierarchicalInstanceNames" {
			return true, pol
		}
		return false, false
	}
	// evaluate a key-format value under the assumption "hierarchical"
	var valueWhenHier func(v ssa.Value, depth int) (int64, bool)
	valueWhenHier = func(v ssa.Value, depth int) (int64, bool) {
		if depth > 4 {
			return 0, false
		}
		if k, isK := constInt(stripConv(v)); isK {
			return k, true
		}
		if phi, isPhi := v.(*ssa.Phi); isPhi {
			var res int64
			have := false
			for i, e := range phi.Edges {
				pred := phi.Block().Preds[i]
				// is this edge feasible when hierarchical?
				feasible := true
				for _, blk := range []*ssa.BasicBlock{pred} {
					edgeFacts(blk, func(cond ssa.Value, val bool) bool {
						if m, hwt := isHier(cond); m && hwt != val {
							feasible = false
						}
						return true
					})
					// the phi block's own predecessor may be the If block itself
					if len(blk.Instrs) > 0 {
						if iff, isIf := blk.Instrs[len(blk.Instrs)-1].(*ssa.If); isIf {
							if m, hwt := isHier(iff.Cond); m {
								takenTrue := blk.Succs[0] == phi.Block()
								if hwt != takenTrue {
									feasible = false
								}
							}
						}
					}
				}
				if !feasible {
					continue
				}
				k, okK := valueWhenHier(e, depth+1)
				if !okK {
					return 0, false
				}
				if have && k != res {
					return 0, false
				}
				res, have = k, true
			}
			return res, have
		}
		return 0, false
	}
	allInstrs(host, func(ins ssa.Instruction) {
		st, isSt := ins.(*ssa.Store)
		if !isSt {
			return
		}
		f := fieldOf(st.Addr)
		if f == nil || f.Name() != "DigestKeyFormat" {
			return
		}
		// only the BlobAccessInfo built after the hierarchical store was created
		if !(call.Block() == st.Block() || blockReaches(call.Block(), st.Block(), nil)) {
			return
		}
		if k, okK := valueWhenHier(st.Val, 0); okK && k == withInst {
			ok = true
		} else {
			pos = st.Pos()
		}
	})
	c.Check(ok, name, "hierarchical-key-format", c.Pos(pos), "instance-aware key format announced for hierarchical stores", "the key format reported for a hierarchical local store is not digest.KeyWithInstance when HierarchicalInstanceNames is set: existence caches and other decorators above it would treat the same hash under different instance names as one object")
}
