package main

import (
	"go/ast"
	"go/token"
	"go/types"

	"golang.org/x/tools/go/ssa"
)

func init() {
	register(&Rule{
		ID: "R17.1", Props: []string{"C17"}, Engine: "table (method promotion) + flow",
		Text:  "writes go to the slow / primary backend only and reads start at fast / primary: readCachingBlobAccess declares neither Put nor FindMissing and readFallbackBlobAccess declares no Put, so these are promoted from the embedded BlobAccess, which the constructor initialises from its first parameter; Get/GetFromComposite hand the fast (resp. embedded primary) backend to the replicating read helper; the selector closures are single-shot (the captured replicator is cleared before it is handed out, only on NOT_FOUND) and pass other errors on",
		Floor: 6, MustExist: true, Run: runR171,
	})
	register(&Rule{
		ID: "R17.3", Props: []string{"C17"}, Engine: "flow + guard",
		Text:  "fallback FindMissing reports exactly what both miss, after repairing: the secondary is asked about exactly the primary's missing set; the set returned is the secondary's answer; the success return is dominated by the nil result of ReplicateMultiple applied to the one-sided difference (primary-missing minus both-missing); a replicator's NOT_FOUND is relabelled INTERNAL",
		Floor: 3, MustExist: true, Run: runR173,
	})
	register(&Rule{
		ID: "R17.4", Props: []string{"C17", "C11"}, Engine: "order (path automaton)",
		Text:  "limits are paired on every path: concurrencyLimitingBlobReplicator.ReplicateMultiple calls the base only after a successful AcquireSemaphore and releases exactly once on every path after it; queuedBlobReplicator.ReplicateMultiple puts the queue token back exactly once on every path after taking it, calls the base only while holding it, and adds to the existence cache only on the nil edge of the base's result",
		Floor: 2, MustExist: true, Run: runR174,
	})
	register(&Rule{
		ID: "R17.5", Props: []string{"C17", "C11"}, Engine: "lockstate + order (path automaton)",
		Text:  "deduplication protocol: the in-flight map is accessed only under the replicator's mutex, which is released on every exit and not held while waiting; a caller that registered an entry removes it and stores success (= the copy's error is nil) – both before it closes the finished channel – exactly once, on every path (also when the copy failed); a waiter reads success only after receiving from finished and skips the digest only when success is true – otherwise it retries",
		Floor: 6, MustExist: true, Run: runR175,
	})
	register(&Rule{
		ID: "R17.6", Props: []string{"C17"}, Engine: "flow + lockstate",
		Text:  "the existence cache is fed only by fresh positive answers: existenceCachingBlobAccess.FindMissing asks the backend about exactly the digests the cache does not vouch for, adds to the cache the difference (asked minus reported missing) of that very question, only on the nil edge of the backend's error, and returns the backend's answer; the cache's map and eviction set are accessed under its mutex",
		Floor: 3, MustExist: true, Run: runR176,
	})
}

func declaresMethod(n *types.Named, name string) bool {
	for i := 0; i < n.NumMethods(); i++ {
		if n.Method(i).Name() == name {
			return true
		}
	}
	return false
}

func runR171(c *Ctx) {
	type comp struct {
		rel, typ, ctor string
		mustNotDeclare []string
		firstBackend   string // field handed to the read helper ("" = embedded)
	}
	for _, k := range []comp{
		{"pkg/blobstore/readcaching", "readCachingBlobAccess", "NewReadCachingBlobAccess", []string{"Put", "FindMissing"}, "fast"},
		{"pkg/blobstore/readfallback", "readFallbackBlobAccess", "NewReadFallbackBlobAccess", []string{"Put"}, "BlobAccess"},
	} {
		n := c.LookupType(k.rel, k.typ)
		ctor := c.Func(k.rel, k.ctor)
		if n == nil || ctor == nil {
			c.Broken("%s / %s not found", k.typ, k.ctor)
			continue
		}
		for _, m := range k.mustNotDeclare {
			c.Check(!declaresMethod(n, m), k.typ, "promoted "+m, c.Pos(n.Obj().Pos()), m+" is promoted from the embedded backend", k.typ+" declares its own "+m+": uploads / existence checks may no longer go to the slow (primary) backend only")
		}
		// the embedded field is initialised from the first parameter
		okEmb := false
		allInstrs(ctor, func(ins ssa.Instruction) {
			if st, ok := ins.(*ssa.Store); ok {
				if f := fieldOf(st.Addr); f != nil && f.Name() == "BlobAccess" && f.Embedded() && st.Val == ssa.Value(ctor.Params[0]) {
					okEmb = true
				}
			}
		})
		c.Check(okEmb, FuncName(ctor), "embedded-backend", c.Pos(ctor.Pos()), "the embedded backend is the constructor's first parameter (slow / primary)", "the embedded backend (which receives uploads) is not the constructor's first parameter")
		// reads start at the right backend
		var selLits []*ssa.Function
		var sharedSel token.Pos
		for _, m := range []string{"Get", "GetFromComposite"} {
			fn := c.Method(k.rel, k.typ, m)
			if fn == nil {
				c.Broken("%s.%s not found", k.typ, m)
				continue
			}
			ok := false
			allInstrs(fn, func(ins ssa.Instruction) {
				cl, isC := ins.(*ssa.Call)
				if !isC || cl.Call.StaticCallee() == nil {
					return
				}
				n := cl.Call.StaticCallee().Name()
				if n != "GetWithBlobReplicator" && n != "GetFromCompositeWithBlobReplicator" {
					return
				}
				// the initial backend argument: second to last
				arg := cl.Call.Args[len(cl.Call.Args)-2]
				ok = loadOfRecvField(fn, arg, k.firstBackend)
				// the selector argument: made for this read (a function literal created here, or the
				// result of a call made here) – its "already handed out" state must not outlive the read
				switch sv := stripConv(cl.Call.Args[len(cl.Call.Args)-1]).(type) {
				case *ssa.MakeClosure:
					if f, isF := sv.Fn.(*ssa.Function); isF {
						selLits = append(selLits, f)
					}
				case *ssa.Call:
					if h := sv.Call.StaticCallee(); h != nil && h.Pkg == fn.Pkg && len(h.AnonFuncs) > 0 {
						selLits = append(selLits, h.AnonFuncs[0])
					} else {
						sharedSel = cl.Pos()
					}
				default:
					sharedSel = cl.Pos()
				}
			})
			c.Check(ok, FuncName(fn), "first-backend", c.Pos(fn.Pos()), "reads consult "+k.firstBackend+" first", "reads do not start at the "+k.firstBackend+" backend")
		}
		// selector
		if sharedSel.IsValid() {
			c.Fail(k.typ, "selector-per-read", c.Pos(sharedSel), "the fail-over selector handed to the read is not created for that read (it is taken from a field or another long-lived value): it hands the replicator out once and then remembers that it did, so after the first read that had to fall back every later read of an object the first backend lacks is answered NOT_FOUND although the other backend holds it")
			continue
		}
		if len(selLits) == 0 {
			c.Broken("%s: the selector passed to GetWithBlobReplicator was not found", k.typ)
			continue
		}
		c.Pass(k.typ, "selector-per-read", "-", "a fresh selector per read")
		cl := selLits[0]
		n1 := 0
		for _, r := range returnsOf(cl) {
			if isNilConst(r.Results[0]) {
				continue
			}
			n1++
			cleared := false
			allInstrs(cl, func(ins ssa.Instruction) {
				st, ok := ins.(*ssa.Store)
				if ok && isNilConst(st.Val) {
					if _, isFV := st.Addr.(*ssa.FreeVar); isFV && instrDominates(st, r) {
						cleared = true
					}
				}
			})
			// only on NOT_FOUND
			onNF := false
			edgeFacts(r.Block(), func(cond ssa.Value, val bool) bool {
				if bo, ok := cond.(*ssa.BinOp); ok && (bo.Op == token.EQL || bo.Op == token.NEQ) {
					for _, side := range []ssa.Value{bo.X, bo.Y} {
						if sc, ok := side.(*ssa.Call); ok && isPkgFuncCall(sc.Common(), "google.golang.org/grpc/status", "Code") {
							other := bo.Y
							if side == bo.Y {
								other = bo.X
							}
							if k, ok := constInt(stripConv(other)); ok && k == 5 {
								onNF = (bo.Op == token.EQL) == val
							}
						}
					}
				}
				return true
			})
			// `a || b` lowering: the NOT_FOUND test may not dominate through a single edge; accept reachability analysis instead
			if !onNF {
				onNF = !returnsReplicatorOnOtherError(cl, r)
			}
			c.Check(cleared && onNF, FuncName(cl), "single-shot", c.Pos(r.Pos()), "the other backend is consulted once, and only on NOT_FOUND", "the selector can hand out the replicator more than once or on an error other than NOT_FOUND")
		}
		if n1 == 0 {
			c.Fail(FuncName(cl), "single-shot", c.Pos(cl.Pos()), "the other backend is never consulted")
		}
	}
}

// returnsReplicatorOnOtherError: can return r (which hands out a replicator)
// be reached along the edge on which the observed error's code is not NOT_FOUND?
func returnsReplicatorOnOtherError(fn *ssa.Function, r *ssa.Return) bool {
	reached := false
	explorePaths(&pathSpec{Fn: fn, Init: 0,
		Step: func(st int, ev pathEvent) int {
			if ev.Cond == nil {
				return st
			}
			if bo, ok := ev.Cond.(*ssa.BinOp); ok && (bo.Op == token.EQL || bo.Op == token.NEQ) {
				for _, side := range []ssa.Value{bo.X, bo.Y} {
					if sc, ok := side.(*ssa.Call); ok && isPkgFuncCall(sc.Common(), "google.golang.org/grpc/status", "Code") {
						other := bo.Y
						if side == bo.Y {
							other = bo.X
						}
						if k, ok := constInt(stripConv(other)); ok && k == 5 {
							if (bo.Op == token.EQL) == ev.Val {
								return 1 // is NOT_FOUND
							}
							return 2 // other error
						}
					}
				}
			}
			return st
		},
		AtReturn: func(st int, rr *ssa.Return, _ map[int]bool) {
			if rr == r && st != 1 {
				reached = true
			}
		}})
	return reached
}

func runR173(c *Ctx) {
	fn := c.Method("pkg/blobstore/readfallback", "readFallbackBlobAccess", "FindMissing")
	if fn == nil {
		c.Broken("readFallbackBlobAccess.FindMissing not found")
		return
	}
	name := FuncName(fn)
	var prim, sec, repl, gdi *ssa.Call
	allInstrs(fn, func(ins ssa.Instruction) {
		cl, ok := ins.(*ssa.Call)
		if !ok {
			return
		}
		if cl.Call.IsInvoke() && cl.Call.Method.Name() == "FindMissing" {
			if loadOfRecvField(fn, cl.Call.Value, "BlobAccess") {
				prim = cl
			} else if loadOfRecvField(fn, cl.Call.Value, "secondary") {
				sec = cl
			}
		}
		if cl.Call.IsInvoke() && cl.Call.Method.Name() == "ReplicateMultiple" {
			repl = cl
		}
		if isPkgFuncCall(cl.Common(), modPath+"/"+digestRel, "GetDifferenceAndIntersection") {
			gdi = cl
		}
	})
	if prim == nil || sec == nil || repl == nil || gdi == nil {
		c.Fail(name, "shape", c.Pos(fn.Pos()), "primary lookup, secondary lookup, difference and replication were not all found")
		return
	}
	isExtract := func(v ssa.Value, call *ssa.Call, idx int) bool {
		ex, ok := v.(*ssa.Extract)
		return ok && ex.Tuple == ssa.Value(call) && ex.Index == idx
	}
	c.Check(isExtract(sec.Call.Args[1], prim, 0) && dominatedByErrNil(sec.Block(), prim), name, "secondary-question", c.Pos(sec.Pos()), "the secondary is asked about exactly what the primary misses", "the secondary is not asked about exactly the primary's missing set")
	okDiff := isExtract(gdi.Call.Args[0], prim, 0) && isExtract(gdi.Call.Args[1], sec, 0) && isExtract(repl.Call.Args[1], gdi, 0)
	c.Check(okDiff, name, "repair-set", c.Pos(repl.Pos()), "objects held by the secondary only are replicated to the primary", "the set replicated is not (missing in primary) minus (missing in both)")
	for _, r := range returnsOf(fn) {
		if !isNilConst(r.Results[1]) {
			continue
		}
		ok := dominatedByErrNil(r.Block(), repl) && dominatedByErrNil(r.Block(), sec) && isExtract(r.Results[0], sec, 0)
		c.Check(ok, name, "success-return", c.Pos(r.Pos()), "answers with the objects missing from both, after the repair succeeded", "FindMissing can answer without the repair having succeeded, or with a set other than the secondary's answer")
	}
	relabel := false
	allInstrs(fn, func(ins ssa.Instruction) {
		if w, ok := ins.(*ssa.Call); ok && isPkgFuncCall(w.Common(), modPath+"/pkg/util", "StatusWrapWithCode") {
			if k, ok := constInt(stripConv(w.Call.Args[1])); ok && k == 13 {
				relabel = true
			}
		}
	})
	c.Check(relabel, name, "relabel", c.Pos(repl.Pos()), "a replicator's NOT_FOUND is reported as INTERNAL", "a replicator's NOT_FOUND is passed on as NOT_FOUND")
}

func runR174(c *Ctx) {
	// concurrency limiting
	if fn := c.Method(replicationRel, "concurrencyLimitingBlobReplicator", "ReplicateMultiple"); fn == nil {
		c.Broken("concurrencyLimitingBlobReplicator.ReplicateMultiple not found")
	} else {
		var acq *ssa.Call
		allInstrs(fn, func(ins ssa.Instruction) {
			if cl, ok := ins.(*ssa.Call); ok && isPkgFuncCall(cl.Common(), modPath+"/pkg/util", "AcquireSemaphore") {
				acq = cl
			}
		})
		bad := ""
		var badPos token.Pos
		// states: 0 not acquired, 1 acquire called, 2 held, 3 released
		explorePaths(&pathSpec{Fn: fn, Init: 0,
			Step: func(st int, ev pathEvent) int {
				if ev.Ins != nil {
					cc := callOf(ev.Ins)
					if cc == nil {
						return st
					}
					if acq != nil && ev.Ins == ssa.Instruction(acq) {
						return 1
					}
					if cc.IsInvoke() && cc.Method.Name() == "ReplicateMultiple" {
						if st != 2 && st != 4 {
							bad, badPos = "the base replicator is called without holding the semaphore", ev.Ins.Pos()
						}
						return st
					}
					if _, isDefer := ev.Ins.(*ssa.Defer); isDefer && cc.StaticCallee() != nil && cc.StaticCallee().Name() == "Release" {
						// `defer semaphore.Release(1)` right after a successful acquire: held until the function returns
						if st != 2 {
							bad, badPos = "the semaphore is released without being held (or twice)", ev.Ins.Pos()
						}
						return 4
					}
					if cc.StaticCallee() != nil && cc.StaticCallee().Name() == "Release" {
						if st != 2 {
							bad, badPos = "the semaphore is released without being held (or twice)", ev.Ins.Pos()
						}
						return 3
					}
					return st
				}
				if st == 1 && acq != nil {
					if isNil, ok := edgeSaysErr(ev, acq); ok {
						if isNil {
							return 2
						}
						return 0
					}
				}
				return st
			},
			AtReturn: func(st int, r *ssa.Return, _ map[int]bool) {
				if st == 2 || st == 1 {
					bad, badPos = "a path returns while still holding the semaphore: the concurrency limit would shrink permanently", r.Pos()
				}
			}})
		if acq == nil {
			bad, badPos = "the semaphore is never acquired", fn.Pos()
		}
		c.Check(bad == "", FuncName(fn), "semaphore-pairing", c.Pos(func() token.Pos {
			if bad == "" {
				return fn.Pos()
			}
			return badPos
		}()), "acquire(ok) · base · release exactly once on every path", bad)
	}
	// every other method of the limiter reaches the base only through the limited path
	if T := c.LookupType(replicationRel, "concurrencyLimitingBlobReplicator"); T != nil {
		for _, f := range c.pkgFuncs(replicationRel) {
			if f.Signature.Recv() == nil || f.Name() == "ReplicateMultiple" {
				continue
			}
			rt := f.Signature.Recv().Type()
			if p, ok := rt.(*types.Pointer); ok {
				rt = p.Elem()
			}
			if !types.Identical(rt, T) {
				continue
			}
			withAnon(f, func(g *ssa.Function) {
				bypass := token.NoPos
				allInstrs(g, func(ins ssa.Instruction) {
					cc := callOf(ins)
					if cc == nil || !cc.IsInvoke() {
						return
					}
					if recvFieldLoadName(g, cc.Value) == "base" {
						bypass = ins.Pos()
					}
				})
				c.Check(bypass == token.NoPos, FuncName(g), "limited-path-only", c.Pos(func() token.Pos {
					if bypass != token.NoPos {
						return bypass
					}
					return g.Pos()
				}()), "reaches the base replicator only through the method that holds the semaphore", "the base replicator is called directly, outside the method that acquires the semaphore: copies started through this path are not counted against the configured limit")
			})
		}
	}
	// queued
	if fn := c.Method(replicationRel, "queuedBlobReplicator", "ReplicateMultiple"); fn == nil {
		c.Broken("queuedBlobReplicator.ReplicateMultiple not found")
	} else {
		bad := ""
		var badPos token.Pos
		var base *ssa.Call
		isWait := func(v ssa.Value) bool {
			f, _ := loadedField(v)
			return f != nil && f.Name() == "wait"
		}
		// token taken: the select case receiving from br.wait (edge idx == k) or a plain receive
		explorePaths(&pathSpec{Fn: fn, Init: 0,
			Step: func(st int, ev pathEvent) int {
				if ev.Ins != nil {
					if u, ok := ev.Ins.(*ssa.UnOp); ok && u.Op == token.ARROW && isWait(u.X) {
						return 1
					}
					if s, ok := ev.Ins.(*ssa.Send); ok && isWait(s.Chan) {
						if st != 1 {
							bad, badPos = "the queue token is put back without having been taken (or twice)", ev.Ins.Pos()
						}
						return 2
					}
					if cc := callOf(ev.Ins); cc != nil && cc.IsInvoke() && cc.Method.Name() == "ReplicateMultiple" {
						base, _ = ev.Ins.(*ssa.Call)
						if st != 1 {
							bad, badPos = "the base replicator is called without holding the queue token", ev.Ins.Pos()
						}
					}
					return st
				}
				// select case taken
				if bo, ok := ev.Cond.(*ssa.BinOp); ok && bo.Op == token.EQL && ev.Val {
					if ex, ok := bo.X.(*ssa.Extract); ok && ex.Index == 0 {
						if sel, ok := ex.Tuple.(*ssa.Select); ok {
							if k, ok := constInt(bo.Y); ok && int(k) < len(sel.States) && sel.States[k].Dir == types.RecvOnly && isWait(sel.States[k].Chan) {
								return 1
							}
						}
					}
				}
				return st
			},
			AtReturn: func(st int, r *ssa.Return, _ map[int]bool) {
				if st == 1 {
					bad, badPos = "a path returns without putting the queue token back: every later replication would block forever", r.Pos()
				}
			}})
		c.Check(bad == "", FuncName(fn), "token-pairing", c.Pos(func() token.Pos {
			if bad == "" {
				return fn.Pos()
			}
			return badPos
		}()), "the token taken from the queue is put back exactly once on every path", bad)
		// cache add only on success
		okAdd := true
		n := 0
		allInstrs(fn, func(ins ssa.Instruction) {
			cc := callOf(ins)
			if cc == nil || cc.StaticCallee() == nil || cc.StaticCallee().Name() != "Add" {
				return
			}
			if f, _ := loadedField(cc.Args[0]); f == nil || f.Name() != "existenceCache" {
				return
			}
			n++
			if base == nil || !dominatedByErrNil(ins.Block(), base) {
				okAdd = false
			}
		})
		c.Check(okAdd && n > 0, FuncName(fn), "cache-after-success", c.Pos(fn.Pos()), "objects are remembered as present only after they were replicated successfully", "objects are remembered as present in the sink although their replication may have failed")
	}
}

func runR175(c *Ctx) {
	n := c.LookupType(replicationRel, "deduplicatingBlobReplicator")
	fn := c.Method(replicationRel, "deduplicatingBlobReplicator", "ReplicateMultiple")
	if n == nil || fn == nil {
		c.Broken("deduplicatingBlobReplicator not found")
		return
	}
	lock := mutexField(n, "lock")
	var m *types.Var
	if ms := fieldsWhere(n, func(f *types.Var) bool { _, ok := f.Type().Underlying().(*types.Map); return ok }); len(ms) == 1 {
		m = ms[0]
	}
	if lock == nil || m == nil {
		c.Broken("deduplicatingBlobReplicator: mutex / in-flight map field not found")
		return
	}
	ls := &LockSpec{RuleID: c.rule.ID, Pkg: c.Pkg(replicationRel), Lock: lock,
		Guards:           []LockGuard{{Name: "in-flight map", Field: m, Req: 2, ReadReq: 2}},
		InScope:          func(fd *ast.FuncDecl, recv *types.Named) bool { return recv != nil && recv.Obj() == n.Obj() },
		IsEntry:          func(fd *ast.FuncDecl) bool { return fd.Name.IsExported() },
		NoBlockWhileHeld: true,
	}
	la := newLockAnalysis(c.Program, ls)
	la.Run()
	la.Emit(c)
	name := FuncName(fn)
	// registered entry: MapUpdate into the map; then delete · store success · close(finished) on every path
	isMap := func(v ssa.Value) bool {
		f, _ := loadedField(v)
		return f != nil && f == m
	}
	bad := ""
	var badPos token.Pos
	nreg := 0
	// state bits: 1 registered, 2 removed, 4 outcome stored, 8 closed
	explorePaths(&pathSpec{Fn: fn, Init: 0,
		Step: func(st int, ev pathEvent) int {
			if ev.Ins == nil {
				return st
			}
			switch x := ev.Ins.(type) {
			case *ssa.MapUpdate:
				if isMap(x.Map) {
					nreg++
					return 1
				}
			case *ssa.Call:
				if bi, ok := x.Call.Value.(*ssa.Builtin); ok {
					if bi.Name() == "delete" && isMap(x.Call.Args[0]) {
						if st&1 == 0 || st&2 != 0 {
							bad, badPos = "an in-flight entry is removed that this caller did not register (or twice)", x.Pos()
						}
						return st | 2
					}
					if bi.Name() == "close" {
						if st&1 != 0 && st&(2|4) != (2|4) {
							bad, badPos = "the finished channel is closed before the entry was removed and the outcome stored: a waiter could read a stale outcome, or find the entry again and wait on a closed channel forever", x.Pos()
						}
						if st&8 != 0 {
							bad, badPos = "the finished channel is closed twice", x.Pos()
						}
						return st | 8
					}
				}
			case *ssa.Store:
				if f := fieldOf(x.Addr); f != nil && f.Name() == "success" {
					if st&8 != 0 {
						bad, badPos = "the outcome is stored after the finished channel was closed", x.Pos()
					}
					// value: err == nil
					okVal := false
					if bo, ok := x.Val.(*ssa.BinOp); ok && bo.Op == token.EQL && isErrorType(bo.X.Type()) && (isNilConst(bo.Y) || isNilConst(bo.X)) {
						// … of the error that includes the copy itself
						ev := bo.X
						if isNilConst(ev) {
							ev = bo.Y
						}
						deepSlice(fn, ev, func(v ssa.Value) bool {
							if cl, ok := v.(*ssa.Call); ok {
								if cl.Call.IsInvoke() && cl.Call.Method.Name() == "ReplicateMultiple" {
									okVal = true
									return false
								}
								// the attempt may live in an own helper method
								if h := inlineOwnMethods(cl); h != nil {
									withOwnHelpers(h, func(g *ssa.Function) {
										allInstrs(g, func(i2 ssa.Instruction) {
											if c2, ok := i2.(*ssa.Call); ok && c2.Call.IsInvoke() && c2.Call.Method.Name() == "ReplicateMultiple" {
												okVal = true
											}
										})
									})
								}
							}
							return !okVal
						})
					}
					if !okVal {
						bad, badPos = "the outcome stored is not `the error of the whole attempt – existence check and copy – is nil` (it is computed before, or without, the copy): waiters take a failed replication for a successful one and report the object as present in the sink", x.Pos()
					}
					return st | 4
				}
			}
			return st
		},
		AtReturn: func(st int, r *ssa.Return, _ map[int]bool) {
			if st&1 != 0 && st&(2|4|8) != (2|4|8) {
				bad, badPos = "a path returns after registering an in-flight entry without removing it, storing the outcome and closing the channel: waiters for this object would block forever", r.Pos()
			}
		}})
	if nreg == 0 {
		bad, badPos = "no in-flight entry is ever registered (no deduplication)", fn.Pos()
	}
	c.Check(bad == "", name, "leader-protocol", c.Pos(func() token.Pos {
		if bad == "" {
			return fn.Pos()
		}
		return badPos
	}()), "register · copy · remove · store outcome · close, exactly once on every path", bad)
	// check-then-act: an entry is registered only when, within the same
	// tenure of the lock, a lookup of the map said that nobody is in flight
	{
		isUnlock := func(ins ssa.Instruction) bool {
			cc := callOf(ins)
			if cc == nil || cc.StaticCallee() == nil || len(cc.Args) == 0 {
				return false
			}
			nm := cc.StaticCallee().Name()
			if nm != "Unlock" && nm != "RUnlock" {
				return false
			}
			fa, ok := cc.Args[0].(*ssa.FieldAddr)
			return ok && sameField(fieldOf(fa), lock)
		}
		stale := ""
		var stalePos token.Pos
		// 0: no fresh negative lookup; 1: fresh negative lookup
		explorePaths(&pathSpec{Fn: fn, Init: 0,
			Step: func(st int, ev pathEvent) int {
				if ev.Ins != nil {
					if isUnlock(ev.Ins) {
						return 0
					}
					if mu, ok := ev.Ins.(*ssa.MapUpdate); ok && isMap(mu.Map) && st == 0 && stale == "" {
						stale, stalePos = "a caller registers itself as the one replicating the object without having seen, since it last acquired the lock, that no replication of that object is in flight: after waiting for a failed leader several waiters wake up, each installs its own entry and each starts a copy of the same object (and they overwrite and delete each other's entries)", mu.Pos()
					}
					return st
				}
				cnd, v := ev.Cond, ev.Val
				for {
					if u, ok := cnd.(*ssa.UnOp); ok && u.Op == token.NOT {
						cnd, v = u.X, !v
						continue
					}
					break
				}
				if ex, ok := cnd.(*ssa.Extract); ok && ex.Index == 1 {
					if lk, ok := ex.Tuple.(*ssa.Lookup); ok && lk.CommaOk && isMap(lk.X) {
						if v {
							return 0
						}
						return 1
					}
				}
				return st
			}})
		c.Check(stale == "", name, "check-then-register", c.Pos(func() token.Pos {
			if stale == "" {
				return fn.Pos()
			}
			return stalePos
		}()), "registration follows a negative lookup under the same lock tenure", stale)
	}
	// waiter: reads success after receiving from finished; skips only on success
	okWaiter, found := true, false
	why := "waiters do not consult the leader's outcome"
	allInstrs(fn, func(ins ssa.Instruction) {
		v, ok := ins.(ssa.Value)
		if !ok {
			return
		}
		f, _ := loadedField(v)
		if f == nil || f.Name() != "success" {
			return
		}
		found = true
		// dominated by the select case that received from `finished`
		recvd := false
		edgeFacts(ins.Block(), func(cond ssa.Value, val bool) bool {
			if bo, ok := cond.(*ssa.BinOp); ok && bo.Op == token.EQL && val {
				if ex, ok := bo.X.(*ssa.Extract); ok && ex.Index == 0 {
					if sel, ok := ex.Tuple.(*ssa.Select); ok {
						if k, ok := constInt(bo.Y); ok && int(k) < len(sel.States) {
							if cf, _ := loadedField(sel.States[k].Chan); cf != nil && cf.Name() == "finished" {
								recvd = true
							}
						}
					}
				}
			}
			return true
		})
		if !recvd {
			okWaiter, why = false, "the leader's outcome is read before the finished channel was received from"
		}
		// used as a branch condition
		usedAsCond := false
		if refs := v.Referrers(); refs != nil {
			for _, r := range *refs {
				if _, ok := r.(*ssa.If); ok {
					usedAsCond = true
				}
			}
		}
		if !usedAsCond {
			okWaiter, why = false, "the leader's outcome does not decide whether the waiter retries"
		}
	})
	c.Check(found && okWaiter, name, "waiter-protocol", c.Pos(fn.Pos()), "a waiter moves on only when the leader's copy succeeded; otherwise it retries", "a waiter reports success although the copy it waited for may have failed: "+why)
}

func runR176(c *Ctx) {
	fn := c.Method(blobstoreRel, "existenceCachingBlobAccess", "FindMissing")
	if fn == nil {
		c.Broken("existenceCachingBlobAccess.FindMissing not found")
		return
	}
	name := FuncName(fn)
	var rem, back, gdi, add *ssa.Call
	allInstrs(fn, func(ins ssa.Instruction) {
		cl, ok := ins.(*ssa.Call)
		if !ok {
			return
		}
		if cl.Call.StaticCallee() != nil {
			switch cl.Call.StaticCallee().Name() {
			case "RemoveExisting":
				rem = cl
			case "Add":
				add = cl
			}
		}
		if cl.Call.IsInvoke() && cl.Call.Method.Name() == "FindMissing" {
			back = cl
		}
		if isPkgFuncCall(cl.Common(), modPath+"/"+digestRel, "GetDifferenceAndIntersection") {
			gdi = cl
		}
	})
	if rem == nil || back == nil || gdi == nil || add == nil {
		c.Fail(name, "shape", c.Pos(fn.Pos()), "cache filter, backend question, difference and cache update were not all found")
		return
	}
	isExtract := func(v ssa.Value, call *ssa.Call, idx int) bool {
		ex, ok := v.(*ssa.Extract)
		return ok && ex.Tuple == ssa.Value(call) && ex.Index == idx
	}
	c.Check(back.Call.Args[1] == ssa.Value(rem) && rem.Call.Args[1] == ssa.Value(fn.Params[2]), name, "question", c.Pos(back.Pos()), "the backend is asked about exactly the digests the cache does not vouch for", "the backend is not asked about exactly the request minus the cached digests")
	okFeed := gdi.Call.Args[0] == ssa.Value(rem) && isExtract(gdi.Call.Args[1], back, 0) && isExtract(add.Call.Args[1], gdi, 0) && dominatedByErrNil(add.Block(), back)
	c.Check(okFeed, name, "cache-feed", c.Pos(add.Pos()), "only digests the backend was just asked about and did not report missing are cached", "the cache is fed with digests the backend did not vouch for in this call (for example cached hits are re-added, extending their lifetime indefinitely)")
	for _, r := range returnsOf(fn) {
		if isNilConst(r.Results[1]) {
			c.Check(isExtract(r.Results[0], back, 0), name, "answer", c.Pos(r.Pos()), "the backend's answer is returned", "the set returned is not the backend's answer")
		}
	}
	// ExistenceCache guarded by its lock
	ec := c.LookupType(digestRel, "ExistenceCache")
	if ec != nil {
		lock := mutexField(ec, "lock")
		var guards []LockGuard
		if st, ok := ec.Underlying().(*types.Struct); ok {
			for i := 0; i < st.NumFields(); i++ {
				f := st.Field(i)
				switch f.Type().Underlying().(type) {
				case *types.Map:
					guards = append(guards, LockGuard{Name: "ExistenceCache." + f.Name(), Field: f, Req: 2, ReadReq: 2})
				}
			}
		}
		if lock != nil && len(guards) > 0 {
			ls := &LockSpec{RuleID: c.rule.ID, Pkg: c.Pkg(digestRel), Lock: lock, Guards: guards,
				InScope: func(fd *ast.FuncDecl, recv *types.Named) bool { return recv != nil && recv.Obj() == ec.Obj() },
				IsEntry: func(fd *ast.FuncDecl) bool { return fd.Name.IsExported() },
			}
			la := newLockAnalysis(c.Program, ls)
			la.Run()
			la.Emit(c)
		}
	}
}
