package main

import (
	"fmt"
	"go/constant"
	"go/token"
	"go/types"

	"golang.org/x/tools/go/ssa"
)

// Rules armed from round 5 on.

func init() {
	register(&Rule{
		ID: "R04.8", Props: []string{"C04", "C05", "C15"}, Engine: "share-counting path automaton (SSA)",
		Text:  "a reader-backed validated buffer gives up its share of the ReadAtCloser exactly once in every consuming method: on every path of every method of validatedReaderBuffer except GetSizeBytes and Discard, (shares added to the clone count) + 1 = (calls or defers of the receiver's Discard) + (times the receiver is handed on: returned, passed to a callee, stored into a wrapper, or consumed by another of its own consuming methods); validatedReaderAtReader.Close discards its buffer exactly once",
		Floor: 10, MustExist: true, Run: runR048,
	})
}

func runR048(c *Ctx) {
	T := c.LookupType(bufferRel, "validatedReaderBuffer")
	if T == nil {
		c.Broken("validatedReaderBuffer not found")
		return
	}
	isSelfMethod := func(cc *ssa.CallCommon, recv ssa.Value) (string, bool) {
		sc := cc.StaticCallee()
		if sc == nil || sc.Signature.Recv() == nil || len(cc.Args) == 0 {
			return "", false
		}
		rt := sc.Signature.Recv().Type()
		if p, ok := rt.(*types.Pointer); ok {
			rt = p.Elem()
		}
		if !types.Identical(rt, T) || stripConv(cc.Args[0]) != recv {
			return "", false
		}
		return sc.Name(), true
	}
	// the consuming methods are those of the Buffer interface (all but GetSizeBytes; Discard is
	// the primitive); any other method of the type is a helper whose effect on the share count
	// is summarised (it must be the same on all of its paths)
	bufI, _ := c.LookupType(bufferRel, "Buffer").Underlying().(*types.Interface)
	if bufI == nil {
		c.Broken("buffer.Buffer is not an interface")
		return
	}
	inIface := map[string]bool{}
	for i := 0; i < bufI.NumMethods(); i++ {
		inIface[bufI.Method(i).Name()] = true
	}
	var methods []*ssa.Function
	for _, f := range c.pkgFuncs(bufferRel) {
		if f.Signature.Recv() == nil || len(f.Blocks) == 0 {
			continue
		}
		rt := f.Signature.Recv().Type()
		if p, ok := rt.(*types.Pointer); ok {
			rt = p.Elem()
		}
		if types.Identical(rt, T) {
			methods = append(methods, f)
		}
	}
	const base = 8
	summary := map[string]int{"Discard": -1, "GetSizeBytes": 0}
	var finals func(fn *ssa.Function, depth int) map[int]token.Pos
	helperDelta := func(name string, depth int) (int, bool) {
		if d, ok := summary[name]; ok {
			return d, true
		}
		if inIface[name] {
			return -1, true // consumed by another consuming method of the same buffer
		}
		if depth > 2 {
			return 0, false
		}
		for _, m := range methods {
			if m.Name() == name {
				fs := finals(m, depth+1)
				if len(fs) == 1 {
					for st := range fs {
						summary[name] = st - (base + 1)
						return st - (base + 1), true
					}
				}
				return 0, false
			}
		}
		return 0, false
	}
	finals = func(fn *ssa.Function, depth int) map[int]token.Pos {
		recv := ssa.Value(fn.Params[0])
		// delta of an instruction on the number of shares the method still has to give up
		delta := func(ins ssa.Instruction) int {
			d := 0
			if cc := callOf(ins); cc != nil {
				if _, isGo := ins.(*ssa.Go); isGo {
					return 0
				}
				if m, self := isSelfMethod(cc, recv); self {
					if hd, ok := helperDelta(m, depth); ok {
						return hd
					}
					return 0
				}
				// clone count adjusted by a constant
				if sc := cc.StaticCallee(); sc != nil && sc.Name() == "Add" && len(cc.Args) == 2 {
					if fa, ok := cc.Args[0].(*ssa.FieldAddr); ok && fa.X == recv {
						if k, isK := cc.Args[1].(*ssa.Const); isK && k.Value != nil && k.Value.Kind() == constant.Int {
							v, _ := constant.Int64Val(k.Value)
							return int(v)
						}
					}
				}
				// handed to a callee
				for _, a := range cc.Args {
					if stripConv(a) == recv {
						d--
					}
				}
				return d
			}
			switch x := ins.(type) {
			case *ssa.Store:
				if stripConv(x.Val) == recv {
					return -1 // stored into a wrapper that now owns the share
				}
			case *ssa.Return:
				for _, r := range x.Results {
					if stripConv(r) == recv {
						d--
					}
				}
			}
			return d
		}
		out := map[int]token.Pos{}
		explorePaths(&pathSpec{Fn: fn, Init: base + 1, MaxVisits: 20000,
			Step: func(st int, ev pathEvent) int {
				if ev.Ins == nil {
					return st
				}
				st += delta(ev.Ins)
				if st < 0 {
					st = 0
				}
				if st > 2*base {
					st = 2 * base
				}
				if r, ok := ev.Ins.(*ssa.Return); ok {
					out[st] = r.Pos()
				}
				return st
			}})
		return out
	}
	n := 0
	for _, fn := range methods {
		if fn.Name() == "GetSizeBytes" || fn.Name() == "Discard" {
			continue
		}
		name := FuncName(fn)
		fs := finals(fn, 0)
		if !inIface[fn.Name()] {
			// a helper: only uniformity is required; its callers account for the result
			if len(fs) > 1 {
				c.Fail(name, "share-given-up-once", c.Pos(fn.Pos()), "this helper of validatedReaderBuffer gives up the buffer's share of the ReadAtCloser on some of its paths and not on others")
			} else {
				c.Pass(name, "share-given-up-once", c.Pos(fn.Pos()), "helper with a uniform effect on the share count")
			}
			continue
		}
		n++
		bad := map[string]token.Pos{}
		for st, pos := range fs {
			switch {
			case st > base:
				bad[fmt.Sprintf("%d share(s) of the ReadAtCloser are neither discarded nor handed on", st-base)] = pos
			case st < base:
				bad[fmt.Sprintf("the share is given up %d time(s) too often", base-st)] = pos
			}
		}
		if len(bad) == 0 {
			c.Pass(name, "share-given-up-once", c.Pos(fn.Pos()), "every path discards or hands on exactly the shares it holds")
			continue
		}
		for msg, pos := range bad {
			if !pos.IsValid() {
				pos = fn.Pos()
			}
			c.Fail(name, "share-given-up-once", c.Pos(pos), "on a path to this return "+msg+": the ReadAtCloser (the block's use count) is never closed, so the block's space never returns to the allocator – or it is closed while a clone still reads from it")
		}
	}
	if n == 0 {
		c.Fail("validatedReaderBuffer", "share-given-up-once", "-", "no consuming methods found")
	}
	// the reader wrapper
	cl := c.Method(bufferRel, "validatedReaderAtReader", "Close")
	if cl == nil {
		c.Broken("validatedReaderAtReader.Close not found")
		return
	}
	cnt := map[int]bool{}
	explorePaths(&pathSpec{Fn: cl, Init: 0, MaxVisits: 5000,
		Step: func(st int, ev pathEvent) int {
			if ev.Ins == nil {
				return st
			}
			if cc := callOf(ev.Ins); cc != nil {
				if sc := cc.StaticCallee(); sc != nil && sc.Name() == "Discard" && len(cc.Args) == 1 {
					if f, base := loadedField(cc.Args[0]); f != nil && isReceiverValue(cl, base) {
						if st < 3 {
							st++
						}
					}
				}
			}
			if _, ok := ev.Ins.(*ssa.Return); ok {
				cnt[st] = true
			}
			return st
		}})
	c.Check(len(cnt) == 1 && cnt[1], FuncName(cl), "share-given-up-once", c.Pos(cl.Pos()), "Close discards the buffer exactly once on every path", "validatedReaderAtReader.Close does not discard its buffer exactly once on every path")
}

func init() {
	register(&Rule{
		ID: "R01.20", Props: []string{"C01", "C04"}, Engine: "store-shape check (SSA)",
		Text:  "a block's allocation cursor only advances: every store to inMemoryBlock.writeOffsetBytes and to blockDeviceBackedBlock.writeOffsetSectors made by a method of the block (function literals included) assigns `the field's current value + something` – never an offset remembered earlier, so space that was handed out to one upload is never handed out again while the block lives",
		Floor: 2, MustExist: true, Run: runR0120,
	})
}

func runR0120(c *Ctx) {
	n := 0
	for _, tc := range []struct{ typ, field string }{{"inMemoryBlock", "writeOffsetBytes"}, {"blockDeviceBackedBlock", "writeOffsetSectors"}} {
		T := c.LookupType(localRel, tc.typ)
		if T == nil {
			c.Broken("%s not found", tc.typ)
			continue
		}
		found := 0
		for _, f := range c.pkgFuncs(localRel) {
			if rn := recvNamedOfFn(f); rn == nil || !types.Identical(rn, T) {
				continue
			}
			withAnon(f, func(g *ssa.Function) {
				allInstrs(g, func(ins ssa.Instruction) {
					st, ok := ins.(*ssa.Store)
					if !ok {
						return
					}
					fa, ok := st.Addr.(*ssa.FieldAddr)
					if !ok {
						return
					}
					if fld := fieldOf(fa); fld == nil || fld.Name() != tc.field {
						return
					}
					if pt, ok := fa.X.Type().Underlying().(*types.Pointer); !ok || !types.Identical(pt.Elem(), T) {
						return
					}
					found++
					n++
					okShape := false
					if bo, isB := stripConv(st.Val).(*ssa.BinOp); isB && bo.Op == token.ADD {
						for _, side := range []ssa.Value{bo.X, bo.Y} {
							if ld, isL := stripConv(side).(*ssa.UnOp); isL && ld.Op == token.MUL {
								if fa2, isF := ld.X.(*ssa.FieldAddr); isF && fa2.Field == fa.Field && sameSource(fa2.X, fa.X) {
									okShape = true
								}
							}
						}
					}
					c.Check(okShape, FuncName(g), "cursor-advances "+tc.typ+"."+tc.field, c.Pos(st.Pos()), "the cursor is advanced from its current value", "the allocation cursor "+tc.typ+"."+tc.field+" is assigned something other than `its current value + n` (an offset remembered earlier, a constant …): space behind the new cursor position that was already handed out to another upload – possibly one that has completed and is being read – is handed out again, and the later upload overwrites it")
				})
			})
		}
		if found == 0 {
			c.Fail(tc.typ, "cursor-advances "+tc.typ+"."+tc.field, "-", "no store to the allocation cursor found (the allocator changed shape)")
		}
	}
	_ = n
}

func init() {
	register(&Rule{
		ID: "R15.7", Props: []string{"C15"}, Engine: "guard (SSA edge facts)",
		Text:  "a completed read reports the task's error: in casBufferWithBackgroundTask.ReadAt the base's own error is returned only where it is known not to be io.EOF (a short read that reaches the end of the object is a completed read) or where the task's error was found nil; everywhere else the task's error is what is returned",
		Floor: 2, MustExist: true, Run: runR157,
	})
}

func runR157(c *Ctx) {
	fn := c.Method(bufferRel, "casBufferWithBackgroundTask", "ReadAt")
	if fn == nil {
		c.Broken("casBufferWithBackgroundTask.ReadAt not found")
		return
	}
	name := FuncName(fn)
	isTaskErr := func(v ssa.Value) bool {
		f, _ := loadedField(stripConv(v))
		return f != nil && f.Name() == "err" && isErrorType(f.Type())
	}
	for _, r := range returnsOf(fn) {
		if len(r.Results) != 2 {
			continue
		}
		ev := returnedValue(r, 1)
		if isTaskErr(ev) || isNilConst(ev) {
			c.Pass(name, "task-error-reported", c.Pos(r.Pos()), "returns the task's error")
			continue
		}
		ok := false
		edgeFacts(r.Block(), func(cond ssa.Value, val bool) bool {
			c0, v := cond, val
			for {
				if u, isU := c0.(*ssa.UnOp); isU && u.Op == token.NOT {
					c0, v = u.X, !v
					continue
				}
				break
			}
			// the task's error is nil here
			if x, nilWhenTrue, isNT := nilTest(c0); isNT && isTaskErr(x) && nilWhenTrue == v {
				ok = true
				return false
			}
			// the returned error is not io.EOF here
			if bo, isB := c0.(*ssa.BinOp); isB && (bo.Op == token.EQL || bo.Op == token.NEQ) {
				for _, pair := range [][2]ssa.Value{{bo.X, bo.Y}, {bo.Y, bo.X}} {
					if stripConv(pair[0]) == stripConv(ev) && isIOEOF(pair[1]) && (bo.Op == token.NEQ) == v {
						ok = true
						return false
					}
				}
			}
			return true
		})
		c.Check(ok, name, "task-error-reported", c.Pos(r.Pos()), "the base's error is returned only where it is not io.EOF or the task succeeded", "ReadAt returns the underlying buffer's error without looking at the task's: when that error is io.EOF – a short read that reached the end of the object, i.e. a completed read – a failed task (the refresh copy that could not be finalised, the replication that failed) goes unreported")
	}
}
