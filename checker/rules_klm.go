package main

import (
	"fmt"
	"go/token"
	"go/types"

	"golang.org/x/tools/go/ssa"
)

// Rules about hashingKeyLocationMap (C06), the old/current/new map (C05, C08)
// and error propagation of finalizePut (C05, C01).

func init() {
	register(&Rule{
		ID: "R06.1", Props: []string{"C06"}, Engine: "guard + flow",
		Text:  "hashingKeyLocationMap.Get returns a Location with a nil error only on the true edge of an equality of two whole LocationRecordKey values (key and attempt), one read from the record just fetched from the slot and the other built from the queried key, and the Location returned is that record's",
		Floor: 1, MustExist: true, Run: runR061,
	})
	register(&Rule{
		ID: "R06.2", Props: []string{"C06"}, Engine: "guard + flow",
		Text:  "hashingKeyLocationMap.Put writes the carried record into a slot only when the slot is unresolvable (free) or on the true edge of existing.Location.IsOlder(carried.Location), both operands being the records in hand (never the original argument); the carried record is replaced by the displaced one only on that edge and after the write succeeded",
		Floor: 4, MustExist: true, Run: runR062,
	})
	register(&Rule{
		ID: "R06.3", Props: []string{"C06"}, Engine: "order (path automaton) + sibling agreement",
		Text:  "no silent discard: every nil-error return of hashingKeyLocationMap.Put is preceded by exactly one Observe/Inc on one of the put collectors, the two exits that drop a record use the TooManyAttempts / TooManyIterations collectors; Get's attempt-limit exit increments its collector; Put and Get agree on the reachable attempts: both continue only on the edge `attempt < maximumGetAttempts`",
		Floor: 4, MustExist: true, Run: runR063,
	})
	register(&Rule{
		ID: "R05.1", Props: []string{"C05", "C01", "C08"}, Engine: "noerrdrop (path automaton)",
		Text:  "a failed refresh or upload is never reported as success: at every call site of finalizePut (both local stores) no path on which its error is non-nil reaches a return that does not carry that error (so a Get/FindMissing/Put whose copy could not be published fails instead of completing)",
		Floor: 7, MustExist: true, Run: runR051,
	})
	register(&Rule{
		ID: "R05.5", Props: []string{"C05"}, Engine: "flow (dependence)",
		Text:  "the needs-refresh verdict of OldCurrentNewLocationBlobMap.Get depends on nothing but the location's BlockIndex and the number of old blocks (no other state can switch refreshing off for an object in an old block)",
		Floor: 1, MustExist: true, Run: runR055,
	})
	register(&Rule{
		ID: "R05.3", Props: []string{"C05", "C08"}, Engine: "guard",
		Text:  "blocks are rotated away only beyond the configured count or when condemned: every call of popFront is, within its function, on the true edge of len(oldBlocks) > desiredOldBlocksCount or inside the loop bounded by totalBlocksReleased < totalBlocksToBeReleased",
		Floor: 2, MustExist: true, Run: runR053,
	})
	register(&Rule{
		ID: "R08.2", Props: []string{"C08"}, Engine: "guard + flow + own",
		Text:  "a negative integrity verdict condemns exactly the block read and older ones: in the callback built by OldCurrentNewLocationBlobMap.Get, increaseTotalBlocksToBeReleased is called only on the !dataIsValid edge with totalBlocksReleased + BlockIndex + 1 computed when the getter was invoked; the counter is raised only by a compare-and-swap guarded by new > old (monotone), and is consulted by BlockReferenceToBlockIndex (unresolvable below the mark) and by the put finalizer",
		Floor: 4, MustExist: true, Run: runR082,
	})
}

// cellOf: v is a load of (a field of) a local cell; returns the cell and the field path head.
func loadOfCellField(v ssa.Value) (cell *ssa.Alloc, field string) {
	u, ok := v.(*ssa.UnOp)
	if !ok || u.Op != token.MUL {
		return nil, ""
	}
	switch a := u.X.(type) {
	case *ssa.Alloc:
		return a, ""
	case *ssa.FieldAddr:
		if al, ok := a.X.(*ssa.Alloc); ok {
			return al, fieldOf(a).Name()
		}
	}
	return nil, ""
}

// cellHolds: which values are stored (whole) into the cell.
func cellStores(cell *ssa.Alloc) []ssa.Value {
	var out []ssa.Value
	if refs := cell.Referrers(); refs != nil {
		for _, r := range *refs {
			if st, ok := r.(*ssa.Store); ok && st.Addr == ssa.Value(cell) {
				out = append(out, st.Val)
			}
		}
	}
	return out
}

func runR061(c *Ctx) {
	fn := c.Method(localRel, "hashingKeyLocationMap", "Get")
	if fn == nil {
		c.Broken("hashingKeyLocationMap.Get not found")
		return
	}
	name := FuncName(fn)
	lrk := c.LookupType(localRel, "LocationRecordKey")
	n := 0
	for _, r := range returnsOf(fn) {
		if !isNilConst(r.Results[1]) {
			continue
		}
		n++
		ok := false
		var eq *ssa.BinOp
		edgeFacts(r.Block(), func(cond ssa.Value, val bool) bool {
			b, isB := cond.(*ssa.BinOp)
			if !isB || !((b.Op == token.EQL && val) || (b.Op == token.NEQ && !val)) {
				return true
			}
			if types.Identical(b.X.Type(), lrk) && types.Identical(b.Y.Type(), lrk) {
				eq = b
				return false
			}
			return true
		})
		why := "a location is returned without comparing the complete record key (key and attempt) of the slot's record with the queried key"
		if eq != nil {
			// one side from the fetched record, the other from the local key built from the parameter
			fromRecord := func(v ssa.Value) (ssa.Value, bool) {
				cell, fld := loadOfCellField(v)
				if cell != nil && fld == "RecordKey" {
					for _, s := range cellStores(cell) {
						if ex, ok := s.(*ssa.Extract); ok {
							if cl, ok := ex.Tuple.(*ssa.Call); ok && cl.Call.IsInvoke() && cl.Call.Method.Name() == "Get" {
								return cell, true
							}
						}
					}
				}
				if f, ok := v.(*ssa.Field); ok {
					if ex, ok := f.X.(*ssa.Extract); ok {
						if cl, ok := ex.Tuple.(*ssa.Call); ok && cl.Call.IsInvoke() && cl.Call.Method.Name() == "Get" {
							return ex, true
						}
					}
				}
				return nil, false
			}
			fromQuery := func(v ssa.Value) bool {
				cell, fld := loadOfCellField(v)
				if cell == nil || fld != "" {
					return false
				}
				hit := false
				deepSlice(fn, cell, func(x ssa.Value) bool {
					if p, ok := x.(*ssa.Parameter); ok && p.Name() == fn.Params[1].Name() {
						hit = true
						return false
					}
					return true
				})
				return hit
			}
			var rec ssa.Value
			var okRec bool
			if rec, okRec = fromRecord(eq.X); okRec && fromQuery(eq.Y) {
				ok = true
			} else if rec, okRec = fromRecord(eq.Y); okRec && fromQuery(eq.X) {
				ok = true
			}
			if ok {
				// returned location is that record's
				ok = false
				cell, fld := loadOfCellField(r.Results[0])
				if cell != nil && ssa.Value(cell) == rec && fld == "Location" {
					ok = true
				}
				if f, isF := r.Results[0].(*ssa.Field); isF && f.X == rec {
					ok = true
				}
				why = "the Location returned is not the Location of the record whose key was compared"
			} else {
				why = "the key comparison is not between the record fetched from the slot and the key built from the query"
			}
		}
		c.Check(ok, name, "hit-return", c.Pos(r.Pos()), "hit only under full-key equality with the slot's record; returns that record's location", why)
	}
	if n == 0 {
		c.Fail(name, "hit-return", c.Pos(fn.Pos()), "Get never returns a location")
	}
}

func runR062(c *Ctx) {
	fn := c.Method(localRel, "hashingKeyLocationMap", "Put")
	if fn == nil {
		c.Broken("hashingKeyLocationMap.Put not found")
		return
	}
	name := FuncName(fn)
	locT := c.LookupType(localRel, "Location")
	// identify the carried record cell: the cell passed to recordArray.Put
	var carried, old *ssa.Alloc
	var puts []*ssa.Call
	allInstrs(fn, func(ins ssa.Instruction) {
		cl, ok := ins.(*ssa.Call)
		if !ok || !cl.Call.IsInvoke() {
			return
		}
		if !loadOfRecvField(fn, cl.Call.Value, "recordArray") {
			return
		}
		switch cl.Call.Method.Name() {
		case "Put":
			puts = append(puts, cl)
			if cell, fld := loadOfCellField(cl.Call.Args[1]); cell != nil && fld == "" {
				carried = cell
			}
		case "Get":
			// the cell holding the fetched record
			if refs := cl.Referrers(); refs != nil {
				for _, r := range *refs {
					if ex, ok := r.(*ssa.Extract); ok && ex.Index == 0 {
						for _, rr := range *ex.Referrers() {
							if st, ok := rr.(*ssa.Store); ok {
								if a, ok := st.Addr.(*ssa.Alloc); ok {
									old = a
								}
							}
						}
					}
				}
			}
		}
	})
	if carried == nil || old == nil || len(puts) == 0 {
		c.Fail(name, "shape", c.Pos(fn.Pos()), "cannot identify the carried record, the fetched record and the slot writes")
		return
	}
	isOlderEdge := func(b *ssa.BasicBlock) (bool, string) {
		found, why := false, "no existing.Location.IsOlder(carried.Location) test dominates this site"
		edgeFacts(b, func(cond ssa.Value, val bool) bool {
			cl, ok := cond.(*ssa.Call)
			if !ok || !val || !isMethodCall(cl.Common(), locT, "IsOlder") {
				return true
			}
			c0, f0 := loadOfCellField(cl.Call.Args[0])
			c1, f1 := loadOfCellField(cl.Call.Args[1])
			if c0 == old && f0 == "Location" && c1 == carried && f1 == "Location" {
				found = true
			} else {
				why = "the age test does not compare the existing record's location with the location of the record currently carried (e.g. it uses the original argument, which is wrong once a record was displaced)"
			}
			return false
		})
		return found, why
	}
	freeEdge := func(b *ssa.BasicBlock) bool {
		return dominatedByCmp(b, func(op token.Token, x, y ssa.Value) bool {
			if op != token.EQL {
				return false
			}
			u, ok := y.(*ssa.UnOp)
			if !ok {
				return false
			}
			g, ok := u.X.(*ssa.Global)
			return ok && g.Name() == "ErrLocationRecordInvalid" && isErrorType(x.Type())
		})
	}
	for _, p := range puts {
		cell, fld := loadOfCellField(p.Call.Args[1])
		if cell != carried || fld != "" {
			c.Fail(name, "slot-write", c.Pos(p.Pos()), "a slot is written with something other than the carried record")
			continue
		}
		if freeEdge(p.Block()) {
			c.Pass(name, "slot-write", c.Pos(p.Pos()), "written into an unresolvable (free) slot")
			continue
		}
		ok, why := isOlderEdge(p.Block())
		c.Check(ok, name, "slot-write", c.Pos(p.Pos()), "overwrites only an older record (both operands are the records in hand)", "an existing record can be overwritten by a record that is not newer: "+why)
	}
	// identity test: whether the slot's occupant is "the same entry" is decided
	// by comparing it with the record in hand – after a displacement the
	// original key argument is somebody else's
	cellOfValue := func(v ssa.Value) *ssa.Alloc {
		for i := 0; i < 6; i++ {
			switch x := v.(type) {
			case *ssa.Field:
				v = x.X
				continue
			case *ssa.UnOp:
				if x.Op == token.MUL {
					return rootAlloc(x.X)
				}
			}
			return nil
		}
		return nil
	}
	nid := 0
	allInstrs(fn, func(ins ssa.Instruction) {
		bo, ok := ins.(*ssa.BinOp)
		if !ok || (bo.Op != token.EQL && bo.Op != token.NEQ) {
			return
		}
		cx, cy := cellOfValue(bo.X), cellOfValue(bo.Y)
		var other ssa.Value
		var otherCell *ssa.Alloc
		switch {
		case cx == old && cx != nil:
			other, otherCell = bo.Y, cy
		case cy == old && cy != nil:
			other, otherCell = bo.X, cx
		default:
			return
		}
		if isErrorType(other.Type()) {
			return
		}
		nid++
		c.Check(otherCell == carried, name, "same-entry-test", c.Pos(bo.Pos()), "the occupant is compared with the record in hand", "the slot's occupant is compared with something other than the record currently carried (the key argument of the call): once a record has been displaced, the displaced record is mistaken for the stored key when it meets it again, counted as an ignored older version and silently dropped")
	})
	if nid == 0 {
		c.Fail(name, "same-entry-test", c.Pos(fn.Pos()), "Put never tests whether the slot already holds the entry being inserted")
	}
	// the slot probed is recomputed from the record in hand on every iteration: inside
	// the loop the slot's computation reads the carried record's key (the whole
	// RecordKey handed to the slot function, or its Key field) – a hash of the
	// original key kept across iterations is wrong once a record was displaced
	for _, gc := range func() []*ssa.Call {
		var out []*ssa.Call
		allInstrs(fn, func(ins ssa.Instruction) {
			if cl, ok := ins.(*ssa.Call); ok && cl.Call.IsInvoke() && cl.Call.Method.Name() == "Get" && loadOfRecvField(fn, cl.Call.Value, "recordArray") {
				out = append(out, cl)
			}
		})
		return out
	}() {
		hdr := innermostLoopHeader(gc.Block())
		usesKeyInLoop := false
		deepSlice(fn, gc.Call.Args[0], func(x ssa.Value) bool {
			ins, ok := x.(ssa.Instruction)
			if !ok || hdr == nil || !hdr.Dominates(ins.Block()) {
				return true
			}
			switch t := x.(type) {
			case *ssa.FieldAddr:
				if rootAlloc(t) == carried {
					n := fieldOf(t).Name()
					if n == "RecordKey" {
						// the whole key handed on (by address) – or only used to reach Attempt?
						onlyAttempt := true
						if refs := t.Referrers(); refs != nil {
							for _, r := range *refs {
								if fa2, ok := r.(*ssa.FieldAddr); ok && fieldOf(fa2).Name() == "Attempt" {
									continue
								}
								if _, ok := r.(*ssa.DebugRef); ok {
									continue
								}
								onlyAttempt = false
							}
						}
						if !onlyAttempt {
							usesKeyInLoop = true
						}
					}
					if n == "Key" {
						usesKeyInLoop = true
					}
				}
			}
			return true
		})
		c.Check(usesKeyInLoop, name, "slot-from-record-in-hand", c.Pos(gc.Pos()), "the probed slot is computed from the carried record's key in every iteration", "the slot that is probed does not depend on the key of the record currently carried as computed inside the loop (a hash of the original key is kept across iterations): once a record was displaced it is re-inserted along the probe sequence of the other key, where lookups for its own key never look – the entry is lost without a counted discard")
	}
	// displacement: *carried = *old
	nd := 0
	for _, r := range *carried.Referrers() {
		st, ok := r.(*ssa.Store)
		if !ok || st.Addr != ssa.Value(carried) {
			continue
		}
		cell, fld := loadOfCellField(st.Val)
		if cell != old || fld != "" {
			continue
		}
		nd++
		ok1, why := isOlderEdge(st.Block())
		okPut := false
		for _, p := range puts {
			if dominatedByErrNil(st.Block(), p) {
				okPut = true
			}
		}
		if ok1 && !okPut {
			why = "the displaced record is picked up although writing the new record into its slot may have failed"
		}
		c.Check(ok1 && okPut, name, "displace", c.Pos(st.Pos()), "the displaced record is carried on only if it was older and its slot was rewritten", why)
	}
	if nd == 0 {
		c.Fail(name, "displace", c.Pos(fn.Pos()), "displaced records are never re-inserted (every collision would silently drop an entry)")
	}
}

func runR063(c *Ctx) {
	put := c.Method(localRel, "hashingKeyLocationMap", "Put")
	get := c.Method(localRel, "hashingKeyLocationMap", "Get")
	if put == nil || get == nil {
		c.Broken("hashingKeyLocationMap.Put/Get not found")
		return
	}
	collector := func(fn *ssa.Function, ins ssa.Instruction) string {
		cc := callOf(ins)
		if cc == nil || !cc.IsInvoke() || (cc.Method.Name() != "Observe" && cc.Method.Name() != "Inc") {
			return ""
		}
		f, _ := loadedField(cc.Value)
		if f == nil {
			return ""
		}
		return f.Name()
	}
	// Put: exactly one collector call before each nil return
	name := FuncName(put)
	bad := ""
	var badPos token.Pos
	nret := 0
	explorePaths(&pathSpec{Fn: put, Init: 0,
		Step: func(st int, ev pathEvent) int {
			if ev.Ins != nil && collector(put, ev.Ins) != "" {
				if st < 3 {
					return st + 1
				}
			}
			return st
		},
		AtReturn: func(st int, r *ssa.Return, _ map[int]bool) {
			if !isNilConst(r.Results[0]) {
				return
			}
			nret++
			if st != 1 {
				bad, badPos = fmt.Sprintf("a nil return of Put is preceded by %d metric updates (expected exactly one): an entry can be dropped or kept without being counted", st), r.Pos()
			}
		}})
	if bad != "" {
		c.Fail(name, "counted", c.Pos(badPos), bad)
	} else if nret == 0 {
		c.Fail(name, "counted", c.Pos(put.Pos()), "Put has no success return")
	} else {
		c.Pass(name, "counted", c.Pos(put.Pos()), fmt.Sprintf("%d success path classes, each with exactly one metric update", nret))
	}
	// continuation edges agree
	contOp := func(fn *ssa.Function) (token.Token, token.Pos, bool) {
		var op token.Token
		var pos token.Pos
		found := false
		for _, b := range fn.Blocks {
			if len(b.Instrs) == 0 {
				continue
			}
			iff, ok := b.Instrs[len(b.Instrs)-1].(*ssa.If)
			if !ok {
				continue
			}
			bo, ok := iff.Cond.(*ssa.BinOp)
			if !ok {
				continue
			}
			fx, _ := loadedField(bo.X)
			fy, _ := loadedField(bo.Y)
			if fx == nil || fy == nil {
				continue
			}
			o := bo.Op
			if fx.Name() == "maximumGetAttempts" && fy.Name() == "Attempt" {
				// mirror
				switch o {
				case token.LSS:
					o = token.GTR
				case token.LEQ:
					o = token.GEQ
				case token.GTR:
					o = token.LSS
				case token.GEQ:
					o = token.LEQ
				}
			} else if !(fx.Name() == "Attempt" && fy.Name() == "maximumGetAttempts") {
				continue
			}
			// which successor continues the loop (does not return immediately)?
			retSucc := func(s *ssa.BasicBlock) bool {
				// a block from which every path returns without another slot access
				seen := map[*ssa.BasicBlock]bool{}
				var rec func(x *ssa.BasicBlock) bool
				rec = func(x *ssa.BasicBlock) bool {
					if seen[x] {
						return true
					}
					seen[x] = true
					for _, i := range x.Instrs {
						if cc := callOf(i); cc != nil && cc.IsInvoke() && loadOfRecvField(fn, cc.Value, "recordArray") {
							return false
						}
					}
					for _, s2 := range x.Succs {
						if !rec(s2) {
							return false
						}
					}
					return true
				}
				return rec(s)
			}
			tRet, fRet := retSucc(b.Succs[0]), retSucc(b.Succs[1])
			if tRet == fRet {
				continue
			}
			if tRet { // false edge continues: negate
				switch o {
				case token.LSS:
					o = token.GEQ
				case token.LEQ:
					o = token.GTR
				case token.GTR:
					o = token.LEQ
				case token.GEQ:
					o = token.LSS
				}
			}
			op, pos, found = o, iff.Cond.Pos(), true
		}
		return op, pos, found
	}
	for _, fn := range []*ssa.Function{put, get} {
		op, pos, ok := contOp(fn)
		if !ok {
			c.Fail(FuncName(fn), "attempt-bound", c.Pos(fn.Pos()), "no comparison of the record's attempt number with maximumGetAttempts decides whether probing continues")
			continue
		}
		c.Check(op == token.LSS, FuncName(fn), "attempt-bound", c.Pos(pos), "probing continues only while attempt < maximumGetAttempts", "probing continues on `attempt "+op.String()+" maximumGetAttempts`: Put and Get would disagree about which attempts are reachable (records written where Get never looks, counted as inserted)")
	}
	// exits that drop a record use the dedicated collectors
	drops := map[string]bool{}
	allInstrs(put, func(ins ssa.Instruction) {
		if n := collector(put, ins); n == "putTooManyAttempts" || n == "putTooManyIterations" {
			drops[n] = true
		}
	})
	c.Check(drops["putTooManyAttempts"] && drops["putTooManyIterations"], name, "drop-collectors", c.Pos(put.Pos()), "both dropping exits report through their own collectors", "a dropping exit of Put does not report through putTooManyAttempts / putTooManyIterations")
	gdrop := false
	allInstrs(get, func(ins ssa.Instruction) {
		if collector(get, ins) == "getTooManyAttempts" {
			gdrop = true
		}
	})
	c.Check(gdrop, FuncName(get), "drop-collectors", c.Pos(get.Pos()), "the attempt-limit exit of Get is counted", "Get gives up silently at the attempt limit")
}

func runR051(c *Ctx) {
	for _, typ := range []string{"flatBlobAccess", "hierarchicalCASBlobAccess"} {
		fp := c.Method(localRel, typ, "finalizePut")
		if fp == nil {
			c.Broken("%s.finalizePut not found", typ)
			continue
		}
		n := 0
		for _, f := range c.pkgFuncs(localRel) {
			withAnon(f, func(g *ssa.Function) {
				var calls []*ssa.Call
				allInstrs(g, func(ins ssa.Instruction) {
					if cl, ok := ins.(*ssa.Call); ok && cl.Call.StaticCallee() == fp {
						calls = append(calls, cl)
					}
				})
				for _, cl := range calls {
					n++
					name := FuncName(g)
					carries := func(r *ssa.Return) bool {
						hit := false
						for _, res := range r.Results {
							deepSlice(g, res, func(x ssa.Value) bool {
								if isErrResultOf(x, cl) {
									hit = true
									return false
								}
								if c2, ok := x.(*ssa.Call); ok && c2 != cl {
									if _, isB := c2.Call.Value.(*ssa.Builtin); isB {
										return true
									}
									cc := c2.Common()
									for _, w := range []string{"StatusWrap", "StatusWrapf", "StatusWrapWithCode", "StatusWrapfWithCode"} {
										if isPkgFuncCall(cc, modPath+"/pkg/util", w) {
											return true
										}
									}
									if isPkgFuncCall(cc, modPath+"/"+bufferRel, "NewBufferFromError") {
										return true
									}
									return false
								}
								return true
							})
						}
						return hit
					}
					bad := ""
					var badPos token.Pos
					explorePaths(&pathSpec{Fn: g, Init: 0,
						Step: func(st int, ev pathEvent) int {
							if ev.Ins == ssa.Instruction(cl) {
								return 1
							}
							if st == 1 || st == 3 {
								if isNil, ok := edgeSaysErr(ev, cl); ok {
									if isNil {
										return 2
									}
									return 3
								}
							}
							return st
						},
						AtReturn: func(st int, r *ssa.Return, _ map[int]bool) {
							if (st == 3 || st == 1) && !carries(r) {
								if st == 3 {
									bad, badPos = "a path on which finalizePut failed reaches a return that does not carry its error: the operation completes successfully although the copy was not published", r.Pos()
								} else if bad == "" {
									bad, badPos = "the error of finalizePut is never tested and not returned", r.Pos()
								}
							}
						}})
					if bad != "" {
						c.Fail(name, "finalizePut-error", c.Pos(badPos), bad)
					} else {
						c.Pass(name, "finalizePut-error", c.Pos(cl.Pos()), "every path on which finalizePut fails returns its error")
					}
				}
			})
		}
		if n == 0 {
			c.Fail(typ, "finalizePut-error", c.Pos(fp.Pos()), "finalizePut is never called")
		}
	}
}

func runR055(c *Ctx) {
	fn := c.Method(localRel, "OldCurrentNewLocationBlobMap", "Get")
	if fn == nil {
		c.Broken("OldCurrentNewLocationBlobMap.Get not found")
		return
	}
	name := FuncName(fn)
	for _, r := range returnsOf(fn) {
		if len(r.Results) != 2 {
			continue
		}
		bad := ""
		usesIdx, usesOld := false, false
		backwardSlice(r.Results[1], func(x ssa.Value) bool {
			switch v := x.(type) {
			case *ssa.Const, *ssa.BinOp, *ssa.Phi, *ssa.Convert:
				return true
			case *ssa.UnOp:
				if v.Op == token.NOT || v.Op == token.SUB {
					return true
				}
				if v.Op == token.MUL {
					// load of a field
					if f, _ := loadedField(v); f != nil {
						if f.Name() == "oldBlocks" {
							usesOld = true
							return false
						}
						if f.Name() == "BlockIndex" {
							usesIdx = true
							return false
						}
						bad = "field " + f.Name()
						return false
					}
					if _, ok := v.X.(*ssa.Alloc); ok {
						return false // spilled parameter
					}
				}
				bad = "operation " + v.String()
				return false
			case *ssa.Field:
				if fieldOf(v).Name() == "BlockIndex" {
					usesIdx = true
					return false
				}
				bad = "field " + fieldOf(v).Name()
				return false
			case *ssa.Call:
				if b, ok := v.Call.Value.(*ssa.Builtin); ok && b.Name() == "len" {
					return true
				}
				bad = "call of " + calleeName(v.Common())
				return false
			case *ssa.Parameter, *ssa.Builtin:
				return false
			}
			bad = fmt.Sprintf("%T", x)
			return false
		})
		if bad == "" && !(usesIdx && usesOld) {
			bad = "it does not compare the location's BlockIndex with the number of old blocks"
		} else if bad != "" {
			bad = "the needs-refresh verdict also depends on " + bad + ": objects in old blocks could be left unrefreshed although they were just touched"
		}
		c.Check(bad == "", name, "needs-refresh", c.Pos(r.Pos()), "verdict is a function of BlockIndex and len(oldBlocks) only", bad)
	}
}

func runR053(c *Ctx) {
	pf := c.Method(localRel, "OldCurrentNewLocationBlobMap", "popFront")
	if pf == nil {
		c.Broken("OldCurrentNewLocationBlobMap.popFront not found")
		return
	}
	n := 0
	for _, f := range c.pkgFuncs(localRel) {
		withAnon(f, func(g *ssa.Function) {
			allInstrs(g, func(ins ssa.Instruction) {
				cc := callOf(ins)
				if cc == nil || cc.StaticCallee() != pf {
					return
				}
				n++
				name := FuncName(g)
				excess := dominatedByCmp(ins.Block(), func(op token.Token, x, y ssa.Value) bool {
					fy, _ := loadedField(y)
					return op == token.GTR && isLenOfField(x, "oldBlocks") && fy != nil && fy.Name() == "desiredOldBlocksCount"
				})
				condemned := dominatedByCmp(ins.Block(), func(op token.Token, x, y ssa.Value) bool {
					fx, _ := loadedField(x)
					if op != token.LSS || fx == nil || fx.Name() != "totalBlocksReleased" {
						return false
					}
					// y: totalBlocksToBeReleased.Load()
					ok := false
					backwardSlice(y, func(v ssa.Value) bool {
						if cl, isC := v.(*ssa.Call); isC && cl.Call.StaticCallee() != nil && cl.Call.StaticCallee().Name() == "Load" {
							if fa, isFA := cl.Call.Args[0].(*ssa.FieldAddr); isFA && fieldOf(fa).Name() == "totalBlocksToBeReleased" {
								ok = true
							}
							return false
						}
						return true
					})
					return ok
				})
				c.Check(excess || condemned, name, "popFront", c.Pos(ins.Pos()), "a block is dropped only in excess of the configured number of old blocks, or because it was condemned", "a block can be rotated away although the number of old blocks does not exceed the configured count (touched objects would not survive old_blocks rotations)")
			})
		})
	}
	if n < 2 {
		c.Fail("OldCurrentNewLocationBlobMap", "popFront", c.Pos(pf.Pos()), "expected a steady-state and a quarantine rotation site")
	}
}

func runR082(c *Ctx) {
	get := c.Method(localRel, "OldCurrentNewLocationBlobMap", "Get")
	inc := c.Method(localRel, "OldCurrentNewLocationBlobMap", "increaseTotalBlocksToBeReleased")
	b2i := c.Method(localRel, "OldCurrentNewLocationBlobMap", "BlockReferenceToBlockIndex")
	if get == nil || inc == nil || b2i == nil {
		c.Broken("OldCurrentNewLocationBlobMap.Get / increaseTotalBlocksToBeReleased / BlockReferenceToBlockIndex not found")
		return
	}
	// callback closure: func(bool)
	n := 0
	withAnon(get, func(g *ssa.Function) {
		allInstrs(g, func(ins ssa.Instruction) {
			cc := callOf(ins)
			if cc == nil || cc.StaticCallee() != inc {
				return
			}
			n++
			name := FuncName(g)
			// on the !dataIsValid edge, dataIsValid being the closure's parameter
			onInvalid := false
			edgeFacts(ins.Block(), func(cond ssa.Value, val bool) bool {
				c0, v := cond, val
				for {
					if u, ok := c0.(*ssa.UnOp); ok && u.Op == token.NOT {
						c0, v = u.X, !v
						continue
					}
					break
				}
				if p, ok := c0.(*ssa.Parameter); ok && p.Type().Underlying().String() == "bool" {
					onInvalid = !v
					return false
				}
				return true
			})
			// argument: captured value computed in the getter as totalBlocksReleased + BlockIndex + 1
			argOK := false
			arg := cc.Args[1]
			if u, ok := arg.(*ssa.UnOp); ok && u.Op == token.MUL {
				if fv, ok := u.X.(*ssa.FreeVar); ok {
					// find the binding in the parent
					parent := g.Parent()
					allInstrs(parent, func(pi ssa.Instruction) {
						mc, ok := pi.(*ssa.MakeClosure)
						if !ok || mc.Fn != ssa.Value(g) {
							return
						}
						for i, b := range mc.Bindings {
							if g.FreeVars[i] != fv {
								continue
							}
							if al, ok := b.(*ssa.Alloc); ok {
								for _, s := range cellStores(al) {
									rel, idx, one := false, false, false
									backwardSlice(s, func(x ssa.Value) bool {
										if f, _ := loadedField(x); f != nil {
											if f.Name() == "totalBlocksReleased" {
												rel = true
											}
											if f.Name() == "BlockIndex" {
												idx = true
											}
											return false
										}
										if fl, ok := x.(*ssa.Field); ok && fieldOf(fl).Name() == "BlockIndex" {
											idx = true
											return false
										}
										if k, ok := constInt(x); ok && k == 1 {
											one = true
										}
										if _, ok := x.(*ssa.Call); ok {
											return false
										}
										return true
									})
									if rel && idx && one {
										argOK = true
									}
								}
							}
						}
					})
				}
			}
			why := ""
			if !onInvalid {
				why = "blocks are condemned although the verdict was not negative (not on the !dataIsValid edge)"
			} else if !argOK {
				why = "the condemnation mark is not totalBlocksReleased + BlockIndex + 1 of the location being read (would condemn too few or too many blocks)"
			}
			c.Check(why == "", name, "condemn", c.Pos(ins.Pos()), "negative verdict ⇒ mark raised to (released + index of this block + 1)", why)
		})
	})
	if n == 0 {
		c.Fail(FuncName(get), "condemn", c.Pos(get.Pos()), "the integrity callback never raises the to-be-released mark: corrupted blocks would keep being served")
	}
	// monotone CAS
	okCAS := false
	allInstrs(inc, func(ins ssa.Instruction) {
		cc := callOf(ins)
		if cc == nil || cc.StaticCallee() == nil || cc.StaticCallee().Name() != "CompareAndSwap" {
			return
		}
		// dominated by new > old  (false edge of new <= old)
		okCAS = dominatedByCmp(ins.Block(), func(op token.Token, x, y ssa.Value) bool {
			_, isP := x.(*ssa.Parameter)
			return op == token.GTR && isP
		})
	})
	c.Check(okCAS, FuncName(inc), "monotone", c.Pos(inc.Pos()), "the mark is only ever raised (CAS under new > old)", "the to-be-released mark can be lowered or is not updated by compare-and-swap")
	// other writers of the counter
	for _, f := range c.pkgFuncs(localRel) {
		withAnon(f, func(g *ssa.Function) {
			allInstrs(g, func(ins ssa.Instruction) {
				cc := callOf(ins)
				if cc == nil || cc.StaticCallee() == nil || len(cc.Args) == 0 {
					return
				}
				fa, ok := cc.Args[0].(*ssa.FieldAddr)
				if !ok || fieldOf(fa).Name() != "totalBlocksToBeReleased" {
					return
				}
				switch cc.StaticCallee().Name() {
				case "Store", "Add", "Swap":
					okW := topFunc(g).Name() == "NewOldCurrentNewLocationBlobMap"
					c.Check(okW, FuncName(g), "counter-writer", c.Pos(ins.Pos()), "constructor initialisation", "totalBlocksToBeReleased is written outside increaseTotalBlocksToBeReleased / the constructor")
				}
			})
		})
	}
	// resolver consults the mark
	okRes := false
	for _, r := range returnsOf(b2i) {
		if len(r.Results) == 3 && isBoolConst(r.Results[2], false) {
			if dominatedByCmp(r.Block(), func(op token.Token, x, y ssa.Value) bool {
				if op != token.LSS {
					return false
				}
				hit := false
				backwardSlice(y, func(v ssa.Value) bool {
					if cl, isC := v.(*ssa.Call); isC && cl.Call.StaticCallee() != nil && cl.Call.StaticCallee().Name() == "Load" {
						if fa, isFA := cl.Call.Args[0].(*ssa.FieldAddr); isFA && fieldOf(fa).Name() == "totalBlocksToBeReleased" {
							hit = true
						}
						return false
					}
					return true
				})
				return hit
			}) {
				okRes = true
			}
		}
	}
	c.Check(okRes, FuncName(b2i), "resolver", c.Pos(b2i.Pos()), "block references below the to-be-released mark do not resolve", "BlockReferenceToBlockIndex resolves references into condemned blocks: corrupted and older blocks would still be served")
}
