package main

import (
	"encoding/json"
	"fmt"
	"go/constant"
	"go/token"
	"go/types"
	"os"
	"path/filepath"
	"sort"
	"strings"

	"golang.org/x/tools/go/ssa"
)

// ---------------------------------------------------------------------------
// "Same sites, different inputs."
//
// For every call through a module interface (and every call of a function of
// the module), the *provenance* of each argument is computed inside the
// enclosing function: which parameters (by position), which struct fields (by
// index and type), which callees' results, which constants and globals the
// value is built from – through phis, local cells, captured variables,
// conversions, indexing and arithmetic.  Names of locals, the shape of loops
// and conditions, temporaries and operand order do not enter.  The reference
// tree's table (/verif/reference/provenance.json) is the reference through
// time: when a function has the same number of call sites of a callee as on
// the reference tree, every site's input provenance must be one that occurs
// there.  "The wrong variable" – the other replicator, the unpatched digest,
// the parent's key instead of the child's, the first member's verdicts instead
// of this one's – changes a provenance and nothing else.  Sites that moved to
// another function, or functions whose number of such calls changed, are not
// judged.

type provRef struct {
	Note  string                         `json:"note"`
	Funcs map[string]map[string][]string `json:"funcs"`
	// Sigs: per function, every callee (also outside the module) with the
	// number of calls – a function is judged only while this signature is
	// unchanged, i.e. while no helper was extracted, inlined or renamed and
	// no call was added or removed
	Sigs map[string][]string `json:"sigs"`
	// Defined: every function the reference tree defines (as a callee id) – a call of a
	// function that is not among them is a call of a new helper
	Defined []string `json:"defined"`
	// Types: the Go signature of every function the reference tree defines, by callee id and by function key –
	// a function whose signature changed (a helper that now takes the set instead of the digest) is a
	// different function under the old name: neither it nor the calls of it are compared
	Types map[string]string `json:"types"`
}

func signatureTable(p *Program) map[string]string {
	out := map[string]string{}
	for _, f := range p.Funcs {
		if f.Object() != nil {
			if o, ok := f.Object().(*types.Func); ok {
				out["S:"+o.FullName()] = typeKey(f.Signature)
			}
		}
		out[FuncName(f)] = typeKey(f.Signature)
	}
	return out
}

// definedCallees: callee ids of all source functions of the program.
func definedCallees(p *Program) map[string]bool {
	out := map[string]bool{}
	for _, f := range p.Funcs {
		if f.Object() != nil {
			if o, ok := f.Object().(*types.Func); ok {
				out["S:"+o.FullName()] = true
				continue
			}
		}
		out["S:"+f.String()] = true
	}
	return out
}

// replacedCalls: callees the function calls less often than on the reference tree (and that
// still exist) and callees it calls more often (and that already existed) – formatting, logging,
// metrics, error construction and time keeping aside.
func replacedCalls(refSig, curSig []string, refDefined, curDefined map[string]bool) (lost, gained []string) {
	parse := func(sig []string) map[string]int {
		m := map[string]int{}
		for _, e := range sig {
			if i := strings.LastIndex(e, "×"); i >= 0 {
				n := 0
				fmt.Sscanf(e[i+len("×"):], "%d", &n)
				m[e[:i]] = n
			}
		}
		return m
	}
	benign := func(id string) bool {
		for _, p := range []string{"S:fmt.", "S:log.", "S:errors.", "S:time.", "(time.", "S:strings.", "S:strconv.", "google.golang.org/grpc/status", "google.golang.org/grpc/codes", "prometheus", "/pkg/util.StatusWrap", "/pkg/util.StatusFrom", "S:sync.", "(*sync.", "sync/atomic", "S:sort.", "S:slices.", "S:context.", "(context."} {
			if strings.Contains(id, p) {
				return true
			}
		}
		name := id
		if i := strings.LastIndex(name, "."); i >= 0 {
			name = name[i+1:]
		}
		return pureLooking(name) || id == "dyn"
	}
	isModuleStatic := func(id string) bool {
		return strings.HasPrefix(id, "S:") && strings.Contains(id, modPath)
	}
	short := func(id string) string {
		if i := strings.LastIndex(id, "/"); i >= 0 {
			return id[i+1:]
		}
		return id
	}
	r, c := parse(refSig), parse(curSig)
	for id, n := range r {
		if n > c[id] && !benign(id) && (!isModuleStatic(id) || curDefined[id]) {
			lost = append(lost, short(id))
		}
	}
	for id, n := range c {
		if n > r[id] && !benign(id) && (!isModuleStatic(id) || refDefined[id]) {
			gained = append(gained, short(id))
		}
	}
	sort.Strings(lost)
	sort.Strings(gained)
	return
}

// gateOpen: the function's calls differ from the reference only by calls of functions that
// exist on both trees (a step was added, removed or replaced) – not by a helper that was
// extracted (a callee the reference tree does not define) or inlined (a callee the current
// tree no longer defines); in the latter cases the provenance of every site changes shape
// and nothing is judged.
func gateOpen(refSig, curSig []string, refDefined, curDefined map[string]bool) bool {
	parse := func(sig []string) map[string]int {
		m := map[string]int{}
		for _, e := range sig {
			if i := strings.LastIndex(e, "×"); i >= 0 {
				n := 0
				fmt.Sscanf(e[i+len("×"):], "%d", &n)
				m[e[:i]] = n
			}
		}
		return m
	}
	r, c := parse(refSig), parse(curSig)
	isModuleStatic := func(id string) bool {
		return strings.HasPrefix(id, "S:") && strings.Contains(id, modPath)
	}
	for id, n := range c {
		if n > r[id] && isModuleStatic(id) && !refDefined[id] {
			return false
		}
		if id == "dyn" && n != r[id] {
			return false
		}
	}
	for id, n := range r {
		if n > c[id] && isModuleStatic(id) && !curDefined[id] {
			return false
		}
		if id == "dyn" && n != c[id] {
			return false
		}
	}
	return true
}

var provGroups = groupsOf([][]string{
	{"R01.12", "local"},
	{"R09.8", "buffer"},
	{"R11.8", "mirrored"},
	{"R12.10", "sharding"},
	{"R13.8", "completeness"},
	{"R14.9", "grpc"},
	{"R17.8", "replication"},
	{"R18.9", "top"},
	{"R20.10", "digest"},
	{"R02.13", "config"},
})

func init() {
	for i := range provGroups {
		g := provGroups[i]
		register(&Rule{
			ID: g.rule, Props: g.props, Engine: "argument-provenance drift against the reference tree (SSA backward slices)",
			Text:  "same sites, same inputs (" + strings.Join(g.pkgs, ", ") + "): in every function that has as many calls of a given callee (interface method of the module, or function of the module) as on the reference tree, the provenance of each argument – parameters by position, struct fields by index and type, callees whose results flow in, constants, globals – is one that occurs among those calls on the reference tree; a call that now receives the other backend, the unpatched digest, another key or another list is how `the wrong variable` looks",
			Floor: 1, MustExist: false, Run: func(c *Ctx) { runProvDrift(c, g.pkgs) },
		})
	}
}

type provWalker struct {
	top   ssa.Value       // the value whose provenance is asked for (conversions stripped)
	use   ssa.Instruction // the call whose inputs are being traced
	fn    *ssa.Function
	roots map[string]bool
	seen  map[ssa.Value]int // value -> 1 + the smallest call depth it was visited at (the result must not depend on the order of the walk)
	nodes int
	// overflow: the walk was cut off; the provenance is incomplete and is not compared
	overflow bool
}

func calleeID(cc *ssa.CallCommon) string {
	if sc := cc.StaticCallee(); sc != nil && sc.Synthetic == "package initializer" {
		return "B:init" // an imported package's initialiser: an import was added or removed, nothing else
	}
	if cc.IsInvoke() {
		return "I:" + cc.Method.FullName()
	}
	if sc := cc.StaticCallee(); sc != nil {
		if sc.Object() != nil {
			return "S:" + sc.Object().(*types.Func).FullName()
		}
		return "S:" + sc.String()
	}
	if bi, ok := cc.Value.(*ssa.Builtin); ok {
		return "B:" + bi.Name()
	}
	return "dyn"
}

func typeKey(t types.Type) string {
	return types.TypeString(t, func(p *types.Package) string { return p.Name() })
}

func (w *provWalker) addr(a ssa.Value, depth int) {
	switch x := a.(type) {
	case *ssa.FieldAddr:
		st := x.X.Type().Underlying().(*types.Pointer).Elem().Underlying().(*types.Struct)
		ci, _ := canonField(x.X.Type(), x.Field)
		w.roots[fmt.Sprintf("f%d:%s", ci, typeKey(st.Field(x.Field).Type()))] = true
		// a field of a value the function has just built (a literal, a local struct): what was stored
		// into *that field* – not what the other fields of the value were initialised with
		var path []int
		root := ssa.Value(x)
		for {
			if f2, ok := root.(*ssa.FieldAddr); ok {
				path = append([]int{f2.Field}, path...)
				root = f2.X
				continue
			}
			break
		}
		if al, ok := root.(*ssa.Alloc); ok {
			w.allocPath(al, path, depth, 0)
			return
		}
		w.addr(x.X, depth)
	case *ssa.IndexAddr:
		w.walk(x.Index, depth)
		w.addr(x.X, depth)
	default:
		w.walk(a, depth)
	}
}

// isNewField: the struct on the reference tree has no field that corresponds to this one.
func isNewField(fa *ssa.FieldAddr) bool {
	ci, _ := canonField(fa.X.Type(), fa.Field)
	return ci >= 1000
}

// allocPath: the values stored into the part of a local allocation that is reached from base by
// the field path – stores to exactly that part, to something inside it, or to a whole that contains it.
func (w *provWalker) allocPath(base ssa.Value, path []int, depth, n int) {
	refs := base.Referrers()
	if refs == nil || n > 6 {
		return
	}
	reaches := func(st *ssa.Store) bool {
		if w.use == nil || st.Parent() != w.use.Parent() {
			return true
		}
		return reachableAvoiding(st, w.use, func(ssa.Instruction) bool { return false })
	}
	for _, r := range *refs {
		switch t := r.(type) {
		case *ssa.Store:
			if t.Addr == base && reaches(t) {
				w.walk(t.Val, depth) // the whole (sub)value is overwritten
			}
		case *ssa.FieldAddr:
			if t.X != base {
				continue
			}
			if len(path) == 0 {
				w.allocPath(t, nil, depth, n+1) // something inside the part
			} else if t.Field == path[0] {
				w.allocPath(t, path[1:], depth, n+1)
			}
		case *ssa.IndexAddr:
			if t.X == base && len(path) == 0 {
				w.allocPath(t, nil, depth, n+1)
			}
		}
	}
}

func (w *provWalker) walk(v ssa.Value, depth int) {
	if v == nil {
		return
	}
	if d, ok := w.seen[v]; ok && d <= depth+1 {
		return
	}
	if w.nodes > 2000 {
		w.overflow = true
		return
	}
	w.seen[v] = depth + 1
	w.nodes++
	// an error that is known to be nil where it is used is nil, however it is spelt
	// (`return x, err` after `if err != nil { return … }` and `return x, nil` are the same return)
	if w.use != nil && isErrorType(v.Type()) {
		if _, isConst := v.(*ssa.Const); !isConst && w.use.Block() != nil && w.use.Parent() == w.fn && dominatedByNilEdge(w.use.Block(), func(x ssa.Value) bool { return x == v }, true) {
			w.roots["nil"] = true
			return
		}
	}
	switch x := v.(type) {
	case *ssa.Const:
		if x.Value == nil {
			w.roots["nil"] = true
			return
		}
		switch x.Value.Kind() {
		case constant.Bool:
			w.roots["b:"+x.Value.String()] = true
		case constant.Int:
			// an integer that is the whole value (a status code, a size limit passed
			// as such) is an input; one that is an operand of arithmetic on other
			// inputs (end-1 vs. end-2+1) is how a computation is spelled
			if k, ok := constant.Int64Val(x.Value); ok && w.top == ssa.Value(x) {
				w.roots[fmt.Sprintf("k:%d", k)] = true
			}
		}
	case *ssa.Parameter:
		for i, p := range x.Parent().Params {
			if p == x {
				w.roots[fmt.Sprintf("p%d", i)] = true
			}
		}
	case *ssa.FreeVar:
		// resolve through the closure's creation site
		g := x.Parent()
		if g == nil || g.Parent() == nil {
			return
		}
		idx := -1
		for i, fv := range g.FreeVars {
			if fv == x {
				idx = i
			}
		}
		allInstrs(g.Parent(), func(pi ssa.Instruction) {
			if mc, ok := pi.(*ssa.MakeClosure); ok && mc.Fn == ssa.Value(g) && idx >= 0 && idx < len(mc.Bindings) {
				w.walk(mc.Bindings[idx], depth)
			}
		})
	case *ssa.Global:
		w.roots["g:"+x.Pkg.Pkg.Name()+"."+x.Name()] = true
	case *ssa.Function:
		// which function is handed on matters (the tree hasher or the plain one, this backend's method or that one's)
		if o, ok := x.Object().(*types.Func); ok && x.Parent() == nil {
			w.roots["fn:"+o.FullName()] = true
		} else {
			w.roots["fn"] = true
		}
	case *ssa.Builtin:
	case *ssa.Alloc:
		// a local cell or a literal: everything stored into it that can reach the use
		reaches := func(st *ssa.Store) bool {
			if w.use == nil || st.Parent() != w.use.Parent() {
				return true
			}
			return reachableAvoiding(st, w.use, func(ssa.Instruction) bool { return false })
		}
		if refs := x.Referrers(); refs != nil {
			for _, r := range *refs {
				switch s := r.(type) {
				case *ssa.Store:
					if s.Addr == ssa.Value(x) && reaches(s) {
						w.walk(s.Val, depth)
					}
				case *ssa.FieldAddr, *ssa.IndexAddr:
					// stores into parts of the cell, however deeply nested (x.a.b = v, x.a[i] = v)
					var sub func(a ssa.Value, n int)
					sub = func(a ssa.Value, n int) {
						rr := a.Referrers()
						if rr == nil || n > 4 {
							return
						}
						for _, q := range *rr {
							switch t := q.(type) {
							case *ssa.Store:
								if t.Addr == a && reaches(t) {
									w.walk(t.Val, depth)
								}
							case *ssa.FieldAddr:
								if t.X == a && !isNewField(t) {
									sub(t, n+1)
								}
							case *ssa.IndexAddr:
								if t.X == a {
									sub(t, n+1)
								}
							}
						}
					}
					if fa, isFA := s.(*ssa.FieldAddr); isFA && isNewField(fa) {
						break // a field the reference struct does not have: what it is initialised with is no part of what the value was
					}
					sub(s.(ssa.Value), 0)
				case *ssa.MakeClosure:
					// the cell is captured: what the closure stores into it
					if cf, ok := s.Fn.(*ssa.Function); ok {
						for i, b := range s.Bindings {
							if b == ssa.Value(x) && i < len(cf.FreeVars) {
								if rr := cf.FreeVars[i].Referrers(); rr != nil {
									for _, q := range *rr {
										if st, ok := q.(*ssa.Store); ok && st.Addr == ssa.Value(cf.FreeVars[i]) {
											w.walk(st.Val, depth)
										}
									}
								}
							}
						}
					}
				}
			}
		}
	case *ssa.UnOp:
		if x.Op == token.MUL {
			w.addr(x.X, depth)
			return
		}
		w.walk(x.X, depth)
	case *ssa.Field:
		st := x.X.Type().Underlying().(*types.Struct)
		ci, _ := canonField(x.X.Type(), x.Field)
		w.roots[fmt.Sprintf("f%d:%s", ci, typeKey(st.Field(x.Field).Type()))] = true
		w.walk(x.X, depth)
	case *ssa.FieldAddr, *ssa.IndexAddr:
		w.addr(x, depth)
	case *ssa.Call:
		// a generated accessor (`m.GetField()` of a message that has the field `Field` of the result's
		// type) is the field read
		if sc := x.Call.StaticCallee(); sc != nil && sc.Signature.Recv() != nil && strings.HasPrefix(sc.Name(), "Get") && len(x.Call.Args) == 1 && sc.Signature.Results().Len() == 1 {
			if pt, ok := sc.Signature.Recv().Type().Underlying().(*types.Pointer); ok {
				if st, ok := pt.Elem().Underlying().(*types.Struct); ok {
					for i := 0; i < st.NumFields(); i++ {
						if st.Field(i).Name() == strings.TrimPrefix(sc.Name(), "Get") && types.Identical(st.Field(i).Type(), sc.Signature.Results().At(0).Type()) {
							ci, _ := canonField(sc.Signature.Recv().Type(), i)
							w.roots[fmt.Sprintf("f%d:%s", ci, typeKey(st.Field(i).Type()))] = true
							w.walk(x.Call.Args[0], depth)
							return
						}
					}
				}
			}
		}
		if sc := x.Call.StaticCallee(); sc != nil && isErrorConstructor(sc) {
			// an error that is built here: which error it wraps and which status code it carries is what
			// it is; how the message is worded, and what is quoted in it, is not (StatusWrap ↔ StatusWrapf)
			// wrapping an error (more context, same error, same code) leaves it the error it was
			if !(sc.Pkg != nil && sc.Pkg.Pkg.Path() == modPath+"/pkg/util" && (sc.Name() == "StatusWrap" || sc.Name() == "StatusWrapf")) {
				w.roots["c:error"] = true
			}
			for _, a := range errCtorInputs(x.Common()) {
				if k, isK := stripConv(a).(*ssa.Const); isK && k.Value != nil && k.Value.Kind() == constant.Int {
					w.roots["code:"+k.Value.String()] = true
					continue
				}
				w.walk(a, depth)
			}
			return
		}
		id := calleeID(x.Common())
		if capacityHintCallee[id] {
			w.roots["c:"+id] = true
			return
		}
		if !strings.HasPrefix(id, "B:") {
			w.roots["c:"+id] = true
		}
		// what the call was applied to matters (which builder, which backend),
		// but only nearby: the inputs of a call that feeds the value are followed, those of calls feeding *them* are not
		// time and math values are computed with calls (`t.Add(d).Sub(now)`): that is arithmetic, and
		// which duration goes into it matters as much as which operand of a `+`
		next := depth + 1
		if sc := x.Call.StaticCallee(); sc != nil && sc.Pkg != nil {
			switch sc.Pkg.Pkg.Path() {
			case "time", "math", "math/bits":
				next = depth
			}
		}
		if depth >= 1 && next > depth {
			return
		}
		if x.Call.IsInvoke() {
			w.walk(x.Call.Value, next)
		}
		for _, a := range x.Call.Args {
			w.walk(a, next)
		}
	case *ssa.Extract:
		w.roots[fmt.Sprintf("#%d", x.Index)] = true
		w.walk(x.Tuple, depth)
	case *ssa.Phi:
		for _, e := range x.Edges {
			w.walk(e, depth)
		}
	case *ssa.MakeClosure:
		// a bound method value is the method; a function literal is "a literal"
		if f, ok := x.Fn.(*ssa.Function); ok && f.Synthetic != "" && f.Object() != nil {
			w.roots["fn:"+f.Object().Name()] = true
		} else {
			w.roots["fn:literal"] = true
		}
	case *ssa.MakeMap, *ssa.MakeSlice, *ssa.MakeChan:
		// freshly allocated, like a nil slice or map that is appended to: where the room comes from
		// (and how much is reserved up front) is no input
	case *ssa.Next:
		w.walk(x.Iter, depth)
	case *ssa.Range:
		w.walk(x.X, depth)
	case *ssa.Select:
		w.roots["select"] = true
	default:
		if ins, ok := v.(ssa.Instruction); ok {
			for _, op := range ins.Operands(nil) {
				if *op != nil {
					w.walk(*op, depth)
				}
			}
		}
	}
}

// capacityHintCallee: constructors whose only argument is a capacity hint (how much room to reserve
// up front changes no result).
var capacityHintCallee = map[string]bool{
	"S:" + modPath + "/pkg/digest.NewSetBuilder": true,
}

// errCtorInputs: the arguments of an error constructor that determine which error it is – wrapped
// errors and the status code; message, format and the values quoted in the message are left out.
func errCtorInputs(cc *ssa.CallCommon) []ssa.Value {
	var out []ssa.Value
	for _, a := range cc.Args {
		t := a.Type()
		if isErrorType(t) {
			out = append(out, a)
			continue
		}
		if n, ok := t.(*types.Named); ok && n.Obj().Pkg() != nil && n.Obj().Pkg().Path() == "google.golang.org/grpc/codes" {
			out = append(out, a)
			continue
		}
		// variadic arguments of fmt.Errorf: an error among them may be wrapped (%w); what a gRPC status
		// quotes in its message is message
		if sc := cc.StaticCallee(); sc == nil || sc.Pkg == nil || sc.Pkg.Pkg.Path() != "fmt" {
			continue
		}
		if sl, ok := stripConv(a).(*ssa.Slice); ok {
			if al, ok := sl.X.(*ssa.Alloc); ok {
				if refs := al.Referrers(); refs != nil {
					for _, r := range *refs {
						ia, ok := r.(*ssa.IndexAddr)
						if !ok || ia.Referrers() == nil {
							continue
						}
						for _, q := range *ia.Referrers() {
							if st, ok := q.(*ssa.Store); ok && st.Addr == ssa.Value(ia) {
								v := st.Val
								if mi, ok := v.(*ssa.MakeInterface); ok {
									v = mi.X
								}
								if isErrorType(v.Type()) {
									out = append(out, v)
								}
							}
						}
					}
				}
			}
		}
	}
	return out
}

func provOf(fn *ssa.Function, use ssa.Instruction, v ssa.Value) string {
	w := &provWalker{fn: fn, use: use, top: stripConv(v), roots: map[string]bool{}, seen: map[ssa.Value]int{}}
	w.walk(v, 0)
	if w.overflow {
		return provCut
	}
	var rs []string
	for r := range w.roots {
		rs = append(rs, r)
	}
	sort.Strings(rs)
	return strings.Join(rs, ",")
}

// provCut marks a provenance whose backward slice hit the size bound.
const provCut = "<slice cut off>"

type provSite struct {
	tuple string
	pos   token.Pos
}

// callSignature: "callee×count" for every call, go and defer of fn.
func callSignature(g *ssa.Function) []string {
	cnt := map[string]int{}
	allInstrs(g, func(ins ssa.Instruction) {
		cc := callOf(ins)
		if cc == nil {
			return
		}
		id := calleeID(cc)
		if strings.HasPrefix(id, "B:") {
			return
		}
		cnt[id]++
	})
	var out []string
	for id, n := range cnt {
		out = append(out, fmt.Sprintf("%s×%d", id, n))
	}
	sort.Strings(out)
	return out
}

var provSigs = map[string][]string{}

// collectProv: function key -> callee id -> sites.
func collectProv(p *Program, pkgs []string) map[string]map[string][]provSite {
	out := map[string]map[string][]provSite{}
	for _, rel := range pkgs {
		for _, tf := range p.srcFuncs(rel) {
			withAnon(tf, func(g *ssa.Function) {
				fk := refKey(g)
				if fk == "" {
					return
				}
				provSigs[fk] = callSignature(g)
				add := func(id, tuple string, pos token.Pos) {
					if out[fk] == nil {
						out[fk] = map[string][]provSite{}
					}
					out[fk][id] = append(out[fk][id], provSite{tuple, pos})
				}
				allInstrs(g, func(ins ssa.Instruction) {
					switch x := ins.(type) {
					case *ssa.If:
						cond := x.Cond
						for {
							if u, ok := cond.(*ssa.UnOp); ok && u.Op == token.NOT {
								cond = u.X
								continue
							}
							break
						}
						if x, _, isNT := nilTest(cond); isNT && isErrorType(x.Type()) {
							// whether an error is nil: which error variable carries it there is a matter of
							// style (one `err` re-used, or one per call); what is done on either side is
							// what the skip rules look at
							return
						}
						if bo, ok := cond.(*ssa.BinOp); ok && condKind(cond) != "loop" {
							// which quantities are compared – not against which small number
							// (loop bounds and counters are respelled freely)
							a, b := provOf(g, ins, bo.X), provOf(g, ins, bo.Y)
							if _, isC := stripConv(bo.X).(*ssa.Const); isC && isIntVal(bo.X) {
								a = ""
							}
							if _, isC := stripConv(bo.Y).(*ssa.Const); isC && isIntVal(bo.Y) {
								b = ""
							}
							if b < a {
								a, b = b, a
							}
							pos := bo.Pos()
							if !pos.IsValid() {
								pos = g.Pos()
							}
							add("CMP", a+" ~ "+b, pos)
						}
						return
					case *ssa.Return:
						var parts []string
						for _, r := range x.Results {
							parts = append(parts, provOf(g, ins, r))
						}
						if len(parts) > 0 {
							add("RET", strings.Join(parts, " ; "), x.Pos())
						}
						return
					case *ssa.MapUpdate:
						add("MAPKEY", provOf(g, ins, x.Key), x.Pos())
						return
					case *ssa.Lookup:
						if _, isMap := x.X.Type().Underlying().(*types.Map); isMap {
							pos := x.Pos()
							if !pos.IsValid() {
								pos = g.Pos()
							}
							add("MAPKEY", provOf(g, ins, x.Index), pos)
						}
						return
					case *ssa.Store:
						if fa, ok := x.Addr.(*ssa.FieldAddr); ok {
							st := fa.X.Type().Underlying().(*types.Pointer).Elem().Underlying().(*types.Struct)
							add(fmt.Sprintf("ST:f%d:%s", func() int { ci, _ := canonField(fa.X.Type(), fa.Field); return ci }(), typeKey(st.Field(fa.Field).Type())), provOf(g, ins, x.Val), x.Pos())
						}
						return
					}
					cl, ok := ins.(*ssa.Call)
					if !ok {
						return
					}
					cc := cl.Common()
					id := calleeID(cc)
					judged := false
					if cc.IsInvoke() {
						judged = moduleIface(cc.Value.Type()) != nil
					} else if sc := cc.StaticCallee(); sc != nil && sc.Pkg != nil && strings.HasPrefix(sc.Pkg.Pkg.Path(), modPath) && sc.Parent() == nil {
						judged = true
					} else if sc != nil && sc.Pkg != nil && sc.Signature.Recv() != nil && sc.Parent() == nil {
						// a method of a library object that coordinates or carries state (which errgroup a
						// goroutine is started on, which wait group, which pool, which writer)
						switch sc.Pkg.Pkg.Path() {
						case "golang.org/x/sync/errgroup", "sync", "golang.org/x/sync/semaphore", "container/heap", "bufio", "io", "os":
							judged = true
						}
					}
					if !judged || capacityHintCallee[id] {
						return
					}
					var parts []string
					if sc := cc.StaticCallee(); sc != nil && isErrorConstructor(sc) {
						for _, a := range errCtorInputs(cc) {
							parts = append(parts, provOf(g, cl, a))
						}
						add("ERR", strings.Join(parts, " ; "), cl.Pos())
						return
					}
					if cc.IsInvoke() {
						parts = append(parts, provOf(g, cl, cc.Value))
					}
					for _, a := range cc.Args {
						parts = append(parts, provOf(g, cl, a))
					}
					add(id, strings.Join(parts, " ; "), cl.Pos())
				})
			})
		}
	}
	return out
}

func allProvPkgs() []string {
	var out []string
	for _, g := range provGroups {
		out = append(out, g.pkgs...)
	}
	return out
}

func genProvReference(repo string) error {
	p, err := LoadProgram(repo, BuildConfig{"linux", "amd64"}, false, nil)
	if err != nil {
		return err
	}
	sites := collectProv(p, allProvPkgs())
	ref := provRef{Sigs: map[string][]string{}, Note: "provenance of the arguments of calls through module interfaces and of module functions on the reference tree (pinned tree + fix: commits); generated by `bbcheck -gen-reference`, never written by a check", Funcs: map[string]map[string][]string{}}
	for fk, m := range sites {
		ref.Sigs[fk] = provSigs[fk]
		ref.Funcs[fk] = map[string][]string{}
		for id, ss := range m {
			var ts []string
			for _, s := range ss {
				ts = append(ts, s.tuple)
			}
			sort.Strings(ts)
			ref.Funcs[fk][id] = ts
		}
	}
	for id := range definedCallees(p) {
		ref.Defined = append(ref.Defined, id)
	}
	sort.Strings(ref.Defined)
	ref.Types = signatureTable(p)
	b, _ := json.MarshalIndent(ref, "", " ")
	if err := os.MkdirAll(refDir, 0o755); err != nil {
		return err
	}
	return os.WriteFile(filepath.Join(refDir, "provenance.json"), append(b, '\n'), 0o644)
}

var provRefCache *provRef

func loadProvRef() (*provRef, error) {
	if provRefCache != nil {
		return provRefCache, nil
	}
	b, err := os.ReadFile(filepath.Join(refDir, "provenance.json"))
	if err != nil {
		return nil, err
	}
	var r provRef
	if err := json.Unmarshal(b, &r); err != nil {
		return nil, err
	}
	provRefCache = &r
	return &r, nil
}

func runProvDrift(c *Ctx, pkgs []string) {
	if !referenceConfig(c) {
		return
	}
	ref, err := loadProvRef()
	if err != nil {
		c.Broken("reference table of argument provenance cannot be read: %v", err)
		return
	}
	cur := collectProv(c.Program, pkgs)
	refDefined := map[string]bool{}
	for _, id := range ref.Defined {
		refDefined[id] = true
	}
	curDefined := definedCallees(c.Program)
	var fks []string
	for fk := range cur {
		fks = append(fks, fk)
	}
	sort.Strings(fks)
	curTypes := signatureTable(c.Program)
	for _, fk := range fks {
		rf, known := ref.Funcs[fk]
		if !known {
			continue
		}
		if rt, ok := ref.Types[fk]; ok && curTypes[fk] != "" && rt != curTypes[fk] {
			continue // the function's own signature changed: its parameters are not what they were
		}
		if strings.Join(ref.Sigs[fk], "|") != strings.Join(provSigs[fk], "|") && !gateOpen(ref.Sigs[fk], provSigs[fk], refDefined, curDefined) {
			continue // a helper was extracted or inlined: the provenance of every site changes shape, not judged
		}
		if lost, gained := replacedCalls(ref.Sigs[fk], provSigs[fk], refDefined, curDefined); len(lost) > 0 && len(gained) > 0 {
			pos := token.NoPos
			for _, ss := range cur[fk] {
				if len(ss) > 0 && (pos == token.NoPos || ss[0].pos < pos) {
					pos = ss[0].pos
				}
			}
			c.Fail(fk, "same-calls", c.Pos(pos), fmt.Sprintf("a call of %s was replaced by a call of %s – both exist on the reference tree, so this is not a helper that was extracted or inlined but a different operation in the place of the old one (the unvalidated variant instead of the validated one, the other backend's method, a different library routine)", strings.Join(lost, ", "), strings.Join(gained, ", ")))
		} else {
			c.Pass(fk, "same-calls", "-", "no call was replaced by a call of another existing function")
		}
		var ids []string
		for id := range cur[fk] {
			ids = append(ids, id)
		}
		sort.Strings(ids)
		for _, id := range ids {
			want, ok := rf[id]
			if !ok || len(want) != len(cur[fk][id]) {
				continue // sites were added, removed or moved: not judged
			}
			if rt, known := ref.Types[id]; known && curTypes[id] != "" && rt != curTypes[id] {
				continue // the callee's signature changed: what it is handed is necessarily different
			}
			wild := false
			for _, t := range want {
				if strings.Contains(t, provCut) {
					wild = true
				}
			}
			for _, st := range cur[fk][id] {
				if strings.Contains(st.tuple, provCut) {
					wild = true
				}
			}
			if wild {
				continue // a backward slice was cut off: incomplete, not compared
			}
			remaining := map[string]int{}
			for _, t := range want {
				remaining[t]++
			}
			short := id
			if i := strings.LastIndex(short, "/"); i >= 0 {
				short = short[i+1:]
			}
			var bad *provSite
			for i := range cur[fk][id] {
				s := cur[fk][id][i]
				if remaining[s.tuple] > 0 {
					remaining[s.tuple]--
					continue
				}
				if bad == nil {
					bad = &cur[fk][id][i]
				}
			}
			if bad == nil {
				c.Pass(fk, "same-inputs "+short, c.Pos(cur[fk][id][0].pos), "every call receives inputs of the provenance it has on the reference tree")
				continue
			}
			// which reference tuple is left over (what it used to receive)
			var was []string
			for t, n := range remaining {
				if n > 0 {
					was = append(was, t)
				}
			}
			sort.Strings(was)
			what := "a call of " + short + " receives inputs it never receives"
			switch {
			case id == "CMP":
				what = "a branch condition compares values it never compares"
			case id == "RET":
				what = "a return hands back values it never returns"
			case strings.HasPrefix(id, "ST:"):
				what = "a field (" + short + ") is assigned a value it is never assigned"
			case id == "MAPKEY":
				what = "a map is indexed with a key it is never indexed with"
			case id == "ERR":
				what = "an error is built from an error or a status code it is never built from"
			}
			c.Fail(fk, "same-inputs "+short, c.Pos(bad.pos), fmt.Sprintf("%s on the reference tree (the function has the same number of such sites and the same calls): now built from {%s}; on the reference tree {%s} – a different variable, field or result is used", what, bad.tuple, strings.Join(was, " | ")))
		}
	}
}
