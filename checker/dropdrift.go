package main

import (
	"encoding/json"
	"fmt"
	"go/constant"
	"go/token"
	"go/types"
	"os"
	"path/filepath"
	"sort"
	"strings"

	"golang.org/x/tools/go/ssa"
)

// ---------------------------------------------------------------------------
// "Nothing a function did is silently dropped."
//
// Per function of the reference tree: the multiset of calls with an effect
// (everything except builtins and getters – Get*/Is*/Has*/Len*/String/Empty/
// Items/First – which a tidy-up may legitimately evaluate once instead of
// twice) and the set of struct fields it assigns (composite literals
// included).  On the current tree a function that only *lost* some of these –
// nothing new is called in their place, so the work did not move into a helper
// or get replaced by an equivalent – has dropped a step: a Discard, Close,
// Release or Unlock on one path, a counter that is no longer adjusted, a field
// a constructor no longer initialises, an error no longer forwarded.

type dropRef struct {
	Note    string              `json:"note"`
	Calls   map[string][]string `json:"calls"`   // function -> sorted multiset of effectful callees
	Fields  map[string][]string `json:"fields"`  // function -> sorted set of assigned fields
	Funcs   []string            `json:"funcs"`   // full names of the declared functions
	Gos     map[string]int      `json:"gos"`     // function -> number of go statements
	Rejects map[string][]string `json:"rejects"` // function -> the constant messages of the errors it constructs
	RejectN map[string]int      `json:"reject_n"` // function -> number of error constructions
	Must    map[string][]string `json:"must"`    // function -> effectful callees that are called on every path to a return
	Params  map[string][]string `json:"params"`  // function -> per parameter (receiver first): its type if the parameter is used, "" if not
}

var dropGroups = groupsOf([][]string{
	{"R01.16", "local"},
	{"R09.11", "buffer"},
	{"R11.11", "mirrored", "sharding", "completeness", "replication"},
	{"R14.11", "grpc"},
	{"R18.11", "top"},
	{"R20.16", "digest"},
	{"R02.15", "config"},
})

func init() {
	for i := range dropGroups {
		g := dropGroups[i]
		register(&Rule{
			ID: g.rule, Props: g.props, Engine: "dropped-step drift against the reference tree (call multiset and assigned-field set per function)",
			Text:  "nothing a function did is silently dropped (" + strings.Join(g.pkgs, ", ") + "): compared with the same function on the reference tree, a function that calls nothing new may not have lost a call with an effect (anything but builtins and getters) nor stopped assigning a struct field it used to assign – a release, close, unlock, notification, counter adjustment or field initialisation that simply disappears from one function, with nothing taking its place",
			Floor: 1, MustExist: false, Run: func(c *Ctx) { runDropDrift(c, g.pkgs) },
		})
	}
}

func pureLooking(name string) bool {
	for _, p := range []string{"Get", "Is", "Has", "Len", "String", "Empty", "Items", "First", "Errorf", "Error", "New", "Sprintf", "Now", "Since", "Code", "Convert", "Format", "Parse", "Itoa", "Join", "Split", "To", "Contains", "Equal", "Compare", "Min", "Max", "Duration", "Before", "After", "Sub", "Add", "As", "Unwrap"} {
		if strings.HasPrefix(name, p) && (len(name) == len(p) || name[len(p)] < 'a' || name[len(p)] > 'z') {
			return true
		}
	}
	return false
}

var pureMemo = map[*ssa.Function]bool{}

// pureModuleFunc: a function of the module whose body can be seen to have no effect – it stores only
// into its own locals, sends, starts and defers nothing, and calls only builtins, getters by name and
// functions of the same kind (an accessor such as Set.Length(), whatever it is called).
func pureModuleFunc(f *ssa.Function, depth int) bool {
	if f == nil || len(f.Blocks) == 0 || depth > 3 {
		return false
	}
	if v, ok := pureMemo[f]; ok {
		return v
	}
	pureMemo[f] = false // recursion: assume the worst
	pure := true
	allInstrs(f, func(ins ssa.Instruction) {
		if !pure {
			return
		}
		switch x := ins.(type) {
		case *ssa.Store:
			root := x.Addr
			for {
				switch a := root.(type) {
				case *ssa.IndexAddr:
					root = a.X
					continue
				case *ssa.FieldAddr:
					root = a.X
					continue
				}
				break
			}
			if _, local := root.(*ssa.Alloc); !local {
				pure = false
			}
		case *ssa.MapUpdate, *ssa.Send, *ssa.Go, *ssa.Defer, *ssa.Panic, *ssa.Select:
			pure = false
		case *ssa.UnOp:
			if x.Op == token.ARROW {
				pure = false
			}
		case *ssa.Call:
			if x.Call.IsInvoke() {
				pure = pureLooking(x.Call.Method.Name())
				return
			}
			if bi, isB := x.Call.Value.(*ssa.Builtin); isB {
				switch bi.Name() {
				case "len", "cap", "min", "max", "append", "new", "make":
				default:
					pure = false
				}
				return
			}
			sc := x.Call.StaticCallee()
			if sc == nil {
				pure = false
				return
			}
			if !pureLooking(sc.Name()) && !pureModuleFunc(sc, depth+1) {
				pure = false
			}
		}
	})
	pureMemo[f] = pure
	return pure
}

func effectfulCalls(g *ssa.Function) []string {
	var out []string
	allInstrs(g, func(ins ssa.Instruction) {
		cc := callOf(ins)
		if cc == nil {
			return
		}
		id := calleeID(cc)
		if id == "dyn" {
			return
		}
		if strings.HasPrefix(id, "B:") {
			// builtins with an effect on shared state
			if id == "B:close" || id == "B:delete" || id == "B:copy" || id == "B:panic" {
				out = append(out, id)
			}
			return
		}
		name := id
		if i := strings.LastIndex(name, "."); i >= 0 {
			name = name[i+1:]
		}
		if pureLooking(name) || pureModuleFunc(cc.StaticCallee(), 0) {
			return
		}
		out = append(out, id)
	})
	sort.Strings(out)
	return out
}

func assignedFields(g *ssa.Function) []string {
	// distinct fields assigned, reported as (struct, field type) with a count,
	// so that neither a rename nor a reordering of the fields is a difference
	set := map[string]bool{}
	allInstrs(g, func(ins ssa.Instruction) {
		st, ok := ins.(*ssa.Store)
		if !ok {
			return
		}
		fa, ok := st.Addr.(*ssa.FieldAddr)
		if !ok {
			return
		}
		pt, ok := fa.X.Type().Underlying().(*types.Pointer)
		if !ok {
			return
		}
		tn := typeKey(pt.Elem())
		sT := pt.Elem().Underlying().(*types.Struct)
		if _, nested := sT.Field(fa.Field).Type().Underlying().(*types.Struct); nested {
			// x.a = T{…} and x.a.f = … are the same thing written twice; only the leaves count
			return
		}
		set[fmt.Sprintf("%s#%d:%s", tn, fa.Field, typeKey(sT.Field(fa.Field).Type()))] = true
	})
	var out []string
	for k := range set {
		// drop the index: Type#idx:fieldtype -> Type:fieldtype (multiset)
		i, j := strings.Index(k, "#"), strings.Index(k, ":")
		if i >= 0 && j > i {
			k = k[:i] + k[j:]
		}
		out = append(out, k)
	}
	sort.Strings(out)
	return out
}

// calledOnEveryPath: no return of g is reachable from its entry without a call (or defer) of id.
func calledOnEveryPath(g *ssa.Function, id string) bool {
	if len(g.Blocks) == 0 {
		return false
	}
	seen := map[*ssa.BasicBlock]bool{}
	var walk func(b *ssa.BasicBlock) bool // false = an escape was found
	walk = func(b *ssa.BasicBlock) bool {
		if seen[b] {
			return true
		}
		seen[b] = true
		for _, ins := range b.Instrs {
			if cc := callOf(ins); cc != nil {
				if _, isGo := ins.(*ssa.Go); !isGo && calleeID(cc) == id {
					return true
				}
			}
			if _, isRet := ins.(*ssa.Return); isRet {
				return false
			}
		}
		for _, s := range b.Succs {
			if !walk(s) {
				return false
			}
		}
		return true
	}
	return walk(g.Blocks[0])
}

// mustCalls: the effectful callees of g that are called on every path to a return.
func mustCalls(g *ssa.Function) []string {
	var out []string
	seen := map[string]bool{}
	for _, id := range effectfulCalls(g) {
		if !seen[id] {
			seen[id] = true
			if calledOnEveryPath(g, id) {
				out = append(out, id)
			}
		}
	}
	sort.Strings(out)
	return out
}

func countGos(g *ssa.Function) int {
	n := 0
	allInstrs(g, func(ins ssa.Instruction) {
		if _, ok := ins.(*ssa.Go); ok {
			n++
		}
	})
	return n
}

// rejectionMessages: the constant message / format strings of the errors g constructs.
func rejectionMessages(g *ssa.Function) []string {
	set := map[string]bool{}
	allInstrs(g, func(ins ssa.Instruction) {
		cl, ok := ins.(*ssa.Call)
		if !ok {
			return
		}
		sc := cl.Call.StaticCallee()
		if sc == nil || !isErrorConstructor(sc) {
			return
		}
		for _, a := range cl.Call.Args {
			if k, isK := a.(*ssa.Const); isK && k.Value != nil && k.Value.Kind() == constant.String {
				set[constant.StringVal(k.Value)] = true
			}
		}
	})
	return sortedKeys(set)
}

// countRejections: the number of errors g constructs.
func countRejections(g *ssa.Function) int {
	n := 0
	allInstrs(g, func(ins ssa.Instruction) {
		if cl, ok := ins.(*ssa.Call); ok {
			if sc := cl.Call.StaticCallee(); sc != nil && isErrorConstructor(sc) {
				n++
			}
		}
	})
	return n
}

// usedParams: per parameter its type when the body uses it, "" when it does not.
func usedParams(g *ssa.Function) []string {
	out := make([]string, len(g.Params))
	for i, p := range g.Params {
		if refs := p.Referrers(); refs != nil && len(*refs) > 0 {
			out[i] = typeKey(p.Type())
		}
	}
	return out
}

func allDropPkgs() []string {
	var out []string
	for _, g := range dropGroups {
		out = append(out, g.pkgs...)
	}
	return out
}

func genDropReference(repo string) error {
	p, err := LoadProgram(repo, BuildConfig{"linux", "amd64"}, false, nil)
	if err != nil {
		return err
	}
	ref := dropRef{Note: "per function of the reference tree: calls with an effect and struct fields assigned; generated by `bbcheck -gen-reference`, never written by a check", Calls: map[string][]string{}, Fields: map[string][]string{}, Params: map[string][]string{}, Must: map[string][]string{}, Gos: map[string]int{}, Rejects: map[string][]string{}, RejectN: map[string]int{}}
	for _, rel := range allDropPkgs() {
		for _, tf := range p.srcFuncs(rel) {
			if tf.Object() != nil {
				ref.Funcs = append(ref.Funcs, tf.Object().(*types.Func).FullName())
			}
			withAnon(tf, func(g *ssa.Function) {
				ref.Params[FuncName(g)] = usedParams(g)
				ref.Gos[FuncName(g)] = countGos(g)
				if m := rejectionMessages(g); len(m) > 0 {
					ref.Rejects[FuncName(g)] = m
					ref.RejectN[FuncName(g)] = countRejections(g)
				}
				if m := mustCalls(g); len(m) > 0 {
					ref.Must[FuncName(g)] = m
				}
				ref.Calls[FuncName(g)] = effectfulCalls(g)
				ref.Fields[FuncName(g)] = assignedFields(g)
			})
		}
	}
	b, _ := json.MarshalIndent(ref, "", " ")
	return os.WriteFile(filepath.Join(refDir, "steps.json"), append(b, '\n'), 0o644)
}

var dropRefCache *dropRef

// refHasFunc: the reference tree defines this function (types.Func full name).
func refHasFunc(full string) bool {
	for _, f := range dropRefCache.Funcs {
		if f == full {
			return true
		}
	}
	return false
}

// multisetDiff: elements of a not matched in b.
func multisetDiff(a, b []string) []string {
	cnt := map[string]int{}
	for _, x := range b {
		cnt[x]++
	}
	var out []string
	for _, x := range a {
		if cnt[x] > 0 {
			cnt[x]--
			continue
		}
		out = append(out, x)
	}
	return out
}

func runDropDrift(c *Ctx, pkgs []string) {
	if !referenceConfig(c) {
		return
	}
	if dropRefCache == nil {
		b, err := os.ReadFile(filepath.Join(refDir, "steps.json"))
		if err != nil {
			c.Broken("reference table of steps cannot be read: %v", err)
			return
		}
		var r dropRef
		if err := json.Unmarshal(b, &r); err != nil {
			c.Broken("reference table of steps: %v", err)
			return
		}
		dropRefCache = &r
	}
	short := func(id string) string {
		if i := strings.LastIndex(id, "/"); i >= 0 {
			return id[i+1:]
		}
		return id
	}
	// messages constructed anywhere in the packages now (a rejection that moved into a helper is still there)
	messageElsewhere := map[string]bool{}
	for _, rel := range allDropPkgs() {
		for _, tf := range c.srcFuncs(rel) {
			withAnon(tf, func(g *ssa.Function) {
				// any occurrence of the text: the message may now be handed to a helper that builds the error
				allInstrs(g, func(ins ssa.Instruction) {
					for _, op := range ins.Operands(nil) {
						if *op == nil {
							continue
						}
						if k, isK := (*op).(*ssa.Const); isK && k.Value != nil && k.Value.Kind() == constant.String {
							messageElsewhere[constant.StringVal(k.Value)] = true
						}
					}
				})
			})
		}
	}
	existing := map[string]bool{}
	for _, rel := range allDropPkgs() {
		for _, tf := range c.srcFuncs(rel) {
			if tf.Object() != nil {
				existing[tf.Object().(*types.Func).FullName()] = true
			}
		}
	}
	for _, rel := range pkgs {
		for _, tf := range c.srcFuncs(rel) {
			withAnon(tf, func(g *ssa.Function) {
				fk := refKey(g)
				if fk == "" {
					return
				}
				refCalls, known := dropRefCache.Calls[fk]
				if !known {
					return
				}
				// something that was finished before the function returned is now left running
				if n, knownG := dropRefCache.Gos[fk]; knownG {
					if cg := countGos(g); cg > n {
						c.Fail(fk, "not-made-asynchronous", c.Pos(g.Pos()), fmt.Sprintf("the function starts %d goroutine(s), %d on the reference tree: work that was complete when the function returned (and whose failure the caller could see) now runs on after it", cg, n))
					}
				}
				// a rejection that disappeared
				// (an error that is still built, only worded differently, is not one that disappeared: the
				// function must construct fewer errors than it did)
				if msgs, knownR := dropRefCache.Rejects[fk]; knownR && countRejections(g) < dropRefCache.RejectN[fk] {
					have := map[string]bool{}
					for _, m := range rejectionMessages(g) {
						have[m] = true
					}
					for _, m := range msgs {
						if !have[m] && !messageElsewhere[m] {
							c.Fail(fk, "rejection-kept "+m, c.Pos(g.Pos()), "on the reference tree this function refuses some inputs with the error \""+m+"\"; that error is no longer constructed here nor anywhere else in these packages – the inputs it was for are now accepted (or fail later, somewhere else, as something else)")
						}
					}
				}
				// a parameter the function used to look at and now ignores
				if want := dropRefCache.Params[fk]; len(want) == len(g.Params) && len(g.Blocks) > 0 {
					have := usedParams(g)
					same := true
					for i := range want {
						if want[i] != "" && have[i] != "" && want[i] != have[i] {
							same = false
						}
					}
					for i := range want {
						if same && want[i] != "" && have[i] == "" && typeKey(g.Params[i].Type()) == want[i] {
							c.Fail(fk, "parameter-used "+fmt.Sprint(i), c.Pos(g.Pos()), "parameter "+g.Params[i].Name()+" ("+want[i]+") is used by this function on the reference tree and ignored now: whatever the caller asks for through it (an offset, a limit, a flag, a context) no longer has any effect")
						}
					}
				}
				cur := effectfulCalls(g)
				lost := multisetDiff(refCalls, cur)
				// a call to a function of the module that no longer exists was inlined, not dropped
				kept := lost[:0:0]
				for _, l := range lost {
					if strings.HasPrefix(l, "S:") && refHasFunc(l[2:]) && !existing[l[2:]] {
						continue
					}
					kept = append(kept, l)
				}
				lost = kept
				// a callee that is still called, only less often: two calls in exclusive branches may have
				// been merged into one.  That is a loss only if the callee was called on every path to a
				// return on the reference tree and a path now returns without it.
				curCount := map[string]int{}
				for _, x := range cur {
					curCount[x]++
				}
				wasMust := map[string]bool{}
				for _, m := range dropRefCache.Must[fk] {
					wasMust[m] = true
				}
				kept = lost[:0:0]
				for _, l := range lost {
					if curCount[l] > 0 && !(wasMust[l] && !calledOnEveryPath(g, l)) {
						continue
					}
					kept = append(kept, l)
				}
				lost = kept
				gained := multisetDiff(cur, refCalls)
				// a helper that the reference tree does not have was extracted – also when the helper itself has
				// no effect (a constructor): what the function no longer does itself may be done there
				allInstrs(g, func(ins ssa.Instruction) {
					if cc := callOf(ins); cc != nil {
						if sc := cc.StaticCallee(); sc != nil && sc.Object() != nil && sc.Pkg != nil && strings.HasPrefix(sc.Pkg.Pkg.Path(), modPath) {
							if o, ok := sc.Object().(*types.Func); ok && !refHasFunc(o.FullName()) {
								gained = append(gained, "S:"+o.FullName())
							}
						}
					}
				})
				curF := assignedFields(g)
				lostF := multisetDiff(dropRefCache.Fields[fk], curF)
				gainedF := multisetDiff(curF, dropRefCache.Fields[fk])
				var pos token.Pos = g.Pos()
				switch {
				case len(gained) > 0 || len(gainedF) > 0:
					// something new happens here: the work may have moved or been replaced – not judged
					c.PassTrivial(fk, "steps-kept", c.Pos(pos), "the function does something new; not judged")
				case len(lost) > 0:
					var ls []string
					for _, l := range lost {
						ls = append(ls, short(l))
					}
					c.Fail(fk, "steps-kept", c.Pos(pos), "compared with the reference tree the function no longer calls "+strings.Join(ls, ", ")+", and nothing new is called in its place: a step (release, close, unlock, notification, forwarding of an error …) was dropped on some path")
				case len(lostF) > 0:
					c.Fail(fk, "steps-kept", c.Pos(pos), "compared with the reference tree the function no longer assigns "+strings.Join(lostF, ", ")+" (field of a struct by index and type), and nothing new happens in its place: a counter is no longer adjusted or a field no longer initialised")
				default:
					c.Pass(fk, "steps-kept", c.Pos(pos), "every effectful call and field assignment of the reference tree is still there")
				}
			})
		}
	}
}
