package main

import (
	"fmt"
	"go/token"
	"go/types"

	"golang.org/x/tools/go/ssa"
)

const blobstoreRel = "pkg/blobstore"
const authRel = "pkg/auth"
const digestRel = "pkg/digest"

// loadOfRecvField: v is a load of field `name` of fn's receiver.
func loadOfRecvField(fn *ssa.Function, v ssa.Value, name string) bool {
	f := fieldOf(v)
	if f == nil || f.Name() != name {
		return false
	}
	var base ssa.Value
	switch x := v.(type) {
	case *ssa.UnOp:
		if fa, ok := x.X.(*ssa.FieldAddr); ok {
			base = fa.X
		}
	case *ssa.Field:
		base = x.X
	}
	if isReceiverValue(fn, base) {
		return true
	}
	// the load may sit in a helper method the rule looks through
	if ins, ok := v.(ssa.Instruction); ok && ins.Parent() != nil && ins.Parent() != fn {
		return isReceiverValue(ins.Parent(), base)
	}
	return false
}

// derivesFromInstanceNameOf: v derives from GetInstanceName() applied to a
// value that derives from one of the given parameters.
func derivesFromInstanceNameOf(c *Ctx, fn *ssa.Function, v ssa.Value, params map[ssa.Value]bool) (ok bool, which ssa.Value) {
	dig := c.LookupType(digestRel, "Digest")
	deepSlice(fn, v, func(x ssa.Value) bool {
		if call, isCall := x.(*ssa.Call); isCall {
			if isMethodCall(call.Common(), dig, "GetInstanceName") {
				// receiver provenance
				deepSlice(fn, call.Call.Args[0], func(y ssa.Value) bool {
					if params[y] {
						ok = true
						which = y
						return false
					}
					return true
				})
				return false
			}
			if _, isBuiltin := call.Call.Value.(*ssa.Builtin); isBuiltin {
				return true
			}
			return false // other calls are leaves
		}
		return true
	})
	return
}

func init() {
	register(&Rule{
		ID: "R18.1", Props: []string{"C18"}, Engine: "guard (SSA dominance) + flow (provenance)",
		Text:  "in authorizingBlobAccess.{Get,GetFromComposite,Put,FindMissing} every call through the embedded backend is dominated by the nil edge of the matching authorizer's verdict (getAuthorizer for both reads, putAuthorizer, findMissingAuthorizer) computed from GetInstanceName() of the digests of this call; for FindMissing the verdict list is produced from the instance names of every item of the set and the backend is reached only through the exit of a complete range over the verdicts in which any non-nil verdict returns",
		Floor: 4, MustExist: true,
		Run: runR181,
	})
	register(&Rule{
		ID: "R18.2", Props: []string{"C18"}, Engine: "flow (provenance)",
		Text:  "on the denial edge the value returned to the caller is built from the authorizer's own error (possibly through util.StatusWrap*/NewBufferFromError), and no other error is substituted",
		Floor: 4, MustExist: true,
		Run: runR182,
	})
	register(&Rule{
		ID: "R18.4", Props: []string{"C18"}, Engine: "guard + flow",
		Text:  "anyAuthorizer.Authorize: an element of the first member's verdict list is overwritten only with the same-position verdict of a later member and only on the edge where that verdict's code is not PERMISSION_DENIED; instance names are forwarded to a later member only on the PERMISSION_DENIED edge; the list returned is that of the first member",
		Floor: 3, MustExist: true,
		Run: runR184,
	})
}

var authorizerFieldFor = map[string]string{
	"Get": "getAuthorizer", "GetFromComposite": "getAuthorizer", "Put": "putAuthorizer", "FindMissing": "findMissingAuthorizer",
}

// digestParamFor: which parameter carries the instance name that must be authorized.
func digestParams(fn *ssa.Function, c *Ctx) map[ssa.Value]bool {
	dig := c.LookupType(digestRel, "Digest")
	set := c.LookupType(digestRel, "Set")
	m := map[ssa.Value]bool{}
	for _, p := range fn.Params[1:] {
		if types.Identical(p.Type(), dig) || types.Identical(p.Type(), set) {
			m[p] = true
			if fn.Name() == "GetFromComposite" {
				break // parent digest only (first digest parameter)
			}
		}
	}
	return m
}

type authSite struct {
	call    ssa.Value // the verdict-producing call
	single  bool
	errsVal ssa.Value
}

func findAuthCalls(c *Ctx, fn *ssa.Function, field string) []*ssa.Call {
	var out []*ssa.Call
	authz := c.LookupType(authRel, "Authorizer")
	allInstrs(fn, func(ins ssa.Instruction) {
		call, ok := ins.(*ssa.Call)
		if !ok {
			return
		}
		cc := call.Common()
		if isPkgFuncCall(cc, modPath+"/"+authRel, "AuthorizeSingleInstanceName") && len(cc.Args) == 3 {
			if loadOfRecvField(fn, cc.Args[1], field) {
				out = append(out, call)
			}
		} else if ai, _, ok := singleAuthWrapper(cc.StaticCallee()); ok && fn.Pkg != nil && cc.StaticCallee().Pkg == fn.Pkg {
			if loadOfRecvField(fn, cc.Args[ai], field) {
				out = append(out, call)
			}
		} else if cc.IsInvoke() && isMethodCall(cc, authz, "Authorize") {
			if loadOfRecvField(fn, cc.Value, field) {
				out = append(out, call)
			}
		}
	})
	return out
}

// singleAuthWrapper: h is a function that hands two of its parameters to
// auth.AuthorizeSingleInstanceName as authorizer and instance name, returns a
// nil error only on the nil edge of that verdict, and otherwise the verdict's
// error (possibly wrapped by a call that is given it).  Returns the indices
// (in the argument list of a call of h) of the authorizer and of the name.
func singleAuthWrapper(h *ssa.Function) (authIdx, nameIdx int, ok bool) {
	if h == nil || len(h.Blocks) == 0 || h.Signature.Results().Len() != 1 || !isErrorType(h.Signature.Results().At(0).Type()) {
		return 0, 0, false
	}
	var inner *ssa.Call
	nInner := 0
	allInstrs(h, func(ins ssa.Instruction) {
		if cl, isC := ins.(*ssa.Call); isC && isPkgFuncCall(cl.Common(), modPath+"/"+authRel, "AuthorizeSingleInstanceName") && len(cl.Call.Args) == 3 {
			inner = cl
			nInner++
		}
	})
	if nInner != 1 {
		return 0, 0, false
	}
	authIdx, nameIdx = -1, -1
	for i, p := range h.Params {
		if inner.Call.Args[1] == ssa.Value(p) {
			authIdx = i
		}
		if inner.Call.Args[2] == ssa.Value(p) {
			nameIdx = i
		}
	}
	if authIdx < 0 || nameIdx < 0 {
		return 0, 0, false
	}
	good := true
	for _, r := range returnsOf(h) {
		rv := returnedValue(r, 0)
		if isNilConst(rv) {
			if !dominatedByErrNil(r.Block(), inner) {
				good = false
			}
			continue
		}
		if rv == ssa.Value(inner) {
			continue
		}
		if cl, isC := rv.(*ssa.Call); isC {
			takes := false
			for _, a := range cl.Call.Args {
				if a == ssa.Value(inner) {
					takes = true
				}
			}
			if takes {
				continue
			}
		}
		good = false
	}
	return authIdx, nameIdx, good
}

// backendCalls: invokes whose receiver is the embedded BlobAccess field.
func backendCalls(fn *ssa.Function) []*ssa.Call {
	var out []*ssa.Call
	allInstrs(fn, func(ins ssa.Instruction) {
		call, ok := ins.(*ssa.Call)
		if !ok || !call.Call.IsInvoke() {
			return
		}
		if loadOfRecvField(fn, call.Call.Value, "BlobAccess") {
			out = append(out, call)
		}
	})
	return out
}

// completeVerdictLoop checks that `site` is reachable only through the exit
// of a full range over errs in which every non-nil element leads to a return.
func completeVerdictLoop(errs ssa.Value, site ssa.Instruction) (bool, string) {
	refs := errs.Referrers()
	if refs == nil {
		return false, "verdict list unused"
	}
	for _, r := range *refs {
		ia, ok := r.(*ssa.IndexAddr)
		if !ok || !isFullRangeIndex(ia.Index, errs) {
			continue
		}
		header := rangeIndexHeader(ia.Index)
		if header == nil {
			continue
		}
		// the element load and its nil test
		for _, lr := range *ia.Referrers() {
			ld, ok := lr.(*ssa.UnOp)
			if !ok || ld.Op != token.MUL {
				continue
			}
			for _, cr := range *ld.Referrers() {
				cmp, ok := cr.(*ssa.BinOp)
				if !ok {
					continue
				}
				x, nilWhenTrue, ok := nilTest(cmp)
				if !ok || x != ld {
					continue
				}
				var iff *ssa.If
				for _, ir := range *cmp.Referrers() {
					if i, ok := ir.(*ssa.If); ok {
						iff = i
					}
				}
				if iff == nil {
					continue
				}
				B := iff.Block()
				nonNilSucc, nilSucc := B.Succs[0], B.Succs[1]
				if nilWhenTrue {
					nonNilSucc, nilSucc = nilSucc, nonNilSucc
				}
				// non-nil branch must not reach the site and must not return success
				if blockReaches(nonNilSucc, site.Block(), nil) {
					return false, "a non-nil verdict can still reach the backend call"
				}
				// B must be on every path through the loop body: B dominated by header's body successor, and
				// every back edge into header comes from B (nil edge) or from a block dominated by nilSucc.
				body := header.Succs[0]
				if !(body == B || body.Dominates(B)) {
					continue
				}
				okBack := true
				for _, p := range header.Preds {
					if header.Dominates(p) { // back edge
						if !(p == B && nilSucc == header) && !nilSucc.Dominates(p) {
							okBack = false
						}
					}
				}
				if !okBack {
					return false, "an iteration can skip the verdict test"
				}
				// site only through the loop exit
				if !header.Dominates(site.Block()) || blockReaches(site.Block(), header, nil) {
					return false, "backend call is not confined to the exit of the verdict loop"
				}
				return true, ""
			}
		}
	}
	return false, "no complete range over the verdict list with a nil test on each element"
}

func blockReaches(from, to *ssa.BasicBlock, avoid *ssa.BasicBlock) bool {
	seen := map[*ssa.BasicBlock]bool{}
	work := []*ssa.BasicBlock{from}
	for len(work) > 0 {
		b := work[len(work)-1]
		work = work[:len(work)-1]
		if seen[b] || b == avoid {
			continue
		}
		seen[b] = true
		if b == to {
			return true
		}
		work = append(work, b.Succs...)
	}
	return false
}

func runR181(c *Ctx) {
	for _, m := range []string{"Get", "GetFromComposite", "Put", "FindMissing"} {
		fn := c.Method(blobstoreRel, "authorizingBlobAccess", m)
		if fn == nil || fn.Blocks == nil {
			c.Broken("authorizingBlobAccess.%s not found", m)
			continue
		}
		name := FuncName(fn)
		field := authorizerFieldFor[m]
		auths := findAuthCalls(c, fn, field)
		bcs := backendCalls(fn)
		if len(bcs) == 0 {
			c.Fail(name, "backend", c.Pos(fn.Pos()), "no call through the embedded backend found (mechanism missing)")
			continue
		}
		params := digestParams(fn, c)
		for _, bc := range bcs {
			site := "backend." + bc.Call.Method.Name()
			ok, why := false, "no "+field+" verdict dominates this call"
			for _, a := range auths {
				// provenance of the instance names
				var namesArg ssa.Value
				if a.Call.IsInvoke() {
					namesArg = a.Call.Args[1]
				} else if _, ni, isW := singleAuthWrapper(a.Call.StaticCallee()); isW {
					namesArg = a.Call.Args[ni]
				} else {
					namesArg = a.Call.Args[2]
				}
				okNames, _ := derivesFromInstanceNameOf(c, fn, namesArg, params)
				fullViaHelper := false
				if !okNames {
					// the names may be collected by a helper function that is given the digests
					if hc, isCall := stripConv(namesArg).(*ssa.Call); isCall {
						if h := hc.Call.StaticCallee(); h != nil && len(h.Blocks) > 0 && h.Pkg == fn.Pkg {
							hparams := map[ssa.Value]bool{}
							for i, arg := range hc.Call.Args {
								if params[arg] && i < len(h.Params) {
									hparams[h.Params[i]] = true
								}
							}
							if len(hparams) > 0 {
								all, allFull := true, true
								for _, r := range returnsOf(h) {
									if len(r.Results) == 0 {
										all = false
										continue
									}
									if d, _ := derivesFromInstanceNameOf(c, h, r.Results[0], hparams); !d {
										all = false
									}
									if !fullItemsRange(c, h, r.Results[0], hparams, r) {
										allFull = false
									}
								}
								okNames, fullViaHelper = all, all && allFull
							}
						}
					}
				}
				if !okNames {
					why = "the instance names authorized do not derive from GetInstanceName() of this call's digest parameter"
					continue
				}
				if !a.Call.IsInvoke() {
					if dominatedByErrNil(bc.Block(), a) {
						ok = true
					} else {
						why = "call is not on the nil edge of the " + field + " verdict"
					}
				} else {
					// all items: the names must come from a full range over Items()
					if !fullViaHelper && !fullItemsRange(c, fn, namesArg, params, a) {
						why = "the instance names authorized are not collected by a complete, unconditional range over every digest of the set that dominates the authorizer call (some instance names could reach the backend without being authorized)"
						continue
					}
					ok, why = completeVerdictLoop(a, bc)
				}
				if ok {
					break
				}
			}
			c.Check(ok, name, site, c.Pos(bc.Pos()), "dominated by the nil verdict of "+field+" over the instance names of this call's digests", why)
		}
	}
}

// fullItemsRange: names derive from GetInstanceName() of X[i] with i a full
// range index over X = Items() of a digest set parameter, each element's name
// is recorded on every iteration, and `site` is reachable only through the
// exit of that loop.
func fullItemsRange(c *Ctx, fn *ssa.Function, v ssa.Value, params map[ssa.Value]bool, site ssa.Instruction) bool {
	dig := c.LookupType(digestRel, "Digest")
	set := c.LookupType(digestRel, "Set")
	found := false
	deepSlice(fn, v, func(x ssa.Value) bool {
		call, isCall := x.(*ssa.Call)
		if !isCall {
			return true
		}
		if _, isBuiltin := call.Call.Value.(*ssa.Builtin); isBuiltin {
			return true
		}
		if isMethodCall(call.Common(), dig, "GetInstanceName") {
			X, idx, ok := rangeElemOf(call.Call.Args[0])
			if !ok {
				return false
			}
			ic, ok := X.(*ssa.Call)
			if !ok || !isMethodCall(ic.Common(), set, "Items") || !params[ic.Call.Args[0]] {
				return false
			}
			header := rangeIndexHeader(idx)
			if header == nil {
				return false
			}
			// the loop is on every path to the site, and the site is after it
			if !header.Dominates(site.Block()) || blockReaches(site.Block(), header, nil) {
				return false
			}
			// recorded on every iteration: the block using the name dominates every latch
			for _, p := range header.Preds {
				if header.Dominates(p) && !(call.Block() == p || call.Block().Dominates(p)) {
					return false
				}
			}
			found = true
		}
		return false
	})
	return found
}

func runR182(c *Ctx) {
	for _, m := range []string{"Get", "GetFromComposite", "Put", "FindMissing"} {
		fn := c.Method(blobstoreRel, "authorizingBlobAccess", m)
		if fn == nil || fn.Blocks == nil {
			c.Broken("authorizingBlobAccess.%s not found", m)
			continue
		}
		name := FuncName(fn)
		auths := findAuthCalls(c, fn, authorizerFieldFor[m])
		if len(auths) == 0 {
			c.Fail(name, "verdict", c.Pos(fn.Pos()), "no authorizer verdict computed")
			continue
		}
		for _, a := range auths {
			// returns not dominated by verdict-nil and not reaching backend: must carry the verdict's error
			n := 0
			for _, r := range returnsOf(fn) {
				if len(backendCalls(fn)) > 0 {
					viaBackend := false
					for _, bc := range backendCalls(fn) {
						if instrDominates(bc, r) {
							viaBackend = true
						}
					}
					if viaBackend {
						continue
					}
				}
				if !instrDominates(a, r) {
					continue
				}
				n++
				carries := false
				for _, res := range r.Results {
					deepSlice(fn, res, func(x ssa.Value) bool {
						if x == a || isErrResultOf(x, a) {
							carries = true
							return false
						}
						if ex, ok := x.(*ssa.Extract); ok && ex.Tuple == ssa.Value(a) {
							carries = true
							return false
						}
						// element of the verdict list
						if X, _, ok := rangeElemOf(x); ok && X == ssa.Value(a) {
							carries = true
							return false
						}
						if call, ok := x.(*ssa.Call); ok {
							// only the repo's wrap helpers and buffer constructor are transparent
							cc := call.Common()
							if isPkgFuncCall(cc, modPath+"/pkg/util", "StatusWrap") || isPkgFuncCall(cc, modPath+"/pkg/util", "StatusWrapf") ||
								isPkgFuncCall(cc, modPath+"/pkg/util", "StatusWrapWithCode") || isPkgFuncCall(cc, modPath+"/pkg/util", "StatusWrapfWithCode") ||
								isPkgFuncCall(cc, modPath+"/"+bufferRel, "NewBufferFromError") {
								return true
							}
							return false
						}
						return true
					})
				}
				c.Check(carries, name, "denial-return", c.Pos(r.Pos()), "the denial return carries the authorizer's error", "a return taken after a non-nil verdict does not carry the authorizer's error")
			}
			if n == 0 {
				c.Fail(name, "denial-return", c.Pos(a.Pos()), "no return that reports the denial was found")
			}
		}
	}
}

func runR184(c *Ctx) {
	fn := c.Method(authRel, "anyAuthorizer", "Authorize")
	if fn == nil || fn.Blocks == nil {
		c.Broken("anyAuthorizer.Authorize not found")
		return
	}
	name := FuncName(fn)
	authz := c.LookupType(authRel, "Authorizer")
	var calls []*ssa.Call
	allInstrs(fn, func(ins ssa.Instruction) {
		if call, ok := ins.(*ssa.Call); ok && call.Call.IsInvoke() && isMethodCall(call.Common(), authz, "Authorize") {
			calls = append(calls, call)
		}
	})
	if len(calls) < 2 {
		c.Fail(name, "members", c.Pos(fn.Pos()), "expected a verdict from the first member and from later members")
		return
	}
	// the first verdict list: the one that is returned
	var first *ssa.Call
	for _, r := range returnsOf(fn) {
		for _, cl := range calls {
			if stripConv(r.Results[0]) == ssa.Value(cl) {
				first = cl
			}
		}
	}
	if first == nil {
		c.Fail(name, "result", c.Pos(fn.Pos()), "the list returned is not the verdict list of a member")
		return
	}
	c.Pass(name, "result", c.Pos(first.Pos()), "returns the first member's verdict list")
	isDeniedTest := func(cond ssa.Value, of ssa.Value) (match bool, deniedWhenTrue bool) {
		b, ok := cond.(*ssa.BinOp)
		if !ok || (b.Op != token.EQL && b.Op != token.NEQ) {
			return false, false
		}
		var call *ssa.Call
		var k ssa.Value
		if cl, ok := b.X.(*ssa.Call); ok {
			call, k = cl, b.Y
		} else if cl, ok := b.Y.(*ssa.Call); ok {
			call, k = cl, b.X
		}
		if call == nil || !isPkgFuncCall(call.Common(), "google.golang.org/grpc/status", "Code") || call.Call.Args[0] != of {
			return false, false
		}
		kc, ok := constInt(stripConv(k))
		if !ok || kc != 7 { // codes.PermissionDenied
			return false, false
		}
		return true, b.Op == token.EQL
	}
	onDeniedEdge := func(b *ssa.BasicBlock, of ssa.Value, wantDenied bool) bool {
		found := false
		edgeFacts(b, func(cond ssa.Value, val bool) bool {
			if m, dwt := isDeniedTest(cond, of); m {
				if (dwt == val) == wantDenied {
					found = true
				}
				return false
			}
			return true
		})
		return found
	}
	// stores into the first list
	nst := 0
	allInstrs(fn, func(ins ssa.Instruction) {
		st, ok := ins.(*ssa.Store)
		if !ok {
			return
		}
		ia, ok := st.Addr.(*ssa.IndexAddr)
		if !ok || ia.X != ssa.Value(first) {
			return
		}
		nst++
		X, idx, ok := rangeElemOf(st.Val)
		later := false
		if ok {
			for _, cl := range calls {
				if cl != first && X == ssa.Value(cl) {
					later = true
				}
			}
		}
		if !later {
			c.Fail(name, "overwrite", c.Pos(st.Pos()), "a first-member verdict is overwritten with something that is not a later member's verdict")
			return
		}
		if !onDeniedEdge(st.Block(), st.Val, false) {
			c.Fail(name, "overwrite", c.Pos(st.Pos()), "a first-member verdict is overwritten without testing that the later verdict is not PERMISSION_DENIED")
			return
		}
		// position: index = someSlice[idx] with the same loop index
		pos := false
		if ld, ok := ia.Index.(*ssa.UnOp); ok && ld.Op == token.MUL {
			if ia2, ok := ld.X.(*ssa.IndexAddr); ok && ia2.Index == idx {
				pos = true
			}
		}
		c.Check(pos, name, "overwrite", c.Pos(st.Pos()), "overwritten only with the same-position non-denial verdict of a later member", "the overwritten position is not indexed by the later verdict's own position")
	})
	if nst == 0 {
		c.Fail(name, "overwrite", c.Pos(fn.Pos()), "later members' verdicts never reach the result (mechanism missing)")
	}
	// forwarding of names only on denial: appends of instance names
	napp := 0
	inT := c.LookupType(digestRel, "InstanceName")
	allInstrs(fn, func(ins ssa.Instruction) {
		call, ok := ins.(*ssa.Call)
		if !ok {
			return
		}
		bi, ok := call.Call.Value.(*ssa.Builtin)
		if !ok || bi.Name() != "append" {
			return
		}
		sl, ok := call.Type().Underlying().(*types.Slice)
		if !ok || !types.Identical(sl.Elem(), inT) {
			return
		}
		napp++
		// find the verdict element tested in a dominating If
		ok2 := false
		edgeFacts(call.Block(), func(cond ssa.Value, val bool) bool {
			b, isB := cond.(*ssa.BinOp)
			if !isB {
				return true
			}
			for _, side := range []ssa.Value{b.X, b.Y} {
				if cl, isC := side.(*ssa.Call); isC && isPkgFuncCall(cl.Common(), "google.golang.org/grpc/status", "Code") {
					if m, dwt := isDeniedTest(cond, cl.Call.Args[0]); m && dwt == val {
						if X, _, isElem := rangeElemOf(cl.Call.Args[0]); isElem {
							for _, c2 := range calls {
								if X == ssa.Value(c2) {
									ok2 = true
								}
							}
						}
					}
				}
			}
			return !ok2
		})
		c.Check(ok2, name, "forward", c.Pos(call.Pos()), "instance name forwarded to the next member only on the PERMISSION_DENIED edge of a member's verdict", "instance name forwarded without a PERMISSION_DENIED verdict")
	})
	if napp == 0 {
		c.Fail(name, "forward", c.Pos(fn.Pos()), "no instance name is ever forwarded to later members")
	}
	// position lists: an entry is either the position in the first member's verdict list or the
	// same-position entry of the previous position list
	nidx := 0
	allInstrs(fn, func(ins ssa.Instruction) {
		call, ok := ins.(*ssa.Call)
		if !ok {
			return
		}
		bi, ok := call.Call.Value.(*ssa.Builtin)
		if !ok || bi.Name() != "append" {
			return
		}
		sl, ok := call.Type().Underlying().(*types.Slice)
		if !ok || !types.Identical(sl.Elem(), types.Typ[types.Int]) {
			return
		}
		nidx++
		// the appended element(s): stored into the varargs array
		okPos := false
		why := "a position list receives something that is neither a position in the first member's verdict list nor the same-position entry of the previous list"
		deepSlice(fn, call.Call.Args[1], func(x ssa.Value) bool {
			if isFullRangeIndex(x, ssa.Value(first)) {
				okPos = true
				return false
			}
			for _, cl := range calls {
				if cl != first && isFullRangeIndex(x, ssa.Value(cl)) {
					why = "a position list receives the loop index of a later member's verdicts instead of the original position (verdicts of later members would be written to the wrong instance name)"
					return false
				}
			}
			switch v := x.(type) {
			case *ssa.BinOp:
				if false {
				} else if v.Op == token.ADD {
					why = "a position list receives the loop index of a later member's verdicts instead of the original position (verdicts of later members would be written to the wrong instance name)"
				}
				return false
			case *ssa.UnOp:
				if v.Op == token.MUL {
					if ia, ok := v.X.(*ssa.IndexAddr); ok {
						if _, isIntSlice := ia.X.Type().Underlying().(*types.Slice); isIntSlice {
							// previous position list at the current loop index of a later member
							for _, cl := range calls {
								if cl != first && isFullRangeIndex(ia.Index, ssa.Value(cl)) {
									okPos = true
								}
							}
							return false
						}
					}
				}
				return true
			case *ssa.Call:
				_, isB := v.Call.Value.(*ssa.Builtin)
				return isB
			}
			return true
		})
		c.Check(okPos, name, "position-list", c.Pos(call.Pos()), "positions carried forward refer to the first member's verdict list", why)
	})
	if nidx == 0 {
		c.Fail(name, "position-list", c.Pos(fn.Pos()), "no position bookkeeping found")
	}
	_ = fmt.Sprintf
}
