package main

import (
	"encoding/json"
	"fmt"
	"go/token"
	"os"
	"path/filepath"
	"sort"
	"strings"

	"golang.org/x/tools/go/ssa"
)

// ---------------------------------------------------------------------------
// "No new silent failure path."
//
// For every call that returns an error, the paths on which that error was
// found to be non-nil are followed (path automaton, loops included).  On such
// a path the error must be *consumed* before the function returns or the call
// is made again: returned, wrapped, passed to any callee (CloseWithError,
// status.Code, a logger …), stored, sent, or compared with a specific error
// value (io.EOF …).  A failure path that simply goes on – `return nil`,
// `continue`, a bare `return` in a goroutine – reports success for an
// operation that did not happen.  Sites where the reference tree already does
// this on purpose (retry loops, best-effort clean-up) are counted per
// (function, callee) in /verif/reference/silentfail.json, per (package, callee); only *more* such
// sites than there are alarmed.

type silentRef struct {
	Note  string         `json:"note"`
	Sites map[string]int `json:"sites"`
}

var silentGroups = groupsOf([][]string{
	{"R01.15", "local"},
	{"R09.10", "buffer"},
	{"R11.10", "mirrored", "sharding", "completeness", "replication"},
	{"R14.10", "grpc"},
	{"R18.10", "top"},
	{"R20.15", "digest"},
	{"R02.14", "config"},
})

func init() {
	for i := range silentGroups {
		g := silentGroups[i]
		register(&Rule{
			ID: g.rule, Props: g.props, Engine: "failure-path automaton with a reference count of tolerated sites (SSA)",
			Text:  "no new silent failure path (" + strings.Join(g.pkgs, ", ") + "): on every path on which the error of a call was found non-nil, that error is returned, wrapped, handed to some callee, stored, or compared with a specific error value before the function returns or makes the call again; the number of paths per (function, callee) on which a failure is simply dropped does not exceed what the reference tree has (its retry loops and best-effort clean-ups)",
			Floor: 1, MustExist: false, Run: func(c *Ctx) { runSilentFail(c, g.pkgs) },
		})
	}
}

type silentSite struct {
	key string // package | callee: a tolerated site may move between the functions of a package (an extracted helper)
	fn  string
	pos token.Pos
	how string
}

func collectSilent(p *Program, pkgs []string) []silentSite {
	var out []silentSite
	for _, rel := range pkgs {
		for _, tf := range p.srcFuncs(rel) {
			withAnon(tf, func(g *ssa.Function) {
				if len(g.Blocks) == 0 {
					return
				}
				// error-producing calls whose error is nil-tested
				type ev struct {
					call *ssa.Call
					val  ssa.Value
				}
				var errs []ev
				allInstrs(g, func(ins ssa.Instruction) {
					cl, ok := ins.(*ssa.Call)
					if !ok {
						return
					}
					res := cl.Call.Signature().Results()
					if res.Len() == 0 || !isErrorType(res.At(res.Len()-1).Type()) {
						return
					}
					if res.Len() == 1 {
						errs = append(errs, ev{cl, cl})
						return
					}
					if refs := cl.Referrers(); refs != nil {
						for _, r := range *refs {
							if ex, ok := r.(*ssa.Extract); ok && ex.Index == res.Len()-1 {
								errs = append(errs, ev{cl, ex})
							}
						}
					}
				})
				// an error result nobody looks at (`f()` as a statement, `v, _ := f()`)
				allInstrs(g, func(ins ssa.Instruction) {
					cl, ok := ins.(*ssa.Call)
					if !ok {
						return
					}
					res := cl.Call.Signature().Results()
					if res.Len() == 0 || !isErrorType(res.At(res.Len()-1).Type()) {
						return
					}
					used := false
					if refs := cl.Referrers(); refs != nil {
						for _, r := range *refs {
							if _, isDbg := r.(*ssa.DebugRef); isDbg {
								continue
							}
							if res.Len() == 1 {
								used = true
								continue
							}
							if ex, ok := r.(*ssa.Extract); ok && ex.Index == res.Len()-1 {
								if er := ex.Referrers(); er != nil && len(*er) > 0 {
									used = true
								}
							}
						}
					}
					if !used && cleanupOnFailurePath(cl) {
						return // closing / releasing something on the way out with an error: there is nothing to do with a second error
					}
					if !used {
						pos := cl.Pos()
						if !pos.IsValid() {
							pos = g.Pos()
						}
						out = append(out, silentSite{rel + "|unchecked " + calleeID(cl.Common()), FuncName(g), pos, "the error it returns is not looked at at all"})
					}
				})
				for _, e := range errs {
					// forward closure of the error value
					U := map[ssa.Value]bool{e.val: true}
					for changed := true; changed; {
						changed = false
						allInstrs(g, func(ins ssa.Instruction) {
							v, isV := ins.(ssa.Value)
							switch x := ins.(type) {
							case *ssa.Phi:
								for _, ed := range x.Edges {
									if U[ed] && !U[v] {
										U[v], changed = true, true
									}
								}
							case *ssa.MakeInterface:
								if U[x.X] && !U[v] {
									U[v], changed = true, true
								}
							case *ssa.ChangeInterface:
								if U[x.X] && !U[v] {
									U[v], changed = true, true
								}
							case *ssa.ChangeType:
								if U[x.X] && !U[v] {
									U[v], changed = true, true
								}
							case *ssa.Store:
								if U[x.Val] {
									if al, ok := x.Addr.(*ssa.Alloc); ok && !U[al] {
										U[al], changed = true, true
									}
								}
							case *ssa.UnOp:
								if x.Op == token.MUL && U[x.X] && isV && !U[v] {
									U[v], changed = true, true
								}
							}
						})
					}
					tested := false
					allInstrs(g, func(ins ssa.Instruction) {
						if iff, ok := ins.(*ssa.If); ok {
							cnd := iff.Cond
							for {
								if u, ok := cnd.(*ssa.UnOp); ok && u.Op == token.NOT {
									cnd = u.X
									continue
								}
								break
							}
							if x, _, ok := nilTest(cnd); ok && U[x] {
								tested = true
							}
						}
					})
					if !tested {
						continue
					}
					consumes := func(ins ssa.Instruction) bool {
						switch x := ins.(type) {
						case *ssa.Return:
							for _, r := range x.Results {
								if U[r] {
									return true
								}
							}
						case *ssa.Store:
							if U[x.Val] {
								if _, isCell := x.Addr.(*ssa.Alloc); !isCell {
									return true
								}
								// stored into a captured cell (read by another function): consumed
								if al, ok := x.Addr.(*ssa.Alloc); ok && al.Heap {
									if refs := al.Referrers(); refs != nil {
										for _, r := range *refs {
											if _, isMC := r.(*ssa.MakeClosure); isMC {
												return true
											}
										}
									}
								}
							}
						case *ssa.Send:
							return U[x.X]
						case *ssa.MapUpdate:
							return U[x.Value]
						case *ssa.TypeAssert:
							return U[x.X]
						case *ssa.BinOp:
							if (x.Op == token.EQL || x.Op == token.NEQ) && (U[x.X] || U[x.Y]) {
								if !isNilConst(x.X) && !isNilConst(x.Y) {
									return true // compared with a specific error
								}
							}
						case *ssa.Panic:
							return true
						}
						if cc := callOf(ins); cc != nil {
							if ins == ssa.Instruction(e.call) {
								return false
							}
							for _, a := range cc.Args {
								if U[a] {
									return true
								}
							}
							if cc.IsInvoke() && U[cc.Value] {
								return true // err.Error()
							}
						}
						return false
					}
					how, pos := "", token.NoPos
					explorePaths(&pathSpec{Fn: g, Init: 0, MaxVisits: 20000,
						Step: func(st int, pev pathEvent) int {
							if pev.Ins != nil {
								if pev.Ins == ssa.Instruction(e.call) {
									if st == 1 && how == "" {
										how, pos = "the call is made again (the loop continues) with the failure dropped", e.call.Pos()
									}
									return 0
								}
								if st == 1 && consumes(pev.Ins) {
									return 2
								}
								if st == 1 {
									if r, ok := pev.Ins.(*ssa.Return); ok && how == "" {
										how, pos = "the function returns without it", r.Pos()
										if !pos.IsValid() {
											pos = e.call.Pos()
										}
									}
								}
								return st
							}
							cnd, v := pev.Cond, pev.Val
							for {
								if u, ok := cnd.(*ssa.UnOp); ok && u.Op == token.NOT {
									cnd, v = u.X, !v
									continue
								}
								break
							}
							if x, nilWhenTrue, ok := nilTest(cnd); ok && U[x] {
								if nilWhenTrue == v {
									return 0
								}
								if st == 0 {
									return 1
								}
							}
							return st
						}})
					if how != "" {
						out = append(out, silentSite{rel + "|" + calleeID(e.call.Common()), FuncName(g), pos, how})
					}
				}
			})
		}
	}
	sort.Slice(out, func(i, j int) bool {
		if out[i].key != out[j].key {
			return out[i].key < out[j].key
		}
		return out[i].pos < out[j].pos
	})
	return out
}

func allSilentPkgs() []string {
	var out []string
	for _, g := range silentGroups {
		out = append(out, g.pkgs...)
	}
	return out
}

func genSilentReference(repo string) error {
	p, err := LoadProgram(repo, BuildConfig{"linux", "amd64"}, false, nil)
	if err != nil {
		return err
	}
	ref := silentRef{Note: "per (package, callee): number of calls whose failure is dropped on some path on the reference tree (retry loops, best-effort clean-up); generated by `bbcheck -gen-reference`, never written by a check", Sites: map[string]int{}}
	for _, s := range collectSilent(p, allSilentPkgs()) {
		ref.Sites[s.key]++
	}
	b, _ := json.MarshalIndent(ref, "", " ")
	return os.WriteFile(filepath.Join(refDir, "silentfail.json"), append(b, '\n'), 0o644)
}

var silentRefCache *silentRef

func runSilentFail(c *Ctx, pkgs []string) {
	if !referenceConfig(c) {
		return
	}
	if silentRefCache == nil {
		b, err := os.ReadFile(filepath.Join(refDir, "silentfail.json"))
		if err != nil {
			c.Broken("reference table of tolerated silent failure paths cannot be read: %v", err)
			return
		}
		var r silentRef
		if err := json.Unmarshal(b, &r); err != nil {
			c.Broken("reference table of tolerated silent failure paths: %v", err)
			return
		}
		silentRefCache = &r
	}
	sites := collectSilent(c.Program, pkgs)
	byKey := map[string][]silentSite{}
	var keys []string
	for _, s := range sites {
		if len(byKey[s.key]) == 0 {
			keys = append(keys, s.key)
		}
		byKey[s.key] = append(byKey[s.key], s)
	}
	for _, k := range keys {
		parts := strings.SplitN(k, "|", 2)
		short := parts[1]
		if i := strings.LastIndex(short, "/"); i >= 0 {
			short = short[i+1:]
		}
		tolerated := silentRefCache.Sites[k]
		if len(byKey[k]) <= tolerated {
			c.PassTrivial(parts[0], "failure-consumed "+short, c.Pos(byKey[k][0].pos), fmt.Sprintf("%d tolerated site(s) of the reference tree", tolerated))
			continue
		}
		s := byKey[k][len(byKey[k])-1]
		c.Fail(s.fn, "failure-consumed "+short, c.Pos(s.pos), fmt.Sprintf("on a path on which %s failed, %s: the error is neither returned, wrapped, handed on, stored nor compared with a specific error (the reference tree tolerates %d such site(s) for this callee in the package, now there are %d) – the operation is reported as successful, or simply continues, although this step did not happen", short, s.how, tolerated, len(byKey[k])))
	}
	if len(keys) == 0 {
		c.PassTrivial(strings.Join(pkgs, ","), "failure-consumed", "-", "every failure path consumes its error")
	}
}

// cleanupOnFailurePath: a Close / Discard / Release / Remove whose block ends in a return that hands back an
// error which is not the nil constant.
func cleanupOnFailurePath(cl *ssa.Call) bool {
	name := ""
	if cl.Call.IsInvoke() {
		name = cl.Call.Method.Name()
	} else if sc := cl.Call.StaticCallee(); sc != nil {
		name = sc.Name()
	}
	if !releaseNames[name] && name != "Remove" {
		return false
	}
	b := cl.Block()
	ret, ok := b.Instrs[len(b.Instrs)-1].(*ssa.Return)
	if !ok {
		return false
	}
	for i := range ret.Results {
		r := returnedValue(ret, i)
		if isErrorType(r.Type()) {
			if k, isK := r.(*ssa.Const); isK && k.Value == nil {
				return false
			}
			return true
		}
	}
	return false
}
