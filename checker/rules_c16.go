package main

import (
	"go/token"
	"go/types"

	"golang.org/x/tools/go/ssa"
)

func init() {
	register(&Rule{
		ID: "R16.1", Props: []string{"C16", "C09"}, Engine: "order (path automaton, err-edge sensitive)",
		Text:  "every I/O error of the underlying reader is offered to the handler exactly once and the handler's verdict is what the consumer gets: in errorHandlingReader.Read, errorHandlingChunkReader.Read and casErrorHandlingBuffer.tryRepeatedly, on every path on which the underlying operation failed with something other than io.EOF, ErrorHandler.OnError is called with that error before the function returns or retries, a non-nil error returned by OnError is returned unchanged, and otherwise the replacement buffer it returned is the one that is opened / retried",
		Floor: 3, MustExist: true, Run: runR161,
	})
	register(&Rule{
		ID: "R16.4", Props: []string{"C16", "C09"}, Engine: "order + flow (path automaton)",
		Text:  "delivered-offset bookkeeping: in the two error-handling Read methods the offset field is advanced by exactly the length of the data obtained from the underlying read (n, resp. len(chunk)) before that data is returned to the caller and before a replacement is opened; replacements are opened unvalidated at that tracked offset; nothing else writes the offset",
		Floor: 4, MustExist: true, Run: runR164,
	})
}

// underlyingRead finds the call `r.<field>.Read(...)` (invoke on a receiver field).
func underlyingReadCalls(fn *ssa.Function) []*ssa.Call {
	var out []*ssa.Call
	allInstrs(fn, func(ins ssa.Instruction) {
		cl, ok := ins.(*ssa.Call)
		if !ok || !cl.Call.IsInvoke() || cl.Call.Method.Name() != "Read" {
			return
		}
		if f, base := loadedField(cl.Call.Value); f != nil && len(fn.Params) > 0 && base == ssa.Value(fn.Params[0]) {
			out = append(out, cl)
		}
	})
	return out
}

func isIOEOF(v ssa.Value) bool {
	u, ok := v.(*ssa.UnOp)
	if !ok {
		return false
	}
	g, ok := u.X.(*ssa.Global)
	return ok && g.Name() == "EOF" && g.Pkg.Pkg.Path() == "io"
}

func runR161(c *Ctx) {
	type target struct {
		typ, meth string
	}
	for _, t := range []target{{"errorHandlingReader", "Read"}, {"errorHandlingChunkReader", "Read"}, {"casErrorHandlingBuffer", "tryRepeatedly"}} {
		fn := c.Method(bufferRel, t.typ, t.meth)
		if fn == nil {
			c.Broken("%s.%s not found", t.typ, t.meth)
			continue
		}
		name := FuncName(fn)
		// the operation whose error matters
		var ops []*ssa.Call
		if t.meth == "tryRepeatedly" {
			allInstrs(fn, func(ins ssa.Instruction) {
				if cl, ok := ins.(*ssa.Call); ok && !cl.Call.IsInvoke() && cl.Call.StaticCallee() == nil {
					if _, isParam := cl.Call.Value.(*ssa.Parameter); isParam {
						ops = append(ops, cl)
					}
				}
			})
		} else {
			ops = underlyingReadCalls(fn)
		}
		if len(ops) != 1 {
			c.Fail(name, "operation", c.Pos(fn.Pos()), "expected exactly one underlying operation whose failure is handled")
			continue
		}
		op := ops[0]
		var onErr []*ssa.Call
		allInstrs(fn, func(ins ssa.Instruction) {
			if cl, ok := ins.(*ssa.Call); ok && cl.Call.IsInvoke() && cl.Call.Method.Name() == "OnError" {
				onErr = append(onErr, cl)
			}
		})
		isOpErr := func(v ssa.Value) bool { return isErrResultOf(v, op) }
		// states: 0 before op; 1 after op (error unclassified); 2 known ok (nil or EOF); 3 failed, not yet offered; 4 offered; 5 offered & handler failed; 6 offered & handler gave a replacement
		bad := ""
		var badPos token.Pos
		setBad := func(msg string, pos token.Pos) {
			if bad == "" {
				bad, badPos = msg, pos
			}
		}
		var lastOffer *ssa.Call
		explorePaths(&pathSpec{Fn: fn, Init: 0,
			Step: func(st int, ev pathEvent) int {
				if ev.Ins != nil {
					if ev.Ins == ssa.Instruction(op) {
						if st == 3 {
							setBad("the operation is retried although its failure was not offered to the error handler", ev.Ins.Pos())
						}
						return 1
					}
					if cl, ok := ev.Ins.(*ssa.Call); ok && cl.Call.IsInvoke() && cl.Call.Method.Name() == "OnError" {
						if !isOpErr(cl.Call.Args[0]) {
							setBad("OnError is given something other than the error of the failed operation", cl.Pos())
						}
						if st == 4 || st == 5 || st == 6 {
							setBad("the same I/O error is offered to the handler twice", cl.Pos())
						}
						if st == 2 {
							setBad("the handler is consulted although the operation succeeded or ended with io.EOF", cl.Pos())
						}
						lastOffer = cl
						return 4
					}
					return st
				}
				// edges
				if st == 1 || st == 3 {
					if isNil, ok := edgeSaysErr(ev, op); ok {
						if isNil {
							return 2
						}
						return 3
					}
					// err == io.EOF tests
					c0, v := ev.Cond, ev.Val
					if bo, ok := c0.(*ssa.BinOp); ok && (bo.Op == token.EQL || bo.Op == token.NEQ) {
						if (isOpErr(bo.X) && isIOEOF(bo.Y)) || (isOpErr(bo.Y) && isIOEOF(bo.X)) {
							if (bo.Op == token.EQL) == v {
								return 2
							}
							return 3
						}
					}
				}
				if st == 4 && lastOffer != nil {
					if isNil, ok := edgeSaysErr(ev, lastOffer); ok {
						if isNil {
							return 6
						}
						return 5
					}
				}
				return st
			},
			AtReturn: func(st int, r *ssa.Return, _ map[int]bool) {
				errv := r.Results[len(r.Results)-1]
				switch st {
				case 1, 3:
					// error unclassified or failed and not offered
					if st == 3 || !isOpErr(errv) {
						setBad("a failed operation's error leaves the function without having been offered to the error handler", r.Pos())
					} else if st == 1 && isOpErr(errv) {
						// returns the raw error without classification: only fine if it can only be nil/EOF – unknown
						setBad("the operation's error is returned without asking the error handler", r.Pos())
					}
				case 5:
					carries := false
					if lastOffer != nil {
						deepSlice(fn, errv, func(x ssa.Value) bool {
							if isErrResultOf(x, lastOffer) {
								carries = true
								return false
							}
							_, isCall := x.(*ssa.Call)
							return !isCall
						})
					}
					if !carries {
						setBad("the handler's error is not what the consumer receives", r.Pos())
					}
				case 4:
					carries := false
					if lastOffer != nil {
						deepSlice(fn, errv, func(x ssa.Value) bool {
							if isErrResultOf(x, lastOffer) {
								carries = true
								return false
							}
							_, isCall := x.(*ssa.Call)
							return !isCall
						})
					}
					if lastOffer != nil && !carries && !isNilConst(errv) {
						setBad("after consulting the handler something other than its verdict is returned", r.Pos())
					}
				}
			}})
		if len(onErr) == 0 {
			setBad("the error handler is never consulted", fn.Pos())
		}
		if bad != "" {
			c.Fail(name, "offer-once", c.Pos(badPos), bad)
		} else {
			c.Pass(name, "offer-once", c.Pos(op.Pos()), "each failure is offered to the handler exactly once; its error is returned unchanged")
		}
		// the replacement returned by OnError is what is used next
		for _, oe := range onErr {
			used := false
			if refs := oe.Referrers(); refs != nil {
				for _, r := range *refs {
					if ex, ok := r.(*ssa.Extract); ok && ex.Index == 0 && ex.Referrers() != nil && len(*ex.Referrers()) > 0 {
						used = true
					}
				}
			}
			c.Check(used, name, "replacement-used", c.Pos(oe.Pos()), "the replacement buffer supplied by the handler is the one continued from", "the replacement buffer supplied by the handler is ignored")
		}
	}
}

func runR164(c *Ctx) {
	for _, typ := range []string{"errorHandlingReader", "errorHandlingChunkReader"} {
		fn := c.Method(bufferRel, typ, "Read")
		n := c.LookupType(bufferRel, typ)
		if fn == nil || n == nil {
			c.Broken("%s.Read not found", typ)
			continue
		}
		name := FuncName(fn)
		ops := underlyingReadCalls(fn)
		if len(ops) != 1 {
			c.Fail(name, "operation", c.Pos(fn.Pos()), "expected exactly one underlying read")
			continue
		}
		op := ops[0]
		// the tracked offset: the field whose value is the offset argument of the toUnvalidated* call that opens a replacement
		offName := ""
		withOwnHelpers(fn, func(g *ssa.Function) {
			allInstrs(g, func(ins ssa.Instruction) {
				if cl, ok := ins.(*ssa.Call); ok && cl.Call.IsInvoke() && (cl.Call.Method.Name() == "toUnvalidatedReader" || cl.Call.Method.Name() == "toUnvalidatedChunkReader") {
					if lf, base := loadedField(cl.Call.Args[0]); lf != nil && isReceiverValue(g, base) {
						offName = lf.Name()
					}
				}
			})
		})
		if offName == "" {
			c.Fail(name, "offset-bookkeeping", c.Pos(fn.Pos()), "replacements are not opened at an offset tracked in a field of the reader")
			continue
		}
		// the data value: Extract #0 of op
		var data ssa.Value
		for _, r := range *op.Referrers() {
			if ex, ok := r.(*ssa.Extract); ok && ex.Index == 0 {
				data = ex
			}
		}
		if data == nil {
			c.Fail(name, "data", c.Pos(op.Pos()), "the data returned by the underlying read is discarded")
			continue
		}
		isAdvance := func(st *ssa.Store) (isOff bool, ok bool) {
			f := fieldOf(st.Addr)
			if f == nil || f.Name() != offName {
				return false, false
			}
			bo, isBo := st.Val.(*ssa.BinOp)
			if !isBo || bo.Op != token.ADD {
				return true, false
			}
			lf, _ := loadedField(bo.X)
			if lf == nil || lf.Name() != offName {
				return true, false
			}
			// increment: int64(n) or int64(len(chunk))
			inc := stripConv(bo.Y)
			if inc == data {
				return true, true
			}
			if cl, isC := inc.(*ssa.Call); isC {
				if bi, isB := cl.Call.Value.(*ssa.Builtin); isB && bi.Name() == "len" && cl.Call.Args[0] == data {
					return true, true
				}
			}
			return true, false
		}
		bad := ""
		var badPos token.Pos
		setBad := func(m string, p token.Pos) {
			if bad == "" {
				bad, badPos = m, p
			}
		}
		isBytes := func(v ssa.Value) bool {
			_, ok := v.Type().Underlying().(*types.Slice)
			return ok
		}
		// states: 0 before read; 1 data obtained, not counted; 2 counted; 3 no data on this path (chunk known nil: error edge of chunk reader)
		explorePaths(&pathSpec{Fn: fn, Init: 0, Inline: inlineOwnMethods,
			Step: func(st int, ev pathEvent) int {
				if ev.Ins != nil {
					if ev.Ins == ssa.Instruction(op) {
						return 1
					}
					if s, ok := ev.Ins.(*ssa.Store); ok {
						if isOff, good := isAdvance(s); isOff {
							if !good {
								setBad("the offset is changed by something other than the length of the data just read", s.Pos())
							} else if st == 2 {
								setBad("the offset is advanced twice for the same data", s.Pos())
							}
							return 2
						}
					}
					if cl, ok := ev.Ins.(*ssa.Call); ok && cl.Call.IsInvoke() && (cl.Call.Method.Name() == "toUnvalidatedReader" || cl.Call.Method.Name() == "toUnvalidatedChunkReader") {
						lf, _ := loadedField(cl.Call.Args[0])
						if lf == nil || lf.Name() != offName {
							setBad("the replacement is not opened at the tracked offset", cl.Pos())
						}
						if st == 1 && !isBytes(data) {
							setBad("a replacement is opened at the tracked offset before the bytes just delivered were added to it: that range would be delivered twice", cl.Pos())
						}
					}
					return st
				}
				// for the chunk reader: on the error edge no chunk was delivered
				if st == 1 && isBytes(data) {
					if isNil, ok := edgeSaysErr(ev, op); ok && !isNil {
						return 3
					}
				}
				return st
			},
			AtReturn: func(st int, r *ssa.Return, _ map[int]bool) {
				if st == 1 && r.Results[0] == data {
					setBad("data obtained from the underlying read is returned to the caller without adding its length to the tracked offset: after a later failure the replacement would resume too early and bytes would be delivered twice", r.Pos())
				}
			}})
		if bad != "" {
			c.Fail(name, "offset-bookkeeping", c.Pos(badPos), bad)
		} else {
			c.Pass(name, "offset-bookkeeping", c.Pos(op.Pos()), "the tracked offset advances by exactly what is handed out, before it is handed out or used to resume")
		}
		// the constructor starts the offset at the position the stream was opened at
		nCtor := 0
		for _, ctor := range c.pkgFuncs(bufferRel) {
			if ctor.Signature.Recv() != nil {
				continue
			}
			var lit *ssa.Alloc
			allInstrs(ctor, func(ins ssa.Instruction) {
				if al, ok := ins.(*ssa.Alloc); ok {
					if p, ok := al.Type().(*types.Pointer); ok && types.Identical(p.Elem(), n) {
						lit = al
					}
				}
			})
			if lit == nil {
				continue
			}
			nCtor++
			var openedAt, startOff ssa.Value
			hasOpen := false
			allInstrs(ctor, func(ins ssa.Instruction) {
				st, ok := ins.(*ssa.Store)
				if !ok {
					return
				}
				fa, ok := st.Addr.(*ssa.FieldAddr)
				if !ok || fa.X != ssa.Value(lit) {
					return
				}
				if fieldOf(fa).Name() == offName {
					startOff = st.Val
				}
				if cl, ok := stripConv(st.Val).(*ssa.Call); ok && cl.Call.IsInvoke() && (cl.Call.Method.Name() == "toUnvalidatedReader" || cl.Call.Method.Name() == "toUnvalidatedChunkReader") {
					hasOpen = true
					openedAt = cl.Call.Args[0]
				}
			})
			if !hasOpen {
				c.Fail(FuncName(ctor), "initial-offset", c.Pos(ctor.Pos()), "the constructor does not open the underlying stream with toUnvalidated*Reader")
				continue
			}
			okInit := startOff != nil && sameSource(stripConv(startOff), stripConv(openedAt))
			if startOff == nil {
				if k, isC := constInt(stripConv(openedAt)); isC && k == 0 {
					okInit = true // zero value of the field
				}
			}
			c.Check(okInit, FuncName(ctor), "initial-offset", c.Pos(ctor.Pos()), "the tracked offset starts at the offset the stream was opened at", "the tracked offset ("+offName+") is not initialised with the offset at which the constructor opens the underlying stream: after a failure the replacement resumes at the number of bytes delivered instead of start offset + bytes delivered, so a range is delivered twice")
		}
		if nCtor == 0 {
			c.Fail(name, "initial-offset", c.Pos(fn.Pos()), "no constructor of "+typ+" found")
		}
		// nobody else writes off
		ownHelpers := map[*ssa.Function]bool{}
		withOwnHelpers(fn, func(g *ssa.Function) { ownHelpers[g] = true })
		for _, fs := range fieldStoresIn(c.pkgFuncs(bufferRel), n, offName) {
			okW := fs.fn == fn || fs.fn.Signature.Recv() == nil || ownHelpers[fs.fn]
			c.Check(okW, FuncName(fs.fn), "off-writer", c.Pos(fs.st.Pos()), "written by Read / the constructor", typ+"."+offName+" is written outside Read and the constructor")
		}
	}
}
