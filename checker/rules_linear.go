package main

import (
	"fmt"
	"go/types"
	"strings"

	"golang.org/x/tools/go/ssa"
)

const bufferRel = "pkg/blobstore/buffer"

// Consuming methods of buffer.Buffer per its interface comment ("exactly one
// must be called to release any resources").
var bufferConsuming = map[string]bool{
	"IntoWriter": true, "ReadAt": true, "ToProto": true, "ToByteSlice": true, "ToChunkReader": true, "ToReader": true,
	"CloneCopy": true, "CloneStream": true, "WithTask": true, "Discard": true,
	"applyErrorHandler": true, "toUnvalidatedChunkReader": true, "toUnvalidatedReader": true,
}
var bufferNonConsuming = map[string]bool{"GetSizeBytes": true}

func bufferSpec(c *Ctx) *LinearSpec {
	bt := c.LookupType(bufferRel, "Buffer")
	if bt == nil {
		c.Broken("type %s.Buffer not found", bufferRel)
		return nil
	}
	iface := bt.Underlying().(*types.Interface)
	// every method of the interface must be classified: a method added to
	// the interface is undecided until the table says what it does.
	for i := 0; i < iface.NumMethods(); i++ {
		n := iface.Method(i).Name()
		if !bufferConsuming[n] && !bufferNonConsuming[n] {
			c.Broken("method Buffer.%s is not classified as consuming / non-consuming", n)
		}
	}
	return &LinearSpec{
		IsHandleType: func(t types.Type) bool { return types.Identical(t, bt) },
		ConsumingMethod: func(m *types.Func) bool {
			if m == nil || !bufferConsuming[m.Name()] {
				return false
			}
			// the method object must be Buffer's (or an implementation's method of that name)
			return true
		},
		ParamsOwned: true,
	}
}

func init() {
	register(&Rule{
		ID: "R04.1", Props: []string{"C04", "C18", "C19", "C13"}, Engine: "linear (go/ssa typestate)",
		Text: "every buffer.Buffer a function receives (parameter, captured variable) or obtains (call result) is consumed exactly once on every path to a normal exit, in every package outside pkg/blobstore/buffer; " +
			"consuming = IntoWriter/ReadAt/ToProto/ToByteSlice/ToChunkReader/ToReader/CloneCopy/CloneStream/WithTask/Discard, passing it in a Buffer-typed argument position, returning it, storing it into an owner",
		Floor: 150, MustExist: false,
		Run: runR041,
	})
}

func inBufferPkg(f *ssa.Function) bool {
	return f.Pkg != nil && f.Pkg.Pkg.Path() == modPath+"/"+bufferRel
}

func runR041(c *Ctx) {
	spec := bufferSpec(c)
	if spec == nil {
		return
	}
	la := newLinear(c.Program, spec)
	for _, fn := range c.Funcs {
		if inBufferPkg(fn) {
			continue
		}
		r := la.analyze(fn)
		if r.handles == 0 && len(r.reports) == 0 {
			continue
		}
		name := FuncName(fn)
		if len(r.reports) == 0 {
			c.Pass(name, "buffers", c.Pos(fn.Pos()), fmt.Sprintf("%d handle(s), %d consumption site(s): consumed exactly once on every path", r.handles, r.consumes))
			continue
		}
		for _, rep := range r.reports {
			site := rep.kind + ":" + describeHandle(rep.h)
			c.Fail(name, site, c.Pos(rep.at), fmt.Sprintf("%s: buffer %s (obtained at %s): %s", rep.kind, describeHandle(rep.h), c.Pos(rep.def), rep.descr))
		}
	}
}

func describeHandle(h ssa.Value) string {
	switch x := h.(type) {
	case *ssa.Parameter:
		return "parameter " + x.Name()
	case *ssa.FreeVar:
		return "captured " + x.Name()
	case *ssa.Alloc:
		return "variable " + x.Comment
	case *ssa.Call:
		return "result of " + calleeName(x.Common())
	case *ssa.Extract:
		if cl, ok := x.Tuple.(*ssa.Call); ok {
			return fmt.Sprintf("result #%d of %s", x.Index, calleeName(cl.Common()))
		}
	case *ssa.Phi:
		return "merged value " + strings.TrimSpace(x.Comment)
	}
	return h.Name()
}
