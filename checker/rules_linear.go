package main

import (
	"fmt"
	"go/types"
	"strings"

	"golang.org/x/tools/go/ssa"
)

const bufferRel = "pkg/blobstore/buffer"

// Consuming methods of buffer.Buffer per its interface comment ("exactly one
// must be called to release any resources").
var bufferConsuming = map[string]bool{
	"IntoWriter": true, "ReadAt": true, "ToProto": true, "ToByteSlice": true, "ToChunkReader": true, "ToReader": true,
	"CloneCopy": true, "CloneStream": true, "WithTask": true, "Discard": true,
	"applyErrorHandler": true, "toUnvalidatedChunkReader": true, "toUnvalidatedReader": true,
}
var bufferNonConsuming = map[string]bool{"GetSizeBytes": true}

func bufferSpec(c *Ctx) *LinearSpec {
	bt := c.LookupType(bufferRel, "Buffer")
	if bt == nil {
		c.Broken("type %s.Buffer not found", bufferRel)
		return nil
	}
	iface := bt.Underlying().(*types.Interface)
	// every method of the interface must be classified: a method added to
	// the interface is undecided until the table says what it does.
	for i := 0; i < iface.NumMethods(); i++ {
		n := iface.Method(i).Name()
		if !bufferConsuming[n] && !bufferNonConsuming[n] {
			c.Broken("method Buffer.%s is not classified as consuming / non-consuming", n)
		}
	}
	return &LinearSpec{
		IsHandleType: func(t types.Type) bool { return types.Identical(t, bt) },
		ConsumingMethod: func(m *types.Func) bool {
			if m == nil || !bufferConsuming[m.Name()] {
				return false
			}
			// the method object must be Buffer's (or an implementation's method of that name)
			return true
		},
		ParamsOwned: true,
	}
}

func init() {
	register(&Rule{
		ID: "R04.1", Props: []string{"C04", "C18", "C19", "C13", "C15", "C11", "C17"}, Engine: "linear (go/ssa typestate)",
		Text: "every buffer.Buffer a function receives (parameter, captured variable) or obtains (call result) is consumed exactly once on every path to a normal exit, in every package outside pkg/blobstore/buffer; " +
			"consuming = IntoWriter/ReadAt/ToProto/ToByteSlice/ToChunkReader/ToReader/CloneCopy/CloneStream/WithTask/Discard, passing it in a Buffer-typed argument position, returning it, storing it into an owner",
		Floor: 150, MustExist: false,
		Run: runR041,
	})
}

func inBufferPkg(f *ssa.Function) bool {
	return f.Pkg != nil && f.Pkg.Pkg.Path() == modPath+"/"+bufferRel
}

func runR041(c *Ctx) {
	spec := bufferSpec(c)
	if spec == nil {
		return
	}
	la := newLinear(c.Program, spec)
	for _, fn := range c.Funcs {
		if inBufferPkg(fn) {
			continue
		}
		r := la.analyze(fn)
		if r.handles == 0 && len(r.reports) == 0 {
			continue
		}
		name := FuncName(fn)
		if len(r.reports) == 0 {
			c.Pass(name, "buffers", c.Pos(fn.Pos()), fmt.Sprintf("%d handle(s), %d consumption site(s): consumed exactly once on every path", r.handles, r.consumes))
			continue
		}
		for _, rep := range r.reports {
			site := rep.kind + ":" + describeHandle(rep.h)
			c.Fail(name, site, c.Pos(rep.at), fmt.Sprintf("%s: buffer %s (obtained at %s): %s", rep.kind, describeHandle(rep.h), c.Pos(rep.def), rep.descr))
		}
	}
}

func describeHandle(h ssa.Value) string {
	switch x := h.(type) {
	case *ssa.Parameter:
		return "parameter " + x.Name()
	case *ssa.FreeVar:
		return "captured " + x.Name()
	case *ssa.Alloc:
		return "variable " + x.Comment
	case *ssa.Call:
		return "result of " + calleeName(x.Common())
	case *ssa.Extract:
		if cl, ok := x.Tuple.(*ssa.Call); ok {
			return fmt.Sprintf("result #%d of %s", x.Index, calleeName(cl.Common()))
		}
	case *ssa.Phi:
		return "merged value " + strings.TrimSpace(x.Comment)
	}
	return h.Name()
}

// ---------------------------------------------------------------------------
// Tier 2: inside pkg/blobstore/buffer (R04.2, R16.2, R15.4)

// Types whose resources are released by dynamic reference counting; their
// consuming methods are decided by dedicated rules instead.
var tier2ExemptTypes = map[string]string{
	"multiplexedChunkReader": "the underlying reader is closed by the last of several consumers (dynamic count, decided by R15.4)",
	"validatedReaderBuffer":  "clones share the ReaderAt through an atomic clone count (the count closes it: R15.4; every consuming method gives up exactly one share: R04.8)",
}

// Functions that read from a handle they are given without taking ownership.
var tier2Borrowing = map[string]string{
	"discardFromChunkReader": "reads a prefix from the ChunkReader; the caller keeps and closes it",
}

func init() {
	register(&Rule{
		ID: "R04.2", Props: []string{"C04", "C16", "C15", "C09", "C08"}, Engine: "linear (go/ssa typestate, tier 2: receiver fields as handles)",
		Text:  "inside pkg/blobstore/buffer every Buffer, ChunkReader, io.ReadCloser and ErrorHandler that a function receives as a parameter or obtains from a call is consumed exactly once on every path (Buffer: one of its consuming methods; ChunkReader / ReadCloser: Close; ErrorHandler: Done; or handed on); in every consuming method of a type that wraps such values (decorators, validating and error-handling readers) each owned field is closed / discarded / Done / handed on exactly once on every path; a stream clone (casClonedBuffer) leaves its clone group exactly once on every path of each consuming method",
		Floor: 60, MustExist: false,
		Run: runR042,
	})
}

func runR042(c *Ctx) {
	bt := c.LookupType(bufferRel, "Buffer")
	cr := c.LookupType(bufferRel, "ChunkReader")
	eh := c.LookupType(bufferRel, "ErrorHandler")
	var rc types.Type
	if io := c.ByPath["io"]; io != nil {
		if o := io.Types.Scope().Lookup("ReadCloser"); o != nil {
			rc = o.Type()
		}
	}
	if bt == nil || cr == nil || eh == nil || rc == nil {
		c.Broken("Buffer / ChunkReader / ErrorHandler / io.ReadCloser not found")
		return
	}
	isHandle := func(t types.Type) bool {
		return types.Identical(t, bt) || types.Identical(t, cr) || types.Identical(t, eh) || types.Identical(t, rc)
	}
	consumingNames := map[string]bool{"Close": true, "Done": true}
	for k := range bufferConsuming {
		consumingNames[k] = true
	}
	implementsAny := func(n *types.Named) (buf, chunk, closer, handler bool) {
		for _, t := range []types.Type{n, types.NewPointer(n)} {
			buf = buf || types.Implements(t, bt.Underlying().(*types.Interface))
			chunk = chunk || types.Implements(t, cr.Underlying().(*types.Interface))
			closer = closer || types.Implements(t, rc.Underlying().(*types.Interface))
			handler = handler || types.Implements(t, eh.Underlying().(*types.Interface))
		}
		return
	}
	isConsumingMethodOf := func(fn *ssa.Function) (*types.Named, bool) {
		o, ok := fn.Object().(*types.Func)
		if !ok {
			return nil, false
		}
		n := recvNamed(o)
		if n == nil {
			return nil, false
		}
		buf, chunk, closer, handler := implementsAny(n)
		switch {
		case buf && bufferConsuming[fn.Name()]:
			return n, true
		case (chunk || closer) && fn.Name() == "Close":
			return n, true
		case handler && fn.Name() == "Done":
			return n, true
		}
		return n, false
	}
	spec := &LinearSpec{
		IsHandleType:    isHandle,
		ConsumingMethod: func(m *types.Func) bool { return m != nil && consumingNames[m.Name()] },
		ParamsOwned:     true,
		ParamsBorrowed: func(fn *ssa.Function) bool {
			if _, ok := tier2Borrowing[fn.Name()]; ok {
				c.Exception(fn.Name(), tier2Borrowing[fn.Name()])
				return true
			}
			// non-consuming methods (Read, OnError, GetSizeBytes …) and test helpers do not own parameters of handle type
			return false
		},
		BorrowingCallee: func(callee *ssa.Function, cc *ssa.CallCommon) bool {
			_, ok := tier2Borrowing[callee.Name()]
			return ok
		},
		RecvFieldsOwned: func(fn *ssa.Function) []*types.Var {
			n, _ := isConsumingMethodOf(fn)
			if n == nil {
				return nil
			}
			switch fn.Name() {
			case "GetSizeBytes", "Read", "OnError", "ReadAt":
				// non-consuming operations borrow the fields (ReadAt of a Buffer is consuming and handled below)
				if fn.Name() != "ReadAt" {
					return nil
				}
			}
			if why, ex := tier2ExemptTypes[n.Obj().Name()]; ex {
				c.Exception(n.Obj().Name(), why)
				return nil
			}
			if n.Obj().Name() == "casClonedBuffer" {
				return nil
			}
			st, ok := n.Underlying().(*types.Struct)
			if !ok {
				return nil
			}
			var out []*types.Var
			for i := 0; i < st.NumFields(); i++ {
				if isHandle(st.Field(i).Type()) {
					out = append(out, st.Field(i))
				}
			}
			return out
		},
		SelfHandle: func(fn *ssa.Function) bool {
			n, _ := isConsumingMethodOf(fn)
			if n == nil || n.Obj().Name() != "casClonedBuffer" {
				return false
			}
			switch fn.Name() {
			case "CloneStream", "toChunkReader", "GetSizeBytes":
				return false
			}
			return true
		},
		SelfConsumer: func(callee *ssa.Function) bool { return callee.Name() == "toChunkReader" },
		IsEntry: func(fn *ssa.Function) bool {
			_, consuming := isConsumingMethodOf(fn)
			return consuming
		},
		ConditionalTransfer: func(cc *ssa.CallCommon) bool {
			return cc.IsInvoke() && cc.Method.Name() == "applyErrorHandler"
		},
		ReturnKeeps: func(fn *ssa.Function, r *ssa.Return, h ssa.Value) bool {
			if fn.Name() != "applyErrorHandler" || len(r.Results) != 2 || !isBoolConst(r.Results[1], true) {
				return false
			}
			return types.Identical(h.Type(), eh)
		},
		UntrackedResult: func(callee *ssa.Function) bool {
			if callee.Name() == "newMultiplexedChunkReader" {
				c.Exception("newMultiplexedChunkReader", "its result is shared by all consumers of a stream clone and released by the last one (dynamic count, decided by R15.4)")
				return true
			}
			return false
		},
	}
	la := newLinear(c.Program, spec)
	for _, fn := range c.Funcs {
		if !inBufferPkg(fn) {
			continue
		}
		r := la.analyze(fn)
		if r.handles == 0 && len(r.reports) == 0 {
			continue
		}
		name := FuncName(fn)
		if len(r.reports) == 0 {
			c.Pass(name, "handles", c.Pos(fn.Pos()), fmt.Sprintf("%d handle(s), %d consumption site(s): consumed exactly once on every path", r.handles, r.consumes))
			continue
		}
		for _, rep := range r.reports {
			site := rep.kind + ":" + describeHandle(rep.h)
			c.Fail(name, site, c.Pos(rep.at), fmt.Sprintf("%s: %s (obtained at %s): %s", rep.kind, describeHandle(rep.h), c.Pos(rep.def), rep.descr))
		}
	}
}
