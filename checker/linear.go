package main

import (
	"fmt"
	"go/constant"
	"go/token"
	"go/types"
	"sort"
	"strings"

	"golang.org/x/tools/go/ssa"
)

// ---------------------------------------------------------------------------
// linear: ownership typestate on go/ssa.
//
// Every SSA value of a tracked type that a function receives or obtains is a
// handle. State per handle (a may-set): O owned, M moved/consumed, N nil / no
// obligation, B borrowed (unknown provenance, no obligation). Leak: O possible
// at a normal return. Double use: consumption while M possible.

type lstate uint8

const (
	stO lstate = 1 << iota
	stM
	stN
	stB
)

func (s lstate) String() string {
	var p []string
	if s&stO != 0 {
		p = append(p, "owned")
	}
	if s&stM != 0 {
		p = append(p, "consumed")
	}
	if s&stN != 0 {
		p = append(p, "nil")
	}
	if s&stB != 0 {
		p = append(p, "borrowed")
	}
	return strings.Join(p, "|")
}

// LinearSpec configures one linear analysis.
type LinearSpec struct {
	// IsHandleType: values of this static type are handles.
	IsHandleType func(t types.Type) bool
	// Consuming reports whether the method (resolved object) consumes its
	// receiver handle.
	ConsumingMethod func(m *types.Func) bool
	// ParamsOwned: parameters of handle type are owned by the callee
	// (callee must consume on all paths).
	ParamsOwned bool
	// SkipFunc: functions not analysed (and trusted to honour the contract).
	SkipFunc func(f *ssa.Function) bool
	// BorrowingCallee: callee that takes a handle-typed argument without
	// consuming it (frozen table).
	BorrowingCallee func(callee *ssa.Function, common *ssa.CallCommon) bool
	// ParamsBorrowed: functions whose handle-typed parameters are borrowed.
	ParamsBorrowed func(fn *ssa.Function) bool
	// RecvFieldsOwned: for a method, the receiver fields (of handle type)
	// that the method owns and must consume exactly once (tier 2).
	RecvFieldsOwned func(fn *ssa.Function) []*types.Var
	// SelfHandle: the method owns a pseudo handle for the receiver itself,
	// consumed by calling SelfConsumer on the receiver or by passing the
	// receiver on as a handle.
	SelfHandle   func(fn *ssa.Function) bool
	SelfConsumer func(callee *ssa.Function) bool
	// IsEntry: leaks of receiver-field handles are reported only in entry
	// points (the consuming interface methods); other methods are helpers
	// whose effect is summarised and applied at their call sites.
	IsEntry func(fn *ssa.Function) bool
	// ConditionalTransfer: a call that consumes its handle arguments unless
	// its boolean result #1 is true (Buffer.applyErrorHandler's shouldRetry).
	ConditionalTransfer func(cc *ssa.CallCommon) bool
	// ReturnKeeps: at this return the function legitimately keeps handle h
	// unconsumed (applyErrorHandler returning shouldRetry = true).
	ReturnKeeps func(fn *ssa.Function, r *ssa.Return, h ssa.Value) bool
	// UntrackedResult: results of this callee are shared / reference counted.
	UntrackedResult func(callee *ssa.Function) bool
}

// fakeHandle stands for an owned receiver field (or the receiver itself).
type fakeHandle struct {
	fn    *ssa.Function
	field *types.Var // nil = the receiver itself
}

func (f *fakeHandle) Name() string {
	if f.field == nil {
		return "receiver"
	}
	return "field " + f.field.Name()
}
func (f *fakeHandle) String() string { return f.Name() }
func (f *fakeHandle) Type() types.Type {
	if f.field == nil {
		return f.fn.Params[0].Type()
	}
	return f.field.Type()
}
func (f *fakeHandle) Parent() *ssa.Function         { return f.fn }
func (f *fakeHandle) Referrers() *[]ssa.Instruction { return nil }
func (f *fakeHandle) Pos() token.Pos                { return f.fn.Pos() }

type linReport struct {
	fn    *ssa.Function
	kind  string // leak | double-use | overwrite
	h     ssa.Value
	at    token.Pos
	def   token.Pos
	descr string
	path  []string
}

type linFuncResult struct {
	fn       *ssa.Function
	handles  int
	consumes int
	reports  []linReport
	// claims[i]: closure consumes free variable i (cell of handle type)
	claims map[int]bool
	// tier 2 summaries for helper methods: receiver fields (and the self
	// handle) consumed on every normal exit
	fieldMust map[*types.Var]bool
	selfMust  bool
	partial   []*fakeHandle
	owners    map[string]int // types stored into (for the owner table)
}

type linAnalysis struct {
	prog    *Program
	spec    *LinearSpec
	results map[*ssa.Function]*linFuncResult
	// per-function context (tier 2)
	curFn       *ssa.Function
	curFields   map[*types.Var]*fakeHandle
	curSelf     *fakeHandle
	consumeRecv func(env linEnv, v ssa.Value, at token.Pos, what string) bool
}

// recvFieldHandle: v is a load of (or the address of) an owned receiver field.
func (la *linAnalysis) recvFieldHandle(v ssa.Value) *fakeHandle {
	if la.curFields == nil {
		return nil
	}
	var fa *ssa.FieldAddr
	switch x := v.(type) {
	case *ssa.UnOp:
		if x.Op != token.MUL {
			return nil
		}
		fa, _ = x.X.(*ssa.FieldAddr)
	case *ssa.FieldAddr:
		fa = x
	}
	if fa == nil || !isReceiverValue(la.curFn, fa.X) {
		return nil
	}
	// keyed by the struct's own field object (fieldOf may hand out a stand-in carrying the field's reference name)
	st, ok := fa.X.Type().Underlying().(*types.Pointer).Elem().Underlying().(*types.Struct)
	if !ok {
		return nil
	}
	return la.curFields[st.Field(fa.Field)]
}

// isReceiver: v is the receiver (possibly converted to an interface).
func (la *linAnalysis) isReceiver(v ssa.Value) bool {
	if la.curFn == nil || (la.curFields == nil && la.curSelf == nil) || len(la.curFn.Params) == 0 {
		return false
	}
	return isReceiverValue(la.curFn, stripConv(v))
}

func newLinear(p *Program, spec *LinearSpec) *linAnalysis {
	return &linAnalysis{prog: p, spec: spec, results: map[*ssa.Function]*linFuncResult{}}
}

func (la *linAnalysis) isHandle(t types.Type) bool { return t != nil && la.spec.IsHandleType(t) }

func (la *linAnalysis) isCell(v ssa.Value) bool {
	switch v := v.(type) {
	case *ssa.Alloc:
		return la.isHandle(v.Type().(*types.Pointer).Elem())
	case *ssa.FreeVar:
		if pt, ok := v.Type().(*types.Pointer); ok {
			return la.isHandle(pt.Elem())
		}
	}
	return false
}

// resolve maps a value to the handle it denotes (or nil = untracked).
func (la *linAnalysis) resolve(v ssa.Value) ssa.Value {
	for i := 0; i < 16 && v != nil; i++ {
		switch x := v.(type) {
		case *ssa.ChangeInterface:
			v = x.X
		case *ssa.TypeAssert:
			if x.CommaOk {
				return nil
			}
			v = x.X
		case *ssa.UnOp:
			if x.Op == token.MUL {
				if la.isCell(x.X) {
					return x.X
				}
				if fh := la.recvFieldHandle(x); fh != nil {
					return fh
				}
				return nil
			}
			if x.Op == token.ARROW && la.isHandle(x.Type()) {
				return x
			}
			return nil
		case *ssa.Call:
			if la.isHandle(x.Type()) {
				return x
			}
			return nil
		case *ssa.Extract:
			if la.isHandle(x.Type()) {
				if _, ok := x.Tuple.(*ssa.Call); ok {
					return x
				}
				if u, ok := x.Tuple.(*ssa.UnOp); ok && u.Op == token.ARROW {
					return x
				}
			}
			return nil
		case *ssa.Parameter:
			if la.isHandle(x.Type()) {
				return x
			}
			return nil
		case *ssa.Phi:
			if la.isHandle(x.Type()) {
				return x
			}
			return nil
		case *ssa.Alloc, *ssa.FreeVar:
			if la.isCell(x) {
				return x
			}
			return nil
		case *fakeHandle:
			return x
		default:
			return nil
		}
	}
	return nil
}

type linEnv map[ssa.Value]lstate

func (e linEnv) clone() linEnv {
	n := make(linEnv, len(e))
	for k, v := range e {
		n[k] = v
	}
	return n
}

func (e linEnv) joinFrom(o linEnv) bool {
	ch := false
	for k, v := range o {
		if e[k]|v != e[k] {
			e[k] |= v
			ch = true
		}
	}
	return ch
}

func isNilConst(v ssa.Value) bool {
	c, ok := v.(*ssa.Const)
	return ok && c.Value == nil
}

func isBoolConst(v ssa.Value, b bool) bool {
	c, ok := v.(*ssa.Const)
	return ok && c.Value != nil && c.Value.Kind() == constant.Bool && constant.BoolVal(c.Value) == b
}

func (la *linAnalysis) analyze(fn *ssa.Function) *linFuncResult {
	if r, ok := la.results[fn]; ok {
		return r
	}
	res := &linFuncResult{fn: fn, claims: map[int]bool{}, owners: map[string]int{}}
	la.results[fn] = res // break recursion
	for _, a := range fn.AnonFuncs {
		la.analyze(a)
	}
	if fn.Blocks == nil {
		return res
	}
	reported := map[string]bool{}
	report := func(kind string, h ssa.Value, at token.Pos, descr string) {
		k := fmt.Sprintf("%s|%p|%d", kind, h, at)
		if reported[k] {
			return
		}
		reported[k] = true
		res.reports = append(res.reports, linReport{fn: fn, kind: kind, h: h, at: at, def: h.Pos(), descr: descr})
	}

	// per-function context (saved and restored: analyze recurses into closures)
	saveFn, saveFields, saveSelf, saveCR := la.curFn, la.curFields, la.curSelf, la.consumeRecv
	defer func() { la.curFn, la.curFields, la.curSelf, la.consumeRecv = saveFn, saveFields, saveSelf, saveCR }()
	la.curFn, la.curFields, la.curSelf = fn, nil, nil
	entry := linEnv{}
	if la.spec.RecvFieldsOwned != nil && fn.Signature.Recv() != nil {
		if fs := la.spec.RecvFieldsOwned(fn); len(fs) > 0 {
			la.curFields = map[*types.Var]*fakeHandle{}
			for _, f := range fs {
				h := &fakeHandle{fn: fn, field: f}
				la.curFields[f] = h
				entry[h] = stO
				res.handles++
			}
		}
	}
	if la.spec.SelfHandle != nil && fn.Signature.Recv() != nil && la.spec.SelfHandle(fn) {
		la.curSelf = &fakeHandle{fn: fn}
		entry[la.curSelf] = stO
		res.handles++
	}
	if la.spec.ParamsOwned && !(la.spec.ParamsBorrowed != nil && la.spec.ParamsBorrowed(fn)) {
		for i, p := range fn.Params {
			if i == 0 && fn.Signature.Recv() != nil {
				continue
			}
			if la.isHandle(p.Type()) {
				entry[p] = stO
				res.handles++
			}
		}
	}
	for _, fv := range fn.FreeVars {
		if la.isCell(fv) {
			entry[fv] = stO // tentatively owned; classification below
		}
	}

	in := make([]linEnv, len(fn.Blocks))
	in[0] = entry
	work := []int{0}
	inWork := map[int]bool{0: true}
	final := false // second pass: emit reports

	consume := func(env linEnv, h ssa.Value, at token.Pos, what string) {
		if h == nil {
			return
		}
		st, ok := env[h]
		if !ok {
			return
		}
		if st == stB {
			return // borrowed / shared value: no obligation either way
		}
		if final {
			res.consumes++
			if st&stM != 0 {
				report("double-use", h, at, fmt.Sprintf("%s while it may already have been consumed", what))
			}
		}
		env[h] = stM
	}

	// the receiver itself handed on as a handle: every owned field (and the
	// self handle) goes with it
	consumeRecv := func(env linEnv, v ssa.Value, at token.Pos, what string) bool {
		if !la.isReceiver(v) {
			return false
		}
		if _, isIface := v.Type().Underlying().(*types.Interface); !isIface {
			return false
		}
		for _, h := range la.curFields {
			consume(env, h, at, what)
		}
		if la.curSelf != nil {
			consume(env, la.curSelf, at, what)
		}
		return true
	}
	la.consumeRecv = consumeRecv
	var transfer func(b *ssa.BasicBlock, env linEnv) (succEnvs []linEnv)
	transfer = func(b *ssa.BasicBlock, env linEnv) []linEnv {
		for _, ins := range b.Instrs {
			switch x := ins.(type) {
			case *ssa.Phi:
				// handled on edges
			case *ssa.Alloc:
				if la.isCell(x) {
					if final {
						res.handles++
						if env[x]&stO != 0 {
							report("overwrite", x, x.Pos(), "variable re-created (loop) while it may still own a handle")
						}
					}
					env[x] = stN
				}
			case *ssa.Call:
				la.call(fn, res, env, x, x.Common(), consume, final)
				if la.isHandle(x.Type()) && la.spec.UntrackedResult != nil && x.Call.StaticCallee() != nil && la.spec.UntrackedResult(x.Call.StaticCallee()) {
					env[x] = stB
				} else if la.isHandle(x.Type()) {
					if final {
						res.handles++
						if env[x]&stO != 0 {
							report("leak", x, x.Pos(), "handle obtained again while the previous instance may still be owned (loop)")
						}
					}
					env[x] = stO
				}
			case *ssa.Defer:
				la.call(fn, res, env, nil, x.Common(), consume, final)
			case *ssa.Go:
				la.call(fn, res, env, nil, x.Common(), consume, final)
			case *ssa.Extract:
				if h := la.resolve(x); h == x {
					if final {
						res.handles++
					}
					env[x] = stO
				}
			case *ssa.UnOp:
				if x.Op == token.ARROW && la.isHandle(x.Type()) {
					env[x] = stO
				}
			case *ssa.Store:
				vh := la.resolve(x.Val)
				if fh := la.recvFieldHandle(x.Addr); fh != nil {
					// assignment to an owned receiver field
					if final && env[fh]&stO != 0 && vh != ssa.Value(fh) {
						report("overwrite", fh, x.Pos(), "field overwritten while it may still own a handle")
					}
					if vh != nil {
						if st, ok := env[vh]; ok {
							env[fh] = st
							if vh != ssa.Value(fh) {
								env[vh] = stM
							}
						} else {
							env[fh] = stB
						}
					} else if isNilConst(x.Val) {
						env[fh] = stN
					} else {
						env[fh] = stB
					}
				} else if la.isCell(x.Addr) {
					cell := x.Addr
					if final && env[cell]&stO != 0 && !(vh == cell) {
						report("overwrite", cell, x.Pos(), "variable overwritten while it may still own a handle")
					}
					if vh != nil {
						if st, ok := env[vh]; ok {
							env[cell] = st
							if vh != cell {
								env[vh] = stM
							}
						} else {
							env[cell] = stB
						}
					} else if isNilConst(x.Val) {
						env[cell] = stN
					} else {
						env[cell] = stB
					}
				} else if vh != nil {
					if _, ok := env[vh]; ok {
						if final {
							res.owners[ownerOf(x.Addr)]++
						}
						consume(env, vh, x.Pos(), "stored")
					}
				} else {
					consumeRecv(env, x.Val, x.Pos(), "receiver stored")
				}
			case *ssa.MapUpdate:
				consume(env, la.resolve(x.Value), x.Pos(), "stored in map")
			case *ssa.Send:
				consume(env, la.resolve(x.X), x.Pos(), "sent on channel")
			case *ssa.MakeClosure:
				cf := x.Fn.(*ssa.Function)
				cr := la.analyze(cf)
				for i, bnd := range x.Bindings {
					if la.isCell(bnd) && cr.claims[i] {
						consume(env, bnd, x.Pos(), "captured by a closure that consumes it")
					}
				}
			case *ssa.Return:
				for _, r := range x.Results {
					if h := la.resolve(r); h != nil {
						consume(env, h, x.Pos(), "returned")
					} else {
						consumeRecv(env, r, x.Pos(), "receiver returned")
					}
				}
				if final {
					for h, st := range env {
						if st&stO != 0 {
							if _, isFV := h.(*ssa.FreeVar); isFV {
								continue
							}
							if _, isFake := h.(*fakeHandle); isFake && la.spec.IsEntry != nil && !la.spec.IsEntry(fn) {
								continue // helper: summarised below
							}
							if la.spec.ReturnKeeps != nil && la.spec.ReturnKeeps(fn, x, h) {
								continue
							}
							report("leak", h, x.Pos(), "handle may still be owned at this return")
						}
					}
				}
			}
		}
		// successor environments with branch refinement
		succs := make([]linEnv, len(b.Succs))
		for i := range b.Succs {
			succs[i] = env.clone()
		}
		if len(b.Instrs) > 0 {
			if iff, ok := b.Instrs[len(b.Instrs)-1].(*ssa.If); ok && len(b.Succs) == 2 {
				la.refine(iff.Cond, true, succs[0])
				la.refine(iff.Cond, false, succs[1])
			}
		}
		// phi transfer
		for i, s := range b.Succs {
			idx := -1
			for k, p := range s.Preds {
				if p == b {
					idx = k
					break
				}
			}
			// compute simultaneously
			type upd struct {
				phi *ssa.Phi
				st  lstate
			}
			var upds []upd
			var moved []ssa.Value
			for _, ins := range s.Instrs {
				phi, ok := ins.(*ssa.Phi)
				if !ok {
					break
				}
				if !la.isHandle(phi.Type()) {
					continue
				}
				op := phi.Edges[idx]
				var st lstate
				if isNilConst(op) {
					st = stN
				} else if h := la.resolve(op); h != nil {
					if s0, ok := succs[i][h]; ok {
						st = s0
						if h != phi {
							moved = append(moved, h)
						}
					} else {
						st = stB
					}
				} else {
					st = stB
				}
				upds = append(upds, upd{phi, st})
			}
			for _, h := range moved {
				if _, isCell := h.(*ssa.Alloc); !isCell {
					succs[i][h] = stM
				}
			}
			for _, u := range upds {
				succs[i][u.phi] = u.st
			}
		}
		return succs
	}

	run := func() {
		for len(work) > 0 {
			bi := work[0]
			work = work[1:]
			inWork[bi] = false
			b := fn.Blocks[bi]
			env := in[bi].clone()
			// phis in this block: their state was put in by the edges, but a
			// join of per-edge phi states must not keep a stale one: fine,
			// may-analysis.
			outs := transfer(b, env)
			for i, s := range b.Succs {
				if in[s.Index] == nil {
					in[s.Index] = outs[i]
					if !inWork[s.Index] {
						work = append(work, s.Index)
						inWork[s.Index] = true
					}
				} else if in[s.Index].joinFrom(outs[i]) {
					if !inWork[s.Index] {
						work = append(work, s.Index)
						inWork[s.Index] = true
					}
				}
			}
		}
	}
	run()
	// classify free variables: a closure claims (consumes) a captured cell
	// iff some path to a normal exit consumed it.
	fvState := map[ssa.Value]lstate{}
	for bi, b := range fn.Blocks {
		if in[bi] == nil || len(b.Instrs) == 0 {
			continue
		}
		if _, ok := b.Instrs[len(b.Instrs)-1].(*ssa.Return); !ok {
			continue
		}
		e2 := in[bi].clone()
		transfer(b, e2)
		for _, fv := range fn.FreeVars {
			if st, ok := e2[fv]; ok {
				fvState[fv] |= st
			}
		}
	}
	for i, fv := range fn.FreeVars {
		if fvState[fv]&stM != 0 {
			res.claims[i] = true
		}
	}
	// helper summaries for receiver fields
	if la.curFields != nil || la.curSelf != nil {
		res.fieldMust = map[*types.Var]bool{}
		exitState := map[*fakeHandle]lstate{}
		nExits := 0
		for bi, b := range fn.Blocks {
			if in[bi] == nil || len(b.Instrs) == 0 {
				continue
			}
			if _, ok := b.Instrs[len(b.Instrs)-1].(*ssa.Return); !ok {
				continue
			}
			nExits++
			e2 := in[bi].clone()
			transfer(b, e2)
			for _, h := range la.curFields {
				exitState[h] |= e2[h]
			}
			if la.curSelf != nil {
				exitState[la.curSelf] |= e2[la.curSelf]
			}
		}
		for f, h := range la.curFields {
			st := exitState[h]
			if nExits > 0 && st&stO == 0 && st&stM != 0 {
				res.fieldMust[f] = true
			} else if st&stO != 0 && st&stM != 0 && la.spec.IsEntry != nil && !la.spec.IsEntry(fn) {
				res.partial = append(res.partial, h)
			}
		}
		if la.curSelf != nil {
			st := exitState[la.curSelf]
			res.selfMust = nExits > 0 && st&stO == 0 && st&stM != 0
		}
	}
	// report pass
	final = true
	for bi, b := range fn.Blocks {
		if in[bi] == nil {
			continue
		}
		env := in[bi].clone()
		transfer(b, env)
		if len(b.Instrs) > 0 {
			if ret, ok := b.Instrs[len(b.Instrs)-1].(*ssa.Return); ok {
				for i, fv := range fn.FreeVars {
					if res.claims[i] && env[fv]&stO != 0 {
						report("leak", fv, ret.Pos(), "captured handle is consumed on some paths of this closure but may still be owned at this return")
					}
				}
			}
		}
	}
	for _, h := range res.partial {
		report("leak", h, fn.Pos(), "this helper consumes the receiver's "+h.Name()+" on some paths only")
	}
	sort.Slice(res.reports, func(i, j int) bool { return res.reports[i].at < res.reports[j].at })
	return res
}

func ownerOf(addr ssa.Value) string {
	switch a := addr.(type) {
	case *ssa.FieldAddr:
		t := a.X.Type()
		if p, ok := t.Underlying().(*types.Pointer); ok {
			t = p.Elem()
		}
		if st, ok := t.Underlying().(*types.Struct); ok {
			return types.TypeString(t, func(p *types.Package) string { return p.Name() }) + "." + st.Field(a.Field).Name()
		}
	case *ssa.IndexAddr:
		return "element of " + a.X.Type().String()
	case *ssa.Global:
		return "global " + a.Name()
	}
	return fmt.Sprintf("%T", addr)
}

// refine applies the branch condition cond == val to env.
func (la *linAnalysis) refine(cond ssa.Value, val bool, env linEnv) {
	switch c := cond.(type) {
	case *ssa.UnOp:
		if c.Op == token.NOT {
			la.refine(c.X, !val, env)
		}
	case *ssa.Extract:
		// shouldRetry of applyErrorHandler: when true the handler was not consumed
		if cl, ok := c.Tuple.(*ssa.Call); ok && val && la.spec.ConditionalTransfer != nil && la.spec.ConditionalTransfer(cl.Common()) {
			for _, a := range cl.Call.Args {
				if h := la.resolve(a); h != nil {
					if _, tracked := env[h]; tracked && la.isHandle(a.Type()) {
						env[h] = stO
					}
				}
			}
		}
	case *ssa.BinOp:
		if c.Op != token.EQL && c.Op != token.NEQ {
			return
		}
		var x ssa.Value
		if isNilConst(c.Y) {
			x = c.X
		} else if isNilConst(c.X) {
			x = c.Y
		} else {
			return
		}
		isNil := (c.Op == token.EQL) == val
		// handle compared with nil
		if h := la.resolve(x); h != nil {
			if _, ok := env[h]; ok {
				if isNil {
					env[h] = stN
				} else if env[h]&^stN != 0 {
					env[h] &^= stN
				}
			}
			return
		}
		// error sibling of a tuple: err != nil => handle siblings are nil
		if !isNil {
			if ex, ok := x.(*ssa.Extract); ok && isErrorType(ex.Type()) {
				for h := range env {
					if hx, ok := h.(*ssa.Extract); ok && hx.Tuple == ex.Tuple {
						env[h] = stN
					}
				}
			}
		}
	}
}

func isErrorType(t types.Type) bool {
	return types.Identical(t, types.Universe.Lookup("error").Type())
}

func (la *linAnalysis) call(fn *ssa.Function, res *linFuncResult, env linEnv, call *ssa.Call, cc *ssa.CallCommon,
	consume func(linEnv, ssa.Value, token.Pos, string), final bool) {
	pos := cc.Pos()
	if cc.IsInvoke() {
		// method call on an interface value
		if h := la.resolve(cc.Value); h != nil {
			if _, ok := env[h]; ok && la.spec.ConsumingMethod(cc.Method) {
				consume(env, h, pos, "consumed by "+cc.Method.Name()+"()")
			}
		}
	} else if callee := cc.StaticCallee(); callee != nil && callee.Signature.Recv() != nil && len(cc.Args) > 0 {
		// static method call with a handle receiver (concrete handle types)
		if h := la.resolve(cc.Args[0]); h != nil {
			if _, ok := env[h]; ok {
				if m, ok := callee.Object().(*types.Func); ok && la.spec.ConsumingMethod(m) {
					consume(env, h, pos, "consumed by "+m.Name()+"()")
				}
			}
		}
	}
	if callee := cc.StaticCallee(); callee != nil && callee != fn && (la.curFields != nil || la.curSelf != nil) && callee.Signature.Recv() != nil &&
		len(cc.Args) > 0 && isReceiverValue(la.curFn, cc.Args[0]) && callee.Blocks != nil {
		myFields, mySelf := la.curFields, la.curSelf
		cr := la.analyze(callee)
		for f, must := range cr.fieldMust {
			if h := myFields[f]; must && h != nil {
				consume(env, h, pos, "consumed by helper "+callee.Name()+"()")
			}
		}
		if cr.selfMust && mySelf != nil {
			consume(env, mySelf, pos, "consumed by helper "+callee.Name()+"()")
		}
	}
	if callee := cc.StaticCallee(); callee != nil && la.curSelf != nil && la.spec.SelfConsumer != nil && len(cc.Args) > 0 &&
		isReceiverValue(la.curFn, cc.Args[0]) && la.spec.SelfConsumer(callee) {
		consume(env, la.curSelf, pos, "consumed by "+callee.Name()+"()")
	}
	sig := cc.Signature()
	args := cc.Args
	off := 0
	if !cc.IsInvoke() && sig.Recv() != nil {
		off = 1
	}
	callee := cc.StaticCallee()
	if callee != nil && la.spec.BorrowingCallee != nil && la.spec.BorrowingCallee(callee, cc) {
		return
	}
	for i := off; i < len(args); i++ {
		pi := i - off
		var pt types.Type
		if pi < sig.Params().Len() {
			pt = sig.Params().At(pi).Type()
		}
		if sig.Variadic() && pi >= sig.Params().Len()-1 {
			continue
		}
		if pt == nil || !la.isHandle(pt) {
			continue
		}
		if h := la.resolve(args[i]); h != nil {
			if _, ok := env[h]; ok {
				consume(env, h, pos, "passed to "+calleeName(cc))
			}
		} else if la.consumeRecv != nil {
			la.consumeRecv(env, args[i], pos, "receiver passed to "+calleeName(cc))
		}
	}
}

func calleeName(cc *ssa.CallCommon) string {
	if cc.IsInvoke() {
		return cc.Method.FullName()
	}
	if f := cc.StaticCallee(); f != nil {
		return FuncName(f)
	}
	return "function value"
}
