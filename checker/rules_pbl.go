package main

import (
	"fmt"
	"go/token"
	"go/types"

	"golang.org/x/tools/go/ssa"
)

// Rules about PersistentBlockList / notificationChannel (C02, C03, C04, C07).

type pblCtx struct {
	c                           *Ctx
	T                           *types.Named // PersistentBlockList
	info                        *types.Named // persistentBlockInfo
	funcs                       []*ssa.Function
	ctor                        *ssa.Function
	fSyncing                    string // epoch counter frozen by NotifySyncStarting
	fSynced                     string // epoch counter exposed by NotifySyncCompleted
	oWritten, oSyncing, oSynced string // per-block offset fields
}

func newPblCtx(c *Ctx) *pblCtx {
	p := &pblCtx{c: c, T: c.LookupType(localRel, "PersistentBlockList"), info: c.LookupType(localRel, "persistentBlockInfo")}
	if p.T == nil || p.info == nil {
		c.Broken("PersistentBlockList / persistentBlockInfo not found")
		return nil
	}
	p.funcs = c.pkgFuncs(localRel)
	p.ctor = c.Func(localRel, "NewPersistentBlockList")
	// discover the epoch / offset counters from the notification methods
	nss := c.Method(localRel, "PersistentBlockList", "NotifySyncStarting")
	nsc := c.Method(localRel, "PersistentBlockList", "NotifySyncCompleted")
	if nss == nil || nsc == nil || p.ctor == nil {
		c.Broken("NotifySyncStarting / NotifySyncCompleted / NewPersistentBlockList not found")
		return nil
	}
	allInstrs(nss, func(ins ssa.Instruction) {
		st, ok := ins.(*ssa.Store)
		if !ok {
			return
		}
		f := fieldOf(st.Addr)
		if f == nil {
			return
		}
		if isLenOfField(st.Val, "epochHashSeeds", "epochLastAbsoluteBlockIndex") {
			p.fSyncing = f.Name()
		} else if lf, _ := loadedField(st.Val); lf != nil && lf.Type().String() == "int64" && f.Type().String() == "int64" {
			p.oSyncing, p.oWritten = f.Name(), lf.Name()
		}
	})
	allInstrs(nsc, func(ins ssa.Instruction) {
		st, ok := ins.(*ssa.Store)
		if !ok {
			return
		}
		f := fieldOf(st.Addr)
		lf, _ := loadedField(st.Val)
		if f == nil || lf == nil {
			return
		}
		if lf.Name() == p.fSyncing {
			p.fSynced = f.Name()
		} else if lf.Name() == p.oSyncing {
			p.oSynced = f.Name()
		}
	})
	if p.fSyncing == "" || p.fSynced == "" || p.oWritten == "" || p.oSyncing == "" || p.oSynced == "" {
		c.Fail("PersistentBlockList", "sync-counters", c.Pos(nss.Pos()),
			fmt.Sprintf("cannot identify the written → synchronizing → synchronized hand-over in NotifySyncStarting/NotifySyncCompleted (epochs: %q→%q; offsets: %q→%q→%q)", p.fSyncing, p.fSynced, p.oWritten, p.oSyncing, p.oSynced))
		return nil
	}
	return p
}

// finalizer returns the innermost closure of Put with the given result types.
func closureWithResults(fn *ssa.Function, res ...string) []*ssa.Function {
	var out []*ssa.Function
	for _, a := range fn.AnonFuncs {
		withAnon(a, func(g *ssa.Function) {
			r := g.Signature.Results()
			if r.Len() != len(res) {
				return
			}
			for i, want := range res {
				if types.TypeString(r.At(i).Type(), func(p *types.Package) string { return "" }) != want {
					return
				}
			}
			out = append(out, g)
		})
	}
	return out
}

func init() {
	register(&Rule{
		ID: "R03.1", Props: []string{"C03"}, Engine: "own + guard",
		Text:  "closed-for-writing: the flag is set only in NotifySyncStarting, only to true, only under its isFinalSync parameter; PushBack allocates a block only on the flag's false edge and Put's finalizer returns a nil error only on the false edge of the flag read at finalisation time; the error returned on the true edge is errClosedForWriting, which is built with codes.Unavailable",
		Floor: 4, MustExist: true, Run: runR031,
	})
	register(&Rule{
		ID: "R01.6", Props: []string{"C01", "C08", "C03", "C05"}, Engine: "guard + flow",
		Text:  "rotated-away writes are refused and relative indices are recomputed: in both put finalizers (OldCurrentNewLocationBlobMap.Put, PersistentBlockList.Put) every use of `absolute index - blocks released` as an index or as the published BlockIndex is dominated by `absolute index >= blocks released` (resp. >= blocks to be released) evaluated inside the finalizer, and the BlockIndex published derives from the released-counter read inside the finalizer (never a relative index captured at allocation time)",
		Floor: 3, MustExist: true, Run: runR016,
	})
	register(&Rule{
		ID: "R03.3", Props: []string{"C03", "C02"}, Engine: "guard (monotone update)",
		Text:  "the per-block written offset only grows: outside the constructors every store to the written-offset field is on the true edge of `current value < new value`; the synchronizing/synchronized offsets are written only by NotifySyncStarting/NotifySyncCompleted by copying the previous stage",
		Floor: 3, MustExist: true, Run: runR033,
	})
	register(&Rule{
		ID: "R02.4", Props: []string{"C02", "C03", "C07"}, Engine: "flow + own",
		Text:  "only synchronised facts reach the state file, and data finalised after a sync started goes to a new epoch: GetPersistentState reads the synchronized epoch counter and the synchronized per-block offset and none of the written/synchronizing ones; Put's finalizer starts a new epoch when the epoch count equals the counter that NotifySyncStarting froze; the synchronized counters are written only by NotifySyncCompleted, PopFront and the constructor; new epoch seeds come from random.CryptoThreadSafeGenerator",
		Floor: 5, MustExist: true, Run: runR024,
	})
	register(&Rule{
		ID: "R02.6", Props: []string{"C02", "C04"}, Engine: "own + guard",
		Text:  "blocks are released only after a state file that no longer lists them was written: Block.Release is called in PersistentBlockList only from NotifyPersistentStateWritten, only on blocksToRelease[i] with i < blocksReleasing; blocksReleasing is set only by GetPersistentState (from len(blocksToRelease)) and reset only by NotifyPersistentStateWritten; PopFront only appends to blocksToRelease; the remaining queue is the suffix from blocksReleasing",
		Floor: 5, MustExist: true, Run: runR026,
	})
	register(&Rule{
		ID: "R07.1", Props: []string{"C07", "C08", "C04"}, Engine: "own + guard + order",
		Text:  "wake-up channels: notificationChannel.channel/isBlocking are written only by newNotificationChannel, block and unblock; close() of the channel is on the isBlocking edge and followed by isBlocking=false on every path; block() re-creates only when not blocking; no other close of these channels; every append to epochHashSeeds (outside the constructor) is followed by blockPutWakeup.unblock() and every append to blocksToRelease by blockReleaseWakeup.unblock() before the function returns; block() is called only when nothing is pending (synchronized epochs == len(epochHashSeeds), resp. len(blocksToRelease) == 0)",
		Floor: 8, MustExist: true, Run: runR071,
	})
	register(&Rule{
		ID: "R02.7", Props: []string{"C02"}, Engine: "guard (reachability)",
		Text:  "restore stops at the first block the allocator cannot find: from the not-found edge of NewBlockAtLocation in NewPersistentBlockList no path reaches another NewBlockAtLocation call or an append to the block list / epoch lists",
		Floor: 1, MustExist: true, Run: runR027,
	})
}

func runR031(c *Ctx) {
	p := newPblCtx(c)
	if p == nil {
		return
	}
	// (a) who writes the flag
	n := 0
	for _, fs := range fieldStoresIn(p.funcs, p.T, "closedForWriting") {
		n++
		name := FuncName(fs.fn)
		ok := topFunc(fs.fn).Name() == "NotifySyncStarting" && isBoolConst(fs.st.Val, true)
		if ok {
			// under the isFinalSync parameter
			ok = false
			edgeFacts(fs.st.Block(), func(cond ssa.Value, val bool) bool {
				if par, isP := cond.(*ssa.Parameter); isP && val && par.Type().Underlying().String() == "bool" {
					ok = true
					return false
				}
				return true
			})
		}
		c.Check(ok, name, "store closedForWriting", c.Pos(fs.st.Pos()), "set to true under the final-sync parameter of NotifySyncStarting", "closedForWriting is written outside NotifySyncStarting's final-sync branch or with a value other than true")
	}
	if n == 0 {
		c.Fail("PersistentBlockList", "store closedForWriting", c.Pos(p.ctor.Pos()), "closedForWriting is never set: uploads are never refused during shutdown")
	}
	flagEdge := func(b *ssa.BasicBlock, want bool) bool {
		found := false
		edgeFacts(b, func(cond ssa.Value, val bool) bool {
			c0, v := cond, val
			for {
				if u, ok := c0.(*ssa.UnOp); ok && u.Op == token.NOT {
					c0, v = u.X, !v
					continue
				}
				break
			}
			if f, _ := loadedField(c0); f != nil && f.Name() == "closedForWriting" && c0.(ssa.Instruction).Block().Parent() == b.Parent() {
				if v == want {
					found = true
				}
				return false
			}
			return true
		})
		return found
	}
	returnsClosedErr := func(fn *ssa.Function) bool {
		// some return on the true edge returns the errClosedForWriting global
		for _, r := range returnsOf(fn) {
			if !flagEdge(r.Block(), true) {
				continue
			}
			for _, res := range r.Results {
				if u, ok := res.(*ssa.UnOp); ok && u.Op == token.MUL {
					if g, ok := u.X.(*ssa.Global); ok && g.Name() == "errClosedForWriting" {
						return true
					}
				}
			}
		}
		return false
	}
	// (b) PushBack
	if pb := c.Method(localRel, "PersistentBlockList", "PushBack"); pb == nil {
		c.Broken("PersistentBlockList.PushBack not found")
	} else {
		found := false
		allInstrs(pb, func(ins ssa.Instruction) {
			cc := callOf(ins)
			if cc != nil && cc.IsInvoke() && cc.Method.Name() == "NewBlock" {
				found = true
				c.Check(flagEdge(ins.Block(), false) && returnsClosedErr(pb), FuncName(pb), "NewBlock", c.Pos(ins.Pos()), "block allocated only while not closed for writing; otherwise errClosedForWriting", "PushBack allocates a block without consulting closedForWriting (or does not return errClosedForWriting)")
			}
		})
		if !found {
			c.Fail(FuncName(pb), "NewBlock", c.Pos(pb.Pos()), "no BlockAllocator.NewBlock call found")
		}
	}
	// (c) the finalizer of Put
	put := c.Method(localRel, "PersistentBlockList", "Put")
	if put == nil {
		c.Broken("PersistentBlockList.Put not found")
		return
	}
	nfin := 0
	for _, fin := range closureWithResults(put, "int64", "error") {
		// only finalizers that can succeed are interesting
		for _, r := range returnsOf(fin) {
			if isNilConst(r.Results[1]) || !isConstErrorReturn(r) {
				// may return nil error: find whether err value may be nil
			}
		}
		succ := successReturns(fin)
		if len(succ) == 0 {
			continue
		}
		nfin++
		for _, r := range succ {
			c.Check(flagEdge(r.Block(), false) && returnsClosedErr(fin), FuncName(fin), "success-return", c.Pos(r.Pos()),
				"a nil error is returned only when closedForWriting, read at finalisation time, is false; otherwise errClosedForWriting",
				"the put finalizer can acknowledge a write without consulting closedForWriting at finalisation time")
		}
	}
	if nfin == 0 {
		c.Fail(FuncName(put), "finalizer", c.Pos(put.Pos()), "no put finalizer that can succeed was found")
	}
	// (d) the error value
	okErr := false
	if init := c.SSAPkg(localRel).Func("init"); init != nil {
		allInstrs(init, func(ins ssa.Instruction) {
			st, ok := ins.(*ssa.Store)
			if !ok {
				return
			}
			if g, ok := st.Addr.(*ssa.Global); ok && g.Name() == "errClosedForWriting" {
				if cl, ok := st.Val.(*ssa.Call); ok && isPkgFuncCall(cl.Common(), "google.golang.org/grpc/status", "Error") {
					if k, ok := constInt(stripConv(cl.Call.Args[0])); ok && k == 14 {
						okErr = true
					}
				}
			}
		})
	}
	c.Check(okErr, "local.init", "errClosedForWriting", c.Pos(put.Pos()), "errClosedForWriting = status.Error(codes.Unavailable, …)", "errClosedForWriting is not an UNAVAILABLE status")
}

func isConstErrorReturn(r *ssa.Return) bool { return false }

// successReturns: returns whose error operand may be nil.
func successReturns(fn *ssa.Function) []*ssa.Return {
	ei := errIndex(fn)
	var out []*ssa.Return
	for _, r := range returnsOf(fn) {
		if ei < 0 || errMayBeNil(r.Results[ei], r.Block(), 0) {
			out = append(out, r)
		}
	}
	return out
}

// errMayBeNil: can the error value v be nil when control is in block at?
// Known non-nil: a value tested non-nil on a dominating edge, status.Error*,
// loads of package-level error variables, util.StatusWrap* of a non-nil
// error; a phi is non-nil if every incoming value is non-nil at the end of
// its predecessor.
func errMayBeNil(v ssa.Value, at *ssa.BasicBlock, depth int) bool {
	if depth > 6 {
		return true
	}
	if isNilConst(v) {
		return true
	}
	if dominatedByNilEdge(at, func(x ssa.Value) bool { return x == v || stripConv(x) == stripConv(v) }, false) {
		return false
	}
	switch x := v.(type) {
	case *ssa.UnOp:
		if _, ok := x.X.(*ssa.Global); ok {
			return false
		}
	case *ssa.Call:
		cc := x.Common()
		if isPkgFuncCall(cc, "google.golang.org/grpc/status", "Error") || isPkgFuncCall(cc, "google.golang.org/grpc/status", "Errorf") ||
			isPkgFuncCall(cc, "fmt", "Errorf") || isPkgFuncCall(cc, "errors", "New") {
			return false
		}
		for _, w := range []string{"StatusWrap", "StatusWrapf", "StatusWrapWithCode", "StatusWrapfWithCode"} {
			if isPkgFuncCall(cc, modPath+"/pkg/util", w) {
				return errMayBeNil(cc.Args[0], at, depth+1)
			}
		}
	case *ssa.Phi:
		for i, e := range x.Edges {
			if errMayBeNil(e, x.Block().Preds[i], depth+1) {
				return true
			}
		}
		return false
	case *ssa.MakeInterface:
		return false
	case *ssa.Extract:
		// the error result of a helper of the module that never returns a nil error there
		if cl, ok := x.Tuple.(*ssa.Call); ok {
			if sc := cl.Call.StaticCallee(); sc != nil && len(sc.Blocks) > 0 && sc != at.Parent() && depth < 3 {
				never := true
				for _, r := range returnsOf(sc) {
					if x.Index >= len(r.Results) || errMayBeNil(returnedValue(r, x.Index), r.Block(), depth+3) {
						never = false
					}
				}
				if never && len(returnsOf(sc)) > 0 {
					return false
				}
			}
		}
	}
	return true
}

func runR016(c *Ctx) {
	check := func(recv, relCounterDesc string, isReleasedCounter func(v ssa.Value) bool, isRelOrToBe func(v ssa.Value) bool, resTypes ...string) {
		put := c.Method(localRel, recv, "Put")
		if put == nil {
			c.Broken("%s.Put not found", recv)
			return
		}
		nfin := 0
		for _, fin := range closureWithResults(put, resTypes...) {
			succ := successReturns(fin)
			if len(succ) == 0 {
				continue
			}
			nfin++
			name := FuncName(fin)
			// the absolute index: a captured variable compared with the released counter
			isAbs := func(v ssa.Value) bool {
				u, ok := stripConv(v).(*ssa.UnOp)
				if !ok || u.Op != token.MUL {
					return false
				}
				_, isFV := u.X.(*ssa.FreeVar)
				return isFV
			}
			guarded := func(b *ssa.BasicBlock, counter func(ssa.Value) bool) bool {
				return dominatedByCmp(b, func(op token.Token, x, y ssa.Value) bool {
					return op == token.GEQ && isAbs(x) && counter(stripConv(y))
				})
			}
			// every success return is guarded
			for _, r := range succ {
				c.Check(guarded(r.Block(), isRelOrToBe), name, "success-return", c.Pos(r.Pos()),
					"a location is acknowledged only when the block's absolute index is >= "+relCounterDesc+" at finalisation time",
					"the put finalizer can acknowledge a write into a block that was rotated away in the meantime (no `absolute index >= "+relCounterDesc+"` test dominates this return)")
			}
			// every `abs - released` difference is guarded by abs >= released
			nd := 0
			allInstrs(fin, func(ins ssa.Instruction) {
				bo, ok := ins.(*ssa.BinOp)
				if !ok || bo.Op != token.SUB || !isAbs(bo.X) || !isReleasedCounter(stripConv(bo.Y)) {
					return
				}
				nd++
				c.Check(guarded(bo.Block(), func(v ssa.Value) bool { return isReleasedCounter(v) || isRelOrToBe(v) }), name, "relative-index", c.Pos(bo.Pos()),
					"`absolute - released` is computed only where absolute >= released holds", "`absolute - released` may underflow: no dominating `absolute >= released` test")
			})
			if nd == 0 {
				c.Fail(name, "relative-index", c.Pos(fin.Pos()), "the finalizer never recomputes the block's relative index from the released-counter (a relative index captured at allocation time shifts on every rotation)")
			}
			// a published Location's BlockIndex derives from such a difference
			for _, r := range succ {
				if len(resTypes) > 0 && resTypes[0] == "Location" {
					derives := false
					backwardSlice(r.Results[0], func(x ssa.Value) bool {
						if bo, ok := x.(*ssa.BinOp); ok && bo.Op == token.SUB && isAbs(bo.X) && isReleasedCounter(stripConv(bo.Y)) {
							derives = true
							return false
						}
						return true
					})
					// through a local struct: look at stores into the BlockIndex field of the returned alloc
					if !derives {
						allInstrs(fin, func(ins ssa.Instruction) {
							st, ok := ins.(*ssa.Store)
							if !ok {
								return
							}
							if f := fieldOf(st.Addr); f != nil && f.Name() == "BlockIndex" {
								backwardSlice(st.Val, func(x ssa.Value) bool {
									if bo, ok := x.(*ssa.BinOp); ok && bo.Op == token.SUB && isAbs(bo.X) && isReleasedCounter(stripConv(bo.Y)) {
										derives = true
										return false
									}
									return true
								})
							}
						})
					}
					c.Check(derives, name, "published-block-index", c.Pos(r.Pos()), "BlockIndex published = absolute index - released counter read in the finalizer", "the BlockIndex published does not derive from the released-counter read inside the finalizer (stale relative index)")
				}
			}
		}
		if nfin == 0 {
			c.Fail(FuncName(put), "finalizer", c.Pos(put.Pos()), "no put finalizer that can succeed was found")
		}
	}
	fieldNamed := func(names ...string) func(v ssa.Value) bool {
		return func(v ssa.Value) bool {
			f, _ := loadedField(v)
			if f != nil {
				for _, n := range names {
					if f.Name() == n {
						return true
					}
				}
			}
			// atomic: x.f.Load()
			if cl, ok := v.(*ssa.Call); ok && !cl.Call.IsInvoke() && cl.Call.StaticCallee() != nil && cl.Call.StaticCallee().Name() == "Load" && len(cl.Call.Args) == 1 {
				if fa, ok := cl.Call.Args[0].(*ssa.FieldAddr); ok {
					if fv := fieldOf(fa); fv != nil {
						for _, n := range names {
							if fv.Name() == n {
								return true
							}
						}
					}
				}
			}
			return false
		}
	}
	check("PersistentBlockList", "totalBlocksReleased", fieldNamed("totalBlocksReleased"), fieldNamed("totalBlocksReleased"), "int64", "error")
	check("OldCurrentNewLocationBlobMap", "totalBlocksToBeReleased", fieldNamed("totalBlocksReleased"), fieldNamed("totalBlocksToBeReleased"), "Location", "error")
}

func runR033(c *Ctx) {
	p := newPblCtx(c)
	if p == nil {
		return
	}
	for _, fs := range fieldStoresIn(p.funcs, p.info, p.oWritten) {
		name := FuncName(fs.fn)
		if topFunc(fs.fn) == p.ctor {
			c.PassTrivial(name, "store "+p.oWritten, c.Pos(fs.st.Pos()), "constructor")
			continue
		}
		ok := dominatedByCmp(fs.st.Block(), func(op token.Token, x, y ssa.Value) bool {
			if op != token.LSS {
				return false
			}
			lf, _ := loadedField(x)
			if lf == nil || lf.Name() != p.oWritten {
				return false
			}
			// the address loaded is the address stored to
			lu, _ := x.(*ssa.UnOp)
			return lu != nil && sameSource(lu.X, fs.st.Addr) && (y == fs.st.Val || sameSource(y, fs.st.Val))
		})
		c.Check(ok, name, "store "+p.oWritten, c.Pos(fs.st.Pos()), "stored only when larger than the current value (uploads may finalise out of order)", "the written offset of a block can move backwards: the store is not guarded by `current < new`")
	}
	for _, pair := range [][3]string{{p.oSyncing, "NotifySyncStarting", p.oWritten}, {p.oSynced, "NotifySyncCompleted", p.oSyncing}} {
		for _, fs := range fieldStoresIn(p.funcs, p.info, pair[0]) {
			name := FuncName(fs.fn)
			if topFunc(fs.fn) == p.ctor {
				c.PassTrivial(name, "store "+pair[0], c.Pos(fs.st.Pos()), "constructor")
				continue
			}
			lf, _ := loadedField(fs.st.Val)
			ok := topFunc(fs.fn).Name() == pair[1] && lf != nil && lf.Name() == pair[2]
			c.Check(ok, name, "store "+pair[0], c.Pos(fs.st.Pos()), pair[0]+" := "+pair[2]+" in "+pair[1], pair[0]+" is written outside "+pair[1]+" or from something other than "+pair[2])
		}
	}
}

func runR024(c *Ctx) {
	p := newPblCtx(c)
	if p == nil {
		return
	}
	// GetPersistentState
	gps := c.Method(localRel, "PersistentBlockList", "GetPersistentState")
	if gps == nil {
		c.Broken("PersistentBlockList.GetPersistentState not found")
		return
	}
	name := FuncName(gps)
	reads := map[string]token.Pos{}
	lenSeeds := token.NoPos
	allInstrs(gps, func(ins ssa.Instruction) {
		if v, ok := ins.(ssa.Value); ok {
			if f, _ := loadedField(v); f != nil {
				reads[f.Name()] = ins.Pos()
			}
			if isLenOfField(v, "epochHashSeeds", "epochLastAbsoluteBlockIndex") {
				lenSeeds = ins.Pos()
			}
		}
	})
	for _, bad := range []string{p.fSyncing, p.oSyncing, p.oWritten} {
		if pos, ok := reads[bad]; ok {
			c.Fail(name, "reads "+bad, c.Pos(pos), "GetPersistentState reads "+bad+", which may describe data that has not been synchronised yet")
		} else {
			c.Pass(name, "reads "+bad, c.Pos(gps.Pos()), "not read")
		}
	}
	if lenSeeds != token.NoPos {
		c.Fail(name, "len(epochs)", c.Pos(lenSeeds), "GetPersistentState bounds epochs by the number of epochs created rather than by the synchronized count")
	}
	for _, need := range []string{p.fSynced, p.oSynced} {
		pos, ok := reads[need]
		c.Check(ok, name, "reads "+need, c.Pos(func() token.Pos {
			if ok {
				return pos
			}
			return gps.Pos()
		}()), "state is derived from "+need, "GetPersistentState does not use "+need)
	}
	// WriteOffsetBytes of the BlockState literal
	okOff := false
	allInstrs(gps, func(ins ssa.Instruction) {
		st, ok := ins.(*ssa.Store)
		if !ok {
			return
		}
		if f := fieldOf(st.Addr); f != nil && f.Name() == "WriteOffsetBytes" {
			lf, _ := loadedField(st.Val)
			okOff = lf != nil && lf.Name() == p.oSynced
		}
	})
	c.Check(okOff, name, "BlockState.WriteOffsetBytes", c.Pos(gps.Pos()), "WriteOffsetBytes := "+p.oSynced, "BlockState.WriteOffsetBytes is not the synchronized offset")
	// who writes the synchronized counters
	for _, fld := range []string{p.fSynced} {
		for _, fs := range fieldStoresIn(p.funcs, p.T, fld) {
			tn := topFunc(fs.fn).Name()
			ok := tn == "NotifySyncCompleted" || tn == "PopFront" || topFunc(fs.fn) == p.ctor
			c.Check(ok, FuncName(fs.fn), "store "+fld, c.Pos(fs.st.Pos()), "written by "+tn, fld+" is written outside NotifySyncCompleted / PopFront / the constructor")
		}
	}
	// Put's finalizer: new-epoch test
	put := c.Method(localRel, "PersistentBlockList", "Put")
	if put == nil {
		c.Broken("PersistentBlockList.Put not found")
		return
	}
	nApp := 0
	for _, fin := range closureWithResults(put, "int64", "error") {
		for _, fs := range fieldStoresIn([]*ssa.Function{fin}, p.T, "epochHashSeeds") {
			if fs.fn != fin {
				continue
			}
			nApp++
			// a predecessor edge of the append block: If on len(epochs) == <frozen counter>, true edge
			blk := fs.st.Block()
			okTest, wrongField := false, ""
			for _, b := range fin.Blocks {
				if len(b.Instrs) == 0 {
					continue
				}
				iff, ok := b.Instrs[len(b.Instrs)-1].(*ssa.If)
				if !ok {
					continue
				}
				bo, ok := iff.Cond.(*ssa.BinOp)
				if !ok {
					continue
				}
				var other ssa.Value
				if isLenOfField(bo.X, "epochHashSeeds", "epochLastAbsoluteBlockIndex") {
					other = bo.Y
				} else if isLenOfField(bo.Y, "epochHashSeeds", "epochLastAbsoluteBlockIndex") {
					other = bo.X
				} else {
					continue
				}
				lf, _ := loadedField(other)
				if lf == nil {
					continue
				}
				// which successor leads to the append
				var succ *ssa.BasicBlock
				switch bo.Op {
				case token.EQL, token.LEQ, token.GEQ:
					succ = b.Succs[0]
				case token.NEQ, token.GTR, token.LSS:
					succ = b.Succs[1]
				default:
					continue
				}
				if succ != blk && !succ.Dominates(blk) {
					continue
				}
				if lf.Name() == p.fSyncing {
					okTest = true
				} else {
					wrongField = lf.Name()
				}
			}
			msg := "the finalizer does not start a new epoch when the current epoch is already being synchronised (no test of the epoch count against " + p.fSyncing + ")"
			if wrongField != "" && !okTest {
				msg = "the finalizer's new-epoch test compares the epoch count with " + wrongField + " instead of " + p.fSyncing + " (the counter NotifySyncStarting freezes): data finalised while a sync is in flight would join the epoch being synchronised"
			}
			c.Check(okTest, FuncName(fin), "new-epoch-test", c.Pos(fs.st.Pos()), "a new epoch is started whenever the epoch count equals "+p.fSyncing, msg)
			// the seed is random
			rnd := false
			deepSlice(fin, fs.st.Val, func(x ssa.Value) bool {
				if cl, ok := x.(*ssa.Call); ok {
					if cl.Call.IsInvoke() && cl.Call.Method.Name() == "Uint64" {
						if u, ok := cl.Call.Value.(*ssa.UnOp); ok {
							if g, ok := u.X.(*ssa.Global); ok && g.Name() == "CryptoThreadSafeGenerator" {
								rnd = true
							}
						}
						return false
					}
					if _, isB := cl.Call.Value.(*ssa.Builtin); isB {
						return true
					}
					return false
				}
				return true
			})
			c.Check(rnd, FuncName(fin), "epoch-seed", c.Pos(fs.st.Pos()), "new epoch hash seeds come from random.CryptoThreadSafeGenerator", "a new epoch's hash seed is not drawn from random.CryptoThreadSafeGenerator (stale index records of a lost epoch could validate again)")
		}
	}
	if nApp == 0 {
		c.Fail(FuncName(put), "new-epoch-test", c.Pos(put.Pos()), "the put finalizer never creates a new epoch")
	}
}

func runR026(c *Ctx) {
	p := newPblCtx(c)
	if p == nil {
		return
	}
	blockT := c.LookupType(localRel, "Block")
	// who calls Block.Release among PersistentBlockList's methods
	n := 0
	for _, f := range p.funcs {
		if r := f.Signature.Recv(); r == nil || recvNamed(f.Object().(*types.Func)) == nil || recvNamed(f.Object().(*types.Func)).Obj() != p.T.Obj() {
			continue
		}
		withAnon(f, func(g *ssa.Function) {
			allInstrs(g, func(ins ssa.Instruction) {
				cc := callOf(ins)
				if cc == nil || !cc.IsInvoke() || !isMethodCall(cc, blockT, "Release") {
					return
				}
				n++
				name := FuncName(g)
				if topFunc(g).Name() != "NotifyPersistentStateWritten" {
					c.Fail(name, "Block.Release", c.Pos(ins.Pos()), "a block is released outside NotifyPersistentStateWritten: its space could be reused while the state file on disk still lists it")
					return
				}
				// receiver = blocksToRelease[i], i < blocksReleasing
				ok := false
				if ld, isL := cc.Value.(*ssa.UnOp); isL && ld.Op == token.MUL {
					if ia, isIA := ld.X.(*ssa.IndexAddr); isIA {
						if f, _ := loadedField(ia.X); f != nil && f.Name() == "blocksToRelease" {
							ok = dominatedByCmp(ins.Block(), func(op token.Token, x, y ssa.Value) bool {
								lf, _ := loadedField(y)
								return op == token.LSS && x == ia.Index && lf != nil && lf.Name() == "blocksReleasing"
							})
						}
					}
				}
				c.Check(ok, name, "Block.Release", c.Pos(ins.Pos()), "released block is blocksToRelease[i] with i < blocksReleasing (the snapshot taken by GetPersistentState)", "blocks beyond the blocksReleasing snapshot can be released: a block popped after the snapshot would be reused although the state file just written still lists it")
			})
		})
	}
	if n == 0 {
		c.Fail("PersistentBlockList", "Block.Release", c.Pos(p.ctor.Pos()), "blocks are never released (capacity leak)")
	}
	// blocksReleasing writers
	for _, fs := range fieldStoresIn(p.funcs, p.T, "blocksReleasing") {
		tn := topFunc(fs.fn).Name()
		ok := false
		switch tn {
		case "GetPersistentState":
			ok = isLenOfField(fs.st.Val, "blocksToRelease")
		case "NotifyPersistentStateWritten":
			k, isC := constInt(fs.st.Val)
			ok = isC && k == 0
		}
		c.Check(ok, FuncName(fs.fn), "store blocksReleasing", c.Pos(fs.st.Pos()), "snapshot in GetPersistentState / reset in NotifyPersistentStateWritten", "blocksReleasing is written in an unexpected place or from an unexpected value")
	}
	// blocksToRelease writers
	for _, fs := range fieldStoresIn(p.funcs, p.T, "blocksToRelease") {
		tn := topFunc(fs.fn).Name()
		ok := false
		why := ""
		switch tn {
		case "PopFront":
			if cl, isC := fs.st.Val.(*ssa.Call); isC {
				if b, isB := cl.Call.Value.(*ssa.Builtin); isB && b.Name() == "append" {
					if f, _ := loadedField(cl.Call.Args[0]); f != nil && f.Name() == "blocksToRelease" {
						ok = true
					}
				}
			}
			why = "PopFront must only append to blocksToRelease"
		case "NotifyPersistentStateWritten":
			if sl, isS := fs.st.Val.(*ssa.Slice); isS && sl.High == nil {
				lf, _ := loadedField(sl.Low)
				bf, _ := loadedField(sl.X)
				ok = lf != nil && lf.Name() == "blocksReleasing" && bf != nil && bf.Name() == "blocksToRelease"
			}
			why = "the queue kept must be blocksToRelease[blocksReleasing:]"
		default:
			why = "blocksToRelease is modified outside PopFront / NotifyPersistentStateWritten"
		}
		c.Check(ok, FuncName(fs.fn), "store blocksToRelease", c.Pos(fs.st.Pos()), "queue discipline kept", why)
	}
}

func runR071(c *Ctx) {
	p := newPblCtx(c)
	if p == nil {
		return
	}
	nc := c.LookupType(localRel, "notificationChannel")
	if nc == nil {
		c.Broken("notificationChannel not found")
		return
	}
	// who writes the fields
	for _, fld := range []string{"channel", "isBlocking"} {
		for _, fs := range fieldStoresIn(p.funcs, nc, fld) {
			tn := topFunc(fs.fn).Name()
			ok := tn == "newNotificationChannel" || tn == "block" || tn == "unblock"
			c.Check(ok, FuncName(fs.fn), "store "+fld, c.Pos(fs.st.Pos()), "written by "+tn, "notificationChannel."+fld+" is written outside newNotificationChannel/block/unblock")
		}
	}
	// whole-struct stores: a wake-up channel object is replaced as a whole only
	// by its own block() (checked below) and by constructors; replacing it
	// anywhere else orphans the channel an idle syncer is already parked on
	for _, f := range p.funcs {
		withAnon(f, func(g *ssa.Function) {
			allInstrs(g, func(ins ssa.Instruction) {
				st, ok := ins.(*ssa.Store)
				if !ok || !types.Identical(st.Val.Type(), nc) {
					return
				}
				tn := topFunc(g).Name()
				isCtor := topFunc(g).Signature.Recv() == nil
				if _, isField := st.Addr.(*ssa.FieldAddr); !isField && tn != "block" {
					return // local temporaries
				}
				c.Check(tn == "block" || tn == "newNotificationChannel" || isCtor, FuncName(g), "store whole channel", c.Pos(st.Pos()), "replaced by "+tn, "a wake-up channel is replaced as a whole outside its own block() and the constructors: a syncer that is already waiting on the old channel is never woken by later uploads or releases")
			})
		})
	}
	// whole-struct stores (*nc = newNotificationChannel()) only in block, on the !isBlocking edge
	isBlockingEdge := func(b *ssa.BasicBlock, want bool) bool {
		found := false
		edgeFacts(b, func(cond ssa.Value, val bool) bool {
			c0, v := cond, val
			for {
				if u, ok := c0.(*ssa.UnOp); ok && u.Op == token.NOT {
					c0, v = u.X, !v
					continue
				}
				break
			}
			if f, _ := loadedField(c0); f != nil && f.Name() == "isBlocking" {
				found = v == want
				return false
			}
			return true
		})
		return found
	}
	// close() calls on channels of type chan struct{} held in notificationChannel
	ncl := 0
	for _, f := range p.funcs {
		withAnon(f, func(g *ssa.Function) {
			allInstrs(g, func(ins ssa.Instruction) {
				cl, ok := ins.(*ssa.Call)
				if !ok {
					return
				}
				b, ok := cl.Call.Value.(*ssa.Builtin)
				if !ok || b.Name() != "close" {
					return
				}
				fld, base := loadedField(cl.Call.Args[0])
				if fld == nil || fld.Name() != "channel" {
					return
				}
				if pt, ok := base.Type().Underlying().(*types.Pointer); !ok || pt.Elem() != types.Type(nc) {
					return
				}
				ncl++
				name := FuncName(g)
				if g.Name() != "unblock" {
					c.Fail(name, "close", c.Pos(cl.Pos()), "a wake-up channel is closed outside notificationChannel.unblock")
					return
				}
				ok2 := isBlockingEdge(cl.Block(), true)
				// followed by isBlocking = false on every path to return
				for _, r := range returnsOf(g) {
					if reachableAvoiding(cl, r, func(i ssa.Instruction) bool {
						st, ok := i.(*ssa.Store)
						if !ok {
							return false
						}
						f := fieldOf(st.Addr)
						return f != nil && f.Name() == "isBlocking" && isBoolConst(st.Val, false)
					}) {
						ok2 = false
					}
				}
				c.Check(ok2, name, "close", c.Pos(cl.Pos()), "closed only while blocking, and marked not-blocking afterwards on every path (exactly once)", "the wake-up channel can be closed twice (panic) or closed without recording it")
			})
		})
	}
	if ncl == 0 {
		c.Fail("notificationChannel", "close", c.Pos(p.ctor.Pos()), "wake-up channels are never closed: the syncer would never be woken")
	}
	if blk := c.Method(localRel, "notificationChannel", "block"); blk != nil {
		n := 0
		allInstrs(blk, func(ins ssa.Instruction) {
			if st, ok := ins.(*ssa.Store); ok {
				if st.Addr == ssa.Value(blk.Params[0]) {
					n++
					c.Check(isBlockingEdge(st.Block(), false), FuncName(blk), "recreate", c.Pos(st.Pos()), "re-created only when the current channel was already closed", "block() replaces a channel that is still open: a goroutine waiting on the old channel would never be woken")
				}
			}
		})
		if n == 0 {
			c.Fail(FuncName(blk), "recreate", c.Pos(blk.Pos()), "block() never re-arms the channel")
		}
	} else {
		c.Broken("notificationChannel.block not found")
	}
	// producers wake the syncer
	wake := func(listField, wakeField, what string) {
		n := 0
		for _, fs := range fieldStoresIn(p.funcs, p.T, listField) {
			if topFunc(fs.fn) == p.ctor {
				continue
			}
			cl, ok := fs.st.Val.(*ssa.Call)
			if !ok {
				continue
			}
			if b, isB := cl.Call.Value.(*ssa.Builtin); !isB || b.Name() != "append" {
				continue
			}
			n++
			name := FuncName(fs.fn)
			ok2 := true
			rets := returnsOf(fs.fn)
			for _, r := range rets {
				if reachableAvoiding(fs.st, r, func(i ssa.Instruction) bool {
					cc := callOf(i)
					if cc == nil || cc.StaticCallee() == nil || cc.StaticCallee().Name() != "unblock" || len(cc.Args) == 0 {
						return false
					}
					fa, ok := cc.Args[0].(*ssa.FieldAddr)
					return ok && fieldOf(fa) != nil && fieldOf(fa).Name() == wakeField
				}) {
					ok2 = false
				}
			}
			c.Check(ok2, name, "wake after append to "+listField, c.Pos(fs.st.Pos()), what+" is followed by "+wakeField+".unblock() on every path", what+" without waking the syncer ("+wakeField+".unblock() can be skipped)")
		}
		if n == 0 {
			c.Fail("PersistentBlockList", "wake after append to "+listField, c.Pos(p.ctor.Pos()), "no producer of "+listField+" found")
		}
	}
	wake("epochHashSeeds", "blockPutWakeup", "creating an epoch")
	wake("blocksToRelease", "blockReleaseWakeup", "queueing a block for release")
	// re-arm only when idle
	nb := 0
	for _, f := range p.funcs {
		withAnon(f, func(g *ssa.Function) {
			allInstrs(g, func(ins ssa.Instruction) {
				cc := callOf(ins)
				if cc == nil || cc.StaticCallee() == nil || cc.StaticCallee().Name() != "block" || len(cc.Args) == 0 {
					return
				}
				fa, ok := cc.Args[0].(*ssa.FieldAddr)
				if !ok || fieldOf(fa) == nil {
					return
				}
				nb++
				name := FuncName(g)
				switch fieldOf(fa).Name() {
				case "blockPutWakeup":
					ok := dominatedByCmp(ins.Block(), func(op token.Token, x, y ssa.Value) bool {
						lf, _ := loadedField(x)
						return op == token.EQL && lf != nil && lf.Name() == p.fSynced && isLenOfField(y, "epochHashSeeds", "epochLastAbsoluteBlockIndex")
					})
					c.Check(ok, name, "blockPutWakeup.block", c.Pos(ins.Pos()), "re-armed only when every epoch is synchronized", "the put wake-up is re-armed although unsynchronised epochs may remain: their uploads would never be committed")
				case "blockReleaseWakeup":
					ok := dominatedByCmp(ins.Block(), func(op token.Token, x, y ssa.Value) bool {
						k, isK := constInt(y)
						return op == token.EQL && isLenOfField(x, "blocksToRelease") && isK && k == 0
					})
					c.Check(ok, name, "blockReleaseWakeup.block", c.Pos(ins.Pos()), "re-armed only when no block awaits release", "the release wake-up is re-armed although blocks may still await release: they would never become allocatable")
				}
			})
		})
	}
	if nb == 0 {
		c.Fail("PersistentBlockList", "block()", c.Pos(p.ctor.Pos()), "wake-up channels are never re-armed")
	}
}

func runR027(c *Ctx) {
	ctor := c.Func(localRel, "NewPersistentBlockList")
	if ctor == nil {
		c.Broken("NewPersistentBlockList not found")
		return
	}
	name := FuncName(ctor)
	n := 0
	allInstrs(ctor, func(ins ssa.Instruction) {
		cl, ok := ins.(*ssa.Call)
		if !ok || !cl.Call.IsInvoke() || cl.Call.Method.Name() != "NewBlockAtLocation" {
			return
		}
		n++
		// find the If on the `found` result
		var miss *ssa.BasicBlock
		for _, b := range ctor.Blocks {
			if len(b.Instrs) == 0 {
				continue
			}
			iff, ok := b.Instrs[len(b.Instrs)-1].(*ssa.If)
			if !ok {
				continue
			}
			cnd, v := iff.Cond, true
			if u, ok := cnd.(*ssa.UnOp); ok && u.Op == token.NOT {
				cnd, v = u.X, false
			}
			if ex, ok := cnd.(*ssa.Extract); ok && ex.Tuple == ssa.Value(cl) && ex.Type().Underlying().String() == "bool" {
				if v {
					miss = b.Succs[1]
				} else {
					miss = b.Succs[0]
				}
			}
		}
		if miss == nil {
			c.Fail(name, "restore-miss", c.Pos(cl.Pos()), "the found result of NewBlockAtLocation is not tested")
			return
		}
		// from miss, no path to another NewBlockAtLocation or append to lists
		bad := false
		seen := map[*ssa.BasicBlock]bool{}
		work := []*ssa.BasicBlock{miss}
		for len(work) > 0 {
			b := work[len(work)-1]
			work = work[:len(work)-1]
			if seen[b] {
				continue
			}
			seen[b] = true
			for _, i := range b.Instrs {
				if cc := callOf(i); cc != nil && cc.IsInvoke() && cc.Method.Name() == "NewBlockAtLocation" {
					bad = true
				}
				if st, ok := i.(*ssa.Store); ok {
					if f := fieldOf(st.Addr); f != nil && (f.Name() == "blocks" || f.Name() == "epochHashSeeds" || f.Name() == "epochLastAbsoluteBlockIndex") {
						bad = true
					}
				}
			}
			work = append(work, b.Succs...)
		}
		c.Check(!bad, name, "restore-miss", c.Pos(cl.Pos()), "after the first missing block nothing more is restored", "restoring continues after a block could not be found: later blocks would be attached at the wrong relative index")
	})
	if n == 0 {
		c.Fail(name, "restore-miss", c.Pos(ctor.Pos()), "NewBlockAtLocation is never called: nothing is restored")
	}
}
