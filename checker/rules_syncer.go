package main

import (
	"fmt"
	"go/token"
	"go/types"

	"golang.org/x/tools/go/ssa"
)

// callsRecvFieldValue: call of a func-typed value loaded from receiver field `name`.
func callsRecvFieldValue(fn *ssa.Function, cc *ssa.CallCommon, name string) bool {
	if cc.IsInvoke() || cc.StaticCallee() != nil {
		return false
	}
	return loadOfRecvField(fn, cc.Value, name)
}

// invokeOnRecvField: interface method call whose receiver is loaded from receiver field.
func invokeOnRecvField(fn *ssa.Function, cc *ssa.CallCommon, field, method string) bool {
	return cc.IsInvoke() && cc.Method.Name() == method && loadOfRecvField(fn, cc.Value, field)
}

func staticMethodCall(cc *ssa.CallCommon, fn *ssa.Function) bool {
	return fn != nil && cc.StaticCallee() == fn
}

func init() {
	register(&Rule{
		ID: "R02.2", Props: []string{"C02", "C03", "C07", "C04"}, Engine: "order (path automaton, err-edge sensitive)",
		Text: "data before metadata: in notifyAndSyncDataLocked NotifySyncStarting precedes the DataSyncer call and NotifySyncCompleted is reached only through the err==nil edge of a DataSyncer call (failures loop back, so the sync is retried until it succeeds); " +
			"in writePersistentState the order is GetPersistentState, WritePersistentState, and NotifyPersistentStateWritten only on the success edge of the write, whose message carries the snapshot just taken; a nil return means all three happened; " +
			"writePersistentStateRetrying returns only after a successful writePersistentState",
		Floor: 4, MustExist: true,
		Run: runR022,
	})
	register(&Rule{
		ID: "R03.2", Props: []string{"C03", "C07", "C02"}, Engine: "order (path automaton with boolean flag sensitivity)",
		Text:  "ProcessBlockPut: every path that returns false (shutdown) performed notifyAndSyncDataLocked(false), then notifyAndSyncDataLocked(true), then writePersistentStateRetrying; every path that returns true performed notifyAndSyncDataLocked(false) then writePersistentStateRetrying, never the final sync, and received from a clock.NewTimer channel before the sync (minimum epoch interval), storing the received time in lastSynchronizationTime; ProcessBlockRelease receives from the release wake-up channel and then calls writePersistentStateRetrying",
		Floor: 4, MustExist: true,
		Run: runR032,
	})
}

// dataSyncHelper: the method of PeriodicSyncer that performs a data sync up to NotifySyncCompleted – whatever it is named.
func dataSyncHelper(c *Ctx) *ssa.Function {
	var found *ssa.Function
	for _, f := range c.pkgFuncs(localRel) {
		n := recvNamedOfFn(f)
		if n == nil || n.Obj().Name() != "PeriodicSyncer" || f.Parent() != nil || f.Blocks == nil {
			continue
		}
		calls := false
		allInstrs(f, func(ins ssa.Instruction) {
			// the method that completes a sync (it tells the source that the sync is done); the call of the
			// DataSyncer itself may sit in a retry helper of its own
			if cc := callOf(ins); cc != nil && invokeOnRecvField(f, cc, "source", "NotifySyncCompleted") {
				calls = true
			}
		})
		if calls && (found == nil || f.Name() < found.Name()) {
			found = f
		}
	}
	return found
}

func runR022(c *Ctx) {
	// --- notifyAndSyncDataLocked
	if fn := dataSyncHelper(c); fn == nil || fn.Blocks == nil {
		c.Broken("PeriodicSyncer: no method reports a completed sync to the source")
	} else {
		name := FuncName(fn)
		var viol []string
		var violPos token.Pos
		nret := 0
		// states: 0 start, 1 notified, 2 sync called (pending verdict; remembers which call in cur), 3 sync ok, 4 completed
		var cur ssa.Value
		explorePaths(&pathSpec{Fn: fn, Init: 0, Inline: inlineOwnMethods,
			Step: func(st int, ev pathEvent) int {
				if ev.Ins != nil {
					cc := callOf(ev.Ins)
					if cc == nil {
						return st
					}
					switch {
					case invokeOnRecvField(fn, cc, "source", "NotifySyncStarting"):
						if st != 0 {
							viol, violPos = append(viol, "NotifySyncStarting called more than once on a path"), ev.Ins.Pos()
						}
						return 1
					case callsRecvFieldValue(fn, cc, "dataSyncer"):
						if st == 0 {
							viol, violPos = append(viol, "DataSyncer called before NotifySyncStarting"), ev.Ins.Pos()
						}
						if st >= 3 {
							// another sync after a successful one: still fine, restart verdict
						}
						cur = ev.Ins.(ssa.Value)
						return 2
					case invokeOnRecvField(fn, cc, "source", "NotifySyncCompleted"):
						if st != 3 {
							viol, violPos = append(viol, "NotifySyncCompleted reachable without a successful DataSyncer call before it"), ev.Ins.Pos()
						}
						return 4
					}
					return st
				}
				if st == 2 && cur != nil {
					if isNil, ok := edgeSaysErr(ev, cur); ok {
						if isNil {
							return 3
						}
						return 1
					}
				}
				return st
			},
			AtReturn: func(st int, r *ssa.Return, _ map[int]bool) {
				nret++
				if st != 4 {
					viol, violPos = append(viol, "function can return without NotifySyncCompleted after a successful sync"), r.Pos()
				}
			}})
		if nret == 0 && len(viol) == 0 {
			viol = append(viol, "no feasible return")
		}
		if len(viol) > 0 {
			c.Fail(name, "sync-order", c.Pos(violPos), viol[0])
		} else {
			c.Pass(name, "sync-order", c.Pos(fn.Pos()), "NotifySyncStarting · DataSyncer(retried until nil) · NotifySyncCompleted on every path")
		}
	}
	// --- writePersistentState
	if fn := c.Method(localRel, "PeriodicSyncer", "writePersistentState"); fn == nil || fn.Blocks == nil {
		c.Broken("PeriodicSyncer.writePersistentState not found")
	} else {
		name := FuncName(fn)
		var viol []string
		var violPos token.Pos
		var wcall, gcall *ssa.Call
		explorePaths(&pathSpec{Fn: fn, Init: 0,
			Step: func(st int, ev pathEvent) int {
				if ev.Ins != nil {
					cc := callOf(ev.Ins)
					if cc == nil {
						return st
					}
					switch {
					case invokeOnRecvField(fn, cc, "source", "GetPersistentState"):
						gcall, _ = ev.Ins.(*ssa.Call)
						return 1
					case invokeOnRecvField(fn, cc, "store", "WritePersistentState"):
						if st != 1 {
							viol, violPos = append(viol, "WritePersistentState without a fresh GetPersistentState snapshot before it"), ev.Ins.Pos()
						}
						wcall, _ = ev.Ins.(*ssa.Call)
						return 2
					case invokeOnRecvField(fn, cc, "source", "NotifyPersistentStateWritten"):
						if st != 3 {
							viol, violPos = append(viol, "NotifyPersistentStateWritten reachable without a successful state write"), ev.Ins.Pos()
						}
						return 4
					}
					return st
				}
				if st == 2 && wcall != nil {
					if isNil, ok := edgeSaysErr(ev, wcall); ok {
						if isNil {
							return 3
						}
						return 5 // failed
					}
				}
				return st
			},
			AtReturn: func(st int, r *ssa.Return, _ map[int]bool) {
				if isNilConst(r.Results[0]) {
					if st != 4 {
						viol, violPos = append(viol, "nil is returned although snapshot/write/acknowledge did not all happen"), r.Pos()
					}
				} else if st == 4 || st == 3 {
					// error return after success is odd but not unsafe
				}
			}})
		if len(viol) > 0 {
			c.Fail(name, "state-write-order", c.Pos(violPos), viol[0])
		} else {
			c.Pass(name, "state-write-order", c.Pos(fn.Pos()), "GetPersistentState · WritePersistentState(ok) · NotifyPersistentStateWritten; nil only after all three")
		}
		// the message written carries the snapshot
		if gcall != nil && wcall != nil {
			carries := map[int]bool{}
			deepSlice(fn, wcall.Call.Args[0], func(x ssa.Value) bool {
				if ex, ok := x.(*ssa.Extract); ok && ex.Tuple == ssa.Value(gcall) {
					carries[ex.Index] = true
					return false
				}
				if _, ok := x.(*ssa.Call); ok {
					return false
				}
				return true
			})
			c.Check(carries[0] && carries[1], name, "snapshot-flow", c.Pos(wcall.Pos()),
				"the PersistentState written is built from both results of this call's GetPersistentState",
				"the PersistentState written does not carry both results (oldest epoch id, blocks) of the snapshot taken in this call")
		} else {
			c.Fail(name, "snapshot-flow", c.Pos(fn.Pos()), "snapshot or write call not found")
		}
	}
	// --- writePersistentStateRetrying
	if fn := c.Method(localRel, "PeriodicSyncer", "writePersistentStateRetrying"); fn == nil || fn.Blocks == nil {
		c.Broken("PeriodicSyncer.writePersistentStateRetrying not found")
	} else {
		name := FuncName(fn)
		wps := c.Method(localRel, "PeriodicSyncer", "writePersistentState")
		bad := ""
		var badPos token.Pos
		var cur ssa.Value
		nret := 0
		explorePaths(&pathSpec{Fn: fn, Init: 0,
			Step: func(st int, ev pathEvent) int {
				if ev.Ins != nil {
					if cc := callOf(ev.Ins); cc != nil && staticMethodCall(cc, wps) {
						cur = ev.Ins.(ssa.Value)
						return 1
					}
					return st
				}
				if st == 1 && cur != nil {
					if isNil, ok := edgeSaysErr(ev, cur); ok {
						if isNil {
							return 2
						}
						return 0
					}
				}
				return st
			},
			AtReturn: func(st int, r *ssa.Return, _ map[int]bool) {
				nret++
				if st != 2 {
					bad, badPos = "can return without a successful writePersistentState", r.Pos()
				}
			}})
		if nret == 0 {
			bad, badPos = "no feasible return", fn.Pos()
		}
		c.Check(bad == "", name, "retry-until-success", c.Pos(func() token.Pos {
			if bad == "" {
				return fn.Pos()
			}
			return badPos
		}()), "returns only through the err==nil edge of writePersistentState", bad)
	}
}

// timerRecvEdge: the edge event says "select case k was taken" for a case
// that receives from a channel derived from Clock.NewTimer.
func timerRecvEdge(c *Ctx, fn *ssa.Function, ev pathEvent) (sel *ssa.Select, k int, ok bool) {
	if ev.Cond == nil || !ev.Val {
		return nil, 0, false
	}
	b, isB := ev.Cond.(*ssa.BinOp)
	if !isB || b.Op != token.EQL {
		return nil, 0, false
	}
	ex, isE := b.X.(*ssa.Extract)
	if !isE || ex.Index != 0 {
		return nil, 0, false
	}
	s, isS := ex.Tuple.(*ssa.Select)
	if !isS {
		return nil, 0, false
	}
	idx, isC := constInt(b.Y)
	if !isC || int(idx) >= len(s.States) {
		return nil, 0, false
	}
	st := s.States[idx]
	if st.Dir != types.RecvOnly {
		return nil, 0, false
	}
	clockT := c.LookupType("pkg/clock", "Clock")
	fromTimer := false
	backwardSlice(st.Chan, func(x ssa.Value) bool {
		if e2, ok := x.(*ssa.Extract); ok {
			if cl, ok := e2.Tuple.(*ssa.Call); ok && isMethodCall(cl.Common(), clockT, "NewTimer") {
				fromTimer = true
			}
			return false
		}
		if _, ok := x.(*ssa.Call); ok {
			return false
		}
		return true
	})
	return s, int(idx), fromTimer
}

func runR032(c *Ctx) {
	fn := c.Method(localRel, "PeriodicSyncer", "ProcessBlockPut")
	if fn == nil || fn.Blocks == nil {
		c.Broken("PeriodicSyncer.ProcessBlockPut not found")
		return
	}
	name := FuncName(fn)
	nas := dataSyncHelper(c)
	wpr := c.Method(localRel, "PeriodicSyncer", "writePersistentStateRetrying")
	if nas == nil || wpr == nil {
		c.Broken("the data-sync helper / writePersistentStateRetrying not found")
		return
	}
	// automaton state bits: 1 timer received, 2 sync(false) done, 4 sync(true) done after sync(false), 8 state written after the last sync, 16 order violation
	const (
		bTimer = 1 << iota
		bSync0
		bSync1
		bWritten
		bBad
	)
	type verdict struct {
		pos token.Pos
		msg string
	}
	var falseBad, trueBad, unknownBad *verdict
	nFalse, nTrue := 0, 0
	explorePaths(&pathSpec{Fn: fn, Init: 0,
		Step: func(st int, ev pathEvent) int {
			if ev.Ins != nil {
				cc := callOf(ev.Ins)
				if cc == nil {
					return st
				}
				if staticMethodCall(cc, nas) && len(cc.Args) == 2 {
					if isBoolConst(cc.Args[1], false) {
						if st&(bSync1) != 0 {
							return st | bBad
						}
						return (st | bSync0) &^ bWritten
					}
					if isBoolConst(cc.Args[1], true) {
						if st&bSync0 == 0 {
							return st | bBad
						}
						return (st | bSync1) &^ bWritten
					}
					return st | bBad // non-constant argument: cannot decide which sync this is
				}
				if staticMethodCall(cc, wpr) {
					if st&bSync0 == 0 {
						return st | bBad
					}
					return st | bWritten
				}
				return st
			}
			if _, _, ok := timerRecvEdge(c, fn, ev); ok && st&bSync0 == 0 {
				return st | bTimer
			}
			return st
		},
		AtReturn: func(st int, r *ssa.Return, known map[int]bool) {
			v, ok := known[0]
			if !ok {
				unknownBad = &verdict{r.Pos(), "cannot determine whether this path reports shutdown (return value is not a tracked flag)"}
				return
			}
			if !v {
				nFalse++
				if st&bBad != 0 || st&bSync0 == 0 || st&bSync1 == 0 || st&bWritten == 0 {
					falseBad = &verdict{r.Pos(), fmt.Sprintf("a path returns false (shutdown) without the complete sequence sync(false) · sync(true) · state write (did: sync=%v finalSync=%v stateWrite=%v)", st&bSync0 != 0, st&bSync1 != 0, st&bWritten != 0)}
				}
			} else {
				nTrue++
				if st&bBad != 0 || st&bSync0 == 0 || st&bWritten == 0 {
					trueBad = &verdict{r.Pos(), "a path returns true without sync(false) followed by a state write"}
				} else if st&bSync1 != 0 {
					trueBad = &verdict{r.Pos(), "a path performs the final (closing) sync but returns true"}
				} else if st&bTimer == 0 {
					trueBad = &verdict{r.Pos(), "a path that keeps going synchronises without first receiving from a clock.NewTimer channel (minimum epoch interval not respected)"}
				}
			}
		}})
	if unknownBad != nil {
		c.Fail(name, "return-flag", c.Pos(unknownBad.pos), unknownBad.msg)
	}
	if falseBad != nil {
		c.Fail(name, "shutdown-sequence", c.Pos(falseBad.pos), falseBad.msg)
	} else if nFalse == 0 {
		c.Fail(name, "shutdown-sequence", c.Pos(fn.Pos()), "no path returns false: shutdown is never reported")
	} else {
		c.Pass(name, "shutdown-sequence", c.Pos(fn.Pos()), fmt.Sprintf("%d path class(es) returning false all did sync(false) · sync(true) · state write", nFalse))
	}
	if trueBad != nil {
		c.Fail(name, "steady-sequence", c.Pos(trueBad.pos), trueBad.msg)
	} else if nTrue == 0 {
		c.Fail(name, "steady-sequence", c.Pos(fn.Pos()), "no path returns true")
	} else {
		c.Pass(name, "steady-sequence", c.Pos(fn.Pos()), fmt.Sprintf("%d path class(es) returning true all did timer receive · sync(false) · state write and no final sync", nTrue))
	}
	// the received time is stored in lastSynchronizationTime
	stored := false
	allInstrs(fn, func(ins ssa.Instruction) {
		st, ok := ins.(*ssa.Store)
		if !ok {
			return
		}
		if f := fieldOf(st.Addr); f != nil && f.Name() == "lastSynchronizationTime" {
			if ex, ok := st.Val.(*ssa.Extract); ok {
				if _, ok := ex.Tuple.(*ssa.Select); ok {
					stored = true
				}
			}
			if u, ok := st.Val.(*ssa.UnOp); ok && u.Op == token.ARROW {
				stored = true
			}
		}
	})
	c.Check(stored, name, "last-sync-time", c.Pos(fn.Pos()), "the time received from the timer is stored in lastSynchronizationTime", "lastSynchronizationTime is not updated from the timer receive (the next interval would be measured from a stale time)")

	// ProcessBlockRelease
	rel := c.Method(localRel, "PeriodicSyncer", "ProcessBlockRelease")
	if rel == nil || rel.Blocks == nil {
		c.Broken("PeriodicSyncer.ProcessBlockRelease not found")
		return
	}
	rname := FuncName(rel)
	bad := ""
	var badPos token.Pos
	explorePaths(&pathSpec{Fn: rel, Init: 0,
		Step: func(st int, ev pathEvent) int {
			if ev.Ins == nil {
				return st
			}
			if u, ok := ev.Ins.(*ssa.UnOp); ok && u.Op == token.ARROW {
				// receive from the wake-up channel obtained from the source
				if cl, ok := u.X.(*ssa.Call); ok && invokeOnRecvField(rel, cl.Common(), "source", "GetBlockReleaseWakeup") {
					return st | 1
				}
			}
			if cc := callOf(ev.Ins); cc != nil && staticMethodCall(cc, wpr) {
				if st&1 == 0 {
					bad, badPos = "state written without waiting for the release wake-up", ev.Ins.Pos()
				}
				return st | 2
			}
			return st
		},
		AtReturn: func(st int, r *ssa.Return, _ map[int]bool) {
			if st&2 == 0 {
				bad, badPos = "returns without rewriting the persistent state after a release notification", r.Pos()
			}
		}})
	if bad != "" {
		c.Fail(rname, "release-sequence", c.Pos(badPos), bad)
	} else {
		c.Pass(rname, "release-sequence", c.Pos(rel.Pos()), "wake-up receive · writePersistentStateRetrying on every path")
	}
}
