package main

import (
	"fmt"
	"go/constant"
	"go/token"
	"sort"
	"strings"

	"golang.org/x/tools/go/ssa"
)

// ---------------------------------------------------------------------------
// order: event automaton over the paths of one SSA function, path-sensitive
// for boolean flags (constant booleans carried through phis and tested
// later: `keepGoing`, `needsRefresh`, ...) and for `err != nil` edges, which
// are delivered to the automaton as edge events.

type pathEvent struct {
	Ins ssa.Instruction // an instruction is executed …
	// … or a branch edge is taken: Cond evaluated to Val
	Cond ssa.Value
	Val  bool
}

type pathSpec struct {
	Fn   *ssa.Function
	Init int
	// Step returns the next automaton state. A negative state is a dead
	// (pruned) path.
	Step func(state int, ev pathEvent) int
	// AtReturn is called for every feasible path end; result values that
	// are known boolean constants are passed in known.
	AtReturn func(state int, r *ssa.Return, known map[int]bool)
	// MaxVisits bounds the exploration (defensive).
	MaxVisits int
	// Inline: see through this call (nil = treat it as an ordinary event).
	Inline func(cl *ssa.Call) *ssa.Function
}

type boolEnv map[ssa.Value]bool

func (e boolEnv) key() string {
	if len(e) == 0 {
		return ""
	}
	var ks []string
	for k, v := range e {
		ks = append(ks, fmt.Sprintf("%s=%v", k.Name(), v))
	}
	sort.Strings(ks)
	return strings.Join(ks, ",")
}

func evalBool(v ssa.Value, env boolEnv) (val, known bool) {
	switch x := v.(type) {
	case *ssa.Const:
		if x.Value != nil && x.Value.Kind() == constant.Bool {
			return constant.BoolVal(x.Value), true
		}
	case *ssa.UnOp:
		if x.Op == token.NOT {
			if b, ok := evalBool(x.X, env); ok {
				return !b, true
			}
		}
	case *ssa.Phi, *ssa.Parameter, *ssa.Call, *ssa.Extract:
		if b, ok := env[v]; ok {
			return b, true
		}
	}
	return false, false
}

func isBoolType(v ssa.Value) bool {
	b, ok := v.Type().Underlying().(interface{ Kind() int })
	_ = b
	_ = ok
	return v.Type().Underlying().String() == "bool"
}

// explorePaths runs the automaton over all feasible paths. Returns the number
// of (block,state,env) configurations visited; -1 if the bound was hit.
//
// When ps.Inline returns a function for a call, the call is seen through: the
// callee's paths are explored from the current state (its instructions and
// branch edges are delivered to Step like the caller's), and the caller
// continues after the call once for every state the callee can return in.
// The call instruction itself is then not delivered. Depth is bounded by 3.
func explorePaths(ps *pathSpec) int {
	type cfgKey struct {
		b     int
		state int
		env   string
	}
	type frame struct {
		fn    *ssa.Function
		top   bool
		seen  map[cfgKey]bool
		exits map[int]bool
		depth int
	}
	max := ps.MaxVisits
	if max == 0 {
		max = 200000
	}
	visits := 0
	type calleeKey struct {
		fn    *ssa.Function
		state int
	}
	calleeMemo := map[calleeKey][]int{}
	inProgress := map[*ssa.Function]bool{ps.Fn: true}
	var walk func(fr *frame, b *ssa.BasicBlock, from int, state int, env boolEnv)
	exploreCallee := func(callee *ssa.Function, state int, depth int) []int {
		k := calleeKey{callee, state}
		if r, ok := calleeMemo[k]; ok {
			return r
		}
		fr := &frame{fn: callee, seen: map[cfgKey]bool{}, exits: map[int]bool{}, depth: depth}
		inProgress[callee] = true
		walk(fr, callee.Blocks[0], 0, state, boolEnv{})
		delete(inProgress, callee)
		var out []int
		for s := range fr.exits {
			out = append(out, s)
		}
		sort.Ints(out)
		calleeMemo[k] = out
		return out
	}
	walk = func(fr *frame, b *ssa.BasicBlock, from int, state int, env boolEnv) {
		if visits < 0 {
			return
		}
		if from == 0 {
			k := cfgKey{b.Index, state, env.key()}
			if fr.seen[k] {
				return
			}
			fr.seen[k] = true
			visits++
			if visits > max {
				visits = -1
				return
			}
		}
		for i := from; i < len(b.Instrs); i++ {
			ins := b.Instrs[i]
			switch x := ins.(type) {
			case *ssa.Phi:
				continue
			case *ssa.If, *ssa.Jump:
				continue
			case *ssa.Return:
				if !fr.top {
					fr.exits[state] = true
					return
				}
				state = ps.Step(state, pathEvent{Ins: ins})
				if state < 0 {
					return
				}
				known := map[int]bool{}
				for i, r := range x.Results {
					if v, ok := evalBool(r, env); ok {
						known[i] = v
					}
				}
				if ps.AtReturn != nil {
					ps.AtReturn(state, x, known)
				}
				return
			case *ssa.Panic:
				return
			default:
				if ps.Inline != nil && fr.depth < 3 {
					if cl, ok := ins.(*ssa.Call); ok {
						if callee := ps.Inline(cl); callee != nil && len(callee.Blocks) > 0 && !inProgress[callee] {
							for _, s2 := range exploreCallee(callee, state, fr.depth+1) {
								walk(fr, b, i+1, s2, env)
							}
							return
						}
					}
				}
				state = ps.Step(state, pathEvent{Ins: ins})
				if state < 0 {
					return
				}
			}
		}
		if len(b.Succs) == 0 {
			return
		}
		var cond ssa.Value
		if iff, ok := b.Instrs[len(b.Instrs)-1].(*ssa.If); ok {
			cond = iff.Cond
		}
		for i, s := range b.Succs {
			st := state
			env2 := env
			if cond != nil {
				val := i == 0
				if cv, known := evalBool(cond, env); known && cv != val {
					continue // infeasible
				}
				st = ps.Step(st, pathEvent{Cond: cond, Val: val})
				if st < 0 {
					continue
				}
				// learn the flag's value
				c, v := cond, val
				for {
					if u, ok := c.(*ssa.UnOp); ok && u.Op == token.NOT {
						c, v = u.X, !v
						continue
					}
					break
				}
				switch c.(type) {
				case *ssa.Phi, *ssa.Parameter, *ssa.Call, *ssa.Extract:
					if c.Type().Underlying().String() == "bool" {
						env2 = boolEnv{}
						for k, x := range env {
							env2[k] = x
						}
						env2[c] = v
					}
				}
			}
			// phi transfer on this edge
			idx := -1
			for k, p := range s.Preds {
				if p == b {
					idx = k
					break
				}
			}
			var newEnv boolEnv
			for _, ins := range s.Instrs {
				phi, ok := ins.(*ssa.Phi)
				if !ok {
					break
				}
				if phi.Type().Underlying().String() != "bool" {
					continue
				}
				if newEnv == nil {
					newEnv = boolEnv{}
					for k, x := range env2 {
						newEnv[k] = x
					}
				}
				if v, known := evalBool(phi.Edges[idx], env2); known {
					newEnv[phi] = v
				} else {
					delete(newEnv, phi)
				}
			}
			if newEnv == nil {
				newEnv = env2
			}
			walk(fr, s, 0, st, newEnv)
		}
	}
	top := &frame{fn: ps.Fn, top: true, seen: map[cfgKey]bool{}}
	walk(top, ps.Fn.Blocks[0], 0, ps.Init, boolEnv{})
	return visits
}

// inlineOwnMethods is the usual Inline policy: see through calls to unexported
// methods of the same package invoked on the current function's own receiver
// (helpers a maintainer extracts from a method body).
func inlineOwnMethods(cl *ssa.Call) *ssa.Function {
	callee := cl.Call.StaticCallee()
	if callee == nil || callee.Signature.Recv() == nil || len(cl.Call.Args) == 0 || callee.Object() == nil || callee.Object().Exported() {
		return nil
	}
	caller := cl.Parent()
	if caller == nil || callee.Pkg != topFunc(caller).Pkg {
		return nil
	}
	if !isReceiverValue(topFunc(caller), captureOrigin(caller, cl.Call.Args[0])) && !isReceiverValue(caller, cl.Call.Args[0]) {
		return nil
	}
	return callee
}

// errEdge: does the edge (cond==val) say "the error of call is nil" (wantNil)
// or non-nil?
func edgeSaysErr(ev pathEvent, call ssa.Value) (isNil bool, ok bool) {
	if ev.Cond == nil {
		return false, false
	}
	c, v := ev.Cond, ev.Val
	for {
		if u, isU := c.(*ssa.UnOp); isU && u.Op == token.NOT {
			c, v = u.X, !v
			continue
		}
		break
	}
	x, nilWhenTrue, isT := nilTest(c)
	if !isT || !isErrResultOf(x, call) {
		return false, false
	}
	return nilWhenTrue == v, true
}

// withOwnHelpers visits fn and, transitively (depth <= 3), the unexported
// same-package methods it calls on its own receiver.
func withOwnHelpers(fn *ssa.Function, f func(g *ssa.Function)) {
	seen := map[*ssa.Function]bool{}
	var rec func(g *ssa.Function, d int)
	rec = func(g *ssa.Function, d int) {
		if seen[g] || d > 3 {
			return
		}
		seen[g] = true
		f(g)
		allInstrs(g, func(ins ssa.Instruction) {
			if cl, ok := ins.(*ssa.Call); ok {
				if callee := inlineOwnMethods(cl); callee != nil && len(callee.Blocks) > 0 {
					rec(callee, d+1)
				}
			}
		})
	}
	rec(fn, 0)
}
