package main

import (
	"fmt"
	"go/constant"
	"go/token"
	"sort"
	"strings"

	"golang.org/x/tools/go/ssa"
)

// ---------------------------------------------------------------------------
// order: event automaton over the paths of one SSA function, path-sensitive
// for boolean flags (constant booleans carried through phis and tested
// later: `keepGoing`, `needsRefresh`, ...) and for `err != nil` edges, which
// are delivered to the automaton as edge events.

type pathEvent struct {
	Ins ssa.Instruction // an instruction is executed …
	// … or a branch edge is taken: Cond evaluated to Val
	Cond ssa.Value
	Val  bool
}

type pathSpec struct {
	Fn   *ssa.Function
	Init int
	// Step returns the next automaton state. A negative state is a dead
	// (pruned) path.
	Step func(state int, ev pathEvent) int
	// AtReturn is called for every feasible path end; result values that
	// are known boolean constants are passed in known.
	AtReturn func(state int, r *ssa.Return, known map[int]bool)
	// MaxVisits bounds the exploration (defensive).
	MaxVisits int
}

type boolEnv map[ssa.Value]bool

func (e boolEnv) key() string {
	if len(e) == 0 {
		return ""
	}
	var ks []string
	for k, v := range e {
		ks = append(ks, fmt.Sprintf("%s=%v", k.Name(), v))
	}
	sort.Strings(ks)
	return strings.Join(ks, ",")
}

func evalBool(v ssa.Value, env boolEnv) (val, known bool) {
	switch x := v.(type) {
	case *ssa.Const:
		if x.Value != nil && x.Value.Kind() == constant.Bool {
			return constant.BoolVal(x.Value), true
		}
	case *ssa.UnOp:
		if x.Op == token.NOT {
			if b, ok := evalBool(x.X, env); ok {
				return !b, true
			}
		}
	case *ssa.Phi, *ssa.Parameter, *ssa.Call, *ssa.Extract:
		if b, ok := env[v]; ok {
			return b, true
		}
	}
	return false, false
}

func isBoolType(v ssa.Value) bool {
	b, ok := v.Type().Underlying().(interface{ Kind() int })
	_ = b
	_ = ok
	return v.Type().Underlying().String() == "bool"
}

// explorePaths runs the automaton over all feasible paths. Returns the number
// of (block,state,env) configurations visited; -1 if the bound was hit.
func explorePaths(ps *pathSpec) int {
	type cfgKey struct {
		b     int
		state int
		env   string
	}
	seen := map[cfgKey]bool{}
	max := ps.MaxVisits
	if max == 0 {
		max = 200000
	}
	visits := 0
	var rec func(b *ssa.BasicBlock, state int, env boolEnv)
	rec = func(b *ssa.BasicBlock, state int, env boolEnv) {
		if visits < 0 {
			return
		}
		k := cfgKey{b.Index, state, env.key()}
		if seen[k] {
			return
		}
		seen[k] = true
		visits++
		if visits > max {
			visits = -1
			return
		}
		for _, ins := range b.Instrs {
			switch x := ins.(type) {
			case *ssa.Phi:
				continue
			case *ssa.If, *ssa.Jump:
				continue
			case *ssa.Return:
				state = ps.Step(state, pathEvent{Ins: ins})
				if state < 0 {
					return
				}
				known := map[int]bool{}
				for i, r := range x.Results {
					if v, ok := evalBool(r, env); ok {
						known[i] = v
					}
				}
				if ps.AtReturn != nil {
					ps.AtReturn(state, x, known)
				}
				return
			case *ssa.Panic:
				return
			default:
				state = ps.Step(state, pathEvent{Ins: ins})
				if state < 0 {
					return
				}
			}
		}
		if len(b.Succs) == 0 {
			return
		}
		var cond ssa.Value
		if iff, ok := b.Instrs[len(b.Instrs)-1].(*ssa.If); ok {
			cond = iff.Cond
		}
		for i, s := range b.Succs {
			st := state
			env2 := env
			if cond != nil {
				val := i == 0
				if cv, known := evalBool(cond, env); known && cv != val {
					continue // infeasible
				}
				st = ps.Step(st, pathEvent{Cond: cond, Val: val})
				if st < 0 {
					continue
				}
				// learn the flag's value
				c, v := cond, val
				for {
					if u, ok := c.(*ssa.UnOp); ok && u.Op == token.NOT {
						c, v = u.X, !v
						continue
					}
					break
				}
				switch c.(type) {
				case *ssa.Phi, *ssa.Parameter, *ssa.Call, *ssa.Extract:
					if c.Type().Underlying().String() == "bool" {
						env2 = boolEnv{}
						for k, x := range env {
							env2[k] = x
						}
						env2[c] = v
					}
				}
			}
			// phi transfer on this edge
			idx := -1
			for k, p := range s.Preds {
				if p == b {
					idx = k
					break
				}
			}
			var newEnv boolEnv
			for _, ins := range s.Instrs {
				phi, ok := ins.(*ssa.Phi)
				if !ok {
					break
				}
				if phi.Type().Underlying().String() != "bool" {
					continue
				}
				if newEnv == nil {
					newEnv = boolEnv{}
					for k, x := range env2 {
						newEnv[k] = x
					}
				}
				if v, known := evalBool(phi.Edges[idx], env2); known {
					newEnv[phi] = v
				} else {
					delete(newEnv, phi)
				}
			}
			if newEnv == nil {
				newEnv = env2
			}
			rec(s, st, newEnv)
		}
	}
	rec(ps.Fn.Blocks[0], ps.Init, boolEnv{})
	return visits
}

// errEdge: does the edge (cond==val) say "the error of call is nil" (wantNil)
// or non-nil?
func edgeSaysErr(ev pathEvent, call ssa.Value) (isNil bool, ok bool) {
	if ev.Cond == nil {
		return false, false
	}
	c, v := ev.Cond, ev.Val
	for {
		if u, isU := c.(*ssa.UnOp); isU && u.Op == token.NOT {
			c, v = u.X, !v
			continue
		}
		break
	}
	x, nilWhenTrue, isT := nilTest(c)
	if !isT || !isErrResultOf(x, call) {
		return false, false
	}
	return nilWhenTrue == v, true
}
