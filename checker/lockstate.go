package main

import (
	"fmt"
	"go/ast"
	"go/token"
	"go/types"
	"sort"
	"strings"

	"golang.org/x/tools/go/cfg"
	"golang.org/x/tools/go/packages"
)

// ---------------------------------------------------------------------------
// lockstate: per-function lockset dataflow on go/cfg.
//
// State per lock key (the field / variable object of the mutex): a may-set of
// {U unlocked, R read-held, W write-held, E as-at-entry}. Guarded operations
// require a minimum mode; when the state is E the requirement becomes the
// function's entry precondition, which is then checked at every call site
// (Min et al.'s wrapper treatment). Also tracks values that are only valid
// during the lock hold in which they were obtained (stale-value rule).

type lmode uint8

const (
	lmU lmode = 1 << iota
	lmR
	lmW
	lmE
)

func (m lmode) String() string {
	var p []string
	if m&lmU != 0 {
		p = append(p, "unlocked")
	}
	if m&lmR != 0 {
		p = append(p, "read-locked")
	}
	if m&lmW != 0 {
		p = append(p, "write-locked")
	}
	if m&lmE != 0 {
		p = append(p, "as-at-entry")
	}
	if len(p) == 0 {
		return "unreachable"
	}
	return strings.Join(p, "|")
}

type lreq uint8 // required mode: 0 none, 1 >=R, 2 W

func (r lreq) String() string { return [...]string{"none", ">=R", "W"}[r] }

// LockGuard: one guarded operation.
type LockGuard struct {
	Name string
	Req  lreq
	// exactly one of:
	CallOf    *types.Func // call of this method/function object (interface method objects welcome)
	InvokeOf  types.Type  // call of a value whose type is this named func type
	Field     *types.Var  // access of this field: reads need Req, writes need W
	ReadReq   lreq        // for Field: requirement of reads (Req is for writes)
	Invalidat bool        // this op invalidates tracked "getter" values (R01.4)
}

// LockSpec configures the analysis of one lock.
type LockSpec struct {
	RuleID string
	Pkg    *packages.Package
	Lock   *types.Var // the mutex field / variable
	Guards []LockGuard
	// InScope selects the function declarations to analyse (closures come with them).
	InScope func(fd *ast.FuncDecl, recv *types.Named) bool
	// Exempt functions (constructors: object not shared yet).
	Exempt func(fd *ast.FuncDecl) bool
	// Entry points must not have a precondition.
	IsEntry func(fd *ast.FuncDecl) bool
	// Stale-value tracking.
	StaleTypes       []types.Type        // variables of these types are hold-scoped
	StaleExemptF     map[string]bool     // field selections that stay valid (e.g. SizeBytes)
	InvokeStale      map[types.Type]bool // types whose *invocation* is the use (func-typed)
	NoBlockWhileHeld bool                // channel receive / select while held is a violation
}

type lsFunc struct {
	name   string
	node   ast.Node // *ast.FuncDecl or *ast.FuncLit
	body   *ast.BlockStmt
	obj    *types.Func
	parent *lsFunc
	pre    lreq
	// effect on a lock held at entry
	exitReleased bool // some exit leaves the entry-held lock released
	exitHeld     bool
	touched      bool // function has any event on this lock
	sites        []lsSite
	reports      []lsReport
	immediate    bool // closure invoked at creation or deferred: analysed inline at the call site
	relocks      bool // entered held, released and re-acquired: values of the caller's hold are stale afterwards
	// takes and releases the lock itself
	acquiresAndReleases bool
}

type lsSite struct {
	what string
	pos  token.Pos
	req  lreq
	st   lmode
}

type lsReport struct {
	pos  token.Pos
	site string
	msg  string
}

type lsState struct {
	mode     lmode
	deferred bool // a deferred unlock is registered
	stale    map[*types.Var]bool
	fresh    map[*types.Var]bool
}

func (s *lsState) clone() *lsState {
	n := &lsState{mode: s.mode, deferred: s.deferred, stale: map[*types.Var]bool{}, fresh: map[*types.Var]bool{}}
	for k := range s.stale {
		n.stale[k] = true
	}
	for k := range s.fresh {
		n.fresh[k] = true
	}
	return n
}

func (s *lsState) join(o *lsState) bool {
	ch := false
	if s.mode|o.mode != s.mode {
		s.mode |= o.mode
		ch = true
	}
	if o.deferred && !s.deferred {
		s.deferred = true
		ch = true
	}
	for k := range o.stale {
		if !s.stale[k] {
			s.stale[k] = true
			ch = true
		}
	}
	for k := range o.fresh {
		if !s.fresh[k] {
			s.fresh[k] = true
			ch = true
		}
	}
	return ch
}

type lockAnalysis struct {
	p     *Program
	spec  *LockSpec
	info  *types.Info
	funcs []*lsFunc
	byObj map[*types.Func]*lsFunc
	byLit map[*ast.FuncLit]*lsFunc
}

func satisfies(st lmode, req lreq) (ok bool, viaEntry bool) {
	if req == 0 {
		return true, false
	}
	allowed := lmW | lmE
	if req == 1 {
		allowed |= lmR
	}
	if st&^allowed != 0 || st == 0 {
		return false, false
	}
	return true, st&lmE != 0
}

func newLockAnalysis(p *Program, spec *LockSpec) *lockAnalysis {
	la := &lockAnalysis{p: p, spec: spec, info: spec.Pkg.TypesInfo, byObj: map[*types.Func]*lsFunc{}, byLit: map[*ast.FuncLit]*lsFunc{}}
	for _, f := range spec.Pkg.Syntax {
		for _, d := range f.Decls {
			fd, ok := d.(*ast.FuncDecl)
			if !ok || fd.Body == nil {
				continue
			}
			var recv *types.Named
			obj, _ := la.info.Defs[fd.Name].(*types.Func)
			if obj != nil {
				if r := obj.Type().(*types.Signature).Recv(); r != nil {
					t := r.Type()
					if pt, ok := t.(*types.Pointer); ok {
						t = pt.Elem()
					}
					recv, _ = t.(*types.Named)
				}
			}
			if spec.InScope != nil && !spec.InScope(fd, recv) {
				continue
			}
			if spec.Exempt != nil && spec.Exempt(fd) {
				continue
			}
			name := fd.Name.Name
			if recv != nil {
				name = recv.Obj().Name() + "." + name
			}
			lf := &lsFunc{name: name, node: fd, body: fd.Body, obj: obj}
			la.funcs = append(la.funcs, lf)
			if obj != nil {
				la.byObj[obj] = lf
			}
			la.addLits(lf, fd.Body)
		}
	}
	return la
}

func (la *lockAnalysis) addLits(parent *lsFunc, body ast.Node) {
	n := 0
	var visit func(node ast.Node) bool
	visit = func(node ast.Node) bool {
		if lit, ok := node.(*ast.FuncLit); ok {
			n++
			lf := &lsFunc{name: fmt.Sprintf("%s$%d", parent.name, n), node: lit, body: lit.Body, parent: parent}
			la.funcs = append(la.funcs, lf)
			la.byLit[lit] = lf
			la.addLits(lf, lit.Body)
			return false
		}
		return true
	}
	ast.Inspect(body, visit)
}

// lockOp classifies call as an operation on the spec's lock.
func (la *lockAnalysis) lockOp(call *ast.CallExpr) string {
	sel, ok := call.Fun.(*ast.SelectorExpr)
	if !ok {
		return ""
	}
	fn, ok := la.info.Uses[sel.Sel].(*types.Func)
	if !ok || fn.Pkg() == nil || fn.Pkg().Path() != "sync" {
		return ""
	}
	switch fn.Name() {
	case "Lock", "Unlock", "RLock", "RUnlock":
	default:
		return ""
	}
	if la.exprVar(sel.X) != la.spec.Lock {
		return ""
	}
	return fn.Name()
}

// exprVar resolves x / a.b.x / &x to the variable (field) object it denotes.
func (la *lockAnalysis) exprVar(e ast.Expr) *types.Var {
	switch x := e.(type) {
	case *ast.ParenExpr:
		return la.exprVar(x.X)
	case *ast.UnaryExpr:
		if x.Op == token.AND {
			return la.exprVar(x.X)
		}
	case *ast.StarExpr:
		return la.exprVar(x.X)
	case *ast.Ident:
		v, _ := la.info.Uses[x].(*types.Var)
		if v == nil {
			v, _ = la.info.Defs[x].(*types.Var)
		}
		return v
	case *ast.SelectorExpr:
		v, _ := la.info.Uses[x.Sel].(*types.Var)
		return v
	}
	return nil
}

func (la *lockAnalysis) calleeObj(call *ast.CallExpr) *types.Func {
	switch f := call.Fun.(type) {
	case *ast.Ident:
		fn, _ := la.info.Uses[f].(*types.Func)
		return fn
	case *ast.SelectorExpr:
		fn, _ := la.info.Uses[f.Sel].(*types.Func)
		return fn
	}
	return nil
}

func (la *lockAnalysis) isStaleType(t types.Type) bool {
	for _, st := range la.spec.StaleTypes {
		if types.Identical(t, st) {
			return true
		}
	}
	return false
}

type lsWalker struct {
	la    *lockAnalysis
	f     *lsFunc
	st    *lsState
	final bool
}

func (w *lsWalker) report(pos token.Pos, site, format string, a ...any) {
	if !w.final {
		return
	}
	w.f.reports = append(w.f.reports, lsReport{pos: pos, site: site, msg: fmt.Sprintf(format, a...)})
}

func (w *lsWalker) require(pos token.Pos, what string, req lreq) {
	ok, viaEntry := satisfies(w.st.mode, req)
	if viaEntry && req > w.f.pre {
		w.f.pre = req
	}
	w.f.touched = true
	if w.final {
		w.f.sites = append(w.f.sites, lsSite{what: what, pos: pos, req: req, st: w.st.mode})
		if !ok {
			w.report(pos, what, "%s requires %s on %s but the lock state here is %s", what, req, w.la.lockName(), w.st.mode)
		}
	}
}

func (la *lockAnalysis) lockName() string {
	return la.spec.Lock.Name()
}

func (w *lsWalker) release(pos token.Pos) {
	// everything obtained under this hold is now stale
	for v := range w.st.fresh {
		w.st.stale[v] = true
	}
	w.st.fresh = map[*types.Var]bool{}
}

func (w *lsWalker) lockEvent(op string, pos token.Pos) {
	st := w.st
	w.f.touched = true
	switch op {
	case "Lock", "RLock":
		if st.mode&(lmR|lmW) != 0 {
			w.report(pos, op, "%s() while %s may already be held (%s)", op, w.la.lockName(), st.mode)
		}
		if op == "Lock" {
			st.mode = lmW
		} else {
			st.mode = lmR
		}
	case "Unlock", "RUnlock":
		want := lmW
		if op == "RUnlock" {
			want = lmR
		}
		if st.mode&lmE != 0 {
			// releases the caller's lock: precondition
			r := lreq(2)
			if op == "RUnlock" {
				r = 1
			}
			if r > w.f.pre {
				w.f.pre = r
			}
		}
		if st.mode&^(want|lmE) != 0 {
			w.report(pos, op, "%s() but the state of %s is %s", op, w.la.lockName(), st.mode)
		}
		st.mode = lmU
		w.release(pos)
	}
}

// walk visits expression/statement n in evaluation order.
func (w *lsWalker) walk(n ast.Node) {
	if n == nil {
		return
	}
	la := w.la
	switch x := n.(type) {
	case *ast.FuncLit:
		return
	case *ast.DeferStmt:
		if op := la.lockOp(x.Call); op == "Unlock" || op == "RUnlock" {
			w.st.deferred = true
			w.f.touched = true
			return
		}
		if lit, ok := x.Call.Fun.(*ast.FuncLit); ok {
			// deferred closure: if it releases the lock treat as deferred unlock
			rel := false
			ast.Inspect(lit.Body, func(m ast.Node) bool {
				if c, ok := m.(*ast.CallExpr); ok {
					if op := la.lockOp(c); op == "Unlock" || op == "RUnlock" {
						rel = true
					}
				}
				return true
			})
			if rel {
				w.st.deferred = true
				if lf := la.byLit[lit]; lf != nil {
					lf.immediate = true
				}
			}
			return
		}
		for _, a := range x.Call.Args {
			w.walk(a)
		}
		return
	case *ast.GoStmt:
		for _, a := range x.Call.Args {
			w.walk(a)
		}
		return
	case *ast.CallExpr:
		// receiver / function expression first, then arguments, then the call
		switch f := x.Fun.(type) {
		case *ast.SelectorExpr:
			w.walk(f.X)
		case *ast.FuncLit:
		default:
			w.walk(x.Fun)
		}
		for _, a := range x.Args {
			w.walk(a)
		}
		w.callEvent(x)
		return
	case *ast.AssignStmt:
		for _, r := range x.Rhs {
			w.walk(r)
		}
		for _, l := range x.Lhs {
			w.lhs(l)
		}
		// freshness of hold-scoped variables
		for _, l := range x.Lhs {
			if id, ok := l.(*ast.Ident); ok {
				v := la.exprVar(id)
				if v != nil && la.isStaleType(v.Type()) {
					held, _ := satisfies(w.st.mode, 1)
					delete(w.st.stale, v)
					delete(w.st.fresh, v)
					if held {
						w.st.fresh[v] = true
					} else {
						w.st.stale[v] = true
					}
				}
			}
		}
		return
	case *ast.IncDecStmt:
		w.lhs(x.X)
		return
	case *ast.RangeStmt:
		// go/cfg adds the range expression as a node of its own; the
		// RangeStmt node stands for the key/value assignment only.
		return
	case *ast.SelectorExpr:
		w.walk(x.X)
		w.fieldUse(x, false)
		w.staleUse(x)
		return
	case *ast.Ident:
		return
	case *ast.UnaryExpr:
		if x.Op == token.ARROW && la.spec.NoBlockWhileHeld {
			if w.st.mode&(lmR|lmW) != 0 && w.final {
				w.report(x.Pos(), "receive", "blocking channel receive while %s is held (%s)", la.lockName(), w.st.mode)
			}
		}
		w.walk(x.X)
		return
	case *ast.CompositeLit:
		for _, e := range x.Elts {
			if kv, ok := e.(*ast.KeyValueExpr); ok {
				w.walk(kv.Value)
			} else {
				w.walk(e)
			}
		}
		return
	}
	// generic: visit children in source order
	ast.Inspect(n, func(m ast.Node) bool {
		if m == n || m == nil {
			return true
		}
		w.walk(m)
		return false
	})
}

func (w *lsWalker) lhs(e ast.Expr) {
	switch x := e.(type) {
	case *ast.SelectorExpr:
		w.walk(x.X)
		w.fieldUse(x, true)
	case *ast.IndexExpr:
		w.walk(x.Index)
		if s, ok := x.X.(*ast.SelectorExpr); ok {
			w.walk(s.X)
			w.fieldUse(s, true)
		} else {
			w.walk(x.X)
		}
	case *ast.StarExpr:
		w.walk(x.X)
	case *ast.ParenExpr:
		w.lhs(x.X)
	}
}

func (w *lsWalker) fieldUse(sel *ast.SelectorExpr, write bool) {
	v, _ := w.la.info.Uses[sel.Sel].(*types.Var)
	if v == nil || !v.IsField() {
		return
	}
	for i := range w.la.spec.Guards {
		g := &w.la.spec.Guards[i]
		if g.Field != v {
			continue
		}
		req := g.ReadReq
		kind := "read of "
		if write {
			req = g.Req
			kind = "write of "
		}
		w.require(sel.Pos(), kind+g.Name, req)
	}
}

func (w *lsWalker) staleUse(sel *ast.SelectorExpr) {
	id, ok := sel.X.(*ast.Ident)
	if !ok {
		return
	}
	v := w.la.exprVar(id)
	if v == nil || !w.la.isStaleType(v.Type()) {
		return
	}
	if w.la.spec.StaleExemptF[sel.Sel.Name] {
		return
	}
	if w.final {
		w.f.sites = append(w.f.sites, lsSite{what: "use of " + id.Name + "." + sel.Sel.Name, pos: sel.Pos(), st: w.st.mode})
	}
	if w.st.stale[v] {
		w.report(sel.Pos(), "stale:"+id.Name+"."+sel.Sel.Name, "%s.%s was obtained during an earlier hold of %s (or outside any hold); the lock was released since, so the value may no longer be valid", id.Name, sel.Sel.Name, w.la.lockName())
	}
}

func (w *lsWalker) callEvent(call *ast.CallExpr) {
	la := w.la
	if op := la.lockOp(call); op != "" {
		w.lockEvent(op, call.Pos())
		return
	}
	// builtins writing guarded fields: delete(m.f, k), close(x.f)
	if id, ok := call.Fun.(*ast.Ident); ok {
		if _, isB := la.info.Uses[id].(*types.Builtin); isB && (id.Name == "delete" || id.Name == "close" || id.Name == "clear") && len(call.Args) > 0 {
			if s, ok := call.Args[0].(*ast.SelectorExpr); ok {
				w.fieldUse(s, true)
			}
		}
	}
	callee := la.calleeObj(call)
	// invocation of a func-typed value
	var funT types.Type
	if callee == nil {
		if tv, ok := la.info.Types[call.Fun]; ok {
			funT = tv.Type
		}
	}
	for i := range la.spec.Guards {
		g := &la.spec.Guards[i]
		hit := false
		if g.CallOf != nil && callee != nil && (callee == g.CallOf || callee.Origin() == g.CallOf) {
			hit = true
		}
		if g.InvokeOf != nil && funT != nil && types.Identical(funT, g.InvokeOf) {
			hit = true
		}
		if !hit {
			continue
		}
		// stale func-typed value invoked?
		if g.InvokeOf != nil && la.spec.InvokeStale[g.InvokeOf] {
			if id, ok := call.Fun.(*ast.Ident); ok {
				if v := la.exprVar(id); v != nil && w.st.stale[v] {
					w.report(call.Pos(), "stale:"+id.Name, "%s was obtained during an earlier hold of %s or before an operation that invalidates it", id.Name, la.lockName())
				}
			}
		}
		w.require(call.Pos(), g.Name, g.Req)
		if g.Invalidat {
			for v := range w.st.fresh {
				if la.spec.InvokeStale[v.Type()] {
					delete(w.st.fresh, v)
					w.st.stale[v] = true
				}
			}
		}
	}
	// stale whole-value arguments to guarded callees
	for _, a := range call.Args {
		if id, ok := a.(*ast.Ident); ok {
			if v := la.exprVar(id); v != nil && la.isStaleType(v.Type()) && !la.spec.InvokeStale[v.Type()] {
				guarded := false
				for i := range la.spec.Guards {
					g := &la.spec.Guards[i]
					if g.CallOf != nil && callee != nil && callee == g.CallOf {
						guarded = true
					}
				}
				if guarded {
					if w.final {
						w.f.sites = append(w.f.sites, lsSite{what: "use of " + id.Name, pos: id.Pos(), st: w.st.mode})
					}
					if w.st.stale[v] {
						w.report(id.Pos(), "stale:"+id.Name, "%s was obtained during an earlier hold of %s; the lock was released since", id.Name, la.lockName())
					}
				}
			}
		}
	}
	// helper with a summary
	if callee != nil {
		if hf := la.byObj[callee]; hf != nil && hf != w.f {
			if hf.pre > 0 {
				w.require(call.Pos(), "call of "+hf.name+" (needs "+hf.pre.String()+" at entry)", hf.pre)
				if hf.exitReleased && !hf.exitHeld {
					w.st.mode = lmU
					w.release(call.Pos())
				} else if hf.exitReleased {
					w.st.mode |= lmU
					w.release(call.Pos())
				} else if hf.relocks {
					w.release(call.Pos())
				}
			} else if hf.touched && hf.acquiresAndReleases {
				// self-contained helper that takes the lock itself: must not be called while held
				if w.st.mode&(lmR|lmW) != 0 {
					w.report(call.Pos(), "call of "+hf.name, "%s acquires %s itself but it may already be held here (%s)", hf.name, la.lockName(), w.st.mode)
				}
				w.release(call.Pos())
			}
		}
	}
	// immediately invoked closure: analysed inline
	if lit, ok := call.Fun.(*ast.FuncLit); ok {
		if lf := la.byLit[lit]; lf != nil {
			lf.immediate = true
		}
	}
}

// analyzeFunc runs the dataflow for one function. entry = state at entry.
func (la *lockAnalysis) analyzeFunc(f *lsFunc, final bool) {
	g := cfg.New(f.body, func(call *ast.CallExpr) bool {
		if id, ok := call.Fun.(*ast.Ident); ok && id.Name == "panic" {
			return false
		}
		return true
	})
	if final {
		f.sites = nil
		f.reports = nil
	}
	entry := &lsState{mode: lmE, stale: map[*types.Var]bool{}, fresh: map[*types.Var]bool{}}
	if f.parent != nil {
		// closure: runs later; captured hold-scoped variables are stale
		ast.Inspect(f.body, func(n ast.Node) bool {
			if id, ok := n.(*ast.Ident); ok {
				if v, ok := la.info.Uses[id].(*types.Var); ok && la.isStaleType(v.Type()) && !v.IsField() {
					if v.Pos() < f.body.Pos() || v.Pos() > f.body.End() {
						entry.stale[v] = true
					}
				}
			}
			return true
		})
	}
	in := make([]*lsState, len(g.Blocks))
	in[0] = entry
	work := []int32{0}
	for len(work) > 0 {
		bi := work[0]
		work = work[1:]
		b := g.Blocks[bi]
		st := in[bi].clone()
		w := &lsWalker{la: la, f: f, st: st}
		for _, n := range b.Nodes {
			w.walk(n)
		}
		for _, s := range b.Succs {
			if in[s.Index] == nil {
				in[s.Index] = st.clone()
				work = append(work, s.Index)
			} else if in[s.Index].join(st) {
				work = append(work, s.Index)
			}
		}
	}
	// exits and (final) reports
	f.exitHeld, f.exitReleased, f.relocks = false, false, false
	for bi, b := range g.Blocks {
		if in[bi] == nil || !b.Live {
			continue
		}
		st := in[bi].clone()
		w := &lsWalker{la: la, f: f, st: st, final: final}
		for _, n := range b.Nodes {
			w.walk(n)
		}
		if len(b.Succs) != 0 {
			continue
		}
		// exit block (return or fallthrough end). Panics excluded by mayReturn.
		if len(b.Nodes) > 0 {
			if es, ok := b.Nodes[len(b.Nodes)-1].(*ast.ExprStmt); ok {
				if c, ok := es.X.(*ast.CallExpr); ok {
					if id, ok := c.Fun.(*ast.Ident); ok && id.Name == "panic" {
						continue
					}
				}
			}
		}
		pos := f.body.Rbrace
		if len(b.Nodes) > 0 {
			pos = b.Nodes[len(b.Nodes)-1].Pos()
		}
		m := st.mode
		if st.deferred {
			// the deferred unlock runs: R/W become U
			if m&(lmR|lmW|lmE) == 0 {
				w.report(pos, "exit", "deferred unlock of %s runs at this exit but the lock is %s", la.lockName(), m)
			}
			continue
		}
		if f.pre > 0 {
			if m&lmU != 0 {
				f.exitReleased = true
			}
			if m&(lmR|lmW|lmE) != 0 {
				f.exitHeld = true
			}
			if m&(lmR|lmW) != 0 {
				f.relocks = true
			}
		} else if m&(lmR|lmW) != 0 {
			w.report(pos, "exit", "%s may still be held (%s) at this exit", la.lockName(), m)
		}
	}
	if f.pre > 0 && f.exitHeld && f.exitReleased && final {
		f.reports = append(f.reports, lsReport{pos: f.body.Pos(), site: "exit", msg: fmt.Sprintf("%s is entered with %s held and leaves it held on some exits and released on others", f.name, la.lockName())})
	}
	// self-contained: acquires and releases
	f.acquiresAndReleases = false
	if f.pre == 0 && f.touched {
		ast.Inspect(f.body, func(n ast.Node) bool {
			if _, ok := n.(*ast.FuncLit); ok {
				return false
			}
			if c, ok := n.(*ast.CallExpr); ok {
				if op := la.lockOp(c); op == "Lock" || op == "RLock" {
					f.acquiresAndReleases = true
				}
			}
			return true
		})
	}
}

// Run computes summaries to a fixpoint, then the final reports.
func (la *lockAnalysis) Run() {
	for iter := 0; iter < 6; iter++ {
		changed := false
		for _, f := range la.funcs {
			oldPre, oh, or, orl, oa := f.pre, f.exitHeld, f.exitReleased, f.relocks, f.acquiresAndReleases
			la.analyzeFunc(f, false)
			if f.pre != oldPre || oh != f.exitHeld || or != f.exitReleased || orl != f.relocks || oa != f.acquiresAndReleases {
				changed = true
			}
		}
		if !changed {
			break
		}
	}
	for _, f := range la.funcs {
		la.analyzeFunc(f, true)
	}
	sort.SliceStable(la.funcs, func(i, j int) bool { return la.funcs[i].node.Pos() < la.funcs[j].node.Pos() })
}

// Emit turns the results into obligations.
func (la *lockAnalysis) Emit(c *Ctx) {
	for _, f := range la.funcs {
		if !f.touched && len(f.reports) == 0 && len(f.sites) == 0 {
			continue
		}
		bad := map[token.Pos]bool{}
		for _, r := range f.reports {
			bad[r.pos] = true
			c.Fail(f.name, r.site, c.Pos(r.pos), r.msg)
		}
		for _, s := range f.sites {
			if bad[s.pos] {
				continue
			}
			c.Pass(f.name, s.what, c.Pos(s.pos), fmt.Sprintf("%s: needs %s, state %s", s.what, s.req, s.st))
		}
		// precondition policy
		if f.pre > 0 {
			isEntry := false
			if fd, ok := f.node.(*ast.FuncDecl); ok && la.spec.IsEntry != nil && la.spec.IsEntry(fd) {
				isEntry = true
			}
			if f.parent != nil && !f.immediate {
				c.Fail(f.name, "precondition", c.Pos(f.node.Pos()), fmt.Sprintf("closure uses operations that need %s on %s without acquiring it (it runs outside the creator's hold)", f.pre, la.lockName()))
			} else if isEntry {
				c.Fail(f.name, "precondition", c.Pos(f.node.Pos()), fmt.Sprintf("entry point uses operations that need %s on %s without acquiring it", f.pre, la.lockName()))
			} else {
				c.Pass(f.name, "precondition", c.Pos(f.node.Pos()), fmt.Sprintf("helper must be entered with %s on %s; every call site in scope is checked against this", f.pre, la.lockName()))
			}
		}
	}
}
