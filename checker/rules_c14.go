package main

import (
	"go/token"
	"go/types"
	"strings"

	"golang.org/x/tools/go/ssa"
)

const serversRel = "pkg/blobstore/grpcservers"
const clientsRel = "pkg/blobstore/grpcclients"
const bsPkg = "google.golang.org/genproto/googleapis/bytestream"

func init() {
	register(&Rule{
		ID: "R14.1", Props: []string{"C14"}, Engine: "flow + guard + sibling cross-check + path automaton",
		Text:  "both upload paths of the ByteStream server (identity, zstd) obey the same write protocol: for every WriteRequest whose Data is consumed – the first request included – its WriteOffset is compared with the running expected offset and its FinishWrite is recorded, in the function that consumes it or in a helper it is passed to; the expected offset advances by len(Data) of that same request; when Recv fails with io.EOF before finish_write was seen the reader returns an error other than io.EOF (the upload cannot complete)",
		Floor: 6, MustExist: true, Run: runR141,
	})
	register(&Rule{
		ID: "R14.2", Props: []string{"C14"}, Engine: "flow",
		Text:  "one digest: in every gRPC server method the digest that keys BlobAccess.Put is the same value that was given to the NewCASBufferFrom* constructor of the buffer being put; data received from clients is always wrapped as buffer.UserProvided, data received from servers (grpcclients) as buffer.BackendProvided",
		Floor: 6, MustExist: true, Run: runR142,
	})
	register(&Rule{
		ID: "R14.4", Props: []string{"C14"}, Engine: "flow (noerrdrop)",
		Text:  "one status per batch entry: in BatchUpdateBlobs and BatchReadBlobs the status of each response entry is status.Convert of an error value that the backend call of that same iteration flows into, and the entry's digest is that iteration's request digest; the write RPCs reply (SendAndClose) only on the nil edge of Put",
		Floor: 4, MustExist: true, Run: runR144,
	})
	register(&Rule{
		ID: "R14.5", Props: []string{"C14"}, Engine: "flow",
		Text:  "answers are forwarded: FindMissingBlobs returns GetProto() of exactly the items of the backend's FindMissing result for the set built from every request digest; every path of ByteStream Read that streams object data consumes the buffer starting at in.ReadOffset",
		Floor: 3, MustExist: true, Run: runR145,
	})
}

func isWriteRequestPtr(t types.Type) bool {
	p, ok := t.(*types.Pointer)
	if !ok {
		return false
	}
	n, ok := p.Elem().(*types.Named)
	return ok && n.Obj().Name() == "WriteRequest" && n.Obj().Pkg() != nil && n.Obj().Pkg().Path() == bsPkg
}

func runR141(c *Ctx) {
	funcs := c.pkgFuncs(serversRel)
	// summaries: does function f (with a *WriteRequest parameter at index i) check the offset / record finish?
	type summ struct{ offset, finish, advance bool }
	var analyse func(f *ssa.Function, v ssa.Value, depth int) (s summ, usesData bool, dataPos token.Pos)
	analyse = func(f *ssa.Function, v ssa.Value, depth int) (s summ, usesData bool, dataPos token.Pos) {
		refs := v.Referrers()
		if refs == nil {
			return
		}
		for _, r := range *refs {
			switch x := r.(type) {
			case *ssa.FieldAddr:
				fld := fieldOf(x).Name()
				for _, rr := range *x.Referrers() {
					ld, ok := rr.(*ssa.UnOp)
					if !ok {
						continue
					}
					switch fld {
					case "Data":
						usesData = true
						if !dataPos.IsValid() {
							dataPos = ld.Pos()
						}
						// advance: offset' = offset + int64(len(Data)); also initial: nextOffset: int64(len(Data))
						for _, u := range *ld.Referrers() {
							if cl, ok := u.(*ssa.Call); ok {
								if bi, ok := cl.Call.Value.(*ssa.Builtin); ok && bi.Name() == "len" {
									s.advance = true
								}
							}
						}
					case "WriteOffset":
						for _, u := range *ld.Referrers() {
							if bo, ok := u.(*ssa.BinOp); ok && (bo.Op == token.EQL || bo.Op == token.NEQ) {
								other := bo.X
								if other == ssa.Value(ld) {
									other = bo.Y
								}
								if lf, _ := loadedField(other); lf != nil {
									s.offset = true
								}
								if k, ok := constInt(other); ok && k == 0 {
									s.offset = true
								}
							}
						}
					case "FinishWrite":
						for _, u := range *ld.Referrers() {
							if st, ok := u.(*ssa.Store); ok && fieldOf(st.Addr) != nil {
								s.finish = true
							}
						}
					}
				}
			case *ssa.Call:
				if depth < 2 {
					if callee := x.Call.StaticCallee(); callee != nil && callee.Blocks != nil {
						for i, a := range x.Call.Args {
							if a == v && i < len(callee.Params) {
								s2, ud, dp := analyse(callee, callee.Params[i], depth+1)
								s.offset = s.offset || s2.offset
								s.finish = s.finish || s2.finish
								s.advance = s.advance || s2.advance
								if ud {
									usesData = true
									if !dataPos.IsValid() {
										dataPos = dp
									}
								}
							}
						}
					}
				}
			}
		}
		return
	}
	n := 0
	for _, f := range funcs {
		withAnon(f, func(g *ssa.Function) {
			// request values originating here: results of Recv()
			allInstrs(g, func(ins ssa.Instruction) {
				ex, ok := ins.(*ssa.Extract)
				if !ok || !isWriteRequestPtr(ex.Type()) {
					return
				}
				cl, ok := ex.Tuple.(*ssa.Call)
				if !ok || !cl.Call.IsInvoke() || cl.Call.Method.Name() != "Recv" {
					return
				}
				s, uses, _ := analyse(g, ex, 0)
				// the first request is usually handed on to the compressor-specific path
				if !uses {
					return
				}
				n++
				c.Check(s.offset, FuncName(g), "write-offset-checked", c.Pos(cl.Pos()), "write_offset of the request is compared with the expected offset before its data is used", "data of a WriteRequest is consumed without comparing its write_offset with the expected offset (non-contiguous uploads would be stitched together)")
				c.Check(s.finish, FuncName(g), "finish-recorded", c.Pos(cl.Pos()), "finish_write of the request is recorded", "finish_write of a consumed WriteRequest is not recorded")
				c.Check(s.advance, FuncName(g), "offset-advanced", c.Pos(cl.Pos()), "the expected offset advances by len(Data)", "the expected offset is not advanced by the length of the data consumed")
			})
			// request parameters whose Data is consumed directly in this function (not merely forwarded)
			for _, p := range g.Params {
				if !isWriteRequestPtr(p.Type()) {
					continue
				}
				direct := false
				if refs := p.Referrers(); refs != nil {
					for _, r := range *refs {
						if fa, ok := r.(*ssa.FieldAddr); ok && fieldOf(fa).Name() == "Data" {
							direct = true
						}
					}
				}
				s, uses, dpos := analyse(g, p, 0)
				if !uses {
					continue
				}
				if !direct {
					// forwarded to a helper: the helper's own parameter is judged when it is visited
					continue
				}
				n++
				c.Check(s.offset, FuncName(g), "write-offset-checked", c.Pos(dpos), "write_offset of the request is compared with the expected offset before its data is used", "data of a WriteRequest (the first request of the stream) is consumed without comparing its write_offset with the expected offset: an upload starting at a non-zero offset would be accepted")
				c.Check(s.finish, FuncName(g), "finish-recorded", c.Pos(dpos), "finish_write of the request is recorded", "finish_write of a consumed WriteRequest is not recorded")
				c.Check(s.advance, FuncName(g), "offset-advanced", c.Pos(dpos), "the expected offset advances by len(Data)", "the expected offset is not advanced by the length of the data consumed")
			}
		})
	}
	if n < 3 {
		c.Fail("grpcservers", "write-protocol", "-", "fewer WriteRequest consumption sites than expected were found")
	}
	// premature EOF
	isEOFVal := func(v ssa.Value) bool {
		u, ok := v.(*ssa.UnOp)
		if !ok {
			return false
		}
		g, ok := u.X.(*ssa.Global)
		return ok && g.Name() == "EOF" && g.Pkg.Pkg.Path() == "io"
	}
	for _, f := range funcs {
		if f.Name() != "Read" {
			continue
		}
		var recv *ssa.Call
		allInstrs(f, func(ins ssa.Instruction) {
			if cl, ok := ins.(*ssa.Call); ok && cl.Call.IsInvoke() && cl.Call.Method.Name() == "Recv" {
				if ex := cl.Type(); ex != nil {
					if tup, ok := ex.(*types.Tuple); ok && tup.Len() == 2 && isWriteRequestPtr(tup.At(0).Type()) {
						recv = cl
					}
				}
			}
		})
		if recv == nil {
			continue
		}
		name := FuncName(f)
		isEOFTest := func(cond ssa.Value) (match bool, eofWhenTrue bool) {
			c0, pol := cond, true
			for {
				if u, ok := c0.(*ssa.UnOp); ok && u.Op == token.NOT {
					c0, pol = u.X, !pol
					continue
				}
				break
			}
			if bo, ok := c0.(*ssa.BinOp); ok && (bo.Op == token.EQL || bo.Op == token.NEQ) {
				if (isErrResultOf(bo.X, recv) && isEOFVal(bo.Y)) || (isErrResultOf(bo.Y, recv) && isEOFVal(bo.X)) {
					return true, (bo.Op == token.EQL) == pol
				}
			}
			if cl, ok := c0.(*ssa.Call); ok && isPkgFuncCall(cl.Common(), "errors", "Is") && isErrResultOf(cl.Call.Args[0], recv) && isEOFVal(cl.Call.Args[1]) {
				return true, pol
			}
			return false, false
		}
		isFinishedTest := func(cond ssa.Value) (match bool, finishedWhenTrue bool) {
			c0, pol := cond, true
			for {
				if u, ok := c0.(*ssa.UnOp); ok && u.Op == token.NOT {
					c0, pol = u.X, !pol
					continue
				}
				break
			}
			if lf, _ := loadedField(c0); lf != nil && strings.HasPrefix(strings.ToLower(lf.Name()), "finish") {
				return true, pol
			}
			return false, false
		}
		bad := ""
		var badPos token.Pos
		// states: 0 before Recv, 1 Recv failed (unclassified), 2 safe, 3 EOF seen, 4 premature EOF
		explorePaths(&pathSpec{Fn: f, Init: 0,
			Step: func(st int, ev pathEvent) int {
				if ev.Ins == ssa.Instruction(recv) {
					return 1
				}
				if ev.Cond == nil {
					return st
				}
				if st == 1 {
					if isNil, ok := edgeSaysErr(ev, recv); ok {
						if isNil {
							return 2
						}
						return 1
					}
				}
				if st == 1 || st == 3 {
					if m, eofWhenTrue := isEOFTest(ev.Cond); m {
						if eofWhenTrue == ev.Val {
							return 3
						}
						return 2
					}
					if m, finWhenTrue := isFinishedTest(ev.Cond); m {
						if finWhenTrue == ev.Val {
							return 2
						}
						return 4
					}
				}
				return st
			},
			AtReturn: func(st int, r *ssa.Return, _ map[int]bool) {
				errv := r.Results[len(r.Results)-1]
				returnsRecvErr := isErrResultOf(errv, recv) || isEOFVal(errv)
				switch st {
				case 1:
					if returnsRecvErr {
						bad, badPos = "the error of Recv is passed on without checking for io.EOF: a client that closes the stream without finish_write ends the data cleanly", r.Pos()
					}
				case 4:
					if returnsRecvErr || isNilConst(errv) {
						bad, badPos = "io.EOF is passed on although finish_write was not seen", r.Pos()
					}
				}
			}})
		c.Check(bad == "", name, "premature-eof", c.Pos(func() token.Pos {
			if bad == "" {
				return recv.Pos()
			}
			return badPos
		}()), "an end of stream before finish_write is turned into an error", bad)
	}
}

func runR142(c *Ctx) {
	bufPath := modPath + "/" + bufferRel
	for _, rel := range []string{serversRel, clientsRel} {
		for _, f := range c.pkgFuncs(rel) {
			withAnon(f, func(g *ssa.Function) {
				allInstrs(g, func(ins ssa.Instruction) {
					cl, ok := ins.(*ssa.Call)
					if !ok {
						return
					}
					o := calleeObjOf(cl.Common())
					if o == nil || o.Pkg() == nil || o.Pkg().Path() != bufPath {
						return
					}
					if !(strings.HasPrefix(o.Name(), "NewCASBufferFrom") || strings.HasPrefix(o.Name(), "NewProtoBufferFrom")) {
						return
					}
					src := cl.Call.Args[len(cl.Call.Args)-1]
					isUser := false
					if u, ok := src.(*ssa.UnOp); ok {
						if gl, ok := u.X.(*ssa.Global); ok && gl.Name() == "UserProvided" {
							isUser = true
						}
					}
					isBackend := false
					if sc, ok := src.(*ssa.Call); ok && isPkgFuncCall(sc.Common(), bufPath, "BackendProvided") {
						isBackend = true
					}
					if rel == serversRel {
						c.Check(isUser, FuncName(g), "source", c.Pos(cl.Pos()), "client data is UserProvided", "a buffer built from client data in a gRPC server is not marked buffer.UserProvided (mismatches would be blamed on storage and reported as INTERNAL)")
					} else {
						c.Check(isBackend, FuncName(g), "source", c.Pos(cl.Pos()), "server data is BackendProvided", "a buffer built from a server's response in a gRPC client is not marked buffer.BackendProvided")
					}
					// digest agreement with Put
					if strings.HasPrefix(o.Name(), "NewCASBufferFrom") {
						if refs := cl.Referrers(); refs != nil {
							for _, r := range *refs {
								if pc, ok := r.(*ssa.Call); ok && pc.Call.IsInvoke() && pc.Call.Method.Name() == "Put" && len(pc.Call.Args) == 3 && pc.Call.Args[2] == ssa.Value(cl) {
									c.Check(pc.Call.Args[1] == cl.Call.Args[0], FuncName(g), "same-digest", c.Pos(pc.Pos()), "the digest that keys the Put is the digest the buffer validates against", "the buffer is validated against a digest other than the one it is stored under")
								}
							}
						}
					}
				})
			})
		}
	}
}

func runR144(c *Ctx) {
	for _, m := range []struct{ meth, backend string }{{"BatchUpdateBlobs", "Put"}, {"BatchReadBlobs", "ToByteSlice"}} {
		fn := c.Method(serversRel, "contentAddressableStorageServer", m.meth)
		if fn == nil {
			c.Broken("contentAddressableStorageServer.%s not found", m.meth)
			continue
		}
		name := FuncName(fn)
		n := 0
		allInstrs(fn, func(ins ssa.Instruction) {
			cl, ok := ins.(*ssa.Call)
			if !ok || !isPkgFuncCall(cl.Common(), "google.golang.org/grpc/status", "Convert") {
				return
			}
			n++
			carries := false
			deepSlice(fn, cl.Call.Args[0], func(x ssa.Value) bool {
				if c2, ok := x.(*ssa.Call); ok {
					if c2.Call.IsInvoke() && c2.Call.Method.Name() == m.backend {
						carries = true
					}
					return false
				}
				return true
			})
			c.Check(carries, name, "entry-status", c.Pos(cl.Pos()), "the entry's status is converted from this iteration's "+m.backend+" error", "the status reported for a batch entry does not carry the error of this entry's "+m.backend+" call: a failed entry would be reported as OK")
		})
		if n == 0 {
			c.Fail(name, "entry-status", c.Pos(fn.Pos()), "no per-entry status is produced")
		}
		// digest of the entry is the request's digest of the same iteration
		okDig := false
		allInstrs(fn, func(ins ssa.Instruction) {
			st, ok := ins.(*ssa.Store)
			if !ok {
				return
			}
			if f := fieldOf(st.Addr); f != nil && f.Name() == "Digest" {
				v := st.Val
				if lf, base := loadedField(v); lf != nil && lf.Name() == "Digest" {
					v = base
				}
				if _, _, isElem := rangeElemOf(v); isElem {
					okDig = true
				}
			}
		})
		c.Check(okDig, name, "entry-digest", c.Pos(fn.Pos()), "each entry echoes its own request digest", "a batch response entry does not echo the digest of the request of the same iteration")
	}
	// write RPCs reply only after Put == nil
	n := 0
	for _, f := range c.pkgFuncs(serversRel) {
		allInstrs(f, func(ins ssa.Instruction) {
			cl, ok := ins.(*ssa.Call)
			if !ok || !cl.Call.IsInvoke() || cl.Call.Method.Name() != "SendAndClose" {
				return
			}
			n++
			ok2 := false
			allInstrs(f, func(i2 ssa.Instruction) {
				if pc, ok := i2.(*ssa.Call); ok && pc.Call.IsInvoke() && pc.Call.Method.Name() == "Put" && dominatedByErrNil(cl.Block(), pc) {
					ok2 = true
				}
			})
			c.Check(ok2, FuncName(f), "reply-after-put", c.Pos(cl.Pos()), "the write is acknowledged only after Put succeeded", "a ByteStream write is acknowledged although Put may have failed")
		})
	}
	if n == 0 {
		c.Fail("grpcservers", "reply-after-put", "-", "no write acknowledgement found")
	}
}

func runR145(c *Ctx) {
	fm := c.Method(serversRel, "contentAddressableStorageServer", "FindMissingBlobs")
	if fm == nil {
		c.Broken("FindMissingBlobs not found")
		return
	}
	dig := c.LookupType(digestRel, "Digest")
	// result list elements: GetProto of items of the backend's answer
	var backend *ssa.Call
	allInstrs(fm, func(ins ssa.Instruction) {
		if cl, ok := ins.(*ssa.Call); ok && cl.Call.IsInvoke() && cl.Call.Method.Name() == "FindMissing" {
			backend = cl
		}
	})
	ok := false
	if backend != nil {
		allInstrs(fm, func(ins ssa.Instruction) {
			cl, isC := ins.(*ssa.Call)
			if !isC || !isMethodCall(cl.Common(), dig, "GetProto") {
				return
			}
			X, _, isElem := rangeElemOf(cl.Call.Args[0])
			if !isElem {
				return
			}
			if ic, isIC := X.(*ssa.Call); isIC && ic.Call.StaticCallee() != nil && ic.Call.StaticCallee().Name() == "Items" {
				if ex, isEx := ic.Call.Args[0].(*ssa.Extract); isEx && ex.Tuple == ssa.Value(backend) {
					ok = true
				}
			}
		})
	}
	c.Check(ok, FuncName(fm), "forwards-answer", c.Pos(fm.Pos()), "the response lists exactly the digests the backend reported missing", "FindMissingBlobs does not forward exactly the items of the backend's answer")
	// the set asked about contains every request digest
	okAll := false
	if backend != nil {
		deepSlice(fm, backend.Call.Args[1], func(x ssa.Value) bool {
			return true
		})
		allInstrs(fm, func(ins ssa.Instruction) {
			cl, isC := ins.(*ssa.Call)
			if !isC || cl.Call.StaticCallee() == nil || cl.Call.StaticCallee().Name() != "Add" {
				return
			}
			if ex, isEx := cl.Call.Args[1].(*ssa.Extract); isEx {
				if nd, ok := ex.Tuple.(*ssa.Call); ok && nd.Call.StaticCallee() != nil && nd.Call.StaticCallee().Name() == "NewDigestFromProto" {
					if _, _, isElem := rangeElemOf(nd.Call.Args[1]); isElem {
						h := innermostLoopHeader(cl.Block())
						okAll = h != nil
						for _, p := range h.Preds {
							if h.Dominates(p) && !cl.Block().Dominates(p) && p != cl.Block() {
								okAll = false
							}
						}
					}
				}
			}
		})
	}
	c.Check(okAll, FuncName(fm), "asks-about-all", c.Pos(fm.Pos()), "every request digest is part of the set the backend is asked about", "some request digests are not part of the set the backend is asked about")
	// ByteStream Read honours ReadOffset on every data path
	rd := c.Method(serversRel, "byteStreamServer", "Read")
	if rd == nil {
		c.Broken("byteStreamServer.Read not found")
		return
	}
	bufT := c.LookupType(bufferRel, "Buffer")
	n := 0
	// Read and the helpers of the same type it hands the request to
	type scope struct {
		fn  *ssa.Function
		req ssa.Value
	}
	scopes := []scope{{rd, rd.Params[1]}}
	for i := 0; i < len(scopes) && i < 8; i++ {
		sc := scopes[i]
		allInstrs(sc.fn, func(ins ssa.Instruction) {
			cl, isC := ins.(*ssa.Call)
			if !isC {
				return
			}
			h := cl.Call.StaticCallee()
			if h == nil || h.Pkg != rd.Pkg || len(h.Blocks) == 0 || h.Signature.Recv() == nil || !types.Identical(h.Signature.Recv().Type(), rd.Signature.Recv().Type()) {
				return
			}
			for ai, a := range cl.Call.Args {
				if a == sc.req && ai < len(h.Params) {
					dup := false
					for _, o := range scopes {
						if o.fn == h {
							dup = true
						}
					}
					if !dup {
						scopes = append(scopes, scope{h, h.Params[ai]})
					}
				}
			}
		})
	}
	for _, sc := range scopes {
		sc := sc
		allInstrs(sc.fn, func(ins ssa.Instruction) {
			cl, isC := ins.(*ssa.Call)
			if !isC || !cl.Call.IsInvoke() || !types.Identical(cl.Call.Value.Type(), bufT) {
				return
			}
			switch cl.Call.Method.Name() {
			case "Discard", "GetSizeBytes":
				return
			}
			n++
			honours := false
			for _, a := range cl.Call.Args {
				if lf, base := loadedField(a); lf != nil && lf.Name() == "ReadOffset" && base == sc.req {
					honours = true
				}
			}
			c.Check(honours, FuncName(sc.fn), "read-offset", c.Pos(cl.Pos()), "object data is streamed starting at the requested read_offset", "object data is streamed through "+cl.Call.Method.Name()+"() without regard to the requested read_offset: a read at offset k would return bytes from the start of the object")
		})
	}
	if n == 0 {
		c.Fail(FuncName(rd), "read-offset", c.Pos(rd.Pos()), "Read does not consume the object")
	}
}
