package main

import (
	"fmt"
	"go/token"
	"go/types"

	"golang.org/x/tools/go/ssa"
)

// ---------------------------------------------------------------------------
// bounds: a small difference-bound analysis that proves slice index and
// re-slice operations in range.  Integers are normalised to  atom + k  where
// an atom is the constant zero, an SSA integer value or len(slice value);
// branch conditions that dominate a use (or hold on a phi edge) contribute
// constraints  a - b <= k ; re-slices with constant bounds contribute exact
// length equations; loop-carried integers are handled by induction over the
// phi's incoming edges.  Parameters of unexported functions get the minimum
// length proven at all their (static) call sites.
//
// The analysis never executes anything and never guesses: an operation it
// cannot prove is reported as "unproven", which the rule treats as a
// violation only for the functions whose operations were all proven on the
// reference tree.

type bAtom struct {
	zero  bool
	v     ssa.Value // integer value …
	lenOf ssa.Value // … or len(lenOf)
}

func (a bAtom) String() string {
	switch {
	case a.zero:
		return "0"
	case a.lenOf != nil:
		return "len(" + a.lenOf.Name() + ")"
	}
	return a.v.Name()
}

type bLin struct {
	a bAtom
	k int64
}

type bCons struct { // x - y <= k
	x, y bAtom
	k    int64
}

type boundsProver struct {
	c       *Ctx
	pkgFns  []*ssa.Function
	paramLB map[*ssa.Parameter]int64
	inParam map[*ssa.Parameter]bool
	lbMemo  map[ssa.Value]int64
	lbBusy  map[ssa.Value]bool
	reps    []ssa.Value
	written map[*ssa.Function]map[*types.Var]bool
}

// canon maps a load of a struct field to one representative per address
// expression (go/ssa does no CSE: every `x.f` is a separate value), provided
// the enclosing function never stores to that field – otherwise two loads may
// see different values and are kept apart.
func (bp *boundsProver) canon(v ssa.Value) ssa.Value {
	u, ok := v.(*ssa.UnOp)
	if !ok || u.Op != token.MUL {
		return v
	}
	fa, ok := u.X.(*ssa.FieldAddr)
	if !ok || u.Parent() == nil {
		return v
	}
	fn := u.Parent()
	if bp.written == nil {
		bp.written = map[*ssa.Function]map[*types.Var]bool{}
	}
	w, ok := bp.written[fn]
	if !ok {
		w = map[*types.Var]bool{}
		allInstrs(fn, func(ins ssa.Instruction) {
			if st, ok := ins.(*ssa.Store); ok {
				if f := fieldOf(st.Addr); f != nil {
					w[f] = true
				}
			}
		})
		bp.written[fn] = w
	}
	if w[fieldOf(fa)] {
		return v
	}
	for _, r := range bp.reps {
		if r.Parent() == fn && sameSource(r, v) {
			return r
		}
	}
	bp.reps = append(bp.reps, v)
	return v
}

func newBoundsProver(c *Ctx, rel string) *boundsProver {
	var fns []*ssa.Function
	for _, f := range c.pkgFuncs(rel) {
		withAnon(f, func(g *ssa.Function) { fns = append(fns, g) })
	}
	return &boundsProver{c: c, pkgFns: fns, paramLB: map[*ssa.Parameter]int64{}, inParam: map[*ssa.Parameter]bool{}, lbMemo: map[ssa.Value]int64{}, lbBusy: map[ssa.Value]bool{}}
}

func canonSlice(v ssa.Value) ssa.Value {
	for {
		switch x := v.(type) {
		case *ssa.ChangeType:
			v = x.X
			continue
		}
		return v
	}
}

func (bp *boundsProver) norm(v ssa.Value) bLin {
	switch x := v.(type) {
	case *ssa.Const:
		if k, ok := constInt(x); ok {
			return bLin{bAtom{zero: true}, k}
		}
	case *ssa.BinOp:
		if x.Op == token.ADD {
			if k, ok := constInt(x.Y); ok {
				l := bp.norm(x.X)
				return bLin{l.a, l.k + k}
			}
			if k, ok := constInt(x.X); ok {
				l := bp.norm(x.Y)
				return bLin{l.a, l.k + k}
			}
		}
		if x.Op == token.SUB {
			if k, ok := constInt(x.Y); ok {
				l := bp.norm(x.X)
				return bLin{l.a, l.k - k}
			}
		}
	case *ssa.Call:
		if bi, ok := x.Call.Value.(*ssa.Builtin); ok && bi.Name() == "len" {
			return bLin{bAtom{lenOf: bp.canon(canonSlice(x.Call.Args[0]))}, 0}
		}
	case *ssa.Convert:
		if bt, ok := x.X.Type().Underlying().(*types.Basic); ok && bt.Info()&types.IsInteger != 0 {
			if bt2, ok := x.Type().Underlying().(*types.Basic); ok && bt2.Info()&types.IsInteger != 0 {
				return bp.norm(x.X)
			}
		}
	}
	return bLin{bAtom{v: bp.canon(v)}, 0}
}

func isIntVal(v ssa.Value) bool {
	bt, ok := v.Type().Underlying().(*types.Basic)
	return ok && bt.Info()&types.IsInteger != 0
}

// consOf turns (cond == val) into difference constraints.
func (bp *boundsProver) consOf(cond ssa.Value, val bool) []bCons {
	op, x, y, ok := normCmp(cond, val)
	if !ok || !isIntVal(x) {
		return nil
	}
	lx, ly := bp.norm(x), bp.norm(y)
	// lx.a + lx.k  op  ly.a + ly.k
	le := func(a, b bLin, extra int64) bCons { // a <= b + extra  ->  a.a - b.a <= b.k - a.k + extra
		return bCons{a.a, b.a, b.k - a.k + extra}
	}
	switch op {
	case token.LSS:
		return []bCons{le(lx, ly, -1)}
	case token.LEQ:
		return []bCons{le(lx, ly, 0)}
	case token.GTR:
		return []bCons{le(ly, lx, -1)}
	case token.GEQ:
		return []bCons{le(ly, lx, 0)}
	case token.EQL:
		return []bCons{le(lx, ly, 0), le(ly, lx, 0)}
	}
	return nil
}

// staticLB: a lower bound of len(v) that holds wherever v is defined.
func (bp *boundsProver) staticLB(v ssa.Value) int64 {
	v = canonSlice(v)
	if lb, ok := bp.lbMemo[v]; ok {
		return lb
	}
	if bp.lbBusy[v] {
		return 1 << 30 // neutral element of min for cycles (loop-carried re-slices are bounded by their other edges)
	}
	bp.lbBusy[v] = true
	defer delete(bp.lbBusy, v)
	var lb int64
	switch x := v.(type) {
	case *ssa.Slice:
		lb = bp.sliceLB(x)
	case *ssa.Phi:
		lb = 1 << 30
		for i, e := range x.Edges {
			l := bp.staticLB(e)
			// facts on that edge may give more (len(e) >= k tested before the jump)
			for _, cs := range bp.factsOnEdge(x.Block().Preds[i], x.Block()) {
				if cs.x.zero && cs.y.lenOf == canonSlice(e) && -cs.k > l {
					l = -cs.k
				}
			}
			if l < lb {
				lb = l
			}
		}
		if lb == 1<<30 {
			lb = 0
		}
	case *ssa.Parameter:
		lb = bp.paramLowerBound(x)
	case *ssa.Extract:
		lb = bp.resultLowerBound(x)
	case *ssa.MakeSlice:
		if k, ok := constInt(x.Len); ok {
			lb = k
		}
	}
	if lb < 0 {
		lb = 0
	}
	bp.lbMemo[v] = lb
	return lb
}

// sliceLB: lower bound of len(x[lo:hi]).
func (bp *boundsProver) sliceLB(s *ssa.Slice) int64 {
	if _, ok := s.X.Type().Underlying().(*types.Pointer); ok {
		// slicing an array: length known when bounds are constant
		return 0
	}
	lo := bLin{bAtom{zero: true}, 0}
	if s.Low != nil {
		lo = bp.norm(s.Low)
	}
	var hi bLin
	if s.High != nil {
		hi = bp.norm(s.High)
	} else {
		hi = bLin{bAtom{lenOf: canonSlice(s.X)}, 0}
	}
	// len = hi - lo >= c  <=>  lo - hi <= -c
	best := int64(0)
	for c := int64(1); c <= 16; c++ {
		if bp.prove(lo.a, hi.a, -c-lo.k+hi.k, bp.factsAt(s.Block()), map[string]int64{}) {
			best = c
		} else {
			break
		}
	}
	return best
}

func (bp *boundsProver) paramLowerBound(p *ssa.Parameter) int64 {
	if lb, ok := bp.paramLB[p]; ok {
		return lb
	}
	if bp.inParam[p] {
		return 1 << 30
	}
	bp.inParam[p] = true
	defer delete(bp.inParam, p)
	fn := p.Parent()
	lb := int64(0)
	if fn != nil && fn.Object() != nil && !fn.Object().Exported() && fn.Signature.Recv() == nil {
		idx := -1
		for i, q := range fn.Params {
			if q == p {
				idx = i
			}
		}
		lb = 1 << 30
		sites := 0
		addrTaken := false
		for _, g := range bp.pkgFns {
			allInstrs(g, func(ins ssa.Instruction) {
				if cc := callOf(ins); cc != nil && cc.StaticCallee() == fn {
					sites++
					l := bp.staticLB(cc.Args[idx])
					// facts at the call site
					for _, cs := range bp.factsAt(ins.Block()) {
						if cs.x.zero && cs.y.lenOf == canonSlice(cc.Args[idx]) && -cs.k > l {
							l = -cs.k
						}
					}
					if l < lb {
						lb = l
					}
					return
				}
				// the function used as a value: unknown callers
				for _, op := range ins.Operands(nil) {
					if *op == ssa.Value(fn) {
						if cc := callOf(ins); cc == nil || cc.Value != ssa.Value(fn) {
							addrTaken = true
						}
					}
				}
			})
		}
		if sites == 0 || addrTaken || lb == 1<<30 {
			lb = 0
		}
	}
	bp.paramLB[p] = lb
	return lb
}

// resultLowerBound: v is a slice result of a call of a function of the package that also
// returns an error, and v is only used where that error was found nil: the smallest length the
// function returns together with a nil error (its parameters bounded by what its call sites prove).
func (bp *boundsProver) resultLowerBound(v *ssa.Extract) int64 {
	cl, ok := v.Tuple.(*ssa.Call)
	if !ok {
		return 0
	}
	h := cl.Call.StaticCallee()
	if h == nil || len(h.Blocks) == 0 {
		return 0
	}
	inPkg := false
	for _, g := range bp.pkgFns {
		if g == h {
			inPkg = true
		}
	}
	res := h.Signature.Results()
	if !inPkg || res.Len() < 2 || !isErrorType(res.At(res.Len()-1).Type()) {
		return 0
	}
	// every use of v sits behind the nil test of the call's error
	if refs := v.Referrers(); refs != nil {
		for _, r := range *refs {
			if _, isDbg := r.(*ssa.DebugRef); isDbg {
				continue
			}
			if !dominatedByErrNil(r.Block(), cl) {
				return 0
			}
		}
	}
	lb := int64(1 << 30)
	for _, r := range returnsOf(h) {
		if len(r.Results) != res.Len() {
			return 0
		}
		if e := returnedValue(r, res.Len()-1); !isNilConst(e) {
			if _, isCall := e.(*ssa.Call); isCall {
				continue // an error is being constructed: not a success return
			}
			return 0
		}
		l := bp.staticLB(returnedValue(r, v.Index))
		// facts on the way to the return
		for _, cs := range bp.factsAt(r.Block()) {
			if cs.x.zero && cs.y.lenOf == canonSlice(returnedValue(r, v.Index)) && -cs.k > l {
				l = -cs.k
			}
		}
		if l < lb {
			lb = l
		}
	}
	if lb == 1<<30 {
		return 0
	}
	return lb
}

func (bp *boundsProver) factsAt(b *ssa.BasicBlock) []bCons {
	var out []bCons
	edgeFacts(b, func(cond ssa.Value, val bool) bool {
		out = append(out, bp.consOf(cond, val)...)
		return true
	})
	return out
}

func (bp *boundsProver) factsOnEdge(p, s *ssa.BasicBlock) []bCons {
	var out []bCons
	edgeFactsOn(p, s, func(cond ssa.Value, val bool) bool {
		out = append(out, bp.consOf(cond, val)...)
		return true
	})
	return out
}

// prove  x - y <= k  under facts (plus definitional knowledge), by closing the
// constraint graph; integer phis on either side are unfolded inductively.
func (bp *boundsProver) prove(x, y bAtom, k int64, facts []bCons, hyp map[string]int64) bool {
	if x == y {
		return 0 <= k
	}
	cons := append([]bCons{}, facts...)
	// definitional knowledge about every len atom mentioned
	atoms := map[bAtom]bool{x: true, y: true}
	for _, c := range facts {
		atoms[c.x], atoms[c.y] = true, true
	}
	zero := bAtom{zero: true}
	for changed := true; changed; {
		changed = false
		for a := range atoms {
			if a.lenOf == nil {
				continue
			}
			// len >= static lower bound
			cons = append(cons, bCons{zero, a, -bp.staticLB(a.lenOf)})
			if s, ok := a.lenOf.(*ssa.Slice); ok {
				if _, isArr := s.X.Type().Underlying().(*types.Pointer); !isArr {
					base := bAtom{lenOf: canonSlice(s.X)}
					lo := bLin{zero, 0}
					if s.Low != nil {
						lo = bp.norm(s.Low)
					}
					if s.High == nil && lo.a.zero {
						// len(s) = len(base) - lo.k
						cons = append(cons, bCons{a, base, -lo.k}, bCons{base, a, lo.k})
						if !atoms[base] {
							atoms[base] = true
							changed = true
						}
					} else if s.High != nil {
						hi := bp.norm(s.High)
						if lo.a.zero {
							// len(s) = hi - lo.k
							cons = append(cons, bCons{a, hi.a, hi.k - lo.k}, bCons{hi.a, a, lo.k - hi.k})
							if !atoms[hi.a] {
								atoms[hi.a] = true
								changed = true
							}
						}
					}
				}
			}
		}
	}
	// Bellman-Ford style closure over the few atoms involved
	idx := map[bAtom]int{}
	var list []bAtom
	add := func(a bAtom) {
		if _, ok := idx[a]; !ok {
			idx[a] = len(list)
			list = append(list, a)
		}
	}
	add(x)
	add(y)
	add(zero)
	for _, c := range cons {
		add(c.x)
		add(c.y)
	}
	const inf = int64(1) << 40
	n := len(list)
	d := make([][]int64, n)
	for i := range d {
		d[i] = make([]int64, n)
		for j := range d[i] {
			if i != j {
				d[i][j] = inf
			}
		}
	}
	for _, c := range cons { // x - y <= k : edge y -> x weight k ; d[x][y] = bound on x - y
		i, j := idx[c.x], idx[c.y]
		if c.k < d[i][j] {
			d[i][j] = c.k
		}
	}
	for m := 0; m < n; m++ {
		for i := 0; i < n; i++ {
			for j := 0; j < n; j++ {
				if d[i][m] < inf && d[m][j] < inf && d[i][m]+d[m][j] < d[i][j] {
					d[i][j] = d[i][m] + d[m][j]
				}
			}
		}
	}
	if d[idx[x]][idx[y]] <= k {
		return true
	}
	// induction over integer phis
	ak := func(a bAtom) string { return fmt.Sprintf("%v/%p/%p", a.zero, a.v, a.lenOf) }
	key := ak(x) + "-" + ak(y)
	if hk, ok := hyp[key]; ok {
		// induction hypothesis x - y <= hk (holds on the previous iteration)
		return hk <= k
	}
	if len(hyp) > 6 {
		return false
	}
	unfold := func(phi *ssa.Phi, left bool) bool {
		hyp[key] = k
		defer delete(hyp, key)
		for i, e := range phi.Edges {
			l := bp.norm(e)
			ef := bp.factsOnEdge(phi.Block().Preds[i], phi.Block())
			var ok bool
			if left { // (l.a + l.k) - y <= k
				ok = bp.prove(l.a, y, k-l.k, ef, hyp)
			} else { // x - (l.a + l.k) <= k
				ok = bp.prove(x, l.a, k+l.k, ef, hyp)
			}
			if !ok {
				return false
			}
		}
		return true
	}
	if x.v != nil {
		if phi, ok := x.v.(*ssa.Phi); ok && isIntVal(phi) {
			if unfold(phi, true) {
				return true
			}
		}
	}
	if y.v != nil {
		if phi, ok := y.v.(*ssa.Phi); ok && isIntVal(phi) {
			if unfold(phi, false) {
				return true
			}
		}
	}
	return false
}

type boundsOp struct {
	ins    ssa.Instruction
	what   string
	proven bool
	why    string
}

// checkFunc proves every slice IndexAddr and every Slice of a slice in fn.
func (bp *boundsProver) checkFunc(fn *ssa.Function) []boundsOp {
	var out []boundsOp
	zero := bAtom{zero: true}
	allInstrs(fn, func(ins ssa.Instruction) {
		switch x := ins.(type) {
		case *ssa.IndexAddr:
			if _, ok := x.X.Type().Underlying().(*types.Slice); !ok {
				return
			}
			facts := bp.factsAt(x.Block())
			i := bp.norm(x.Index)
			ln := bAtom{lenOf: canonSlice(x.X)}
			up := bp.prove(i.a, ln, -1-i.k, facts, map[string]int64{})
			lo := bp.prove(zero, i.a, i.k, facts, map[string]int64{})
			op := boundsOp{ins: ins, what: "index", proven: up && lo}
			if !up {
				op.why = "index < len is not implied by the checks that dominate the access"
			} else if !lo {
				op.why = "index >= 0 is not implied"
			}
			out = append(out, op)
		case *ssa.Slice:
			if _, ok := x.X.Type().Underlying().(*types.Slice); !ok {
				return
			}
			facts := bp.factsAt(x.Block())
			ln := bAtom{lenOf: canonSlice(x.X)}
			ok := true
			why := ""
			lo := bLin{zero, 0}
			if x.Low != nil {
				lo = bp.norm(x.Low)
				if !bp.prove(zero, lo.a, lo.k, facts, map[string]int64{}) {
					ok, why = false, "low bound >= 0 is not implied"
				}
			}
			if x.High != nil {
				hi := bp.norm(x.High)
				if !bp.prove(hi.a, ln, -hi.k, facts, map[string]int64{}) {
					ok, why = false, "high bound <= len is not implied by the checks that dominate the expression"
				}
				if !bp.prove(lo.a, hi.a, hi.k-lo.k, facts, map[string]int64{}) {
					ok, why = false, "low <= high is not implied"
				}
			} else if !bp.prove(lo.a, ln, -lo.k, facts, map[string]int64{}) {
				ok, why = false, "low bound <= len is not implied by the checks that dominate the expression"
			}
			out = append(out, boundsOp{ins: ins, what: "slice", proven: ok, why: why})
		}
	})
	return out
}
