package main

import (
	"fmt"
	"go/token"
	"go/types"
	"sort"
	"strings"

	"golang.org/x/tools/go/ssa"
)

const ccRel = "pkg/blobstore/completenesschecking"
const rePkg = "github.com/bazelbuild/remote-apis/build/bazel/remote/execution/v2"

func init() {
	register(&Rule{
		ID: "R13.1", Props: []string{"C13"}, Engine: "table (type-driven exhaustiveness) + guard",
		Text:  "exhaustive digest enumeration: every field of type *Digest reachable from remoteexecution.ActionResult and remoteexecution.Directory through message and repeated-message fields (enumerated from the generated Go types on every run) is loaded in checkCompleteness and handed to findMissingQueue.add; these calls, the read of each output directory's Tree and its traversal are conditional on nothing but: success of earlier steps, loop bounds, the Tree root/children field numbers (which equal the field numbers of Tree.root and Tree.children), the size budget, and – for DirectoryNode.Digest only – RootDirectoryDigest != nil",
		Floor: 9, MustExist: true, Run: runR131,
	})
	register(&Rule{
		ID: "R13.2", Props: []string{"C13"}, Engine: "guard + flow",
		Text:  "the ActionResult is returned only when complete: the only return of completenessCheckingBlobAccess.Get that carries the backend's buffer is dominated by the nil edges of ToProto and of checkCompleteness applied to that very message; every other return is NewBufferFromError of the respective error",
		Floor: 1, MustExist: true, Run: runR132,
	})
	register(&Rule{
		ID: "R13.3", Props: []string{"C13"}, Engine: "order + guard",
		Text:  "the queue is always flushed and a non-empty answer is NOT_FOUND: every success exit of checkCompleteness is the result of findMissingQueue.finalize(); add() replaces the pending builder only after a successful finalize(); finalize() returns nil only when the CAS reported nothing missing; malformed digests become NOT_FOUND",
		Floor: 4, MustExist: true, Run: runR133,
	})
	register(&Rule{
		ID: "R13.4", Props: []string{"C13"}, Engine: "guard",
		Text:  "unreadable or corrupted Trees are errors: util.VisitProtoBytesFields reports a clean end of message only when the reader's error is io.EOF (with nothing buffered); every other reader or visitor error is returned; checkCompleteness returns the traversal's error (after draining the Tree to prefer read errors)",
		Floor: 2, MustExist: true, Run: runR134,
	})
}

type digestField struct{ owner, field string }

func enumerateDigestFields(c *Ctx, roots ...string) ([]digestField, *types.Named) {
	pkg := c.ByPath[rePkg]
	if pkg == nil {
		return nil, nil
	}
	dobj := pkg.Types.Scope().Lookup("Digest")
	if dobj == nil {
		return nil, nil
	}
	digestT := dobj.Type().(*types.Named)
	var out []digestField
	seen := map[string]bool{}
	var walk func(n *types.Named)
	walk = func(n *types.Named) {
		if seen[n.Obj().Name()] {
			return
		}
		seen[n.Obj().Name()] = true
		st, ok := n.Underlying().(*types.Struct)
		if !ok {
			return
		}
		for i := 0; i < st.NumFields(); i++ {
			f := st.Field(i)
			if !f.Exported() {
				continue
			}
			t := f.Type()
			if sl, ok := t.(*types.Slice); ok {
				t = sl.Elem()
			}
			pt, ok := t.(*types.Pointer)
			if !ok {
				continue
			}
			nt, ok := pt.Elem().(*types.Named)
			if !ok || nt.Obj().Pkg() == nil || nt.Obj().Pkg().Path() != rePkg {
				continue
			}
			if nt.Obj() == digestT.Obj() {
				out = append(out, digestField{n.Obj().Name(), f.Name()})
				continue
			}
			walk(nt)
		}
	}
	for _, r := range roots {
		if o := pkg.Types.Scope().Lookup(r); o != nil {
			walk(o.Type().(*types.Named))
		}
	}
	sort.Slice(out, func(i, j int) bool { return out[i].owner+out[i].field < out[j].owner+out[j].field })
	return out, digestT
}

// protoFieldNumber reads the field number from the generated struct tag.
func protoFieldNumber(c *Ctx, typ, field string) int64 {
	pkg := c.ByPath[rePkg]
	if pkg == nil {
		return -1
	}
	o := pkg.Types.Scope().Lookup(typ)
	if o == nil {
		return -1
	}
	st, ok := o.Type().Underlying().(*types.Struct)
	if !ok {
		return -1
	}
	for i := 0; i < st.NumFields(); i++ {
		if st.Field(i).Name() == field {
			tag := st.Tag(i)
			// protobuf:"bytes,1,opt,name=root,proto3"
			if k := strings.Index(tag, `protobuf:"`); k >= 0 {
				parts := strings.Split(tag[k+10:], ",")
				if len(parts) > 1 {
					var n int64
					fmt.Sscanf(parts[1], "%d", &n)
					return n
				}
			}
		}
	}
	return -1
}

func runR131(c *Ctx) {
	fn := c.Method(ccRel, "completenessCheckingBlobAccess", "checkCompleteness")
	add := c.Method(ccRel, "findMissingQueue", "add")
	if fn == nil || add == nil {
		c.Broken("checkCompleteness / findMissingQueue.add not found")
		return
	}
	name := FuncName(fn)
	fields, _ := enumerateDigestFields(c, "ActionResult", "Directory")
	if len(fields) < 7 {
		c.Fail(name, "enumeration", c.Pos(fn.Pos()), fmt.Sprintf("only %d digest fields were found in the generated types (expected at least 7): the type-driven enumeration is broken", len(fields)))
		return
	}
	// collect add calls by the field they load
	// a site is an instruction in checkCompleteness, in one of its closures, or
	// in a helper of the package that it (transitively) calls; chain holds the
	// calls that lead into the helper, whose conditions count as well
	type site struct {
		g     *ssa.Function
		ins   *ssa.Call
		chain []*ssa.Call
	}
	found := map[digestField][]site{}
	var treeSteps []site
	var scopeFns []*ssa.Function
	visited := map[*ssa.Function]bool{}
	var visit func(top *ssa.Function, chain []*ssa.Call, depth int)
	visit = func(top *ssa.Function, chain []*ssa.Call, depth int) {
		if visited[top] || depth > 3 {
			return
		}
		visited[top] = true
		withAnon(top, func(g *ssa.Function) {
			scopeFns = append(scopeFns, g)
			allInstrs(g, func(ins ssa.Instruction) {
				cl, ok := ins.(*ssa.Call)
				if !ok {
					return
				}
				if cl.Call.StaticCallee() == add {
					f, base := loadedField(cl.Call.Args[1])
					if f != nil {
						if pt, ok := base.Type().Underlying().(*types.Pointer); ok {
							if nt, ok := pt.Elem().(*types.Named); ok {
								k := digestField{nt.Obj().Name(), f.Name()}
								found[k] = append(found[k], site{g, cl, chain})
							}
						}
					}
					return
				}
				if isPkgFuncCall(cl.Common(), modPath+"/pkg/util", "VisitProtoBytesFields") {
					treeSteps = append(treeSteps, site{g, cl, chain})
				}
				if cl.Call.IsInvoke() && cl.Call.Method.Name() == "Get" {
					if f, _ := loadedField(cl.Call.Value); f != nil && f.Name() == "contentAddressableStorage" {
						treeSteps = append(treeSteps, site{g, cl, chain})
					}
				}
				// helpers of this package (not the queue's own methods)
				if h := cl.Call.StaticCallee(); h != nil && len(h.Blocks) > 0 && h.Pkg == fn.Pkg && h.Parent() == nil {
					if h.Signature.Recv() != nil {
						if o, ok := h.Object().(*types.Func); ok {
							if rn := recvNamed(o); rn == nil || rn.Obj().Name() == "findMissingQueue" {
								return
							}
						}
					}
					visit(h, append(append([]*ssa.Call{}, chain...), cl), depth+1)
				}
			})
		})
	}
	visit(fn, nil, 0)
	allowedEdge := func(g *ssa.Function, cond ssa.Value, val bool, k digestField, isTreeStep bool) (bool, string) {
		c0, v := cond, val
		for {
			if u, ok := c0.(*ssa.UnOp); ok && u.Op == token.NOT {
				c0, v = u.X, !v
				continue
			}
			break
		}
		if x, nilWhenTrue, ok := nilTest(c0); ok {
			if isErrorType(x.Type()) {
				if nilWhenTrue == v {
					return true, ""
				}
				return false, "a failure edge"
			}
			if f, _ := loadedField(x); f != nil && f.Name() == "RootDirectoryDigest" {
				if k.owner == "DirectoryNode" && nilWhenTrue != v {
					return true, ""
				}
				return false, "RootDirectoryDigest being set"
			}
			return false, "a nil test of " + x.Name()
		}
		bo, ok := c0.(*ssa.BinOp)
		if !ok {
			return false, "condition " + cond.String()
		}
		// loop bound
		if bo.Op == token.LSS {
			if cl, ok := bo.Y.(*ssa.Call); ok {
				if bi, ok := cl.Call.Value.(*ssa.Builtin); ok && bi.Name() == "len" {
					return true, "" // loop bound (either polarity: inside or after the loop)
				}
			}
		}
		// field number
		isNumber := func(x ssa.Value) bool {
			return strings.HasSuffix(x.Type().String(), "protowire.Number")
		}
		if bo.Op == token.EQL && (isNumber(bo.X) || isNumber(bo.Y)) {
			// `number == Root || number == Children` lowers to two edges, so no single
			// equality dominates the body; an equality that *does* dominate a digest's
			// existence check restricts it to one of the two fields
			if v && k.owner != "" {
				return false, "the Tree field being one particular field (root only, or children only)"
			}
			return true, ""
		}
		// size budget (tree read only): an ordering comparison between two int64 sizes, either spelling
		if isTreeStep {
			switch bo.Op {
			case token.GTR, token.LSS, token.GEQ, token.LEQ:
				if bo.X.Type().Underlying().String() == "int64" && bo.Y.Type().Underlying().String() == "int64" {
					return true, ""
				}
			}
		}
		return false, "a comparison (" + bo.Op.String() + ") at " + c.Pos(bo.Pos())
	}
	checkSite := func(s site, k digestField, isTreeStep bool, what string) {
		bad := ""
		blocks := []*ssa.BasicBlock{s.ins.Block()}
		for _, hc := range s.chain {
			blocks = append(blocks, hc.Block())
		}
		for _, blk := range blocks {
			edgeFacts(blk, func(cond ssa.Value, val bool) bool {
				ok, why := allowedEdge(blk.Parent(), cond, val, k, isTreeStep)
				if !ok {
					bad = why
					return false
				}
				return true
			})
		}
		// inside its innermost loop it must be on every iteration's path
		if bad == "" {
			if h := innermostLoopHeader(s.ins.Block()); h != nil {
				for _, p := range h.Preds {
					if h.Dominates(p) && !s.ins.Block().Dominates(p) && p != s.ins.Block() {
						// p is a latch not passing through the site: allowed only if p is reached via a return-free error path… any such latch skips the site
						bad = "an iteration can skip it (continue)"
					}
				}
			}
		}
		c.Check(bad == "", FuncName(s.g), what, c.Pos(s.ins.Pos()), "unconditional for every element", what+" depends on "+bad+": some referenced objects would not be checked for existence")
	}
	for _, k := range fields {
		sites := found[k]
		if len(sites) == 0 {
			c.Fail(name, "add "+k.owner+"."+k.field, c.Pos(fn.Pos()), "digest field "+k.owner+"."+k.field+" (reachable from ActionResult/Directory in the generated types) is never fed to the existence check")
			continue
		}
		for _, s := range sites {
			checkSite(s, k, false, "add "+k.owner+"."+k.field)
		}
	}
	if len(treeSteps) < 2 {
		c.Fail(name, "tree-read", c.Pos(fn.Pos()), "the Tree objects of output directories are not read and traversed")
	}
	for _, s := range treeSteps {
		checkSite(s, digestField{}, true, "tree-read")
	}
	// field number constants
	okNum := false
	if bp := c.Pkg(blobstoreRel); bp != nil {
		r, ch := bp.Types.Scope().Lookup("TreeRootFieldNumber"), bp.Types.Scope().Lookup("TreeChildrenFieldNumber")
		if r != nil && ch != nil {
			rv, _ := constantInt64(r.(*types.Const))
			cv, _ := constantInt64(ch.(*types.Const))
			okNum = rv == protoFieldNumber(c, "Tree", "Root") && cv == protoFieldNumber(c, "Tree", "Children") && rv > 0 && cv > 0
		}
	}
	c.Check(okNum, name, "tree-field-numbers", c.Pos(fn.Pos()), "TreeRootFieldNumber/TreeChildrenFieldNumber equal the field numbers of Tree.root / Tree.children", "TreeRootFieldNumber / TreeChildrenFieldNumber do not match the generated Tree message: directories inside Trees would be skipped")
	// both constants are tested in the visitor
	tested := map[int64]bool{}
	for _, g := range scopeFns {
		allInstrs(g, func(ins ssa.Instruction) {
			if bo, ok := ins.(*ssa.BinOp); ok && (bo.Op == token.EQL || bo.Op == token.NEQ) {
				if k, ok := constInt(bo.Y); ok && strings.HasSuffix(bo.X.Type().String(), "protowire.Number") {
					tested[k] = true
				}
				if k, ok := constInt(bo.X); ok && strings.HasSuffix(bo.Y.Type().String(), "protowire.Number") {
					tested[k] = true
				}
			}
		})
	}
	c.Check(tested[protoFieldNumber(c, "Tree", "Root")] && tested[protoFieldNumber(c, "Tree", "Children")], name, "tree-fields-visited", c.Pos(fn.Pos()), "both the root and the children of a Tree are traversed", "the Tree traversal does not visit both Tree.root and Tree.children")
}

func innermostLoopHeader(b *ssa.BasicBlock) *ssa.BasicBlock {
	// headers that dominate b and have a back edge from a block reachable from b
	var best *ssa.BasicBlock
	for h := b; h != nil; h = h.Idom() {
		isHeader := false
		for _, p := range h.Preds {
			if h.Dominates(p) && (p == b || blockReaches(b, p, h) || b == h) {
				isHeader = true
			}
		}
		if isHeader {
			best = h
			break
		}
	}
	return best
}

func runR132(c *Ctx) {
	fn := c.Method(ccRel, "completenessCheckingBlobAccess", "Get")
	cc := c.Method(ccRel, "completenessCheckingBlobAccess", "checkCompleteness")
	if fn == nil || cc == nil {
		c.Broken("completenessCheckingBlobAccess.Get not found")
		return
	}
	name := FuncName(fn)
	var toProto, check *ssa.Call
	allInstrs(fn, func(ins ssa.Instruction) {
		cl, ok := ins.(*ssa.Call)
		if !ok {
			return
		}
		if cl.Call.IsInvoke() && cl.Call.Method.Name() == "ToProto" {
			toProto = cl
		}
		if cl.Call.StaticCallee() == cc {
			check = cl
		}
	})
	n := 0
	for _, r := range returnsOf(fn) {
		v := r.Results[0]
		if cl, ok := v.(*ssa.Call); ok && isPkgFuncCall(cl.Common(), modPath+"/"+bufferRel, "NewBufferFromError") {
			continue
		}
		n++
		ok := toProto != nil && check != nil && dominatedByErrNil(r.Block(), toProto) && dominatedByErrNil(r.Block(), check)
		// the message checked is the one decoded
		if ok {
			ok = false
			deepSlice(fn, check.Call.Args[3], func(x ssa.Value) bool {
				if ex, isEx := x.(*ssa.Extract); isEx && ex.Tuple == ssa.Value(toProto) {
					ok = true
					return false
				}
				return true
			})
		}
		c.Check(ok, name, "result-return", c.Pos(r.Pos()), "the stored result is returned only after it was decoded and found complete", "the ActionResult can be returned although decoding or the completeness check failed (or a different message was checked)")
	}
	if n == 0 {
		c.Fail(name, "result-return", c.Pos(fn.Pos()), "Get never returns the stored result")
	}
}

func runR133(c *Ctx) {
	fn := c.Method(ccRel, "completenessCheckingBlobAccess", "checkCompleteness")
	add := c.Method(ccRel, "findMissingQueue", "add")
	fin := c.Method(ccRel, "findMissingQueue", "finalize")
	der := c.Method(ccRel, "findMissingQueue", "deriveDigest")
	if fn == nil || add == nil || fin == nil || der == nil {
		c.Broken("completeness checking helpers not found")
		return
	}
	for _, r := range successReturns(fn) {
		cl, ok := r.Results[0].(*ssa.Call)
		c.Check(ok && cl.Call.StaticCallee() == fin, FuncName(fn), "final-flush", c.Pos(r.Pos()), "the success exit is the result of finalize()", "checkCompleteness can succeed without flushing the last batch of digests to the CAS")
	}
	// add: pending replaced only after successful finalize
	q := c.LookupType(ccRel, "findMissingQueue")
	n := 0
	for _, fs := range fieldStoresIn([]*ssa.Function{add}, q, "pending") {
		n++
		ok := false
		allInstrs(add, func(ins ssa.Instruction) {
			if cl, isC := ins.(*ssa.Call); isC && cl.Call.StaticCallee() == fin && dominatedByErrNil(fs.st.Block(), cl) {
				ok = true
			}
		})
		c.Check(ok, FuncName(add), "flush-before-replace", c.Pos(fs.st.Pos()), "a full batch is checked before it is replaced", "a full batch of digests is thrown away without being checked against the CAS")
	}
	if n == 0 {
		c.PassTrivial(FuncName(add), "flush-before-replace", c.Pos(add.Pos()), "the pending builder is never replaced")
	}
	// the digest derived is the one added
	okAdd := false
	allInstrs(add, func(ins ssa.Instruction) {
		cl, ok := ins.(*ssa.Call)
		if !ok || cl.Call.StaticCallee() == nil || cl.Call.StaticCallee().Name() != "Add" {
			return
		}
		if ex, ok := cl.Call.Args[1].(*ssa.Extract); ok {
			if d, ok := ex.Tuple.(*ssa.Call); ok && d.Call.StaticCallee() == der && dominatedByErrNil(cl.Block(), d) {
				okAdd = true
			}
		}
	})
	c.Check(okAdd, FuncName(add), "adds-derived", c.Pos(add.Pos()), "every non-nil digest is derived and queued", "add() does not queue the digest it was given")
	// finalize: nil only when nothing is missing
	okFin := true
	nret := 0
	for _, r := range returnsOf(fin) {
		if !isNilConst(r.Results[0]) {
			continue
		}
		nret++
		guarded := false
		edgeFacts(r.Block(), func(cond ssa.Value, val bool) bool {
			if ex, ok := cond.(*ssa.Extract); ok && !val {
				if cl, ok := ex.Tuple.(*ssa.Call); ok && cl.Call.StaticCallee() != nil && cl.Call.StaticCallee().Name() == "First" {
					guarded = true
					return false
				}
			}
			return true
		})
		if !guarded {
			okFin = false
		}
	}
	c.Check(okFin && nret > 0, FuncName(fin), "missing-is-error", c.Pos(fin.Pos()), "nil only when the CAS reported nothing missing", "finalize() can return nil although the CAS reported objects missing")
	// NOT_FOUND for a missing object and for malformed digests
	codeOf := func(f *ssa.Function, callee string) int64 {
		k := int64(-1)
		allInstrs(f, func(ins ssa.Instruction) {
			if cl, ok := ins.(*ssa.Call); ok {
				o := calleeObjOf(cl.Common())
				if o != nil && o.Name() == callee {
					for _, a := range cl.Call.Args {
						if v, ok := constInt(stripConv(a)); ok && strings.HasSuffix(a.Type().String(), "codes.Code") {
							k = v
						}
					}
				}
			}
		})
		return k
	}
	c.Check(codeOf(fin, "Errorf") == 5, FuncName(fin), "not-found-code", c.Pos(fin.Pos()), "a missing object yields NOT_FOUND", "a missing object is not reported as NOT_FOUND")
	c.Check(codeOf(der, "StatusWrapWithCode") == 5, FuncName(der), "malformed-digest-code", c.Pos(der.Pos()), "a malformed digest yields NOT_FOUND", "a malformed digest in the ActionResult is not reported as NOT_FOUND")
}

func runR134(c *Ctx) {
	fn := c.Func("pkg/util", "VisitProtoBytesFields")
	if fn == nil {
		c.Broken("util.VisitProtoBytesFields not found")
		return
	}
	name := FuncName(fn)
	isEOF := func(v ssa.Value) bool {
		u, ok := v.(*ssa.UnOp)
		if !ok {
			return false
		}
		g, ok := u.X.(*ssa.Global)
		return ok && g.Name() == "EOF" && g.Pkg.Pkg.Path() == "io"
	}
	n := 0
	for _, r := range returnsOf(fn) {
		if !isNilConst(r.Results[0]) {
			continue
		}
		n++
		ok := dominatedByCmp(r.Block(), func(op token.Token, x, y ssa.Value) bool {
			return op == token.EQL && isErrorType(x.Type()) && isEOF(y)
		})
		c.Check(ok, name, "clean-end", c.Pos(r.Pos()), "a clean end of message is reported only when the reader returned io.EOF", "the traversal reports a clean end of message although the reader may have failed with an error other than io.EOF: a corrupted or unreadable Tree would be accepted as complete")
	}
	if n == 0 {
		c.Fail(name, "clean-end", c.Pos(fn.Pos()), "the traversal never terminates successfully")
	}
	// visitor's error is returned
	okV := false
	allInstrs(fn, func(ins ssa.Instruction) {
		cl, ok := ins.(*ssa.Call)
		if !ok || cl.Call.IsInvoke() || cl.Call.StaticCallee() != nil {
			return
		}
		if _, ok := cl.Call.Value.(*ssa.Parameter); !ok {
			return
		}
		for _, r := range returnsOf(fn) {
			deepSlice(fn, r.Results[0], func(x ssa.Value) bool {
				if x == ssa.Value(cl) {
					okV = true
					return false
				}
				return true
			})
		}
	})
	c.Check(okV, name, "visitor-error", c.Pos(fn.Pos()), "the visitor's error is returned", "an error returned by the visitor is dropped")
	// checkCompleteness returns the traversal's error
	cc := c.Method(ccRel, "completenessCheckingBlobAccess", "checkCompleteness")
	if cc == nil {
		return
	}
	okT := false
	allInstrs(cc, func(ins ssa.Instruction) {
		cl, ok := ins.(*ssa.Call)
		if !ok || !isPkgFuncCall(cl.Common(), modPath+"/pkg/util", "VisitProtoBytesFields") {
			return
		}
		// no success return reachable on the non-nil edge
		bad := false
		explorePaths(&pathSpec{Fn: cc, Init: 0,
			Step: func(st int, ev pathEvent) int {
				if ev.Ins == ssa.Instruction(cl) {
					return 1
				}
				if st == 1 {
					if isNil, ok := edgeSaysErr(ev, cl); ok {
						if isNil {
							return 0
						}
						return 2
					}
				}
				return st
			},
			AtReturn: func(st int, r *ssa.Return, _ map[int]bool) {
				if st == 2 {
					if isNilConst(r.Results[0]) {
						bad = true
					}
					if c2, ok := r.Results[0].(*ssa.Call); ok && c2.Call.StaticCallee() != nil && c2.Call.StaticCallee().Name() == "finalize" {
						bad = true
					}
				}
			}})
		okT = !bad
	})
	c.Check(okT, FuncName(cc), "traversal-error", c.Pos(cc.Pos()), "a failed Tree traversal fails the completeness check", "checkCompleteness can succeed although traversing a Tree failed")
}
