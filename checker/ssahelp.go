package main

import (
	"go/constant"
	"go/token"
	"go/types"
	"sort"

	"golang.org/x/tools/go/ssa"
)

// ---------------------------------------------------------------------------
// Shared SSA helpers: callee matching, dominance guards, success returns,
// path queries.

// callOf returns the CallCommon if ins is a call/go/defer instruction.
func callOf(ins ssa.Instruction) *ssa.CallCommon {
	if ci, ok := ins.(ssa.CallInstruction); ok {
		return ci.Common()
	}
	return nil
}

// calleeObj returns the resolved callee object: the static callee's
// *types.Func or the interface method object.
func calleeObjOf(cc *ssa.CallCommon) *types.Func {
	if cc.IsInvoke() {
		return cc.Method
	}
	if f := cc.StaticCallee(); f != nil {
		if o, ok := f.Object().(*types.Func); ok {
			return o
		}
	}
	return nil
}

// callsMethodNamed: invoke or static call of a method with this name whose
// receiver (or interface) is the named type rel.typ.
func isCallTo(cc *ssa.CallCommon, obj *types.Func) bool {
	if obj == nil {
		return false
	}
	o := calleeObjOf(cc)
	return o != nil && (o == obj || o.Origin() == obj)
}

// recvNamed returns the named type of a method object's receiver.
func recvNamed(m *types.Func) *types.Named {
	sig, ok := m.Type().(*types.Signature)
	if !ok || sig.Recv() == nil {
		return nil
	}
	t := sig.Recv().Type()
	if p, ok := t.(*types.Pointer); ok {
		t = p.Elem()
	}
	n, _ := t.(*types.Named)
	return n
}

// isMethodCall: call of method `name` on (a pointer to) named type / interface n.
func isMethodCall(cc *ssa.CallCommon, n *types.Named, name string) bool {
	o := calleeObjOf(cc)
	if o == nil || o.Name() != name {
		return false
	}
	r := recvNamed(o)
	return r != nil && n != nil && r.Obj() == n.Obj()
}

// isPkgFuncCall: static call of package-level function pkgPath.name.
func isPkgFuncCall(cc *ssa.CallCommon, pkgPath, name string) bool {
	o := calleeObjOf(cc)
	if o == nil || o.Pkg() == nil {
		return false
	}
	sig := o.Type().(*types.Signature)
	return sig.Recv() == nil && o.Pkg().Path() == pkgPath && o.Name() == name
}

func allInstrs(fn *ssa.Function, f func(ins ssa.Instruction)) {
	for _, b := range fn.Blocks {
		for _, ins := range b.Instrs {
			f(ins)
		}
	}
}

// withAnon visits fn and all nested anonymous functions.
func withAnon(fn *ssa.Function, f func(fn *ssa.Function)) {
	f(fn)
	for _, a := range fn.AnonFuncs {
		withAnon(a, f)
	}
}

// stripConv removes interface/type conversions.
func stripConv(v ssa.Value) ssa.Value {
	for {
		switch x := v.(type) {
		case *ssa.ChangeInterface:
			v = x.X
		case *ssa.ChangeType:
			v = x.X
		case *ssa.Convert:
			v = x.X
		case *ssa.MakeInterface:
			v = x.X
		default:
			return v
		}
	}
}

// errResultOf: does v denote the error result of call (directly or through
// Extract)?
func isErrResultOf(v ssa.Value, call ssa.Value) bool {
	v = stripConv(v)
	if v == call {
		return isErrorType(v.Type())
	}
	if ex, ok := v.(*ssa.Extract); ok && ex.Tuple == call && isErrorType(ex.Type()) {
		return true
	}
	// a loop-carried error variable fed only by equivalent calls
	// (`for err := f(); err != nil; err = f()`): every edge is the error of a
	// call of the same callee, one of them being `call`
	if phi, ok := v.(*ssa.Phi); ok && isErrorType(phi.Type()) {
		cc, isCall := call.(*ssa.Call)
		if !isCall {
			return false
		}
		hit := false
		for _, e := range phi.Edges {
			e = stripConv(e)
			var ec *ssa.Call
			switch x := e.(type) {
			case *ssa.Call:
				ec = x
			case *ssa.Extract:
				ec, _ = x.Tuple.(*ssa.Call)
			}
			if ec == nil || !sameCallee(ec, cc) {
				return false
			}
			if ec == cc {
				hit = true
			}
		}
		return hit
	}
	return false
}

func sameCallee(a, b *ssa.Call) bool {
	if a.Call.IsInvoke() != b.Call.IsInvoke() {
		return false
	}
	if a.Call.IsInvoke() {
		return a.Call.Method == b.Call.Method && sameSource(a.Call.Value, b.Call.Value)
	}
	if sa, sb := a.Call.StaticCallee(), b.Call.StaticCallee(); sa != nil || sb != nil {
		return sa == sb
	}
	return sameSource(a.Call.Value, b.Call.Value)
}

// nilTest decomposes cond into (x, isNilWhenTrue) for `x == nil` / `x != nil`.
func nilTest(cond ssa.Value) (x ssa.Value, nilWhenTrue bool, ok bool) {
	b, isb := cond.(*ssa.BinOp)
	if !isb || (b.Op != token.EQL && b.Op != token.NEQ) {
		return nil, false, false
	}
	if isNilConst(b.Y) {
		x = b.X
	} else if isNilConst(b.X) {
		x = b.Y
	} else {
		return nil, false, false
	}
	return x, b.Op == token.EQL, true
}

// edgeFacts enumerates the branch conditions known to hold on entry to block
// b through the dominator tree: for each dominating If whose one successor
// dominates b (and is entered only from that If), yield (cond, polarity).
func edgeFacts(b *ssa.BasicBlock, f func(cond ssa.Value, val bool) bool) {
	edgeFactsD(b, f, 0)
}

func edgeFactsD(b *ssa.BasicBlock, f func(cond ssa.Value, val bool) bool, depth int) {
	// s is entered only through the edge d->s (other predecessors are back
	// edges from blocks that s itself dominates)
	onlyVia := func(s, d *ssa.BasicBlock) bool {
		for _, p := range s.Preds {
			if p != d && !s.Dominates(p) {
				return false
			}
		}
		return true
	}
	for cur := b; cur != nil; {
		d := cur.Idom()
		if d == nil {
			return
		}
		if len(d.Instrs) > 0 {
			if iff, ok := d.Instrs[len(d.Instrs)-1].(*ssa.If); ok {
				t, e := d.Succs[0], d.Succs[1]
				if t != e {
					if onlyVia(t, d) && t.Dominates(b) {
						if !expandBoolFact(iff.Cond, true, f, depth) {
							return
						}
					} else if onlyVia(e, d) && e.Dominates(b) {
						if !expandBoolFact(iff.Cond, false, f, depth) {
							return
						}
					}
				}
			}
		}
		cur = d
	}
}

// loweredBoolPhi: v (negations stripped) is a phi of booleans at least one edge of which is a
// constant – what `t := a && b` / `a || b` is lowered to.
func loweredBoolPhi(v ssa.Value) (*ssa.Phi, bool) {
	for {
		if u, ok := v.(*ssa.UnOp); ok && u.Op == token.NOT {
			v = u.X
			continue
		}
		break
	}
	phi, ok := v.(*ssa.Phi)
	if !ok {
		return nil, false
	}
	if b, isB := phi.Type().Underlying().(*types.Basic); !isB || b.Kind() != types.Bool {
		return nil, false
	}
	// `a && b && c` is phi[false, false, c]; `a || b` is phi[true, b]: constants of one value and exactly
	// one computed edge.  (A boolean *variable* that is set along the way has constants of both values, or
	// no computed edge at all – that is a flag, not a spelt-out condition.)
	// What tells the two apart for sure: in a short-circuit expression every constant edge comes
	// straight from the conditional jump on an earlier operand; an assignment `flag = true` reaches the
	// phi through an unconditional jump.
	consts, computed := map[bool]int{}, 0
	for i, e := range phi.Edges {
		if k, isC := e.(*ssa.Const); isC && k.Value != nil {
			consts[constant.BoolVal(k.Value)]++
			p := phi.Block().Preds[i]
			if len(p.Instrs) == 0 {
				return nil, false
			}
			if _, isIf := p.Instrs[len(p.Instrs)-1].(*ssa.If); !isIf {
				return nil, false
			}
		} else {
			computed++
		}
	}
	if computed == 1 && len(consts) == 1 {
		return phi, true
	}
	return nil, false
}

// expandBoolFact delivers the fact (cond == val).  A condition that was given a name
// (`t := a && b; if t`) is a phi of booleans: when its value leaves exactly one way to have
// got there (t true: through the edge carrying b, with a true on the way), the facts of that way
// are delivered instead – the same facts the unnamed form `if a && b` yields.
func expandBoolFact(cond ssa.Value, val bool, f func(cond ssa.Value, val bool) bool, depth int) bool {
	c, v := cond, val
	for {
		if u, ok := c.(*ssa.UnOp); ok && u.Op == token.NOT {
			c, v = u.X, !v
			continue
		}
		break
	}
	// `err` assigned on several paths and tested once (`if err == nil { err = g() }; if err != nil {…}`):
	// on the nil side of the test the ways in on which the incoming error is known to be set are
	// impossible; if one way remains, its facts hold
	if x, nilWhenTrue, isNT := nilTest(c); isNT && nilWhenTrue == v && depth <= 3 {
		if ephi, isPhi := x.(*ssa.Phi); isPhi && isErrorType(ephi.Type()) {
			possible, at := 0, -1
			for i, e := range ephi.Edges {
				p := ephi.Block().Preds[i]
				knownSet := false
				edgeFactsOnD(p, ephi.Block(), func(c2 ssa.Value, v2 bool) bool {
					c3, v3 := c2, v2
					for {
						if u, ok := c3.(*ssa.UnOp); ok && u.Op == token.NOT {
							c3, v3 = u.X, !v3
							continue
						}
						break
					}
					if y, nwt, ok := nilTest(c3); ok && y == e && nwt != v3 {
						knownSet = true
						return false
					}
					return true
				}, depth+1)
				if knownSet {
					continue
				}
				possible++
				at = i
			}
			if possible == 1 && at >= 0 {
				if !f(cond, val) {
					return false
				}
				// the incoming value is nil …
				e := ephi.Edges[at]
				if _, isConst := e.(*ssa.Const); !isConst {
					nilCmp := &ssa.BinOp{Op: token.EQL, X: e, Y: ssa.NewConst(nil, e.Type())}
					if !f(nilCmp, true) {
						return false
					}
				}
				// … and so is everything known on that way in
				cont := true
				edgeFactsOnD(ephi.Block().Preds[at], ephi.Block(), func(c2 ssa.Value, v2 bool) bool {
					cont = f(c2, v2)
					return cont
				}, depth+1)
				return cont
			}
		}
	}
	phi, ok := loweredBoolPhi(c)
	if !ok || depth > 3 {
		return f(cond, val)
	}
	possible, at := 0, -1
	for i, e := range phi.Edges {
		if k, isC := e.(*ssa.Const); isC {
			if k.Value != nil && constant.BoolVal(k.Value) != v {
				continue // this edge would have given the other value
			}
			possible++
			continue
		}
		possible++
		at = i
	}
	if possible != 1 || at < 0 {
		return f(cond, val)
	}
	if !expandBoolFact(phi.Edges[at], v, f, depth+1) {
		return false
	}
	cont := true
	edgeFactsOnD(phi.Block().Preds[at], phi.Block(), func(c2 ssa.Value, v2 bool) bool {
		cont = f(c2, v2)
		return cont
	}, depth+1)
	return cont
}

// condImplies: does (cond == val) imply fact(x, isNil)? Handles !, &&-chains
// (as SSA lowers && / || into control flow this is mostly nilTest).
func dominatedByNilEdge(b *ssa.BasicBlock, match func(x ssa.Value) bool, wantNil bool) bool {
	found := false
	edgeFacts(b, func(cond ssa.Value, val bool) bool {
		c, v := cond, val
		for {
			if u, ok := c.(*ssa.UnOp); ok && u.Op == token.NOT {
				c, v = u.X, !v
				continue
			}
			break
		}
		if x, nilWhenTrue, ok := nilTest(c); ok {
			isNil := nilWhenTrue == v
			if isNil == wantNil && match(x) {
				found = true
				return false
			}
		}
		return true
	})
	return found
}

// dominatedByErrNil: block b is only reachable when the error result of call
// was nil.
func dominatedByErrNil(b *ssa.BasicBlock, call ssa.Value) bool {
	return dominatedByNilEdge(b, func(x ssa.Value) bool { return isErrResultOf(x, call) }, true)
}

// instrDominates: a executes before b on every path to b.
func instrDominates(a, b ssa.Instruction) bool {
	ba, bb := a.Block(), b.Block()
	if ba == bb {
		for _, ins := range ba.Instrs {
			if ins == a {
				return true
			}
			if ins == b {
				return false
			}
		}
		return false
	}
	return ba.Dominates(bb)
}

// returnsOf lists the Return instructions of fn.
func returnsOf(fn *ssa.Function) []*ssa.Return {
	var rs []*ssa.Return
	for _, b := range fn.Blocks {
		if len(b.Instrs) > 0 {
			if r, ok := b.Instrs[len(b.Instrs)-1].(*ssa.Return); ok {
				rs = append(rs, r)
			}
		}
	}
	return rs
}

// errIndex returns the index of the (last) error-typed result of fn, or -1.
func errIndex(fn *ssa.Function) int {
	res := fn.Signature.Results()
	for i := res.Len() - 1; i >= 0; i-- {
		if isErrorType(res.At(i).Type()) {
			return i
		}
	}
	return -1
}

// mayBeNilError: can v be the nil error? (constant nil, or a phi with a nil edge)
func mayBeNilError(v ssa.Value, seen map[ssa.Value]bool) bool {
	if seen[v] {
		return false
	}
	seen[v] = true
	if isNilConst(v) {
		return true
	}
	if p, ok := v.(*ssa.Phi); ok {
		for _, e := range p.Edges {
			if mayBeNilError(e, seen) {
				return true
			}
		}
	}
	return false
}

// isSuccessReturn: return whose error operand is the nil constant (or, for a
// function without error result, any return).
func isSuccessReturn(fn *ssa.Function, r *ssa.Return) bool {
	i := errIndex(fn)
	if i < 0 {
		return true
	}
	return isNilConst(r.Results[i])
}

// reachableAvoiding: is there a path from the program point just after `from`
// to `to` that does not execute any instruction in avoid? Block-level search
// with instruction precision in the first and last block.
func reachableAvoiding(from, to ssa.Instruction, avoid func(ssa.Instruction) bool) bool {
	fb := from.Block()
	// scan remainder of from's block
	started := false
	for _, ins := range fb.Instrs {
		if !started {
			if ins == from {
				started = true
			}
			continue
		}
		if ins == to {
			return true
		}
		if avoid(ins) {
			return false
		}
	}
	seen := map[*ssa.BasicBlock]bool{}
	var work []*ssa.BasicBlock
	work = append(work, fb.Succs...)
	for len(work) > 0 {
		b := work[len(work)-1]
		work = work[:len(work)-1]
		if seen[b] {
			continue
		}
		seen[b] = true
		blocked := false
		for _, ins := range b.Instrs {
			if ins == to {
				return true
			}
			if avoid(ins) {
				blocked = true
				break
			}
		}
		if !blocked {
			work = append(work, b.Succs...)
		}
	}
	return false
}

// entryReachesAvoiding: path from function entry to `to` avoiding `avoid`.
func entryReachesAvoiding(fn *ssa.Function, to ssa.Instruction, avoid func(ssa.Instruction) bool) bool {
	seen := map[*ssa.BasicBlock]bool{}
	work := []*ssa.BasicBlock{fn.Blocks[0]}
	for len(work) > 0 {
		b := work[len(work)-1]
		work = work[:len(work)-1]
		if seen[b] {
			continue
		}
		seen[b] = true
		blocked := false
		for _, ins := range b.Instrs {
			if ins == to {
				return true
			}
			if avoid(ins) {
				blocked = true
				break
			}
		}
		if !blocked {
			work = append(work, b.Succs...)
		}
	}
	return false
}

// constInt returns the integer value of a constant.
func constInt(v ssa.Value) (int64, bool) {
	c, ok := v.(*ssa.Const)
	if !ok || c.Value == nil || c.Value.Kind() != constant.Int {
		return 0, false
	}
	i, exact := constant.Int64Val(c.Value)
	return i, exact
}

// backwardSlice collects the values v depends on (through pure data flow:
// operands of non-call instructions; call results are leaves unless follow
// says otherwise).
func backwardSlice(v ssa.Value, visit func(x ssa.Value) (descend bool)) {
	seen := map[ssa.Value]bool{}
	var rec func(x ssa.Value)
	rec = func(x ssa.Value) {
		if x == nil || seen[x] {
			return
		}
		seen[x] = true
		if !visit(x) {
			return
		}
		ins, ok := x.(ssa.Instruction)
		if !ok {
			return
		}
		for _, op := range ins.Operands(nil) {
			if *op != nil {
				rec(*op)
			}
		}
	}
	rec(v)
}

// fieldOfAddr: if v is (a load of) FieldAddr/Field of struct field, return it.
func fieldOf(v ssa.Value) *types.Var {
	switch x := v.(type) {
	case *ssa.UnOp:
		if x.Op == token.MUL {
			return fieldOf(x.X)
		}
	case *ssa.FieldAddr:
		t := x.X.Type().Underlying().(*types.Pointer).Elem().Underlying().(*types.Struct)
		return refNamedField(x.X.Type(), t, x.Field)
	case *ssa.Field:
		t := x.X.Type().Underlying().(*types.Struct)
		return refNamedField(x.X.Type(), t, x.Field)
	}
	return nil
}

var refNamedFieldCache = map[*types.Var]*types.Var{}

// sameField: a and b denote the same struct field (either may be the stand-in refNamedField
// hands out for a renamed field).
func sameField(a, b *types.Var) bool {
	if a == nil || b == nil {
		return a == b
	}
	if a == b {
		return true
	}
	if r, ok := refNamedFieldCache[a]; ok && r == b {
		return true
	}
	if r, ok := refNamedFieldCache[b]; ok && r == a {
		return true
	}
	return false
}

// refNamedField: field idx of st, presented under the name it has on the reference tree
// (fieldmap.go) – the rules that look for a field by name keep finding it after a rename.
// One stand-in per field, so that identity comparisons keep working.
func refNamedField(base types.Type, st *types.Struct, idx int) *types.Var {
	f := st.Field(idx)
	if r, ok := refNamedFieldCache[f]; ok {
		return r
	}
	r := f
	if _, n := canonField(base, idx); n != "?" && n != f.Name() {
		r = types.NewField(f.Pos(), f.Pkg(), n, f.Type(), f.Embedded())
	}
	refNamedFieldCache[f] = r
	return r
}

// deepSlice is a container-aware backward slice: besides operands it follows
// range iterators to the ranged container, loads to the stores into the same
// local cell, and containers (maps, slices, allocs) to everything stored or
// appended into them within fn.
func deepSlice(fn *ssa.Function, v ssa.Value, visit func(x ssa.Value) (descend bool)) {
	seen := map[ssa.Value]bool{}
	// index stores / map updates by container
	var rec func(x ssa.Value)
	rec = func(x ssa.Value) {
		if x == nil || seen[x] {
			return
		}
		seen[x] = true
		if !visit(x) {
			return
		}
		switch t := x.(type) {
		case *ssa.Next:
			rec(t.Iter)
			return
		case *ssa.Range:
			rec(t.X)
			return
		case *ssa.MakeMap, *ssa.MakeSlice, *ssa.Alloc:
			// everything written into it
			if refs := x.Referrers(); refs != nil {
				for _, r := range *refs {
					switch w := r.(type) {
					case *ssa.MapUpdate:
						if w.Map == x {
							rec(w.Key)
							rec(w.Value)
						}
					case *ssa.Store:
						if w.Addr == x {
							rec(w.Val)
						}
					case *ssa.IndexAddr:
						if w.X == x {
							if rr := w.Referrers(); rr != nil {
								for _, s := range *rr {
									if st, ok := s.(*ssa.Store); ok && st.Addr == w {
										rec(st.Val)
									}
								}
							}
						}
					case *ssa.FieldAddr:
						if w.X == x {
							if rr := w.Referrers(); rr != nil {
								for _, s := range *rr {
									if st, ok := s.(*ssa.Store); ok && st.Addr == w {
										rec(st.Val)
									}
								}
							}
						}
					}
				}
			}
		}
		ins, ok := x.(ssa.Instruction)
		if !ok {
			return
		}
		for _, op := range ins.Operands(nil) {
			if *op != nil {
				rec(*op)
			}
		}
	}
	rec(v)
}

// isFullRangeOver: idx is the induction variable of a `for i := range X`
// style loop over exactly X (phi [-1, idx+1], compared with len(X)).
func isFullRangeIndex(idx ssa.Value, X ssa.Value) bool {
	lenOfX := func(v ssa.Value) bool {
		c, ok := v.(*ssa.Call)
		if !ok {
			return false
		}
		bi, ok := c.Call.Value.(*ssa.Builtin)
		return ok && bi.Name() == "len" && len(c.Call.Args) == 1 && (c.Call.Args[0] == X || sameSource(c.Call.Args[0], X))
	}
	comparedWithLen := func(v ssa.Value) bool {
		if refs := v.Referrers(); refs != nil {
			for _, r := range *refs {
				if b, ok := r.(*ssa.BinOp); ok {
					if b.Op == token.LSS && b.X == v && lenOfX(b.Y) {
						return true
					}
					if b.Op == token.GTR && b.Y == v && lenOfX(b.X) {
						return true
					}
				}
			}
		}
		return false
	}
	// form 1 (go/ssa range loop): phi [-1, t+1]; t = phi + 1; if t < len(X); index = t
	if inc, ok := idx.(*ssa.BinOp); ok && inc.Op == token.ADD {
		phi, ok := inc.X.(*ssa.Phi)
		if !ok {
			return false
		}
		if c, ok := constInt(inc.Y); !ok || c != 1 {
			return false
		}
		hasInit, hasBack := false, false
		for _, e := range phi.Edges {
			if c, ok := constInt(e); ok && c == -1 {
				hasInit = true
			} else if e == ssa.Value(inc) {
				hasBack = true
			} else {
				return false
			}
		}
		return hasInit && hasBack && comparedWithLen(inc)
	}
	// form 2 (three-clause loop): phi [0, phi+1]; if phi < len(X); index = phi
	if phi, ok := idx.(*ssa.Phi); ok {
		hasInit, hasBack := false, false
		for _, e := range phi.Edges {
			if c, ok := constInt(e); ok && c == 0 {
				hasInit = true
			} else if inc, ok := e.(*ssa.BinOp); ok && inc.Op == token.ADD && inc.X == ssa.Value(phi) {
				if c, ok := constInt(inc.Y); ok && c == 1 {
					hasBack = true
				} else {
					return false
				}
			} else {
				return false
			}
		}
		return hasInit && hasBack && comparedWithLen(phi)
	}
	return false
}

// rangeIndexHeader: the loop header block of a full range index.
func rangeIndexHeader(idx ssa.Value) *ssa.BasicBlock {
	switch x := idx.(type) {
	case *ssa.BinOp:
		return x.Block()
	case *ssa.Phi:
		return x.Block()
	}
	return nil
}

// rangeElem: v is the element X[i] of a full range loop over X (load of
// IndexAddr(X, i) or Index).
func rangeElemOf(v ssa.Value) (X ssa.Value, idx ssa.Value, ok bool) {
	if u, isU := v.(*ssa.UnOp); isU && u.Op == token.MUL {
		if ia, isIA := u.X.(*ssa.IndexAddr); isIA {
			if isFullRangeIndex(ia.Index, ia.X) {
				return ia.X, ia.Index, true
			}
		}
	}
	if ix, isIx := v.(*ssa.Index); isIx {
		if isFullRangeIndex(ix.Index, ix.X) {
			return ix.X, ix.Index, true
		}
	}
	return nil, nil, false
}

// sameSource: a and b are structurally the same pure expression (go/ssa does
// no CSE, so two reads of x.f are two values): same constant, same
// parameter / free variable, loads of the same address expression, same
// field of the same base, same operator over same-source operands.
func sameSource(a, b ssa.Value) bool {
	if a == b {
		return true
	}
	if a == nil || b == nil {
		return false
	}
	switch x := a.(type) {
	case *ssa.Const:
		y, ok := b.(*ssa.Const)
		if !ok {
			return false
		}
		if x.Value == nil || y.Value == nil {
			return x.Value == nil && y.Value == nil && types.Identical(x.Type(), y.Type())
		}
		return constant.Compare(x.Value, token.EQL, y.Value)
	case *ssa.UnOp:
		y, ok := b.(*ssa.UnOp)
		return ok && x.Op == y.Op && sameSource(x.X, y.X)
	case *ssa.FieldAddr:
		y, ok := b.(*ssa.FieldAddr)
		return ok && x.Field == y.Field && sameSource(x.X, y.X)
	case *ssa.Field:
		y, ok := b.(*ssa.Field)
		return ok && x.Field == y.Field && sameSource(x.X, y.X)
	case *ssa.IndexAddr:
		y, ok := b.(*ssa.IndexAddr)
		return ok && sameSource(x.X, y.X) && sameSource(x.Index, y.Index)
	case *ssa.BinOp:
		y, ok := b.(*ssa.BinOp)
		return ok && x.Op == y.Op && sameSource(x.X, y.X) && sameSource(x.Y, y.Y)
	case *ssa.Convert:
		y, ok := b.(*ssa.Convert)
		return ok && types.Identical(x.Type(), y.Type()) && sameSource(x.X, y.X)
	case *ssa.ChangeType:
		y, ok := b.(*ssa.ChangeType)
		return ok && sameSource(x.X, y.X)
	case *ssa.Call:
		// len(x) / cap(x) and pure atomic loads
		y, ok := b.(*ssa.Call)
		if !ok {
			return false
		}
		bx, okx := x.Call.Value.(*ssa.Builtin)
		by, oky := y.Call.Value.(*ssa.Builtin)
		if okx && oky && bx.Name() == by.Name() && (bx.Name() == "len" || bx.Name() == "cap") {
			return sameSource(x.Call.Args[0], y.Call.Args[0])
		}
		return false
	}
	return false
}

// loadedField: v is a load (*addr) of a struct field; returns the field and
// the base pointer.
func loadedField(v ssa.Value) (*types.Var, ssa.Value) {
	switch x := v.(type) {
	case *ssa.UnOp:
		if x.Op == token.MUL {
			if fa, ok := x.X.(*ssa.FieldAddr); ok {
				return fieldOf(fa), fa.X
			}
		}
	case *ssa.Field:
		return fieldOf(x), x.X
	}
	return nil, nil
}

// isLenOfField: v is len(load of field named one of names).
func isLenOfField(v ssa.Value, names ...string) bool {
	c, ok := v.(*ssa.Call)
	if !ok {
		return false
	}
	b, ok := c.Call.Value.(*ssa.Builtin)
	if !ok || b.Name() != "len" {
		return false
	}
	f, _ := loadedField(c.Call.Args[0])
	if f == nil {
		return false
	}
	for _, n := range names {
		if f.Name() == n {
			return true
		}
	}
	return false
}

// cmpEdge: block b is dominated by an edge on which `pred(op, x, y)` holds,
// where the comparison is normalised to the taken polarity (a false edge of
// x < y is presented as x >= y).
func dominatedByCmp(b *ssa.BasicBlock, pred func(op token.Token, x, y ssa.Value) bool) bool {
	return dominatedByCmpDepth(b, pred, 0)
}

// validationHelperOf: cond/val says "the error returned by a call to a
// same-package function with a body is nil"; returns that call.
func validationHelperOf(cond ssa.Value, val bool) *ssa.Call {
	c, v := cond, val
	for {
		if u, ok := c.(*ssa.UnOp); ok && u.Op == token.NOT {
			c, v = u.X, !v
			continue
		}
		break
	}
	x, nilWhenTrue, ok := nilTest(c)
	if !ok || nilWhenTrue != v || !isErrorType(x.Type()) {
		return nil
	}
	var cl *ssa.Call
	switch t := x.(type) {
	case *ssa.Call:
		cl = t
	case *ssa.Extract:
		cl, _ = t.Tuple.(*ssa.Call)
	}
	if cl == nil {
		return nil
	}
	callee := cl.Call.StaticCallee()
	if callee == nil || len(callee.Blocks) == 0 || callee.Pkg == nil || cl.Parent() == nil || callee.Pkg != topFunc(cl.Parent()).Pkg {
		return nil
	}
	return cl
}

// dominatedByCmpDepth also looks into validation helpers: when b is only
// reachable after `err := helper(args…)` returned nil, a comparison that
// dominates every nil return of the helper holds in b as well, with the
// helper's parameters replaced by the arguments of the call.
func dominatedByCmpDepth(b *ssa.BasicBlock, pred func(op token.Token, x, y ssa.Value) bool, depth int) bool {
	found := false
	edgeFacts(b, func(cond ssa.Value, val bool) bool {
		if depth < 2 {
			if cl := validationHelperOf(cond, val); cl != nil {
				callee := cl.Call.StaticCallee()
				subst := func(v ssa.Value) ssa.Value {
					w := stripConv(v)
					for i, p := range callee.Params {
						if w == ssa.Value(p) && i < len(cl.Call.Args) {
							return cl.Call.Args[i]
						}
					}
					return v
				}
				ei := errIndex(callee)
				nNil, all := 0, true
				for _, r := range returnsOf(callee) {
					if ei < 0 || !isNilConst(returnedValue(r, ei)) {
						continue
					}
					nNil++
					if !dominatedByCmpDepth(r.Block(), func(op token.Token, x, y ssa.Value) bool { return pred(op, subst(x), subst(y)) }, depth+1) {
						all = false
					}
				}
				if nNil > 0 && all {
					found = true
					return false
				}
			}
		}
		op, x, y, ok := normCmp(cond, val)
		if !ok {
			return true
		}
		if pred(op, x, y) {
			found = true
			return false
		}
		// mirrored
		var mop token.Token
		switch op {
		case token.LSS:
			mop = token.GTR
		case token.LEQ:
			mop = token.GEQ
		case token.GTR:
			mop = token.LSS
		case token.GEQ:
			mop = token.LEQ
		default:
			mop = op
		}
		if pred(mop, y, x) {
			found = true
			return false
		}
		return true
	})
	return found
}

// fieldStores lists every Store to the struct field named `field` of named
// struct type n in the functions given (closures included).
type fieldStore struct {
	fn *ssa.Function
	st *ssa.Store
}

func fieldStoresIn(fns []*ssa.Function, n *types.Named, field string) []fieldStore {
	var out []fieldStore
	for _, f := range fns {
		withAnon(f, func(g *ssa.Function) {
			allInstrs(g, func(ins ssa.Instruction) {
				st, ok := ins.(*ssa.Store)
				if !ok {
					return
				}
				fa, ok := st.Addr.(*ssa.FieldAddr)
				if !ok {
					return
				}
				fv := fieldOf(fa)
				if fv == nil || fv.Name() != field {
					return
				}
				pt, ok := fa.X.Type().Underlying().(*types.Pointer)
				if !ok {
					return
				}
				if nn, ok := pt.Elem().(*types.Named); ok && nn.Obj() == n.Obj() {
					out = append(out, fieldStore{g, st})
				}
			})
		})
	}
	return out
}

// pkgFuncs: the top-level source functions (methods included) of a package.
func (p *Program) pkgFuncs(rel string) []*ssa.Function {
	var out []*ssa.Function
	for _, f := range p.Funcs {
		if f.Parent() == nil && f.Pkg != nil && f.Pkg.Pkg.Path() == modPath+"/"+rel {
			out = append(out, f)
		}
	}
	return out
}

// srcFuncs: the functions of a package that were written by somebody – not the package
// initialiser, wrappers or thunks go/ssa synthesises (an added import changes the initialiser,
// and that is not a change of behaviour).
func (p *Program) srcFuncs(rel string) []*ssa.Function {
	var out []*ssa.Function
	for _, f := range p.pkgFuncs(rel) {
		if f.Synthetic == "" || f.Synthetic == "package initializer" {
			// (the initialiser holds the package's tables: which hasher a digest function uses, which
			// collector a counter is bound to; its calls of other packages' initialisers are ignored, see calleeID)
			out = append(out, f)
		}
	}
	return out
}

// topFunc returns the outermost enclosing function.
func topFunc(f *ssa.Function) *ssa.Function {
	for f.Parent() != nil {
		f = f.Parent()
	}
	return f
}

func sortStrings(s []string) { sort.Strings(s) }

// isReceiverValue: v denotes fn's receiver – the parameter itself or a load
// of the cell it was spilled into (go/ssa spills parameters captured by closures).
func isReceiverValue(fn *ssa.Function, v ssa.Value) bool {
	if fn == nil || len(fn.Params) == 0 {
		return false
	}
	if v == ssa.Value(fn.Params[0]) {
		return true
	}
	if u, ok := v.(*ssa.UnOp); ok && u.Op == token.MUL {
		if al, ok := u.X.(*ssa.Alloc); ok {
			ss := cellStores(al)
			return len(ss) == 1 && ss[0] == ssa.Value(fn.Params[0])
		}
	}
	return false
}

// edgeFactsOn enumerates the branch conditions known to hold when control
// moves along the edge p -> s: p's own branch (when p ends in an If with two
// different successors) and everything edgeFacts knows on entry to p.
func edgeFactsOn(p, s *ssa.BasicBlock, f func(cond ssa.Value, val bool) bool) {
	edgeFactsOnD(p, s, f, 0)
}

func edgeFactsOnD(p, s *ssa.BasicBlock, f func(cond ssa.Value, val bool) bool, depth int) {
	if len(p.Instrs) > 0 {
		if iff, ok := p.Instrs[len(p.Instrs)-1].(*ssa.If); ok && p.Succs[0] != p.Succs[1] {
			if p.Succs[0] == s {
				if !expandBoolFact(iff.Cond, true, f, depth) {
					return
				}
			} else if p.Succs[1] == s {
				if !expandBoolFact(iff.Cond, false, f, depth) {
					return
				}
			}
		}
	}
	edgeFactsD(p, f, depth)
}

// normCmp presents (cond == val) as a comparison op(x, y) with the polarity
// folded into the operator; ok is false when cond is not a comparison.
func normCmp(cond ssa.Value, val bool) (op token.Token, x, y ssa.Value, ok bool) {
	c, v := cond, val
	for {
		if u, isU := c.(*ssa.UnOp); isU && u.Op == token.NOT {
			c, v = u.X, !v
			continue
		}
		break
	}
	bo, isB := c.(*ssa.BinOp)
	if !isB {
		return 0, nil, nil, false
	}
	op = bo.Op
	if !v {
		switch op {
		case token.LSS:
			op = token.GEQ
		case token.LEQ:
			op = token.GTR
		case token.GTR:
			op = token.LEQ
		case token.GEQ:
			op = token.LSS
		case token.EQL:
			op = token.NEQ
		case token.NEQ:
			op = token.EQL
		default:
			return 0, nil, nil, false
		}
	}
	return op, bo.X, bo.Y, true
}

// intUpperBound: does op(x, y) with x the subject imply subject <= k (for
// integer subject)?  Returns the bound.
func cmpUpperBound(op token.Token, x, y ssa.Value, subject func(ssa.Value) bool) (int64, bool) {
	if subject(x) {
		if k, ok := constInt(y); ok {
			switch op {
			case token.LSS:
				return k - 1, true
			case token.LEQ, token.EQL:
				return k, true
			}
		}
	}
	if subject(y) {
		if k, ok := constInt(x); ok {
			switch op {
			case token.GTR:
				return k - 1, true
			case token.GEQ, token.EQL:
				return k, true
			}
		}
	}
	return 0, false
}

// cmpLowerBound: op(x, y) implies subject >= k.
func cmpLowerBound(op token.Token, x, y ssa.Value, subject func(ssa.Value) bool) (int64, bool) {
	if subject(x) {
		if k, ok := constInt(y); ok {
			switch op {
			case token.GTR:
				return k + 1, true
			case token.GEQ, token.EQL:
				return k, true
			case token.NEQ:
				if k == 0 && lengthLike(x) {
					return 1, true // a length that is not zero is at least one
				}
			}
		}
	}
	if subject(y) {
		if k, ok := constInt(x); ok {
			switch op {
			case token.LSS:
				return k + 1, true
			case token.LEQ, token.EQL:
				return k, true
			case token.NEQ:
				if k == 0 && lengthLike(y) {
					return 1, true
				}
			}
		}
	}
	return 0, false
}

// lengthLike: a value that cannot be negative – len / cap of something, or the result of a
// method called Length or Len.
func lengthLike(v ssa.Value) bool {
	c, ok := stripConv(v).(*ssa.Call)
	if !ok {
		return false
	}
	if b, isB := c.Call.Value.(*ssa.Builtin); isB {
		return b.Name() == "len" || b.Name() == "cap"
	}
	if c.Call.IsInvoke() {
		return c.Call.Method.Name() == "Length" || c.Call.Method.Name() == "Len"
	}
	if sc := c.Call.StaticCallee(); sc != nil {
		return sc.Name() == "Length" || sc.Name() == "Len"
	}
	return false
}

// returnedValue resolves result i of r through the spill go/ssa inserts in
// functions with defers (`*cell = v; rundefers; t = *cell; return t`): when
// the result is a load of a local cell, the value last stored into that cell
// in the same block is returned.
func returnedValue(r *ssa.Return, i int) ssa.Value {
	v := r.Results[i]
	u, ok := v.(*ssa.UnOp)
	if !ok || u.Op != token.MUL {
		return v
	}
	al, ok := u.X.(*ssa.Alloc)
	if !ok {
		return v
	}
	var last ssa.Value
	for _, ins := range r.Block().Instrs {
		if ins == ssa.Instruction(u) {
			break
		}
		if st, ok := ins.(*ssa.Store); ok && st.Addr == ssa.Value(al) {
			last = st.Val
		}
	}
	if last != nil {
		return last
	}
	return v
}

// dominatedByUpperBound: on entry to b the branch conditions imply
// subject <= k (any comparison form and polarity: x < c, !(x >= c), c > x, x == c …).
func dominatedByUpperBound(b *ssa.BasicBlock, subject func(ssa.Value) bool, k int64) bool {
	found := false
	edgeFacts(b, func(cond ssa.Value, val bool) bool {
		if op, x, y, ok := normCmp(cond, val); ok {
			if ub, ok := cmpUpperBound(op, x, y, subject); ok && ub <= k {
				found = true
				return false
			}
		}
		return true
	})
	return found
}

// dominatedByLowerBound: subject >= k.
func dominatedByLowerBound(b *ssa.BasicBlock, subject func(ssa.Value) bool, k int64) bool {
	found := false
	edgeFacts(b, func(cond ssa.Value, val bool) bool {
		if op, x, y, ok := normCmp(cond, val); ok {
			if lb, ok := cmpLowerBound(op, x, y, subject); ok && lb >= k {
				found = true
				return false
			}
		}
		return true
	})
	return found
}
