package main

import (
	"encoding/json"
	"go/types"
	"os"
	"path/filepath"
	"sort"
	"strings"

	"golang.org/x/tools/go/ssa"
)

// ---------------------------------------------------------------------------
// "What is immutable after construction stays immutable."
//
// Most decorators of this code base (sharding, mirroring, demultiplexing,
// authorizing, the record arrays, the selectors …) are written once by their
// constructor and only read afterwards; that is what makes their methods safe
// to call from any number of goroutines without a lock.  The reference records
// the struct types none of whose fields is written by a method of the type
// (closures included).  On the current tree a method of such a type may not
// store into a field of its receiver's type nor call an atomic
// Store/Add/Swap/CompareAndSwap on one: a memo, a "last seen" cache or a
// counter added to such a type is shared mutable state without a protocol.

type immutRef struct {
	Note string `json:"note"`
	// Written: struct type with methods -> the fields its methods write (empty: immutable after construction)
	Written map[string][]string `json:"written"`
	// Writers: field (Type.field) -> the functions (methods of the type, literals included) that write it
	Writers map[string][]string `json:"writers"`
	// Funcs: every function and function literal the families look at (one that is not listed is new)
	Funcs []string `json:"funcs"`
}

var immutGroups = groupsOf([][]string{
	{"R01.19", "local"},
	{"R09.14", "buffer"},
	{"R11.14", "mirrored", "sharding", "completeness", "replication"},
	{"R14.14", "grpc"},
	{"R18.14", "top"},
	{"R20.19", "digest"},
	{"R02.18", "config"},
})

func init() {
	for i := range immutGroups {
		g := immutGroups[i]
		register(&Rule{
			ID: g.rule, Props: g.props, Engine: "writer-set drift against the reference tree (SSA)",
			Text:  "what is immutable after construction stays immutable (" + strings.Join(g.pkgs, ", ") + "): in a struct type without a lock of its own, a field that none of the type's methods writes on the reference tree (so that the methods may run concurrently) is not stored into by a method of the type – for a value it did not just allocate – nor the target of an atomic Store / Swap / CompareAndSwap (an atomic Add is a counter and fine) or a map update; a field added to such a type counts as never written; and a function that exists on the reference tree does not start writing a field of its type that it only read there (unless a former writer was inlined into it) – a memo, a last-seen cache or a counter added to such a type is shared mutable state without a protocol",
			Floor: 1, MustExist: false, Run: func(c *Ctx) { runImmutDrift(c, g.pkgs) },
		})
	}
}

func allImmutPkgs() []string {
	var out []string
	for _, g := range immutGroups {
		out = append(out, g.pkgs...)
	}
	return out
}

func recvNamedOfFn(f *ssa.Function) *types.Named {
	for f.Parent() != nil {
		f = f.Parent()
	}
	if f.Signature.Recv() == nil {
		return nil
	}
	t := f.Signature.Recv().Type()
	if p, ok := t.(*types.Pointer); ok {
		t = p.Elem()
	}
	n, _ := t.(*types.Named)
	return n
}

type selfWrite struct {
	field string
	typ   string
	fn    *ssa.Function
	ins   ssa.Instruction
	what  string
}

// selfWrites: writes by methods of T (closures included) to fields of values of type T.
func selfWrites(p *Program, pkgs []string) ([]selfWrite, map[string]bool) {
	var out []selfWrite
	types_ := map[string]bool{}
	for _, rel := range pkgs {
		for _, tf := range p.srcFuncs(rel) {
			T := recvNamedOfFn(tf)
			if T == nil {
				continue
			}
			if _, isStruct := T.Underlying().(*types.Struct); !isStruct {
				continue
			}
			tk := typeKey(T)
			types_[tk] = true
			isFieldOfT := func(a ssa.Value) (string, bool) {
				fa, ok := a.(*ssa.FieldAddr)
				if !ok {
					return "", false
				}
				pt, ok := fa.X.Type().Underlying().(*types.Pointer)
				if !ok || !types.Identical(pt.Elem(), T) {
					return "", false
				}
				if _, fresh := fa.X.(*ssa.Alloc); fresh {
					return "", false
				}
				_, n := canonField(fa.X.Type(), fa.Field)
				return n, true
			}
			withAnon(tf, func(g *ssa.Function) {
				allInstrs(g, func(ins ssa.Instruction) {
					switch x := ins.(type) {
					case *ssa.Store:
						if n, ok := isFieldOfT(x.Addr); ok {
							out = append(out, selfWrite{n, tk, g, ins, "a store to " + tk + "." + n})
						}
					case *ssa.MapUpdate:
						if ld, ok := x.Map.(*ssa.UnOp); ok {
							if n, ok := isFieldOfT(ld.X); ok {
								out = append(out, selfWrite{n, tk, g, ins, "an update of the map " + tk + "." + n})
							}
						}
					case *ssa.Call:
						cc := x.Common()
						sc := cc.StaticCallee()
						if sc == nil || sc.Pkg == nil || sc.Pkg.Pkg.Path() != "sync/atomic" || len(cc.Args) == 0 {
							return
						}
						switch {
						// an atomic Add on its own is a counter – a complete protocol; Store / Swap / CompareAndSwap
						// publish a value that some other access is meant to pair with
						case strings.HasPrefix(sc.Name(), "Store"), strings.HasPrefix(sc.Name(), "Swap"), strings.HasPrefix(sc.Name(), "CompareAndSwap"):
						default:
							return
						}
						if n, ok := isFieldOfT(cc.Args[0]); ok {
							out = append(out, selfWrite{n, tk, g, ins, "an atomic " + sc.Name() + " on " + tk + "." + n})
						}
					}
				})
			})
		}
	}
	return out, types_
}

func genImmutReference(repo string) error {
	p, err := LoadProgram(repo, BuildConfig{"linux", "amd64"}, false, nil)
	if err != nil {
		return err
	}
	ws, all := selfWrites(p, allImmutPkgs())
	ref := immutRef{Note: "per struct type with methods: the fields that its methods write on the reference tree (empty: immutable after construction); generated by `bbcheck -gen-reference`, never written by a check", Written: map[string][]string{}}
	for t := range all {
		ref.Written[t] = []string{}
	}
	for _, w := range ws {
		dup := false
		for _, f := range ref.Written[w.typ] {
			if f == w.field {
				dup = true
			}
		}
		if !dup {
			ref.Written[w.typ] = append(ref.Written[w.typ], w.field)
		}
	}
	for t := range ref.Written {
		sort.Strings(ref.Written[t])
	}
	ref.Writers = map[string][]string{}
	for _, w := range ws {
		k := w.typ + "." + w.field
		dup := false
		for _, f := range ref.Writers[k] {
			if f == FuncName(w.fn) {
				dup = true
			}
		}
		if !dup {
			ref.Writers[k] = append(ref.Writers[k], FuncName(w.fn))
		}
	}
	for k := range ref.Writers {
		sort.Strings(ref.Writers[k])
	}
	for _, rel := range allImmutPkgs() {
		for _, tf := range p.srcFuncs(rel) {
			withAnon(tf, func(g *ssa.Function) { ref.Funcs = append(ref.Funcs, FuncName(g)) })
		}
	}
	sort.Strings(ref.Funcs)
	b, _ := json.MarshalIndent(ref, "", " ")
	return os.WriteFile(filepath.Join(refDir, "immutable.json"), append(b, '\n'), 0o644)
}

var immutRefCache *immutRef

func runImmutDrift(c *Ctx, pkgs []string) {
	if !referenceConfig(c) {
		return
	}
	if immutRefCache == nil {
		b, err := os.ReadFile(filepath.Join(refDir, "immutable.json"))
		if err != nil {
			c.Broken("reference table of immutable types cannot be read: %v", err)
			return
		}
		var r immutRef
		if err := json.Unmarshal(b, &r); err != nil {
			c.Broken("reference table of immutable types: %v", err)
			return
		}
		immutRefCache = &r
	}
	ws, all := selfWrites(c.Program, pkgs)
	bad := map[string]bool{}
	refFuncs := map[string]bool{}
	for _, f := range immutRefCache.Funcs {
		refFuncs[f] = true
	}
	curFuncs := map[string]bool{}
	for _, rel := range allImmutPkgs() {
		for _, tf := range c.srcFuncs(rel) {
			withAnon(tf, func(g *ssa.Function) {
				if k := refKey(g); k != "" {
					curFuncs[k] = true
				}
			})
		}
	}
	reportedWriter := map[string]bool{}
	for _, w := range ws {
		// a function that exists on the reference tree and did not write this field there
		fk := refKey(w.fn)
		wk := w.typ + "." + w.field
		if writers, fieldKnown := immutRefCache.Writers[wk]; fieldKnown && fk != "" && refFuncs[fk] && !reportedWriter[fk+"|"+wk] {
			isWriter, inlined := false, false
			for _, f := range writers {
				if f == fk {
					isWriter = true
				}
				if !curFuncs[f] {
					inlined = true // a writer of the reference tree is gone: its body may have moved here
				}
			}
			if !isWriter && !inlined {
				reportedWriter[fk+"|"+wk] = true
				c.Fail(fk, "same-writers "+wk, c.Pos(w.ins.Pos()), w.what+": on the reference tree this function only reads "+wk+" (it is written by "+strings.Join(shortNames(writers), ", ")+"); a function that starts to modify state it used to leave alone changes what every other user of that state can rely on – an expiry that is pushed back by lookups, a cursor that is moved back by a failed upload")
			}
		}
		fields, known := immutRefCache.Written[w.typ]
		if !known {
			continue // a new type
		}
		was := false
		for _, f := range fields {
			if f == w.field {
				was = true
			}
		}
		if was || hasMutexField(c.Program, w.fn) {
			continue // written before, or a type with its own lock (the lock rules look at it)
		}
		bad[w.typ] = true
		c.Fail(w.typ, "stays-immutable "+w.field, c.Pos(w.ins.Pos()), w.what+": no method of the type writes this field on the reference tree and the type has no lock of its own – its methods are called concurrently on the strength of that, so this is shared mutable state without a protocol: two callers can interleave between its parts, or see one caller's half-finished update")
	}
	var ts []string
	for t := range all {
		ts = append(ts, t)
	}
	sort.Strings(ts)
	for _, t := range ts {
		if _, known := immutRefCache.Written[t]; known && !bad[t] {
			c.Pass(t, "stays-immutable", "-", "no method writes a field that was not written before")
		}
	}
}

func shortNames(fs []string) []string {
	var out []string
	for _, f := range fs {
		if i := strings.LastIndex(f, "."); i >= 0 {
			f = f[i+1:]
		}
		out = append(out, f)
	}
	return out
}

// hasMutexField: the receiver type of fn (outermost function) has a sync.Mutex / RWMutex / Locker field.
func hasMutexField(p *Program, fn *ssa.Function) bool {
	T := recvNamedOfFn(fn)
	if T == nil {
		return false
	}
	st, ok := T.Underlying().(*types.Struct)
	if !ok {
		return false
	}
	for i := 0; i < st.NumFields(); i++ {
		t := st.Field(i).Type()
		if pt, ok := t.(*types.Pointer); ok {
			t = pt.Elem()
		}
		if n, ok := t.(*types.Named); ok && n.Obj().Pkg() != nil && n.Obj().Pkg().Path() == "sync" {
			switch n.Obj().Name() {
			case "Mutex", "RWMutex", "Locker":
				return true
			}
		}
	}
	return false
}
