package main

import (
	"encoding/json"
	"go/token"
	"go/types"
	"os"
	"path/filepath"
	"sort"
	"strings"

	"golang.org/x/tools/go/ssa"
)

// ---------------------------------------------------------------------------
// "What was done under a lock is still done under it."
//
// Per function a must-hold lockset is computed (forward dataflow over the SSA
// blocks, intersection at joins; sync.Mutex / RWMutex / sync.Locker
// Lock, RLock, Unlock, RUnlock; a deferred unlock holds until the exit).  For
// every access to a *mutable* field of a struct of the module (a field stored
// outside constructors on the reference tree), for every call of a method of
// the package and for every call through an interface held in a field, the
// reference records the locks that are held at every occurrence of that
// access in that function.  On the current tree the same kind of access in
// the same function must still hold them: an Unlock moved up, a Lock moved
// down, an exclusive lock weakened to a shared one or an access moved out of
// the critical section all shrink that set.

type lockRef struct {
	Note    string                         `json:"note"`
	Mutable []string                       `json:"mutable"`
	Held    map[string]map[string][]string `json:"held"` // function -> access -> locks held at every occurrence
	// Blocking: function -> blocking operation (channel receive / send / select, Wait, Sleep, call
	// through an interface) -> locks certainly held at some occurrence (union); empty = never under a lock
	Blocking map[string]map[string][]string `json:"blocking"`
	// Snapshots: function literal -> mutable fields whose value at the time the literal is created is
	// carried into it (captured directly or through arithmetic / len)
	Snapshots map[string][]string `json:"snapshots"`
	Closures  map[string]bool     `json:"closures"` // every function literal of the reference tree (a literal that is not listed is new)
}

var lockGroups = groupsOf([][]string{
	{"R01.17", "local"},
	{"R09.12", "buffer"},
	{"R11.12", "mirrored", "sharding", "completeness", "replication"},
	{"R14.12", "grpc"},
	{"R18.12", "top"},
	{"R20.17", "digest"},
	{"R02.16", "config"},
})

func init() {
	for i := range lockGroups {
		g := lockGroups[i]
		register(&Rule{
			ID: g.rule, Props: g.props, Engine: "must-hold lockset dataflow (SSA) against the reference tree",
			Text:  "what was done under a lock is still done under it (" + strings.Join(g.pkgs, ", ") + "): for every read or write of a mutable struct field, every call of a method of the package and every call through an interface held in a field, the locks that the reference tree holds at every occurrence of that access in that function are still held at every occurrence (exclusive where it was exclusive) – an unlock moved up, a lock taken later, a write lock weakened to a read lock or an access moved out of the critical section is reported",
			Floor: 1, MustExist: false, Run: func(c *Ctx) { runLockDrift(c, g.pkgs) },
		})
	}
}

func allLockPkgs() []string {
	var out []string
	for _, g := range lockGroups {
		out = append(out, g.pkgs...)
	}
	return out
}

// canonFieldKey: "pkg.Type.field" with the field's reference name.
func canonFieldKey(base types.Type, idx int) string {
	if p, ok := base.Underlying().(*types.Pointer); ok {
		base = p.Elem()
	}
	_, n := canonField(base, idx)
	return typeKey(base) + "." + n
}

// lockIdentity: a name for the mutex (or Locker) a Lock/Unlock call operates on.
func lockIdentity(v ssa.Value) string {
	v = stripConv(v)
	switch x := v.(type) {
	case *ssa.UnOp:
		if x.Op == token.MUL {
			return lockIdentity(x.X)
		}
	case *ssa.FieldAddr:
		return canonFieldKey(x.X.Type(), x.Field)
	case *ssa.Field:
		return canonFieldKey(x.X.Type(), x.Field)
	case *ssa.Parameter:
		for i, p := range x.Parent().Params {
			if p == x {
				return "param" + string(rune('0'+i))
			}
		}
	case *ssa.FreeVar:
		return "captured:" + typeKey(x.Type())
	case *ssa.Alloc:
		return "local:" + typeKey(x.Type())
	case *ssa.MakeInterface:
		return lockIdentity(x.X)
	}
	return "?"
}

// lockEvent: ins takes or drops a lock.  mode 'W' / 'R'; acquire or release.
func lockEvent(ins ssa.Instruction) (id string, mode byte, acquire, ok bool) {
	cl, isC := ins.(*ssa.Call)
	if !isC {
		return
	}
	cc := cl.Common()
	name := ""
	var recv ssa.Value
	if cc.IsInvoke() {
		if n, isN := cc.Value.Type().(*types.Named); !isN || n.Obj().Pkg() == nil || n.Obj().Pkg().Path() != "sync" {
			return
		}
		name, recv = cc.Method.Name(), cc.Value
	} else if sc := cc.StaticCallee(); sc != nil && sc.Signature.Recv() != nil && sc.Pkg != nil && sc.Pkg.Pkg.Path() == "sync" && len(cc.Args) > 0 {
		name, recv = sc.Name(), cc.Args[0]
	} else {
		return
	}
	switch name {
	case "Lock":
		return lockIdentity(recv), 'W', true, true
	case "RLock":
		return lockIdentity(recv), 'R', true, true
	case "Unlock":
		return lockIdentity(recv), 'W', false, true
	case "RUnlock":
		return lockIdentity(recv), 'R', false, true
	}
	return
}

// mustLocksets: for every block the set of locks held on entry on every path.
// "W:x" implies "R:x".
func mustLocksets(g *ssa.Function) map[*ssa.BasicBlock]map[string]bool {
	in := map[*ssa.BasicBlock]map[string]bool{}
	if len(g.Blocks) == 0 {
		return in
	}
	transfer := func(b *ssa.BasicBlock, s map[string]bool) map[string]bool {
		o := map[string]bool{}
		for k := range s {
			o[k] = true
		}
		for _, ins := range b.Instrs {
			if id, mode, acq, ok := lockEvent(ins); ok {
				if acq {
					o["R:"+id] = true
					if mode == 'W' {
						o["W:"+id] = true
					}
				} else {
					delete(o, "R:"+id)
					delete(o, "W:"+id)
				}
			}
		}
		return o
	}
	in[g.Blocks[0]] = map[string]bool{}
	for changed, rounds := true, 0; changed && rounds < 50; rounds++ {
		changed = false
		for _, b := range g.Blocks {
			s, seen := in[b]
			if !seen {
				continue
			}
			out := transfer(b, s)
			for _, succ := range b.Succs {
				cur, had := in[succ]
				if !had {
					cp := map[string]bool{}
					for k := range out {
						cp[k] = true
					}
					in[succ], changed = cp, true
					continue
				}
				for k := range cur {
					if !out[k] {
						delete(cur, k)
						changed = true
					}
				}
			}
		}
	}
	return in
}

// lockedAccesses: access kind -> locks held at every occurrence in g.
func lockedAccesses(g *ssa.Function, mutable map[string]bool, pkg *ssa.Package) map[string][]string {
	m, _ := lockedAccessesPos(g, mutable, pkg)
	return m
}

// lockedAccessesPos also returns, per access kind, the occurrence at which fewest locks are held.
func lockedAccessesPos(g *ssa.Function, mutable map[string]bool, pkg *ssa.Package) (map[string][]string, map[string]token.Pos) {
	in := mustLocksets(g)
	acc := map[string]map[string]bool{}
	weakest := map[string]token.Pos{}
	weakestN := map[string]int{}
	var curPos token.Pos
	note := func(key string, held map[string]bool) {
		if n, had := weakestN[key]; !had || len(held) < n {
			weakestN[key], weakest[key] = len(held), curPos
		}
		cur, had := acc[key]
		if !had {
			cp := map[string]bool{}
			for k := range held {
				cp[k] = true
			}
			acc[key] = cp
			return
		}
		for k := range cur {
			if !held[k] {
				delete(cur, k)
			}
		}
	}
	for _, b := range g.Blocks {
		s, seen := in[b]
		if !seen {
			continue
		}
		held := map[string]bool{}
		for k := range s {
			held[k] = true
		}
		for _, ins := range b.Instrs {
			if ins.Pos().IsValid() {
				curPos = ins.Pos()
			}
			if id, mode, acq, ok := lockEvent(ins); ok {
				if acq {
					held["R:"+id] = true
					if mode == 'W' {
						held["W:"+id] = true
					}
				} else {
					delete(held, "R:"+id)
					delete(held, "W:"+id)
				}
				continue
			}
			switch x := ins.(type) {
			case *ssa.Store:
				if fa, ok := x.Addr.(*ssa.FieldAddr); ok {
					if k := canonFieldKey(fa.X.Type(), fa.Field); mutable[k] {
						note("W:"+k, held)
					}
				}
			case *ssa.UnOp:
				if fa, ok := x.X.(*ssa.FieldAddr); ok && x.Op == token.MUL {
					if k := canonFieldKey(fa.X.Type(), fa.Field); mutable[k] {
						note("R:"+k, held)
					}
				}
			case *ssa.Call:
				cc := x.Common()
				if cc.IsInvoke() {
					// through an interface held in a field
					if ld, ok := cc.Value.(*ssa.UnOp); ok && ld.Op == token.MUL {
						if fa, ok := ld.X.(*ssa.FieldAddr); ok {
							note("C:"+canonFieldKey(fa.X.Type(), fa.Field)+"."+cc.Method.Name(), held)
						}
					}
				} else if sc := cc.StaticCallee(); sc != nil && sc.Pkg == pkg && sc.Signature.Recv() != nil && sc.Object() != nil {
					note("C:"+sc.Object().(*types.Func).FullName(), held)
				}
			}
		}
	}
	out := map[string][]string{}
	for k, s := range acc {
		out[k] = sortedKeys(s)
		if out[k] == nil {
			out[k] = []string{}
		}
	}
	return out, weakest
}

// blockingUnderLocks: blocking operation kind -> union of the must-hold locksets at its occurrences.
func blockingUnderLocks(g *ssa.Function) (map[string][]string, map[string]token.Pos) {
	in := mustLocksets(g)
	acc := map[string]map[string]bool{}
	where := map[string]token.Pos{}
	for _, b := range g.Blocks {
		s, seen := in[b]
		if !seen {
			continue
		}
		held := map[string]bool{}
		for k := range s {
			held[k] = true
		}
		var curPos token.Pos
		for _, ins := range b.Instrs {
			if ins.Pos().IsValid() {
				curPos = ins.Pos()
			}
			if id, mode, acq, ok := lockEvent(ins); ok {
				if acq {
					held["R:"+id] = true
					if mode == 'W' {
						held["W:"+id] = true
					}
				} else {
					delete(held, "R:"+id)
					delete(held, "W:"+id)
				}
				continue
			}
			key := ""
			switch x := ins.(type) {
			case *ssa.UnOp:
				if x.Op == token.ARROW {
					key = "receive from a channel"
				}
			case *ssa.Send:
				key = "send on a channel"
			case *ssa.Select:
				if x.Blocking {
					key = "select"
				}
			case *ssa.Call:
				cc := x.Common()
				if cc.IsInvoke() {
					if n, isN := cc.Value.Type().(*types.Named); isN && n.Obj().Pkg() != nil && n.Obj().Pkg().Path() == "sync" {
						break
					}
					key = "call of " + cc.Method.FullName()
				} else if sc := cc.StaticCallee(); sc != nil && (sc.Name() == "Wait" || sc.Name() == "Sleep") {
					key = "call of " + sc.String()
				} else if sc != nil && sc.Pkg == g.Pkg && sc.Object() != nil && !pureLooking(sc.Name()) {
					// a function of the package: what it does (sleeping, I/O, waiting) happens under whatever is held here
					key = "call of " + sc.Object().(*types.Func).FullName()
				}
			}
			if key == "" {
				continue
			}
			if acc[key] == nil {
				acc[key] = map[string]bool{}
			}
			for k := range held {
				if !acc[key][k] {
					acc[key][k] = true
					where[key+"|"+k] = curPos
				}
			}
		}
	}
	out := map[string][]string{}
	for k, s := range acc {
		out[k] = sortedKeys(s)
		if out[k] == nil {
			out[k] = []string{}
		}
	}
	return out, where
}

// capturedSnapshots: for every function literal created in g, the mutable fields whose current
// value flows into one of its captured variables (a snapshot that the literal uses later).
func capturedSnapshots(g *ssa.Function, mutable map[string]bool) map[*ssa.Function][]string {
	out := map[*ssa.Function][]string{}
	allInstrs(g, func(ins ssa.Instruction) {
		mc, ok := ins.(*ssa.MakeClosure)
		if !ok {
			return
		}
		fn, ok := mc.Fn.(*ssa.Function)
		if !ok {
			return
		}
		found := map[string]bool{}
		seen := map[ssa.Value]bool{}
		var walk func(v ssa.Value, depth int)
		walk = func(v ssa.Value, depth int) {
			if v == nil || seen[v] || depth > 8 {
				return
			}
			seen[v] = true
			switch x := v.(type) {
			case *ssa.UnOp:
				if x.Op == token.MUL {
					switch a := x.X.(type) {
					case *ssa.FieldAddr:
						if k := canonFieldKey(a.X.Type(), a.Field); mutable[k] {
							// a value (not a reference through which the literal would see later updates)
							if _, isPtr := x.Type().Underlying().(*types.Pointer); !isPtr {
								found[k] = true
							}
						}
					case *ssa.Alloc:
						// a local variable: what was stored into it
						if refs := a.Referrers(); refs != nil {
							for _, r := range *refs {
								if st, ok := r.(*ssa.Store); ok && st.Addr == ssa.Value(a) {
									walk(st.Val, depth+1)
								}
							}
						}
					}
					return
				}
				walk(x.X, depth+1)
			case *ssa.Alloc:
				// captured by reference: the values it holds when the literal is created
				if refs := x.Referrers(); refs != nil {
					for _, r := range *refs {
						if st, ok := r.(*ssa.Store); ok && st.Addr == ssa.Value(x) {
							walk(st.Val, depth+1)
						}
					}
				}
			case *ssa.BinOp:
				walk(x.X, depth+1)
				walk(x.Y, depth+1)
			case *ssa.Phi:
				for _, e := range x.Edges {
					walk(e, depth+1)
				}
			case *ssa.Convert:
				walk(x.X, depth+1)
			case *ssa.ChangeType:
				walk(x.X, depth+1)
			case *ssa.Call:
				if b, isB := x.Call.Value.(*ssa.Builtin); isB && (b.Name() == "len" || b.Name() == "cap") {
					walk(x.Call.Args[0], depth+1)
				}
			}
		}
		for _, b := range mc.Bindings {
			walk(b, 0)
		}
		if len(found) > 0 {
			out[fn] = sortedKeys(found)
		}
	})
	return out
}

// mutableFields: fields of module structs stored outside constructors.
func mutableFields(p *Program, pkgs []string) map[string]bool {
	out := map[string]bool{}
	for _, rel := range pkgs {
		for _, tf := range p.srcFuncs(rel) {
			if strings.HasPrefix(tf.Name(), "New") || strings.HasPrefix(tf.Name(), "new") || tf.Name() == "init" {
				continue
			}
			withAnon(tf, func(g *ssa.Function) {
				allInstrs(g, func(ins ssa.Instruction) {
					st, ok := ins.(*ssa.Store)
					if !ok {
						return
					}
					fa, ok := st.Addr.(*ssa.FieldAddr)
					if !ok {
						return
					}
					// not the initialisation of a fresh literal
					if _, fresh := fa.X.(*ssa.Alloc); fresh {
						return
					}
					out[canonFieldKey(fa.X.Type(), fa.Field)] = true
				})
			})
		}
	}
	return out
}

func genLockReference(repo string) error {
	p, err := LoadProgram(repo, BuildConfig{"linux", "amd64"}, false, nil)
	if err != nil {
		return err
	}
	ref := lockRef{Note: "per function: for every access to a mutable field / method of the package / interface held in a field, the locks held at every occurrence on the reference tree; generated by `bbcheck -gen-reference`, never written by a check", Held: map[string]map[string][]string{}, Blocking: map[string]map[string][]string{}, Snapshots: map[string][]string{}, Closures: map[string]bool{}}
	mut := mutableFields(p, allLockPkgs())
	ref.Mutable = sortedKeys(mut)
	for _, rel := range allLockPkgs() {
		for _, tf := range p.srcFuncs(rel) {
			withAnon(tf, func(g *ssa.Function) {
				m := lockedAccesses(g, mut, tf.Pkg)
				// only what is done under some lock is a reference fact
				for k, v := range m {
					if len(v) == 0 {
						delete(m, k)
					}
				}
				if len(m) > 0 {
					ref.Held[FuncName(g)] = m
				}
				if bl, _ := blockingUnderLocks(g); len(bl) > 0 {
					ref.Blocking[FuncName(g)] = bl
				}
				for lit, fields := range capturedSnapshots(g, mut) {
					ref.Snapshots[FuncName(lit)] = fields
				}
				if g.Parent() != nil {
					ref.Closures[FuncName(g)] = true
				}
			})
		}
	}
	b, _ := json.MarshalIndent(ref, "", " ")
	return os.WriteFile(filepath.Join(refDir, "locksets.json"), append(b, '\n'), 0o644)
}

var lockRefCache *lockRef

func runLockDrift(c *Ctx, pkgs []string) {
	if !referenceConfig(c) {
		return
	}
	if lockRefCache == nil {
		b, err := os.ReadFile(filepath.Join(refDir, "locksets.json"))
		if err != nil {
			c.Broken("reference table of locksets cannot be read: %v", err)
			return
		}
		var r lockRef
		if err := json.Unmarshal(b, &r); err != nil {
			c.Broken("reference table of locksets: %v", err)
			return
		}
		lockRefCache = &r
	}
	mut := map[string]bool{}
	for _, m := range lockRefCache.Mutable {
		mut[m] = true
	}
	for _, rel := range pkgs {
		for _, tf := range c.srcFuncs(rel) {
			withAnon(tf, func(g *ssa.Function) {
				fk := refKey(g)
				if fk == "" {
					return
				}
				// snapshots of mutable state carried into function literals
				for lit, fields := range capturedSnapshots(g, mut) {
					lk := refKey(lit)
					if lk == "" {
						continue
					}
					if _, closureKnown := lockRefCache.Closures[lk]; !closureKnown {
						continue
					}
					was := map[string]bool{}
					for _, f := range lockRefCache.Snapshots[lk] {
						was[f] = true
					}
					for _, f := range fields {
						if was[f] {
							continue
						}
						c.Fail(lk, "no-new-snapshot "+f, c.Pos(lit.Pos()), "the function literal now works with the value "+f+" had when the literal was created (captured directly, or through arithmetic or len); on the reference tree it reads that state itself when it runs. The literal runs later – after the lock was released and re-taken, after other uploads rotated or appended blocks – so the remembered value can be stale by then")
					}
				}
				// operations that may block: not under a lock they were never under
				if wantB, knownB := lockRefCache.Blocking[fk]; knownB {
					curB, whereB := blockingUnderLocks(g)
					var ops []string
					for op := range wantB {
						ops = append(ops, op)
					}
					sort.Strings(ops)
					for _, op := range ops {
						have, present := curB[op]
						if !present {
							continue
						}
						allowed := map[string]bool{}
						for _, l := range wantB[op] {
							allowed[l] = true
						}
						extra := ""
						for _, l := range have {
							if !allowed[l] && !strings.HasPrefix(l, "R:") {
								extra = l
							}
						}
						if extra == "" {
							for _, l := range have {
								if !allowed[l] {
									extra = l
								}
							}
						}
						if extra == "" {
							c.Pass(fk, "blocking-outside-lock "+op, c.Pos(g.Pos()), "not under a lock it was not under on the reference tree")
							continue
						}
						c.Fail(fk, "blocking-outside-lock "+op, c.Pos(whereB[op+"|"+extra]), "a "+op+" – an operation that can block for as long as a peer, a timer or a backend takes – now happens while "+extra+" is held; on the reference tree this function never holds that lock there, so everything else that needs the lock (uploads, block rotation, state writes) now waits for it")
					}
				}
				want, known := lockRefCache.Held[fk]
				if !known {
					return
				}
				cur, where := lockedAccessesPos(g, mut, tf.Pkg)
				var keys []string
				for k := range want {
					keys = append(keys, k)
				}
				sort.Strings(keys)
				for _, k := range keys {
					have, present := cur[k]
					if !present {
						continue // the access is gone from this function (moved, removed): not judged here
					}
					hs := map[string]bool{}
					for _, h := range have {
						hs[h] = true
					}
					var missing []string
					for _, w := range want[k] {
						if !hs[w] {
							missing = append(missing, w)
						}
					}
					if len(missing) == 0 {
						c.Pass(fk, "under-lock "+k, c.Pos(g.Pos()), "still under "+strings.Join(want[k], ", "))
						continue
					}
					c.Fail(fk, "under-lock "+k, c.Pos(where[k]), describeAccess(k)+" happens on the reference tree only while "+strings.Join(missing, ", ")+" is held (W: exclusively, R: at least shared); now there is an occurrence in this function where it is not – the lock is released earlier, taken later or weaker than before, so another goroutine can observe or change the state in between")
				}
			})
		}
	}
}

func describeAccess(k string) string {
	switch {
	case strings.HasPrefix(k, "W:"):
		return "a write of " + k[2:]
	case strings.HasPrefix(k, "R:"):
		return "a read of " + k[2:]
	}
	return "a call of " + k[2:]
}
