package main

import (
	"fmt"
	"go/ast"
	"go/token"
	"go/types"

	"golang.org/x/tools/go/ssa"
)

func init() {
	register(&Rule{
		ID: "R15.1", Props: []string{"C15", "C11"}, Engine: "table (composite-literal completeness)",
		Text:  "every composite literal, in package buffer, of a struct type that implements Buffer and has a digest.Digest field initialises that field (and the source field, when the type has one): the zero Digest panics on first use, and GetSizeBytes / WithTask / applyErrorHandler / CloneStream of these types all read it",
		Floor: 6, MustExist: true, Run: runR151,
	})
	register(&Rule{
		ID: "R15.2", Props: []string{"C15", "C11", "C16"}, Engine: "order (path automaton) + exhaustiveness",
		Text:  "the background task is always awaited: every method of the Buffer interface implemented by casBufferWithBackgroundTask either does not touch the wrapped buffer, or receives from the task's completion channel on every path after using it (also when the data operation failed), or returns a value built by one of the decorate* helpers, or hands the receiver itself on as the base of a new decorator; and in every function of the package the task's error is read only after a receive from the completion channel on that path (or after the reader was closed, which waits)",
		Floor: 14, MustExist: true, Run: runR152,
	})
	register(&Rule{
		ID: "R15.3", Props: []string{"C15", "C09", "C10", "C08"}, Engine: "lockstate (guarded-by) + guard (monotone flag)",
		Text:  "multiplexer state is guarded: casClonedBuffer.{consumersRemaining, consumersWaiting, needsValidation, maximumChunkSizeBytes} and multiplexedChunkReader.{pendingConsumers, waitingConsumers, r} are accessed only under the respective mutex, which is released on every exit and not held while blocking on a hand-off channel; the needs-validation flag of a clone group is only ever raised (a consumer that wants validation is never overridden by a later one that does not); unvalidated access to a clone is requested only from Discard and the toUnvalidated* methods",
		Floor: 12, MustExist: true, Run: runR153,
	})
	register(&Rule{
		ID: "R15.4", Props: []string{"C15"}, Engine: "guard",
		Text:  "hand-off cannot block and the source is closed by the last consumer only: channels appended to the waiting lists are created with capacity >= 1 in the same function; multiplexedChunkReader.Close closes the underlying reader only on the edge where no consumer is pending and none is waiting, and clears the field; validatedReaderBuffer closes its ReaderAt only when the clone count drops below zero",
		Floor: 4, MustExist: true, Run: runR154,
	})
}

func runR151(c *Ctx) {
	pkg := c.Pkg(bufferRel)
	bt := c.LookupType(bufferRel, "Buffer")
	dig := c.LookupType(digestRel, "Digest")
	if pkg == nil || bt == nil || dig == nil {
		c.Broken("package buffer / Buffer / digest.Digest not found")
		return
	}
	iface := bt.Underlying().(*types.Interface)
	n := 0
	for _, f := range pkg.Syntax {
		var fnName string
		ast.Inspect(f, func(node ast.Node) bool {
			if fd, ok := node.(*ast.FuncDecl); ok {
				fnName = fd.Name.Name
				if fd.Recv != nil && len(fd.Recv.List) > 0 {
					fnName = types.ExprString(fd.Recv.List[0].Type) + "." + fnName
				}
			}
			cl, ok := node.(*ast.CompositeLit)
			if !ok {
				return true
			}
			tv, ok := pkg.TypesInfo.Types[cl]
			if !ok {
				return true
			}
			nt, ok := tv.Type.(*types.Named)
			if !ok {
				return true
			}
			st, ok := nt.Underlying().(*types.Struct)
			if !ok {
				return true
			}
			if !types.Implements(nt, iface) && !types.Implements(types.NewPointer(nt), iface) {
				return true
			}
			need := map[string]bool{}
			for i := 0; i < st.NumFields(); i++ {
				fld := st.Field(i)
				if types.Identical(fld.Type(), dig) {
					need[fld.Name()] = true
				}
				if fld.Name() == "source" {
					need["source"] = true
				}
			}
			if len(need) == 0 || !need["digest"] && len(need) == 1 && need["source"] {
				if !need["digest"] {
					return true
				}
			}
			n++
			set := map[string]bool{}
			positional := len(cl.Elts) > 0
			for _, e := range cl.Elts {
				if kv, ok := e.(*ast.KeyValueExpr); ok {
					positional = false
					if id, ok := kv.Key.(*ast.Ident); ok {
						set[id.Name] = true
					}
				}
			}
			var missing []string
			if !(positional && len(cl.Elts) == st.NumFields()) {
				for k := range need {
					if !set[k] {
						missing = append(missing, k)
					}
				}
			}
			sortStrings(missing)
			c.Check(len(missing) == 0, fnName, "literal "+nt.Obj().Name(), c.Pos(cl.Pos()), "digest (and source) are initialised", fmt.Sprintf("a %s is created without initialising %v: size queries, WithTask, error handlers and further clones of this buffer would operate on the zero Digest and panic", nt.Obj().Name(), missing))
			return true
		})
	}
	if n == 0 {
		c.Fail("buffer", "literals", "-", "no literals of digest-carrying Buffer types found")
	}
}

func isCompletionRecv(ins ssa.Instruction) bool {
	u, ok := ins.(*ssa.UnOp)
	if !ok || u.Op != token.ARROW {
		return false
	}
	f, _ := loadedField(u.X)
	return f != nil && f.Name() == "completion"
}

// mustWaitFuncs: functions of the package on every path of which the task's
// completion channel is received from (directly or through another such
// function) – helpers a maintainer may extract the wait into.
var mustWaitMemo = map[*ssa.Function]int{} // 1 yes, 2 no, 3 in progress

func mustWait(fn *ssa.Function) bool {
	if fn == nil || len(fn.Blocks) == 0 {
		return false
	}
	switch mustWaitMemo[fn] {
	case 1:
		return true
	case 2, 3:
		return false
	}
	mustWaitMemo[fn] = 3
	ok := true
	rets := returnsOf(fn)
	if len(rets) == 0 {
		ok = false
	}
	for _, r := range rets {
		if entryReachesAvoiding(fn, r, waitsForTask) {
			ok = false
		}
	}
	if ok {
		mustWaitMemo[fn] = 1
	} else {
		mustWaitMemo[fn] = 2
	}
	return ok
}

func waitsForTask(ins ssa.Instruction) bool {
	if isCompletionRecv(ins) {
		return true
	}
	if _, isCall := ins.(*ssa.Call); !isCall {
		return false
	}
	if cc := callOf(ins); cc != nil {
		if callee := cc.StaticCallee(); callee != nil && callee.Pkg != nil && ins.Parent() != nil && callee.Pkg == topFunc(ins.Parent()).Pkg {
			return mustWait(callee)
		}
	}
	return false
}

func runR152(c *Ctx) {
	mustWaitMemo = map[*ssa.Function]int{}
	bt := c.LookupType(bufferRel, "Buffer")
	T := c.LookupType(bufferRel, "casBufferWithBackgroundTask")
	if bt == nil || T == nil {
		c.Broken("Buffer / casBufferWithBackgroundTask not found")
		return
	}
	iface := bt.Underlying().(*types.Interface)
	for i := 0; i < iface.NumMethods(); i++ {
		mname := iface.Method(i).Name()
		fn := c.Method(bufferRel, "casBufferWithBackgroundTask", mname)
		if fn == nil || fn.Blocks == nil {
			c.Fail("casBufferWithBackgroundTask", "method "+mname, c.Pos(T.Obj().Pos()), "casBufferWithBackgroundTask has no own implementation of Buffer."+mname+" (a promoted method would bypass the wait for the task)")
			continue
		}
		name := FuncName(fn)
		// uses of base
		var baseUses []*ssa.Call
		allInstrs(fn, func(ins ssa.Instruction) {
			if cl, ok := ins.(*ssa.Call); ok && cl.Call.IsInvoke() {
				if f, base := loadedField(cl.Call.Value); f != nil && f.Name() == "base" && base == ssa.Value(fn.Params[0]) {
					baseUses = append(baseUses, cl)
				}
			}
		})
		// the wrapped buffer must never leave the decorator bare
		escaped := false
		allInstrs(fn, func(ins ssa.Instruction) {
			v, ok := ins.(ssa.Value)
			if !ok || escaped {
				return
			}
			f, base := loadedField(v)
			if f == nil || f.Name() != "base" || !isReceiverValue(fn, base) || v.Referrers() == nil {
				return
			}
			for _, r := range *v.Referrers() {
				if _, isDbg := r.(*ssa.DebugRef); isDbg {
					continue
				}
				if cl, isCall := r.(*ssa.Call); isCall && cl.Call.IsInvoke() && cl.Call.Value == v {
					usedAsArg := false
					for _, a := range cl.Call.Args {
						if a == v {
							usedAsArg = true
						}
					}
					if !usedAsArg {
						continue
					}
				}
				escaped = true
				c.Fail(name, "awaits-task", c.Pos(r.Pos()), "the wrapped buffer (base) is handed on without this decorator: whoever consumes it neither waits for the background task nor sees its error – the buffer reports completion while the task (e.g. the replication into the other backend) is still running")
			}
		})
		if escaped {
			continue
		}
		if len(baseUses) == 0 {
			// (i) does not touch base, or (iv) hands the receiver on
			c.Pass(name, "awaits-task", c.Pos(fn.Pos()), "does not use the wrapped buffer directly")
			continue
		}
		bad := ""
		var badPos token.Pos
		for _, use := range baseUses {
			// (iii) result wrapped by a decorate* helper
			wrapped := false
			var visit func(v ssa.Value, depth int)
			visit = func(v ssa.Value, depth int) {
				if depth > 3 || v.Referrers() == nil {
					return
				}
				for _, r := range *v.Referrers() {
					switch x := r.(type) {
					case *ssa.Call:
						if callee := x.Call.StaticCallee(); callee != nil && len(callee.Name()) > 8 && callee.Name()[:8] == "decorate" {
							wrapped = true
						}
					case *ssa.Extract:
						visit(x, depth+1)
					}
				}
			}
			visit(use, 0)
			if wrapped {
				continue
			}
			// (ii) every path from the use to a return receives from completion
			for _, r := range returnsOf(fn) {
				if reachableAvoiding(use, r, waitsForTask) {
					bad, badPos = "a path from the use of the wrapped buffer ("+use.Call.Method.Name()+") to a return does not wait for the background task: the operation can report completion while the task is still running, and the task's error is lost", r.Pos()
				}
			}
		}
		if bad != "" {
			c.Fail(name, "awaits-task", c.Pos(badPos), bad)
		} else {
			c.Pass(name, "awaits-task", c.Pos(fn.Pos()), "waits for the task (or decorates the result) on every path after using the wrapped buffer")
		}
	}
	// the task's error is read only after waiting
	for _, f := range c.pkgFuncs(bufferRel) {
		withAnon(f, func(g *ssa.Function) {
			allInstrs(g, func(ins ssa.Instruction) {
				v, ok := ins.(ssa.Value)
				if !ok {
					return
				}
				fld, base := loadedField(v)
				if fld == nil || fld.Name() != "err" {
					return
				}
				pt, ok := base.Type().Underlying().(*types.Pointer)
				if !ok {
					return
				}
				if nt, ok := pt.Elem().(*types.Named); !ok || nt.Obj().Name() != "backgroundTask" {
					return
				}
				// is there a path from entry to this load avoiding a wait?
				waits := func(i ssa.Instruction) bool {
					if waitsForTask(i) {
						return true
					}
					// r.Close() of the same receiver waits (chunkReaderWithBackgroundTask)
					if _, isDefer := i.(*ssa.Defer); isDefer {
						return false // runs at function exit, i.e. after the load
					}
					if cc := callOf(i); cc != nil && cc.StaticCallee() != nil && cc.StaticCallee().Name() == "Close" && len(cc.Args) > 0 && len(g.Params) > 0 && cc.Args[0] == ssa.Value(g.Params[0]) {
						return true
					}
					return false
				}
				unguarded := entryReachesAvoiding(g, ins, waits)
				if unguarded && g.Name() == "Read" {
					// chunkReaderWithBackgroundTask.Read: on the path where r.r is already nil, Close() has run (and waited) in an earlier call
					if dominatedByNilEdgeOrJoin(ins.Block(), "r") {
						c.Exception("chunkReaderWithBackgroundTask.Read", "when the wrapped reader field is already nil, Close() has run earlier and has waited for the task")
						unguarded = false
					}
				}
				c.Check(!unguarded, FuncName(g), "task-error-after-wait", c.Pos(ins.Pos()), "the task's error is read only after the task completed", "the background task's error is read before waiting for the task to complete: a failure of the task (e.g. a replication Put) can be missed, and the read races with the task's goroutine")
			})
		})
	}
}

// dominatedByNilEdgeOrJoin: every path to b either waited or came through the
// edge on which receiver field `field` is nil. Approximation: b is reachable
// from the nil edge of a test of that field, and every other predecessor path
// contains a wait (checked by the caller through entryReachesAvoiding with the
// nil edge treated as a wait).
func dominatedByNilEdgeOrJoin(b *ssa.BasicBlock, field string) bool {
	fn := b.Parent()
	// find the If testing the field against nil
	for _, blk := range fn.Blocks {
		if len(blk.Instrs) == 0 {
			continue
		}
		iff, ok := blk.Instrs[len(blk.Instrs)-1].(*ssa.If)
		if !ok {
			continue
		}
		x, nilWhenTrue, ok := nilTest(iff.Cond)
		if !ok {
			continue
		}
		f, _ := loadedField(x)
		if f == nil || f.Name() != field {
			continue
		}
		nilSucc := blk.Succs[1]
		nonNil := blk.Succs[0]
		if nilWhenTrue {
			nilSucc, nonNil = nonNil, nilSucc
		}
		// all paths from nonNil to b must wait
		waited := true
		seen := map[*ssa.BasicBlock]bool{}
		var rec func(x *ssa.BasicBlock, w bool)
		rec = func(x *ssa.BasicBlock, w bool) {
			if seen[x] && w {
				return
			}
			if x == b {
				if !w {
					waited = false
				}
				return
			}
			if seen[x] {
				return
			}
			seen[x] = true
			for _, i := range x.Instrs {
				if waitsForTask(i) {
					w = true
				}
				if _, isCall := i.(*ssa.Call); !isCall {
					continue // a deferred Close runs at function exit, after the load
				}
				if cc := callOf(i); cc != nil && cc.StaticCallee() != nil && cc.StaticCallee().Name() == "Close" {
					w = true
				}
			}
			for _, s := range x.Succs {
				rec(s, w)
			}
		}
		rec(nonNil, false)
		return waited && (nilSucc == b || blockReaches(nilSucc, b, nil))
	}
	return false
}

func runR153(c *Ctx) {
	for _, spec := range []struct {
		typ    string
		fields []string
	}{
		{"casClonedBuffer", []string{"consumersRemaining", "consumersWaiting", "needsValidation", "maximumChunkSizeBytes"}},
		{"multiplexedChunkReader", []string{"pendingConsumers", "waitingConsumers", "r"}},
	} {
		n := c.LookupType(bufferRel, spec.typ)
		if n == nil {
			c.Broken("buffer.%s not found", spec.typ)
			continue
		}
		lock := mutexField(n, "lock")
		if lock == nil {
			c.Broken("%s: mutex field not found", spec.typ)
			continue
		}
		var guards []LockGuard
		for _, f := range spec.fields {
			fv := structField(n, f)
			if fv == nil {
				c.Broken("%s.%s not found", spec.typ, f)
				continue
			}
			guards = append(guards, LockGuard{Name: spec.typ + "." + f, Field: fv, Req: 2, ReadReq: 2})
		}
		ls := &LockSpec{RuleID: c.rule.ID, Pkg: c.Pkg(bufferRel), Lock: lock, Guards: guards,
			InScope:          func(fd *ast.FuncDecl, recv *types.Named) bool { return recv != nil && recv.Obj() == n.Obj() },
			IsEntry:          entryPolicy(c.LookupType(bufferRel, "Buffer"), c.LookupType(bufferRel, "ChunkReader")),
			NoBlockWhileHeld: true,
		}
		la := newLockAnalysis(c.Program, ls)
		la.Run()
		la.Emit(c)
	}
	// needsValidation is monotone
	T := c.LookupType(bufferRel, "casClonedBuffer")
	if T != nil {
		nst := 0
		for _, fs := range fieldStoresIn(c.pkgFuncs(bufferRel), T, "needsValidation") {
			nst++
			ok := false
			if phi, isPhi := fs.st.Val.(*ssa.Phi); isPhi && len(phi.Edges) == 2 {
				// `old || new`: true when the old value is true
				for i, e := range phi.Edges {
					if isBoolConst(e, true) {
						pred := phi.Block().Preds[i]
						if len(pred.Instrs) > 0 {
							if iff, isIf := pred.Instrs[len(pred.Instrs)-1].(*ssa.If); isIf {
								if f, _ := loadedField(iff.Cond); f != nil && f.Name() == "needsValidation" && pred.Succs[0] == phi.Block() {
									ok = true
								}
							}
						}
					}
				}
			}
			c.Check(ok, FuncName(fs.fn), "needsValidation-monotone", c.Pos(fs.st.Pos()), "the flag is only ever raised (old || requested)", "a consumer's request for validation can be overridden by a later consumer that does not need it (the flag is assigned instead of or-ed): corrupted data could be handed to a reading clone without any error")
		}
		if nst == 0 {
			c.Fail("casClonedBuffer", "needsValidation-monotone", c.Pos(T.Obj().Pos()), "needsValidation is never set: clones are never validated")
		}
		// who asks for unvalidated access
		tcr := c.Method(bufferRel, "casClonedBuffer", "toChunkReader")
		for _, f := range c.pkgFuncs(bufferRel) {
			withAnon(f, func(g *ssa.Function) {
				allInstrs(g, func(ins ssa.Instruction) {
					cc := callOf(ins)
					if cc == nil || cc.StaticCallee() != tcr || tcr == nil {
						return
					}
					if isBoolConst(cc.Args[1], true) {
						c.PassTrivial(FuncName(g), "validated-access", c.Pos(ins.Pos()), "requests validation")
						return
					}
					okFn := g.Name() == "Discard" || g.Name() == "toUnvalidatedChunkReader" || g.Name() == "toUnvalidatedReader"
					c.Check(okFn && isBoolConst(cc.Args[1], false), FuncName(g), "validated-access", c.Pos(ins.Pos()), "unvalidated access only for Discard / toUnvalidated*", "a consuming operation of a stream clone asks for unvalidated data: the consumer could complete with content that does not match the digest")
				})
			})
		}
	}
}

func runR154(c *Ctx) {
	// channels appended to waiting lists have capacity >= 1
	n := 0
	for _, f := range c.pkgFuncs(bufferRel) {
		allInstrs(f, func(ins ssa.Instruction) {
			st, ok := ins.(*ssa.Store)
			if !ok {
				return
			}
			fld := fieldOf(st.Addr)
			if fld == nil || (fld.Name() != "consumersWaiting" && fld.Name() != "waitingConsumers") {
				return
			}
			cl, ok := st.Val.(*ssa.Call)
			if !ok {
				return
			}
			bi, ok := cl.Call.Value.(*ssa.Builtin)
			if !ok || bi.Name() != "append" {
				return
			}
			n++
			okCap := false
			deepSlice(f, cl.Call.Args[1], func(x ssa.Value) bool {
				if mk, ok := x.(*ssa.MakeChan); ok {
					if k, ok := constInt(mk.Size); ok && k >= 1 {
						okCap = true
					}
					return false
				}
				return true
			})
			c.Check(okCap, FuncName(f), "buffered-handoff", c.Pos(st.Pos()), "the hand-off channel is buffered, so the producer never blocks while holding the mutex", "an unbuffered hand-off channel is queued: the last consumer would block on the send while holding the mutex if the waiting consumer has gone away")
		})
	}
	if n < 2 {
		c.Fail("buffer", "buffered-handoff", "-", "expected the two waiting lists (clone group, multiplexed reader) to receive channels")
	}
	// multiplexedChunkReader.Close
	if cl := c.Method(bufferRel, "multiplexedChunkReader", "Close"); cl != nil {
		nclose := 0
		allInstrs(cl, func(ins ssa.Instruction) {
			cc := callOf(ins)
			if cc == nil || !cc.IsInvoke() || cc.Method.Name() != "Close" {
				return
			}
			if f, _ := loadedField(cc.Value); f == nil || f.Name() != "r" {
				return
			}
			nclose++
			noPending := dominatedByUpperBound(ins.Block(), func(x ssa.Value) bool {
				f, _ := loadedField(x)
				return f != nil && f.Name() == "pendingConsumers"
			}, 0)
			noWaiting := dominatedByUpperBound(ins.Block(), func(x ssa.Value) bool { return isLenOfField(x, "waitingConsumers") }, 0)
			cleared := true
			for _, r := range returnsOf(cl) {
				if reachableAvoiding(ins, r, func(i ssa.Instruction) bool {
					s, ok := i.(*ssa.Store)
					return ok && fieldOf(s.Addr) != nil && fieldOf(s.Addr).Name() == "r" && isNilConst(s.Val)
				}) {
					cleared = false
				}
			}
			c.Check(noPending && noWaiting && cleared, FuncName(cl), "last-closes", c.Pos(ins.Pos()), "the source is closed by the last consumer only, and forgotten afterwards", "the shared source can be closed while other consumers are still pending or waiting (or is not cleared after closing, allowing a second close)")
		})
		if nclose == 0 {
			c.Fail(FuncName(cl), "last-closes", c.Pos(cl.Pos()), "the shared source is never closed")
		}
	} else {
		c.Broken("multiplexedChunkReader.Close not found")
	}
	// validatedReaderBuffer: close on count < 0
	T := c.LookupType(bufferRel, "validatedReaderBuffer")
	if T != nil {
		nclose := 0
		for _, f := range c.pkgFuncs(bufferRel) {
			if o, ok := f.Object().(*types.Func); !ok || recvNamed(o) == nil || recvNamed(o).Obj() != T.Obj() {
				continue
			}
			allInstrs(f, func(ins ssa.Instruction) {
				cc := callOf(ins)
				if cc == nil || !cc.IsInvoke() || cc.Method.Name() != "Close" {
					return
				}
				nclose++
				ok := dominatedByUpperBound(ins.Block(), func(x ssa.Value) bool {
					cl, isC := x.(*ssa.Call)
					return isC && cl.Call.StaticCallee() != nil && cl.Call.StaticCallee().Name() == "Add"
				}, -1)
				c.Check(ok, FuncName(f), "count-closes", c.Pos(ins.Pos()), "the ReaderAt is closed only when the clone count drops below zero", "the shared ReaderAt can be closed while clones still reference it")
			})
		}
		if nclose == 0 {
			c.Fail("validatedReaderBuffer", "count-closes", c.Pos(T.Obj().Pos()), "the ReaderAt is never closed")
		}
	}
}
