package main

import (
	"encoding/json"
	"flag"
	"fmt"
	"os"
	"path/filepath"
	"runtime/debug"
	"sort"
	"strings"
	"time"
)

var allRules []*Rule

func register(r *Rule) { allRules = append(allRules, r) }

var thoroughConfigs = []BuildConfig{
	// darwin is left out: with the module versions pinned in this tree pkg/filesystem does not
	// type-check for darwin (unix.O_SEARCH undefined) – a property of the pinned tree, not of an edit.
	{"linux", "amd64"}, {"linux", "386"}, {"freebsd", "amd64"}, {"windows", "amd64"},
}

type runResult struct {
	obs     []Oblig
	broken  []string
	exUsed  map[string]string
	nfuncs  int
	npkgs   int
	configs []string
	perRule map[string]int
}

func runRules(repo string, rules []*Rule, cfgs []BuildConfig, whole bool, overlay map[string][]byte) (res *runResult) {
	res = &runResult{exUsed: map[string]string{}, perRule: map[string]int{}}
	for _, cfg := range cfgs {
		prog, err := LoadProgram(repo, cfg, whole, overlay)
		if err != nil {
			res.broken = append(res.broken, fmt.Sprintf("[%s] %v", cfg, err))
			continue
		}
		res.configs = append(res.configs, cfg.String())
		if len(prog.Funcs) > res.nfuncs {
			res.nfuncs = len(prog.Funcs)
		}
		n := 0
		for p := range prog.ByPath {
			if strings.HasPrefix(p, modPath) {
				n++
			}
		}
		if n > res.npkgs {
			res.npkgs = n
		}
		for _, r := range rules {
			c := &Ctx{Program: prog, rule: r}
			func() {
				defer func() {
					if e := recover(); e != nil {
						c.broken = append(c.broken, fmt.Sprintf("%s: panic: %v\n%s", r.ID, e, debug.Stack()))
					}
				}()
				r.Run(c)
			}()
			res.obs = append(res.obs, c.obs...)
			for _, b := range c.broken {
				res.broken = append(res.broken, fmt.Sprintf("[%s] %s", cfg, b))
			}
			for k, v := range c.exUsed {
				res.exUsed[k] = v
			}
			if cfg == cfgs[0] {
				res.perRule[r.ID] = len(c.obs)
				if len(c.obs) < r.Floor && len(c.broken) == 0 {
					if r.MustExist {
						res.obs = append(res.obs, Oblig{Rule: r.ID, Key: r.ID + "|floor", Pos: "-", OK: false, Nontrivial: true, Config: cfg.String(),
							Msg: fmt.Sprintf("mechanism site missing: rule found %d instances, %d were confirmed on the reference tree", len(c.obs), r.Floor)})
					}
				}
			}
		}
		prog = nil
		debug.FreeOSMemory()
	}
	// de-duplicate identical obligations across configs (keep failures)
	seen := map[string]int{}
	var out []Oblig
	for _, o := range res.obs {
		k := o.Key
		if i, ok := seen[k]; ok {
			if out[i].OK && !o.OK {
				out[i] = o
			}
			continue
		}
		seen[k] = len(out)
		out = append(out, o)
	}
	sortObligs(out)
	res.obs = out
	return res
}

func rulesFor(prop, tier string) []*Rule {
	var rs []*Rule
	for _, r := range allRules {
		if r.Thorough && tier != "thorough" {
			continue
		}
		for _, p := range r.Props {
			if p == prop {
				rs = append(rs, r)
				break
			}
		}
	}
	sort.SliceStable(rs, func(i, j int) bool { return ruleLess(rs[i].ID, rs[j].ID) })
	return rs
}

func ruleByID(id string) *Rule {
	for _, r := range allRules {
		if r.ID == id {
			return r
		}
	}
	return nil
}

func main() {
	repo := flag.String("repo", "/repo", "repository root")
	prop := flag.String("property", "", "property id (C01…C20)")
	tier := flag.String("tier", "quick", "quick|thorough")
	evidence := flag.String("evidence", "", "evidence file to write")
	known := flag.String("known", "/verif/known_findings.json", "known findings file")
	outDir := flag.String("out", "/verif/out", "violation report directory")
	mutant := flag.String("mutant", "", "mutant description (json): apply as overlay, run its rules, print verdict")
	mutantsDir := flag.String("mutants", "/verif/mutants", "directory with overlay mutants (thorough self-test)")
	list := flag.Bool("list", false, "list rules")
	genRef := flag.Bool("gen-reference", false, "(development) regenerate /verif/reference from the tree at -repo; never used by a check")
	explain := flag.String("explain", "", "pretty-print a violation report")
	verbose := flag.Bool("v", false, "print every obligation")
	seedFlag := flag.Int("seed", 0, "recorded only; nothing is random")
	flag.Parse()
	// go/packages resolves "go" through this process's PATH: /repo needs the 1.26.8 toolchain.
	os.Setenv("PATH", "/opt/veriftools/go1.26.8/bin:"+os.Getenv("PATH"))
	os.Unsetenv("GOWORK")

	if *list {
		for _, r := range allRules {
			fmt.Printf("%-7s %-20s floor=%d must=%v  %s\n", r.ID, strings.Join(r.Props, ","), r.Floor, r.MustExist, r.Text)
		}
		return
	}
	if *genRef {
		generatingReference = true
		if err := genClosureReference(*repo); err != nil {
			fmt.Fprintln(os.Stderr, err)
			os.Exit(2)
		}
		// struct layouts first: the other tables name fields through them
		if err := genStructReference(*repo); err != nil {
			fmt.Fprintln(os.Stderr, err)
			os.Exit(2)
		}
		if err := genSkipReference(*repo); err != nil {
			fmt.Fprintln(os.Stderr, err)
			os.Exit(2)
		}
		if err := genProvReference(*repo); err != nil {
			fmt.Fprintln(os.Stderr, err)
			os.Exit(2)
		}
		if err := genSilentReference(*repo); err != nil {
			fmt.Fprintln(os.Stderr, err)
			os.Exit(2)
		}
		if err := genLockReference(*repo); err != nil {
			fmt.Fprintln(os.Stderr, err)
			os.Exit(2)
		}
		if err := genImmutReference(*repo); err != nil {
			fmt.Fprintln(os.Stderr, err)
			os.Exit(2)
		}
		if err := genOrderReference(*repo); err != nil {
			fmt.Fprintln(os.Stderr, err)
			os.Exit(2)
		}
		if err := genDropReference(*repo); err != nil {
			fmt.Fprintln(os.Stderr, err)
			os.Exit(2)
		}
		fmt.Println("reference regenerated")
		return
	}
	if *explain != "" {
		b, err := os.ReadFile(*explain)
		if err != nil {
			fmt.Fprintln(os.Stderr, err)
			os.Exit(2)
		}
		os.Stdout.Write(b)
		return
	}
	abs, err := filepath.Abs(*repo)
	if err == nil {
		*repo = abs
	}
	if *mutant != "" {
		os.Exit(runMutant(*repo, *mutant, *verbose))
	}
	if *prop == "ALL" {
		// development aid: one load, every rule, no evidence; exit 1 on any failing obligation
		var rules []*Rule
		for _, r := range allRules {
			if !r.Thorough {
				rules = append(rules, r)
			}
		}
		res := runRules(*repo, rules, []BuildConfig{{"linux", "amd64"}}, false, nil)
		nfail := 0
		for _, o := range res.obs {
			if !o.OK {
				nfail++
				r := ruleByID(o.Rule)
				fmt.Printf("FAIL %s [%s] %s: %s\n", o.Rule, strings.Join(r.Props, ","), o.Pos, o.Msg)
			}
		}
		for _, b := range res.broken {
			fmt.Printf("BROKEN %s\n", b)
		}
		fmt.Printf("ALL: %d rules, %d obligations, %d failing, %d broken\n", len(rules), len(res.obs), nfail, len(res.broken))
		if nfail > 0 {
			os.Exit(1)
		}
		if len(res.broken) > 0 {
			os.Exit(2)
		}
		return
	}
	if *prop == "" {
		fmt.Fprintln(os.Stderr, "need -property")
		os.Exit(2)
	}
	start := time.Now()
	rules := rulesFor(*prop, *tier)
	if len(rules) == 0 {
		fmt.Fprintf(os.Stderr, "no rules registered for %s\n", *prop)
		os.Exit(2)
	}
	cfgs := []BuildConfig{{"linux", "amd64"}}
	if *tier == "thorough" {
		cfgs = thoroughConfigs
	}
	res := runRules(*repo, rules, cfgs, false, nil)
	kf, err := loadKnown(*known)
	if err != nil {
		fmt.Fprintf(os.Stderr, "known findings: %v\n", err)
		os.Exit(2)
	}
	os.RemoveAll(filepath.Join(*outDir, *prop))
	nviol, nknown, ndis, nnontriv := 0, 0, 0, 0
	var samples []any
	sampleCount := map[string]int{}
	for _, o := range res.obs {
		if *verbose {
			st := "ok  "
			if !o.OK {
				st = "FAIL"
			}
			fmt.Printf("  %s %s  %s  %s\n", st, o.Key, o.Pos, o.Msg)
		}
		if o.Nontrivial {
			nnontriv++
		}
		if o.OK {
			ndis++
			if sampleCount[o.Rule] < 3 {
				sampleCount[o.Rule]++
				samples = append(samples, map[string]any{"rule": o.Rule, "key": o.Key, "site": o.Pos, "verdict": "discharged", "why": o.Msg})
			}
			continue
		}
		if f := kf.match(*prop, o); f != nil {
			nknown++
			fmt.Printf("KNOWN-FINDING: property=%s %s [%s at %s]\n", *prop, f.WhatFails, o.Rule, o.Pos)
			samples = append(samples, map[string]any{"rule": o.Rule, "key": o.Key, "site": o.Pos, "verdict": "known-finding", "why": o.Msg})
			continue
		}
		nviol++
		path, werr := writeViolation(*outDir, *prop, ruleByID(o.Rule), o)
		if werr != nil {
			fmt.Fprintf(os.Stderr, "cannot write violation report: %v\n", werr)
		}
		fmt.Printf("%s: %s: %s\n", o.Pos, o.Rule, o.Msg)
		for _, s := range o.Path {
			fmt.Printf("    %s\n", s)
		}
		fmt.Printf("VIOLATION property=%s replay=%s\n", *prop, path)
		samples = append(samples, map[string]any{"rule": o.Rule, "key": o.Key, "site": o.Pos, "verdict": "VIOLATION", "why": o.Msg})
	}
	var ruleTexts []string
	var ruleStats []map[string]any
	for _, r := range rules {
		ruleTexts = append(ruleTexts, r.ID+" ["+r.Engine+"] "+r.Text)
		ruleStats = append(ruleStats, map[string]any{"rule": r.ID, "engine": r.Engine, "instances": res.perRule[r.ID], "floor": r.Floor, "must_exist": r.MustExist})
	}
	var exs []string
	for k, v := range res.exUsed {
		exs = append(exs, k+": "+v)
	}
	sort.Strings(exs)
	cov := map[string]any{
		"explanation": "Static analysis of /repo's current source (go/packages + go/types + go/ssa + go/cfg; nothing is executed). " +
			"Each rule below is applied to every construct it quantifies over; an obligation is one rule x construct. Rules: " + strings.Join(ruleTexts, " || "),
		"obligations":         len(res.obs),
		"discharged":          ndis,
		"known_findings":      nknown,
		"evaluations":         len(res.obs),
		"distinct_nontrivial": nnontriv,
		"rule":                "one case = one obligation (rule x construct, keyed by rule|function|callee-or-field|ordinal); non-trivial = discharging it needed a path, dominance, lock-state or data-flow argument rather than a mere presence test; keys are de-duplicated across build configurations",
		"samples":             samples,
		"rules":               ruleStats,
		"packages":            res.npkgs,
		"functions":           res.nfuncs,
		"build_configs":       res.configs,
		"exceptions_used":     exs,
		"checker_cmd":         "./run.sh " + *prop + " " + *tier,
		"trusted_base":        []string{"go/types, go/ssa, go/cfg of golang.org/x/tools v0.50.0", "Go 1.26.8 front end", "callee contract tables in /verif/checker (DESIGN 2.8)"},
		"exhaustive":          true,
	}
	if *tier == "thorough" {
		cov["selftest"] = runMutantSuite(*repo, *mutantsDir, *prop)
	}
	if len(res.broken) > 0 {
		cov["checker_broken"] = res.broken
	}
	ev := Evidence{PropertyID: *prop, Tier: *tier, Seed: *seedFlag, Level: "other", Coverage: cov,
		Assumptions: []string{
			"decides structural necessary conditions only (DESIGN.md section 4, 'Does not decide' per property)",
			"calls through interfaces are resolved to the interface method object; implementations outside the repository honour the documented contracts",
			"no unsafe/reflect tricks in the analysed packages",
		},
		WallS: time.Since(start).Seconds(), Violations: nviol}
	if *evidence != "" {
		os.MkdirAll(filepath.Dir(*evidence), 0o755)
		b, _ := json.MarshalIndent(ev, "", " ")
		if err := os.WriteFile(*evidence, append(b, '\n'), 0o644); err != nil {
			fmt.Fprintf(os.Stderr, "evidence: %v\n", err)
			os.Exit(2)
		}
	}
	fmt.Printf("%s %s: %d rules, %d obligations, %d discharged, %d known findings, %d violations, %d packages, %d functions, configs=%v, %.1fs\n",
		*prop, *tier, len(rules), len(res.obs), ndis, nknown, nviol, res.npkgs, res.nfuncs, res.configs, time.Since(start).Seconds())
	if len(res.broken) > 0 {
		for _, b := range res.broken {
			fmt.Fprintf(os.Stderr, "CHECKER-BROKEN: %s\n", b)
		}
		if nviol > 0 {
			os.Exit(1)
		}
		os.Exit(2)
	}
	if nviol > 0 {
		os.Exit(1)
	}
}
