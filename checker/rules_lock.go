package main

import (
	"go/ast"
	"go/types"
)

const localRel = "pkg/blobstore/local"

func structField(n *types.Named, name string) *types.Var {
	if n == nil {
		return nil
	}
	st, ok := n.Underlying().(*types.Struct)
	if !ok {
		return nil
	}
	for i := 0; i < st.NumFields(); i++ {
		// `name` is the field's name on the reference tree
		if _, n := canonField(n, i); n == name {
			return st.Field(i)
		}
	}
	return nil
}

// mutexField finds the mutex of a struct: the field called `preferred` if it
// exists and is a mutex, otherwise the only field of type sync.Mutex /
// sync.RWMutex (or pointer to one). Renaming the field does not matter then.
func mutexField(n *types.Named, preferred string) *types.Var {
	if n == nil {
		return nil
	}
	st, ok := n.Underlying().(*types.Struct)
	if !ok {
		return nil
	}
	isMutex := func(t types.Type) bool {
		if p, ok := t.(*types.Pointer); ok {
			t = p.Elem()
		}
		nt, ok := t.(*types.Named)
		return ok && nt.Obj().Pkg() != nil && nt.Obj().Pkg().Path() == "sync" && (nt.Obj().Name() == "Mutex" || nt.Obj().Name() == "RWMutex")
	}
	var found []*types.Var
	for i := 0; i < st.NumFields(); i++ {
		f := st.Field(i)
		if isMutex(f.Type()) {
			if f.Name() == preferred {
				return f
			}
			found = append(found, f)
		}
	}
	if len(found) == 1 {
		return found[0]
	}
	return nil
}

// fieldsOfKind: fields of the struct whose underlying type satisfies pred.
func fieldsWhere(n *types.Named, pred func(f *types.Var) bool) []*types.Var {
	var out []*types.Var
	if st, ok := n.Underlying().(*types.Struct); ok {
		for i := 0; i < st.NumFields(); i++ {
			if pred(st.Field(i)) {
				out = append(out, st.Field(i))
			}
		}
	}
	return out
}

// isInterfaceOrExported: entry points are exported methods and methods that
// implement one of the given interfaces; other methods are helpers whose
// lock preconditions are checked at their call sites.
func entryPolicy(ifaces ...*types.Named) func(fd *ast.FuncDecl) bool {
	names := map[string]bool{}
	for _, n := range ifaces {
		if n == nil {
			continue
		}
		if it, ok := n.Underlying().(*types.Interface); ok {
			for i := 0; i < it.NumMethods(); i++ {
				names[it.Method(i).Name()] = true
			}
		}
	}
	return func(fd *ast.FuncDecl) bool { return fd.Name.IsExported() || names[fd.Name.Name] }
}

// localStoreLockSpec builds the table of R01.2/R01.3/R01.4 for one of the two
// local stores.
func localStoreLockSpec(c *Ctx, typ string) *LockSpec {
	n := c.LookupType(localRel, typ)
	if n == nil {
		c.Broken("type local.%s not found", typ)
		return nil
	}
	lock := structField(n, "lock")
	if lock == nil {
		c.Broken("local.%s has no field 'lock'", typ)
		return nil
	}
	klmGet, klmPut := c.IfaceMethod(localRel, "KeyLocationMap", "Get"), c.IfaceMethod(localRel, "KeyLocationMap", "Put")
	lbmGet, lbmPut := c.IfaceMethod(localRel, "LocationBlobMap", "Get"), c.IfaceMethod(localRel, "LocationBlobMap", "Put")
	getterT, finT, locT := c.LookupType(localRel, "LocationBlobGetter"), c.LookupType(localRel, "LocationBlobPutFinalizer"), c.LookupType(localRel, "Location")
	if klmGet == nil || klmPut == nil || lbmGet == nil || lbmPut == nil || getterT == nil || finT == nil || locT == nil {
		c.Broken("KeyLocationMap / LocationBlobMap / LocationBlobGetter / LocationBlobPutFinalizer / Location not found in package local")
		return nil
	}
	return &LockSpec{
		RuleID: c.rule.ID, Pkg: c.Pkg(localRel), Lock: lock,
		Guards: []LockGuard{
			{Name: "KeyLocationMap.Get", Req: 1, CallOf: klmGet},
			{Name: "KeyLocationMap.Put", Req: 2, CallOf: klmPut},
			{Name: "LocationBlobMap.Get", Req: 1, CallOf: lbmGet},
			{Name: "LocationBlobMap.Put", Req: 2, CallOf: lbmPut, Invalidat: true},
			{Name: "invocation of a LocationBlobGetter", Req: 1, InvokeOf: getterT},
			{Name: "invocation of a LocationBlobPutFinalizer", Req: 2, InvokeOf: finT, Invalidat: true},
		},
		InScope:      func(fd *ast.FuncDecl, recv *types.Named) bool { return recv != nil && recv.Obj() == n.Obj() },
		IsEntry:      func(fd *ast.FuncDecl) bool { return fd.Name.IsExported() },
		StaleTypes:   []types.Type{locT, getterT},
		StaleExemptF: map[string]bool{"SizeBytes": true},
		InvokeStale:  map[types.Type]bool{getterT: true},
	}
}

func init() {
	register(&Rule{
		ID: "R01.2", Props: []string{"C01", "C03", "C05", "C08", "C10"}, Engine: "lockstate (go/cfg lockset dataflow with helper preconditions)",
		Text: "in flatBlobAccess and hierarchicalCASBlobAccess: KeyLocationMap.Get, LocationBlobMap.Get and invoking a LocationBlobGetter need the store lock in read or write mode; KeyLocationMap.Put, LocationBlobMap.Put and invoking a LocationBlobPutFinalizer need it in write mode; the lock is released on every exit; helpers that rely on the caller's lock get an entry precondition that every call site must satisfy (so finalizer + index update happen in one uninterrupted write hold); " +
			"a Location (BlockIndex/OffsetBytes) or LocationBlobGetter obtained during one hold is not used after the lock was released (block indices shift on rotation), nor a getter after LocationBlobMap.Put / a finalizer ran",
		Floor: 60, MustExist: true,
		Run: func(c *Ctx) {
			for _, typ := range []string{"flatBlobAccess", "hierarchicalCASBlobAccess"} {
				spec := localStoreLockSpec(c, typ)
				if spec == nil {
					continue
				}
				la := newLockAnalysis(c.Program, spec)
				la.Run()
				la.Emit(c)
			}
		},
	})
}

// ---------------------------------------------------------------------------
// PeriodicSyncer: two locks.

func periodicSyncerSpecs(c *Ctx) []*LockSpec {
	n := c.LookupType(localRel, "PeriodicSyncer")
	if n == nil {
		c.Broken("type local.PeriodicSyncer not found")
		return nil
	}
	srcLock, storeLock := structField(n, "sourceLock"), structField(n, "storeLock")
	if srcLock == nil || storeLock == nil {
		c.Broken("PeriodicSyncer.sourceLock / storeLock not found")
		return nil
	}
	m := func(name string) *types.Func {
		f := c.IfaceMethod(localRel, "PersistentStateSource", name)
		if f == nil {
			c.Broken("PersistentStateSource.%s not found", name)
		}
		return f
	}
	wps := c.IfaceMethod(localRel, "PersistentStateStore", "WritePersistentState")
	if wps == nil {
		c.Broken("PersistentStateStore.WritePersistentState not found")
		return nil
	}
	inScope := func(fd *ast.FuncDecl, recv *types.Named) bool { return recv != nil && recv.Obj() == n.Obj() }
	isEntry := func(fd *ast.FuncDecl) bool { return fd.Name.IsExported() }
	source := &LockSpec{
		RuleID: c.rule.ID, Pkg: c.Pkg(localRel), Lock: srcLock, InScope: inScope, IsEntry: isEntry, NoBlockWhileHeld: true,
		Guards: []LockGuard{
			{Name: "PersistentStateSource.GetBlockReleaseWakeup", Req: 1, CallOf: m("GetBlockReleaseWakeup")},
			{Name: "PersistentStateSource.GetBlockPutWakeup", Req: 1, CallOf: m("GetBlockPutWakeup")},
			{Name: "PersistentStateSource.GetPersistentState", Req: 1, CallOf: m("GetPersistentState")},
			{Name: "PersistentStateSource.NotifySyncStarting", Req: 2, CallOf: m("NotifySyncStarting")},
			{Name: "PersistentStateSource.NotifySyncCompleted", Req: 2, CallOf: m("NotifySyncCompleted")},
			{Name: "PersistentStateSource.NotifyPersistentStateWritten", Req: 2, CallOf: m("NotifyPersistentStateWritten")},
		},
	}
	store := &LockSpec{
		RuleID: c.rule.ID, Pkg: c.Pkg(localRel), Lock: storeLock, InScope: inScope, IsEntry: isEntry,
		Guards: []LockGuard{
			{Name: "PersistentStateSource.GetPersistentState (snapshot)", Req: 2, CallOf: m("GetPersistentState")},
			{Name: "PersistentStateStore.WritePersistentState", Req: 2, CallOf: wps},
			{Name: "PersistentStateSource.NotifyPersistentStateWritten (acknowledge)", Req: 2, CallOf: m("NotifyPersistentStateWritten")},
		},
	}
	return []*LockSpec{source, store}
}

func init() {
	register(&Rule{
		ID: "R02.3", Props: []string{"C02", "C04", "C07", "C03"}, Engine: "lockstate",
		Text:  "PeriodicSyncer: snapshot (GetPersistentState), state-file write and acknowledgement (NotifyPersistentStateWritten) happen under one hold of storeLock, which is released on every exit (also when the write fails); the PersistentStateSource methods are called with the block-list lock in the mode their interface comments demand (read for the wake-up channels and the snapshot, write for the three notifications); the block-list lock is never held while blocking on a channel; helper preconditions (notifyAndSyncDataLocked is entered and left with the write lock) hold at every call site",
		Floor: 12, MustExist: true,
		Run: func(c *Ctx) {
			for _, spec := range periodicSyncerSpecs(c) {
				la := newLockAnalysis(c.Program, spec)
				la.Run()
				la.Emit(c)
			}
		},
	})
}
