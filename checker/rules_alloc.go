package main

import (
	"fmt"
	"go/ast"
	"go/token"
	"go/types"

	"golang.org/x/tools/go/ssa"
)

// Rules about the block-device backed allocator (C01, C04).

func recvIn(names ...string) func(fd *ast.FuncDecl, recv *types.Named) bool {
	return func(fd *ast.FuncDecl, recv *types.Named) bool {
		if recv == nil {
			return false
		}
		for _, n := range names {
			if recv.Obj().Name() == n {
				return true
			}
		}
		return false
	}
}

func init() {
	register(&Rule{
		ID: "R01.5", Props: []string{"C01"}, Engine: "lockstate (guarded-by)",
		Text:  "the in-memory image of a sector shared by two adjacent objects (sharedSector.data) is read and written – including the BlockDevice.WriteAt that persists it – only while that sector's mutex is held, and the mutex is released on every exit",
		Floor: 5, MustExist: true,
		Run: func(c *Ctx) {
			n := c.LookupType(localRel, "sharedSector")
			if n == nil {
				c.Broken("local.sharedSector not found")
				return
			}
			lock, data := mutexField(n, "lock"), structField(n, "data")
			if lock == nil || data == nil {
				c.Broken("sharedSector.lock / data not found")
				return
			}
			spec := &LockSpec{RuleID: c.rule.ID, Pkg: c.Pkg(localRel), Lock: lock,
				Guards:  []LockGuard{{Name: "sharedSector.data", Field: data, Req: 2, ReadReq: 2}},
				InScope: recvIn("blockDeviceBackedBlockWriter", "blockDeviceBackedBlock", "blockDeviceBackedBlockAllocator"),
				IsEntry: func(fd *ast.FuncDecl) bool { return fd.Name.IsExported() },
			}
			la := newLockAnalysis(c.Program, spec)
			la.Run()
			la.Emit(c)
		},
	})
	register(&Rule{
		ID: "R04.4", Props: []string{"C04"}, Engine: "lockstate (guarded-by) + guard",
		Text:  "the allocator's free list is touched only under the allocator's mutex; a block's region is put back on the free list only in blockDeviceBackedBlock.Release on the edge where the use count dropped to exactly zero",
		Floor: 6, MustExist: true,
		Run: runR044,
	})
	register(&Rule{
		ID: "R04.3", Props: []string{"C04", "C01", "C07"}, Engine: "order (path automaton) + flow",
		Text:  "use-count pairing: blockDeviceBackedBlock.Put takes one reference and the writer it returns drops exactly one on every path (also when ingesting or flushing fails); blockDeviceBackedBlock.Get takes one reference and hands the block to a blockDeviceBackedBlockReader, whose Close drops exactly one and clears its field",
		Floor: 4, MustExist: true,
		Run: runR043,
	})
}

func runR044(c *Ctx) {
	n := c.LookupType(localRel, "blockDeviceBackedBlockAllocator")
	if n == nil {
		c.Broken("blockDeviceBackedBlockAllocator not found")
		return
	}
	lock, free := mutexField(n, "lock"), structField(n, "freeOffsets")
	if free == nil {
		c.Broken("allocator free list (freeOffsets) not found")
		return
	}
	if lock == nil {
		// Release() is reached from the Close of a reader and from the unlocked copy phase of an upload –
		// without the store lock; a free list without a mutex of the allocator's own is unprotected there
		c.Fail("blockDeviceBackedBlockAllocator", "free-list lock", c.Pos(n.Obj().Pos()), "the allocator has no mutex of its own: its free list is appended to by blockDeviceBackedBlock.Release (called when a reader is closed or an upload finishes, without the store lock) while NewBlock / NewBlockAtLocation take regions from it – a region can be handed out twice or lost")
		return
	}
	spec := &LockSpec{RuleID: c.rule.ID, Pkg: c.Pkg(localRel), Lock: lock,
		Guards:  []LockGuard{{Name: "freeOffsets", Field: free, Req: 2, ReadReq: 2}},
		InScope: recvIn("blockDeviceBackedBlockWriter", "blockDeviceBackedBlock", "blockDeviceBackedBlockAllocator", "blockDeviceBackedBlockReader"),
		IsEntry: func(fd *ast.FuncDecl) bool { return fd.Name.IsExported() },
	}
	la := newLockAnalysis(c.Program, spec)
	la.Run()
	la.Emit(c)
	// appends outside the constructor
	ctor := c.Func(localRel, "NewBlockDeviceBackedBlockAllocator")
	na := 0
	for _, fs := range fieldStoresIn(c.pkgFuncs(localRel), n, "freeOffsets") {
		cl, ok := fs.st.Val.(*ssa.Call)
		if !ok {
			continue
		}
		if b, isB := cl.Call.Value.(*ssa.Builtin); !isB || b.Name() != "append" {
			continue
		}
		if topFunc(fs.fn) == ctor {
			continue
		}
		na++
		name := FuncName(fs.fn)
		okFn := fs.fn.Name() == "Release" && recvNamed(fs.fn.Object().(*types.Func)) != nil && recvNamed(fs.fn.Object().(*types.Func)).Obj().Name() == "blockDeviceBackedBlock"
		// on the edge usecount.Add(-1) == 0
		okEdge := dominatedByCmp(fs.st.Block(), func(op token.Token, x, y ssa.Value) bool {
			k, isK := constInt(y)
			if op != token.EQL || !isK || k != 0 {
				return false
			}
			cl, isC := x.(*ssa.Call)
			if !isC || cl.Call.StaticCallee() == nil || cl.Call.StaticCallee().Name() != "Add" {
				return false
			}
			d, isD := constInt(cl.Call.Args[len(cl.Call.Args)-1])
			return isD && d == -1
		})
		c.Check(okFn && okEdge, name, "free-list append", c.Pos(fs.st.Pos()), "region returned to the free list only when the use count reached zero", "a block's region is put on the free list although readers or writers may still hold references (not on the `usecount.Add(-1) == 0` edge of blockDeviceBackedBlock.Release)")
	}
	if na == 0 {
		c.Fail("blockDeviceBackedBlock.Release", "free-list append", c.Pos(ctor.Pos()), "released blocks never return to the free list (capacity leak)")
	}
}

func isUsecountAdd(ins ssa.Instruction, delta int64) bool {
	cc := callOf(ins)
	if cc == nil || cc.StaticCallee() == nil || cc.StaticCallee().Name() != "Add" || len(cc.Args) != 2 {
		return false
	}
	fa, ok := cc.Args[0].(*ssa.FieldAddr)
	if !ok || fieldOf(fa) == nil || fieldOf(fa).Name() != "usecount" {
		return false
	}
	d, ok := constInt(cc.Args[1])
	return ok && d == delta
}

func runR043(c *Ctx) {
	blk := c.LookupType(localRel, "blockDeviceBackedBlock")
	if blk == nil {
		c.Broken("blockDeviceBackedBlock not found")
		return
	}
	release := c.Method(localRel, "blockDeviceBackedBlock", "Release")
	put := c.Method(localRel, "blockDeviceBackedBlock", "Put")
	get := c.Method(localRel, "blockDeviceBackedBlock", "Get")
	rclose := c.Method(localRel, "blockDeviceBackedBlockReader", "Close")
	if release == nil || put == nil || get == nil || rclose == nil {
		c.Broken("blockDeviceBackedBlock.{Release,Put,Get} / blockDeviceBackedBlockReader.Close not found")
		return
	}
	countReleases := func(fn *ssa.Function) (min, max int, badPos token.Pos) {
		min, max = 1<<30, -1
		explorePaths(&pathSpec{Fn: fn, Init: 0,
			Step: func(st int, ev pathEvent) int {
				if ev.Ins != nil {
					if cc := callOf(ev.Ins); cc != nil && cc.StaticCallee() == release {
						if st < 3 {
							return st + 1
						}
					}
				}
				return st
			},
			AtReturn: func(st int, r *ssa.Return, _ map[int]bool) {
				if st < min {
					min = st
					if st == 0 {
						badPos = r.Pos()
					}
				}
				if st > max {
					max = st
					if st > 1 {
						badPos = r.Pos()
					}
				}
			}})
		return
	}
	// Put: one Add(1), writer closure releases exactly once on every path
	nAdd := 0
	allInstrs(put, func(ins ssa.Instruction) {
		if isUsecountAdd(ins, 1) {
			nAdd++
		}
	})
	c.Check(nAdd == 1, FuncName(put), "take-reference", c.Pos(put.Pos()), "Put takes exactly one reference for the in-flight writer", fmt.Sprintf("Put takes %d references for the in-flight writer (expected 1)", nAdd))
	bufT := c.LookupType(bufferRel, "Buffer")
	nw := 0
	for _, a := range put.AnonFuncs {
		if a.Signature.Params().Len() == 1 && types.Identical(a.Signature.Params().At(0).Type(), bufT) {
			nw++
			min, max, pos := countReleases(a)
			ok := min == 1 && max == 1
			if !pos.IsValid() {
				pos = a.Pos()
			}
			c.Check(ok, FuncName(a), "drop-reference", c.Pos(pos), "the writer drops its reference exactly once on every path", fmt.Sprintf("the writer returned by Put drops its reference between %d and %d times depending on the path: a failed upload would pin the block forever (or release it twice)", min, max))
		}
	}
	if nw == 0 {
		c.Fail(FuncName(put), "drop-reference", c.Pos(put.Pos()), "no writer closure found")
	}
	// Get: Add(1) and a reader owning the block
	nAdd = 0
	hands := false
	allInstrs(get, func(ins ssa.Instruction) {
		if isUsecountAdd(ins, 1) {
			nAdd++
		}
		if st, ok := ins.(*ssa.Store); ok {
			if f := fieldOf(st.Addr); f != nil && f.Name() == "block" && st.Val == ssa.Value(get.Params[0]) {
				hands = true
			}
		}
	})
	c.Check(nAdd == 1 && hands, FuncName(get), "take-reference", c.Pos(get.Pos()), "Get takes one reference and hands the block to the reader that will drop it", "Get does not take exactly one reference or does not hand the block to a blockDeviceBackedBlockReader")
	// … on every path: once the reference is taken, no return is reached without the block having been
	// handed to a reader (or the reference having been dropped again)
	isHandOff := func(ins ssa.Instruction) bool {
		if st, ok := ins.(*ssa.Store); ok {
			if f := fieldOf(st.Addr); f != nil && f.Name() == "block" && st.Val == ssa.Value(get.Params[0]) {
				return true
			}
		}
		if cc := callOf(ins); cc != nil && cc.StaticCallee() != nil && cc.StaticCallee().Name() == "Release" {
			return true
		}
		return false
	}
	var leakAt *ssa.Return
	allInstrs(get, func(ins ssa.Instruction) {
		if !isUsecountAdd(ins, 1) {
			return
		}
		for _, r := range returnsOf(get) {
			if leakAt == nil && reachableAvoiding(ins, r, isHandOff) {
				leakAt = r
			}
		}
	})
	if leakAt != nil {
		c.Fail(FuncName(get), "take-reference-paths", c.Pos(leakAt.Pos()), "a path returns after the reader's reference was taken without handing the block to a blockDeviceBackedBlockReader (whose Close drops the reference) and without releasing it: the use count never returns to zero and the block's region never goes back to the free list")
	} else if nAdd == 1 {
		c.Pass(FuncName(get), "take-reference-paths", c.Pos(get.Pos()), "every path that took the reference hands the block to a reader")
	}
	// Reader.Close releases exactly once and clears the field
	relCalls, clears := 0, false
	min, max := 1<<30, -1
	explorePaths(&pathSpec{Fn: rclose, Init: 0,
		Step: func(st int, ev pathEvent) int {
			if ev.Ins != nil {
				if cc := callOf(ev.Ins); cc != nil && cc.StaticCallee() == release {
					relCalls++
					return st + 1
				}
				if s, ok := ev.Ins.(*ssa.Store); ok {
					if f := fieldOf(s.Addr); f != nil && f.Name() == "block" && isNilConst(s.Val) {
						clears = true
					}
				}
			}
			return st
		},
		AtReturn: func(st int, r *ssa.Return, _ map[int]bool) {
			if st < min {
				min = st
			}
			if st > max {
				max = st
			}
		}})
	c.Check(min == 1 && max == 1 && clears, FuncName(rclose), "drop-reference", c.Pos(rclose.Pos()), "Close drops the reader's reference exactly once and clears the field", "blockDeviceBackedBlockReader.Close does not drop exactly one reference on every path (or keeps the block reachable)")
}

func init() {
	register(&Rule{
		ID: "R01.8", Props: []string{"C01"}, Engine: "flow (sibling agreement of slices)",
		Text:  "the capacity test and the placement agree on the state they depend on: every field that determines where blockDeviceBackedBlock.Put places an object (the backward slice of the offset its finalizer reports: sector cursor, shared-sector fill, sector size) is also in the backward slice of HasSpace's verdict; and no writer handed to Buffer.IntoWriter in package local is a bytes.Buffer over block storage (a write into a block must be bounded and must never reallocate)",
		Floor: 2, MustExist: true,
		Run: runR018,
	})
}

func fieldsInSlice(fn *ssa.Function, v ssa.Value) map[string]bool {
	out := map[string]bool{}
	deepSlice(fn, v, func(x ssa.Value) bool {
		if f, _ := loadedField(x); f != nil {
			out[f.Name()] = true
			return true
		}
		if fl, ok := x.(*ssa.Field); ok {
			out[fieldOf(fl).Name()] = true
			return true
		}
		if cl, ok := x.(*ssa.Call); ok {
			if _, isB := cl.Call.Value.(*ssa.Builtin); isB {
				return true
			}
			return false
		}
		return true
	})
	return out
}

func runR018(c *Ctx) {
	put := c.Method(localRel, "blockDeviceBackedBlock", "Put")
	has := c.Method(localRel, "blockDeviceBackedBlock", "HasSpace")
	if put == nil || has == nil {
		c.Broken("blockDeviceBackedBlock.Put / HasSpace not found")
		return
	}
	// the offset reported by the finalizer: a captured variable; take what is stored into it in Put
	placement := map[string]bool{}
	for _, fin := range closureWithResults(put, "int64", "error") {
		for _, r := range returnsOf(fin) {
			v := r.Results[0]
			if u, ok := v.(*ssa.UnOp); ok && u.Op == token.MUL {
				if fv, ok := u.X.(*ssa.FreeVar); ok {
					// resolve through the closure chain to the Alloc in Put
					name := fv.Name()
					allInstrs(put, func(ins ssa.Instruction) {
						if al, ok := ins.(*ssa.Alloc); ok && al.Comment == name {
							for _, s := range cellStores(al) {
								for k := range fieldsInSlice(put, s) {
									placement[k] = true
								}
							}
						}
					})
				}
			}
		}
	}
	if len(placement) == 0 {
		c.Fail(FuncName(put), "placement-slice", c.Pos(put.Pos()), "cannot determine what the placement offset depends on")
		return
	}
	verdict := map[string]bool{}
	for _, r := range returnsOf(has) {
		for k := range fieldsInSlice(has, r.Results[0]) {
			verdict[k] = true
		}
	}
	var missing []string
	for k := range placement {
		if k == "blockAllocator" {
			continue
		}
		if !verdict[k] {
			missing = append(missing, k)
		}
	}
	sortStrings(missing)
	c.Check(len(missing) == 0, FuncName(has), "agrees-with-Put", c.Pos(has.Pos()),
		fmt.Sprintf("HasSpace takes into account everything the placement depends on (%d fields)", len(placement)),
		fmt.Sprintf("HasSpace ignores %v, which determine where Put places the object: an object can be accepted although it does not fit (it would spill into the next block)", missing))
	// writers given to IntoWriter
	bufT := c.LookupType(bufferRel, "Buffer")
	n := 0
	for _, f := range c.pkgFuncs(localRel) {
		withAnon(f, func(g *ssa.Function) {
			allInstrs(g, func(ins ssa.Instruction) {
				cc := callOf(ins)
				if cc == nil || !cc.IsInvoke() || cc.Method.Name() != "IntoWriter" || !types.Identical(cc.Value.Type(), bufT) {
					return
				}
				n++
				w := cc.Args[0]
				if mi, ok := w.(*ssa.MakeInterface); ok {
					t := mi.X.Type()
					if p, ok := t.(*types.Pointer); ok {
						t = p.Elem()
					}
					if nt, ok := t.(*types.Named); ok && nt.Obj().Pkg() != nil && nt.Obj().Pkg().Path() == modPath+"/"+localRel {
						c.Pass(FuncName(g), "IntoWriter-writer", c.Pos(ins.Pos()), "writer type "+nt.Obj().Name()+" is declared in package local")
						return
					}
					c.Fail(FuncName(g), "IntoWriter-writer", c.Pos(ins.Pos()), "block data is ingested through a writer of type "+types.TypeString(mi.X.Type(), nil)+" that is not a bounded writer of package local (e.g. bytes.Buffer reallocates instead of failing when the region is exhausted)")
					return
				}
				if u, ok := w.(*ssa.UnOp); ok {
					if gl, ok := u.X.(*ssa.Global); ok && gl.Pkg.Pkg.Path() == "io" && gl.Name() == "Discard" {
						c.PassTrivial(FuncName(g), "IntoWriter-writer", c.Pos(ins.Pos()), "io.Discard")
						return
					}
				}
				c.Fail(FuncName(g), "IntoWriter-writer", c.Pos(ins.Pos()), "cannot determine the writer's type")
			})
		})
	}
	if n == 0 {
		c.Fail("local", "IntoWriter-writer", c.Pos(put.Pos()), "no IntoWriter call found in package local")
	}
}
