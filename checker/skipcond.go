package main

import (
	"encoding/json"
	"fmt"
	"go/token"
	"go/types"
	"os"
	"path/filepath"
	"sort"
	"strings"

	"golang.org/x/tools/go/ssa"
)

// ---------------------------------------------------------------------------
// "No new way around a backend call."
//
// For every call through one of the module's own interfaces (BlobAccess,
// BlobReplicator, Authorizer, KeyLocationMap, LocationBlobMap, BlockList, …)
// the *kinds* of branch conditions that dominate the call are computed
// (error-nil test, loop bound, NOT_FOUND test, length/size comparison, boolean
// helper such as Empty()/IsOlder(), …).  The kinds found on the reference tree
// (the pinned tree with the fix: commits; /verif/reference/skipconds.json,
// generated once with `bbcheck -gen-reference` and committed) are the
// reference through time: a site that exists in both trees may not be guarded
// by a kind of condition that did not guard it before, apart from error tests
// and loop bounds.  This is what a "fast path" or "optimisation" that skips a
// step looks like (size == 0, len == 1, Empty(), a cached flag); equivalent
// rewrites keep the kinds (polarity, operand order, if/switch form and loop
// form do not matter; a call moved into another function is a different site
// and is not judged).

type skipRef struct {
	Note  string              `json:"note"`
	Sites map[string][]string `json:"sites"`
	// Defined: the functions the reference tree defines (a callee that is not among them is a new helper)
	Defined []string `json:"defined"`
	// Vocab: per function the kinds (without sides) of all its branch conditions
	Vocab map[string][]string `json:"vocab"`
}

var skipGroups = groupsOf([][]string{
	{"R01.11", "local"},
	{"R09.7", "buffer"},
	{"R11.7", "mirrored"},
	{"R12.9", "sharding"},
	{"R13.7", "completeness"},
	{"R14.8", "grpc"},
	{"R17.7", "replication"},
	{"R18.8", "top"},
	{"R20.14", "digest"},
	{"R02.12", "config"},
})

func init() {
	for i := range skipGroups {
		g := skipGroups[i]
		register(&Rule{
			ID: g.rule, Props: g.props, Engine: "condition-kind drift against the reference tree (SSA dominance)",
			Text:  "no new way around a step (" + strings.Join(g.pkgs, ", ") + "): every step – a call through an interface of the module or of a dependency (backends, replicators, authorizers, index and block-list operations, gRPC streams), a call of a function of the module that is not a getter, a store to a struct field, an append, a map update, a channel send or close, and every construction of an error (a rejection) – that exists on the reference tree at the same site (function, kind of step, position among the steps of that kind; by kind alone when their number changed) is dominated only by the kinds of condition that dominated it there – plus error tests and loop bounds; a length / size / emptiness test, a boolean helper or a flag that newly decides whether the call happens is how a fast path that skips the step looks",
			Floor: 1, MustExist: false, Run: func(c *Ctx) { runSkipCond(c, g.pkgs) },
		})
	}
}

// refDir: the committed reference tables live next to the checker (…/verif/reference).
var refDir = func() string {
	if exe, err := os.Executable(); err == nil {
		d := filepath.Join(filepath.Dir(filepath.Dir(exe)), "reference")
		if st, err := os.Stat(d); err == nil && st.IsDir() {
			return d
		}
	}
	return "/verif/reference"
}()

func moduleIface(t types.Type) *types.Named {
	n, ok := t.(*types.Named)
	if !ok || n.Obj().Pkg() == nil {
		return nil
	}
	// the module's own interfaces, and those of its dependencies (gRPC streams
	// and clients, …) – not the standard library's (io.Writer, context.Context, …)
	if path := n.Obj().Pkg().Path(); !strings.HasPrefix(path, modPath) && !strings.Contains(strings.SplitN(path, "/", 2)[0], ".") {
		return nil
	}
	if _, ok := n.Underlying().(*types.Interface); !ok {
		return nil
	}
	return n
}

func isLoopHeader(b *ssa.BasicBlock) bool {
	for _, p := range b.Preds {
		if b.Dominates(p) {
			return true
		}
	}
	return false
}

// condKindOnEdge: the kind of the condition together with what the edge means where that is
// independent of how the condition is spelt: the error is nil / is set, the pointer is nil / is not,
// the lookup succeeded / failed, the status code is / is not the one tested, the flag is up / down.
// (Inverting a condition and swapping the branches leaves all of these unchanged.)
func condKindOnEdge(cond ssa.Value, val bool) string {
	c, v := cond, val
	for {
		if u, ok := c.(*ssa.UnOp); ok && u.Op == token.NOT {
			c, v = u.X, !v
			continue
		}
		break
	}
	if bo, ok := c.(*ssa.BinOp); ok && (bo.Op == token.EQL || bo.Op == token.NEQ) {
		// bytes.Compare(a, b) == 0 is bytes.Equal(a, b)
		for _, pr := range [][2]ssa.Value{{bo.X, bo.Y}, {bo.Y, bo.X}} {
			if cl, isC := pr[0].(*ssa.Call); isC && isPkgFuncCall(cl.Common(), "bytes", "Compare") {
				if k0, isK := pr[1].(*ssa.Const); isK && k0.Value != nil && k0.Value.String() == "0" {
					if (bo.Op == token.EQL) == v {
						return "call:bytes.Equal=true"
					}
					return "call:bytes.Equal=false"
				}
			}
		}
	}
	k := condKind(c)
	if x, nilWhenTrue, ok := nilTest(c); ok {
		isNil := nilWhenTrue == v
		if isErrorType(x.Type()) {
			// whose error: the call it comes from (so that "some error was checked" is not mistaken for
			// "the error of this step was checked")
			who := ""
			y := stripConv(x)
			if u, ok := y.(*ssa.UnOp); ok && u.Op == token.MUL {
				// a cell: the calls whose results are stored into it
				if al, ok := u.X.(*ssa.Alloc); ok {
					var names []string
					for _, sv := range cellStores(al) {
						if n := errOrigin(sv); n != "" {
							names = append(names, n)
						}
					}
					sort.Strings(names)
					who = strings.Join(names, "+")
				}
			} else {
				who = errOrigin(y)
			}
			if who != "" {
				who = ":" + who
			}
			if isNil {
				return "err-nil" + who
			}
			return "err-set" + who
		}
		if isNil {
			return "nil-test:nil"
		}
		return "nil-test:set"
	}
	switch {
	case k == "comma-ok", k == "flag", strings.HasPrefix(k, "flag:"), strings.HasPrefix(k, "call:"), strings.HasPrefix(k, "result:"), k == "extract":
		if _, isCmp := c.(*ssa.BinOp); !isCmp {
			if v {
				return k + "=true"
			}
			return k + "=false"
		}
	case k == "status-code", k == "eof":
		if _, isCall := c.(*ssa.Call); isCall && k == "eof" {
			if v {
				return k + ":is"
			}
			return k + ":is-not"
		}
		if bo, ok := c.(*ssa.BinOp); ok && (bo.Op == token.EQL || bo.Op == token.NEQ) {
			if (bo.Op == token.EQL) == v {
				return k + ":is"
			}
			return k + ":is-not"
		}
	}
	return k
}

// condVocabulary: the kinds (sides stripped) of every branch condition of g.
func condVocabulary(g *ssa.Function) []string {
	set := map[string]bool{}
	allInstrs(g, func(ins ssa.Instruction) {
		if iff, ok := ins.(*ssa.If); ok {
			if _, lowered := loweredBoolPhi(iff.Cond); lowered {
				return
			}
			set[depolarise(condKindOnEdge(iff.Cond, true))] = true
		}
	})
	return sortedKeys(set)
}

// oppositeKind: the same condition, the other side ("" when the kind has no sides).
func oppositeKind(k string) string {
	pairs := [][2]string{{"=true", "=false"}, {":is-not", ":is"}, {":nil", ":set"}}
	for _, p := range pairs {
		if strings.HasSuffix(k, p[0]) {
			return strings.TrimSuffix(k, p[0]) + p[1]
		}
	}
	for _, p := range pairs {
		if strings.HasSuffix(k, p[1]) {
			return strings.TrimSuffix(k, p[1]) + p[0]
		}
	}
	if strings.HasPrefix(k, "err-nil") {
		return "err-set" + strings.TrimPrefix(k, "err-nil")
	}
	if strings.HasPrefix(k, "err-set") {
		return "err-nil" + strings.TrimPrefix(k, "err-set")
	}
	return ""
}

// depolarise strips what an edge means from a kind: which side of the condition, whose error.
func depolarise(k string) string {
	if strings.HasPrefix(k, "err-nil") || strings.HasPrefix(k, "err-set") {
		return "err"
	}
	for _, suf := range []string{"=true", "=false", ":is-not", ":is", ":nil", ":set"} {
		if strings.HasSuffix(k, suf) {
			return strings.TrimSuffix(k, suf)
		}
	}
	return k
}

// errOrigin: the callee whose error result v is ("" when v is not the result of a call).
func errOrigin(v ssa.Value) string {
	v = stripConv(v)
	switch x := v.(type) {
	case *ssa.Call:
		return calleeName(x.Common())
	case *ssa.Extract:
		if cl, ok := x.Tuple.(*ssa.Call); ok {
			return calleeName(cl.Common())
		}
	case *ssa.Phi:
		var names []string
		seen := map[string]bool{}
		for _, e := range x.Edges {
			if _, isPhi := e.(*ssa.Phi); isPhi {
				continue
			}
			if n := errOrigin(e); n != "" && !seen[n] {
				seen[n] = true
				names = append(names, n)
			}
		}
		sort.Strings(names)
		return strings.Join(names, "+")
	}
	return ""
}

func condKind(cond ssa.Value) string {
	for {
		if u, ok := cond.(*ssa.UnOp); ok && u.Op == token.NOT {
			cond = u.X
			continue
		}
		break
	}
	if x, _, ok := nilTest(cond); ok {
		if isErrorType(x.Type()) {
			return "err-nil"
		}
		return "nil-test"
	}
	involves := func(v ssa.Value, pred func(x ssa.Value) bool) bool {
		found := false
		backwardSlice(v, func(x ssa.Value) bool {
			if pred(x) {
				found = true
			}
			_, isCall := x.(*ssa.Call)
			return !found && (!isCall || x == v)
		})
		return found
	}
	switch x := cond.(type) {
	case *ssa.Extract:
		switch t := x.Tuple.(type) {
		case *ssa.Next:
			return "loop"
		case *ssa.Lookup:
			return "comma-ok"
		case *ssa.TypeAssert:
			return "comma-ok"
		case *ssa.UnOp:
			if t.Op == token.ARROW {
				return "comma-ok"
			}
		case *ssa.Call:
			return "result:" + calleeName(t.Common())
		case *ssa.Select:
			return "select"
		}
		return "extract"
	case *ssa.Call:
		if isPkgFuncCall(x.Common(), "errors", "Is") && len(x.Call.Args) == 2 && isIOEOF(x.Call.Args[1]) && strings.HasSuffix(errOrigin(x.Call.Args[0]), ".Recv") {
			// a stream's Recv reports the end of the stream as io.EOF itself: `err == io.EOF` spelt with errors.Is
			return "eof"
		}
		return "call:" + calleeName(x.Common())
	case *ssa.Phi, *ssa.Parameter:
		return "flag"
	case *ssa.BinOp:
		for _, side := range []ssa.Value{x.X, x.Y} {
			if c, ok := side.(*ssa.Call); ok && isPkgFuncCall(c.Common(), "google.golang.org/grpc/status", "Code") {
				return "status-code"
			}
			if isIOEOF(side) {
				return "eof"
			}
			if ex, ok := side.(*ssa.Extract); ok {
				if _, isSel := ex.Tuple.(*ssa.Select); isSel {
					return "select"
				}
			}
		}
		if !isIntVal(x.X) {
			if bt, ok := x.X.Type().Underlying().(*types.Basic); ok && bt.Info()&types.IsString != 0 {
				return "string-compare"
			}
			if isBoolType(x.X) {
				return "flag"
			}
			return "value-compare"
		}
		// the entry test of a rotated loop (`for i := range n` is lowered to `if 0 < n { do { … } while i+1 < n }`)
		if k0, isK := x.X.(*ssa.Const); isK && x.Op == token.LSS && k0.Value != nil && k0.Value.String() == "0" {
			if refs := x.Referrers(); refs != nil {
				for _, r := range *refs {
					if iff, ok := r.(*ssa.If); ok && len(iff.Block().Succs) == 2 && isLoopHeader(iff.Block().Succs[0]) {
						return "loop"
					}
				}
			}
		}
		// loop bound: one side is a phi of a loop header (or derived from it by +const)
		for _, side := range []ssa.Value{x.X, x.Y} {
			s := side
			if bo, ok := s.(*ssa.BinOp); ok {
				s = bo.X
			}
			if phi, ok := s.(*ssa.Phi); ok && isLoopHeader(phi.Block()) {
				return "loop"
			}
		}
		sizeLike := func(v ssa.Value) bool {
			return involves(v, func(y ssa.Value) bool {
				c, ok := y.(*ssa.Call)
				if !ok {
					return false
				}
				if bi, ok := c.Call.Value.(*ssa.Builtin); ok {
					return bi.Name() == "len" || bi.Name() == "cap"
				}
				n := calleeName(c.Common())
				return strings.HasSuffix(n, "Length") || strings.HasSuffix(n, "GetSizeBytes") || strings.HasSuffix(n, "Len")
			})
		}
		if sizeLike(x.X) || sizeLike(x.Y) {
			return "size-compare"
		}
		fieldNames := map[string]bool{}
		for _, side := range []ssa.Value{x.X, x.Y} {
			involves(side, func(y ssa.Value) bool {
				if n := canonLoadedFieldName(y); n != "" {
					fieldNames[n] = true
				}
				return false
			})
		}
		if len(fieldNames) > 0 {
			var ns []string
			for n := range fieldNames {
				ns = append(ns, n)
			}
			sort.Strings(ns)
			return "field-compare:" + strings.Join(ns, ",")
		}
		return "int-compare"
	case *ssa.UnOp:
		if n := canonLoadedFieldName(x); n != "" {
			return "flag:" + n
		}
		return "flag"
	case *ssa.Field, *ssa.FieldAddr:
		return "flag"
	}
	return "other"
}

// collectSkipSites: site key -> sorted set of condition kinds.
func collectSkipSites(p *Program, pkgs []string) (map[string][]string, map[string]token.Pos, map[string]map[string]token.Pos) {
	sites := map[string][]string{}
	poss := map[string]token.Pos{}
	condPos := map[string]map[string]token.Pos{}
	for _, rel := range pkgs {
		for _, tf := range p.srcFuncs(rel) {
			withAnon(tf, func(g *ssa.Function) {
				fkey := refKey(g)
				if fkey == "" {
					return
				}
				ord := map[string]int{}
				allInstrs(g, func(ins ssa.Instruction) {
					base := ""
					var sitePos token.Pos
					var siteBlock *ssa.BasicBlock
					switch x := ins.(type) {
					case *ssa.Store:
						// a step that records something in a structure
						if fa, ok := x.Addr.(*ssa.FieldAddr); ok {
							// initialising a value the function has just allocated is not a recording step
							root := ssa.Value(fa)
							for {
								if f2, ok := root.(*ssa.FieldAddr); ok {
									root = f2.X
									continue
								}
								break
							}
							if _, fresh := root.(*ssa.Alloc); !fresh {
								base = fkey + "|store " + canonFieldKey(fa.X.Type(), fa.Field)
								sitePos, siteBlock = x.Pos(), x.Block()
							}
						}
					case *ssa.MapUpdate:
						base = fkey + "|map update " + typeKey(x.Map.Type())
						sitePos, siteBlock = x.Pos(), x.Block()
					case *ssa.Send:
						base = fkey + "|send " + typeKey(x.Chan.Type())
						sitePos, siteBlock = x.Pos(), x.Block()
					case *ssa.Return:
						// a way out of the function: a new kind of condition in front of one is a new fast path
						if exemptExit(x) {
							return // a loud rejection, or "nothing asked, nothing to do": see skipexempt.go
						}
						base = fkey + "|return"
						sitePos, siteBlock = x.Pos(), x.Block()
						if !sitePos.IsValid() {
							sitePos = g.Pos()
						}
					case *ssa.Call:
						cl := x
						sitePos, siteBlock = cl.Pos(), cl.Block()
						if bi, isB := cl.Call.Value.(*ssa.Builtin); isB {
							switch bi.Name() {
							case "append":
								base = fkey + "|append " + typeKey(cl.Type())
							case "close", "delete":
								base = fkey + "|" + bi.Name() + " " + typeKey(cl.Call.Args[0].Type())
							}
						} else if cl.Call.IsInvoke() {
							if n := moduleIface(cl.Call.Value.Type()); n != nil {
								base = fkey + "|" + n.Obj().Name() + "." + cl.Call.Method.Name()
							}
						} else if sc := cl.Call.StaticCallee(); sc != nil && sc.Pkg != nil && sc.Object() != nil {
							switch {
							case isErrorConstructor(sc):
								// a rejection: a new condition around it means fewer requests are rejected
								base = fkey + "|reject " + sc.Pkg.Pkg.Name() + "." + sc.Name()
							case strings.HasPrefix(sc.Pkg.Pkg.Path(), modPath):
								// a function or method of the module
								short := sc.Name()
								if r := sc.Signature.Recv(); r != nil {
									rt := r.Type()
									if p, ok := rt.(*types.Pointer); ok {
										rt = p.Elem()
									}
									if nn, ok := rt.(*types.Named); ok {
										short = nn.Obj().Name() + "." + short
									}
								} else {
									short = sc.Pkg.Pkg.Name() + "." + short
								}
								base = fkey + "|" + short
							}
						}
					}
					if base == "" {
						return
					}
					key := fmt.Sprintf("%s|%d", base, ord[base])
					ord[base]++
					set := map[string]bool{}
					cp := map[string]token.Pos{}
					// the conditions that dominate the call, and – for a call inside a
					// function literal – those that dominate the creation of the literal
					blocks := []*ssa.BasicBlock{siteBlock}
					for inner := g; inner.Parent() != nil; inner = inner.Parent() {
						allInstrs(inner.Parent(), func(pi ssa.Instruction) {
							if mc, ok := pi.(*ssa.MakeClosure); ok && mc.Fn == ssa.Value(inner) {
								blocks = append(blocks, mc.Block())
							}
						})
					}
					for _, blk := range blocks {
						edgeFacts(blk, func(cond ssa.Value, val bool) bool {
							if _, lowered := loweredBoolPhi(cond); lowered {
								// the false side of a named `a && b` (or the true side of `a || b`): the unnamed
								// form knows nothing there either
								return true
							}
							if exemptGuard(cond, val) {
								return true // the other side refuses loudly or has nothing to do: not a way around the step
							}
							k := condKindOnEdge(cond, val)
							set[k] = true
							if _, ok := cp[k]; !ok {
								cp[k] = cond.Pos()
								if !cp[k].IsValid() {
									cp[k] = sitePos
								}
							}
							return true
						})
					}
					var ks []string
					for k := range set {
						ks = append(ks, k)
					}
					sort.Strings(ks)
					sites[key] = ks
					poss[key] = sitePos
					condPos[key] = cp
				})
			})
		}
	}
	return sites, poss, condPos
}

// errTestWidened: the test "the error of callee X is nil" is still made, on a variable that by now may
// also hold an error of something else (`if err == nil && bad { err = status.Errorf(…) }; if err == nil { … }`):
// among the guards there is a nil test of an error whose origins include all of w's.
func errTestWidened(w string, have map[string]bool) bool {
	want := strings.Split(strings.TrimPrefix(w, "err-nil:"), "+")
	for h := range have {
		if !strings.HasPrefix(h, "err-nil:") {
			continue
		}
		got := map[string]bool{}
		for _, o := range strings.Split(strings.TrimPrefix(h, "err-nil:"), "+") {
			got[o] = true
		}
		all := true
		for _, o := range want {
			if !got[o] {
				all = false
			}
		}
		if all {
			return true
		}
	}
	return false
}

// isErrorConstructor: status.Error(f), errors.New, fmt.Errorf and the module's StatusWrap* helpers.
func isErrorConstructor(sc *ssa.Function) bool {
	if sc.Pkg == nil {
		return false
	}
	switch sc.Pkg.Pkg.Path() {
	case "google.golang.org/grpc/status":
		return sc.Name() == "Error" || sc.Name() == "Errorf"
	case "errors":
		return sc.Name() == "New"
	case "fmt":
		return sc.Name() == "Errorf"
	case modPath + "/pkg/util":
		return strings.HasPrefix(sc.Name(), "StatusWrap")
	}
	return false
}

func allSkipPkgs() []string {
	var out []string
	for _, g := range skipGroups {
		out = append(out, g.pkgs...)
	}
	return out
}

// genSkipReference writes the reference table from the tree at repo.
func genSkipReference(repo string) error {
	p, err := LoadProgram(repo, BuildConfig{"linux", "amd64"}, false, nil)
	if err != nil {
		return err
	}
	sites, _, _ := collectSkipSites(p, allSkipPkgs())
	ref := skipRef{Note: "kinds of branch conditions that dominate each call through a module interface on the reference tree (pinned tree + fix: commits); generated by `bbcheck -gen-reference`, never written by a check", Sites: sites}
	for _, f := range p.Funcs {
		ref.Defined = append(ref.Defined, FuncName(f))
	}
	sort.Strings(ref.Defined)
	ref.Vocab = map[string][]string{}
	for _, rel := range allSkipPkgs() {
		for _, tf := range p.srcFuncs(rel) {
			withAnon(tf, func(g *ssa.Function) {
				if v := condVocabulary(g); len(v) > 0 {
					ref.Vocab[FuncName(g)] = v
				}
			})
		}
	}
	b, _ := json.MarshalIndent(ref, "", " ")
	if err := os.MkdirAll(refDir, 0o755); err != nil {
		return err
	}
	return os.WriteFile(filepath.Join(refDir, "skipconds.json"), append(b, '\n'), 0o644)
}

var skipRefCache *skipRef

func loadSkipRef() (*skipRef, error) {
	if skipRefCache != nil {
		return skipRefCache, nil
	}
	b, err := os.ReadFile(filepath.Join(refDir, "skipconds.json"))
	if err != nil {
		return nil, err
	}
	var r skipRef
	if err := json.Unmarshal(b, &r); err != nil {
		return nil, err
	}
	skipRefCache = &r
	return &r, nil
}

func runSkipCond(c *Ctx, pkgs []string) {
	if !referenceConfig(c) {
		return
	}
	ref, err := loadSkipRef()
	if err != nil {
		c.Broken("reference table of condition kinds cannot be read: %v", err)
		return
	}
	alwaysOK := map[string]bool{"err-nil": true, "err-set": true, "loop": true}
	sites, poss, condPos := collectSkipSites(c.Program, pkgs)
	var keys []string
	for k := range sites {
		keys = append(keys, k)
	}
	sort.Strings(keys)
	// Sites of one kind of step in one function are matched as a set, not by position: every
	// current site needs a reference site of its own whose guards cover its guards (swapping two
	// branches, or reordering two independent statements, permutes the sites).  When the number
	// of sites changed, any reference site may justify a current one.
	byBase := func(m map[string][]string) map[string][]string {
		out := map[string][]string{}
		for k := range m {
			b := k[:strings.LastIndex(k, "|")]
			out[b] = append(out[b], k)
		}
		for b := range out {
			sort.Strings(out[b])
		}
		return out
	}
	refBy, curBy := byBase(ref.Sites), byBase(sites)
	var bases []string
	for b := range curBy {
		bases = append(bases, b)
	}
	sort.Strings(bases)
	// A test on which the reference function leaves (returns) puts everything else of the function on
	// its other side, whatever the order in which the tests are written: being newly "guarded" by the
	// other side of such a test is not a new condition.
	impliedCache := map[string]map[string]bool{}
	impliedByExit := func(fk, kind string) bool {
		m, ok := impliedCache[fk]
		if !ok {
			m = map[string]bool{}
			for k, kinds := range ref.Sites {
				if strings.HasPrefix(k, fk+"|return|") {
					for _, w := range kinds {
						if o := oppositeKind(w); o != "" {
							m[o] = true
						}
					}
				}
			}
			impliedCache[fk] = m
		}
		return m[kind]
	}
	curFK := ""
	refDefined := map[string]bool{}
	for _, f := range ref.Defined {
		refDefined[f] = true
	}
	curDefined := map[string]bool{}
	for _, f := range c.Program.Funcs {
		curDefined[FuncName(f)] = true
	}
	// excusedDrop: the error test of a callee is "gone" because the callee was inlined (it no longer
	// exists) or is now made inside a helper that did not exist (whose error is tested instead)
	excusedDrop := func(kind string, have map[string]bool) bool {
		for _, pre := range []string{"err-nil:", "err-set:"} {
			if !strings.HasPrefix(kind, pre) {
				continue
			}
			for _, callee := range strings.Split(kind[len(pre):], "+") {
				if !strings.HasPrefix(callee, "(") && !strings.Contains(callee, ".") {
					continue
				}
				if !curDefined[callee] && refDefined[callee] {
					return true // inlined
				}
			}
			for h := range have {
				if strings.HasPrefix(h, pre) {
					for _, callee := range strings.Split(h[len(pre):], "+") {
						if curDefined[callee] && !refDefined[callee] {
							return true // tested through a new helper
						}
					}
				}
			}
		}
		return false
	}
	// strict: with as many sites as on the reference tree, a site must also still be guarded by
	// every kind that guarded the reference site it is matched with (a dropped check)
	coversMode := func(refKey, curKey string, strict bool) bool {
		al := map[string]bool{}
		for _, w := range ref.Sites[refKey] {
			al[w] = true
		}
		have := map[string]bool{}
		for _, h := range sites[curKey] {
			have[h] = true
			if !al[h] && !alwaysOK[h] && !strings.HasPrefix(h, "err-nil:") && !strings.HasPrefix(h, "err-set:") && !impliedByExit(curFK, h) {
				return false
			}
		}
		if strict {
			// only tests of a particular callee's error: other guards are regularly re-expressed (a
			// switch whose earlier cases imply the condition) without the path changing
			for w := range al {
				if strings.HasPrefix(w, "err-nil:") && !have[w] && !errTestWidened(w, have) && !excusedDrop(w, have) {
					return false
				}
			}
		}
		return true
	}
	// the strict direction is only meaningful while no helper was extracted from or inlined into the function
	curSigs := map[string][]string{}
	for _, rel := range pkgs {
		for _, tf := range c.srcFuncs(rel) {
			withAnon(tf, func(g *ssa.Function) {
				if k := refKey(g); k != "" {
					curSigs[k] = callSignature(g)
				}
			})
		}
	}
	provR, _ := loadProvRef()
	provRefDefined := map[string]bool{}
	if provR != nil {
		for _, id := range provR.Defined {
			provRefDefined[id] = true
		}
	}
	provCurDefined := definedCallees(c.Program)
	gateOf := func(fk string) bool {
		if provR == nil {
			return false
		}
		rs, ok := provR.Sigs[fk]
		if !ok {
			return false
		}
		if strings.Join(rs, "|") == strings.Join(curSigs[fk], "|") {
			return true
		}
		return gateOpen(rs, curSigs[fk], provRefDefined, provCurDefined)
	}
	inlinedInto := func(fk string) bool {
		if provR == nil {
			return false
		}
		rs, ok := provR.Sigs[fk]
		if !ok {
			return false
		}
		cur := map[string]bool{}
		for _, e := range curSigs[fk] {
			if i := strings.LastIndex(e, "×"); i >= 0 {
				cur[e[:i]] = true
			}
		}
		for _, e := range rs {
			if i := strings.LastIndex(e, "×"); i >= 0 {
				id := e[:i]
				if strings.HasPrefix(id, "S:") && strings.Contains(id, modPath) && !cur[id] && !provCurDefined[id] {
					return true
				}
			}
		}
		return false
	}
	strictMode := false
	covers := func(refKey, curKey string) bool { return coversMode(refKey, curKey, strictMode) }
	for _, b := range bases {
		rks, cks := refBy[b], curBy[b]
		if len(rks) == 0 {
			continue // a new or moved kind of step: nothing to compare with
		}
		parts := strings.SplitN(b, "|", 2)
		if inlinedInto(parts[0]) {
			continue // a helper was inlined: its steps and their guards are new here, nothing to compare them with
		}
		if parts[1] == "return" {
			// Ways out of the function are re-arranged freely (early returns, merged tails); what a
			// refactoring does not do is decide about leaving on a kind of condition the function never
			// looked at.  So: the kinds in front of a return – whichever side of them – must be kinds
			// that guard some step of the function on the reference tree.
			vocab := map[string]bool{}
			for _, w := range ref.Vocab[parts[0]] {
				vocab[w] = true
			}
			for k, kinds := range ref.Sites {
				if strings.HasPrefix(k, parts[0]+"|") {
					for _, w := range kinds {
						vocab[depolarise(w)] = true
					}
				}
			}
			for _, ck := range cks {
				ord := ck[strings.LastIndex(ck, "|")+1:]
				var extra []string
				for _, have := range sites[ck] {
					if d := depolarise(have); !vocab[d] && d != "err" && d != "loop" {
						extra = append(extra, have)
					}
				}
				if len(extra) == 0 {
					c.Pass(parts[0], "no-new-skip return#"+ord, c.Pos(poss[ck]), "left only on kinds of condition the function already decides on")
					continue
				}
				c.Fail(parts[0], "no-new-skip return#"+ord, c.Pos(poss[ck]), fmt.Sprintf("the function now returns here on a kind of condition it does not look at anywhere on the reference tree (%s, at %s): a new fast path – whatever follows is skipped for the inputs that satisfy it", strings.Join(extra, ", "), c.Pos(condPos[ck][extra[0]])))
			}
			continue
		}
		unmatched := map[string]bool{}
		strictMode = len(rks) == len(cks) && gateOf(parts[0])
		curFK = parts[0]
		if len(rks) == len(cks) {
			// bipartite matching (augmenting paths; the sets are tiny)
			matchOfRef := map[string]string{}
			var try func(ck string, seen map[string]bool) bool
			try = func(ck string, seen map[string]bool) bool {
				for _, rk := range rks {
					if seen[rk] || !covers(rk, ck) {
						continue
					}
					seen[rk] = true
					if prev, taken := matchOfRef[rk]; !taken || try(prev, seen) {
						matchOfRef[rk] = ck
						return true
					}
				}
				return false
			}
			for _, ck := range cks {
				if !try(ck, map[string]bool{}) {
					unmatched[ck] = true
				}
			}
		} else {
			for _, ck := range cks {
				ok := false
				for _, rk := range rks {
					if covers(rk, ck) {
						ok = true
						break
					}
				}
				if !ok {
					unmatched[ck] = true
				}
			}
		}
		if strings.HasPrefix(parts[1], "reject ") && len(cks) > len(rks) {
			// more rejections than before: the surplus is new, and a new rejection has no guards to compare
			surplus := len(cks) - len(rks)
			for _, ck := range cks {
				if surplus > 0 && unmatched[ck] {
					delete(unmatched, ck)
					surplus--
				}
			}
		}
		for _, ck := range cks {
			ord := ck[strings.LastIndex(ck, "|")+1:]
			if !unmatched[ck] {
				c.Pass(parts[0], "no-new-skip "+parts[1]+"#"+ord, c.Pos(poss[ck]), "guarded by the same kinds of condition as on the reference tree")
				continue
			}
			// what is new: a kind that guards no reference site of this step
			anywhere := map[string]bool{}
			everywhere := map[string]int{}
			for _, rk := range rks {
				for _, w := range ref.Sites[rk] {
					anywhere[w] = true
					everywhere[w]++
				}
			}
			var extra []string
			haveK := map[string]bool{}
			for _, have := range sites[ck] {
				haveK[have] = true
				if !anywhere[have] && !alwaysOK[have] && !strings.HasPrefix(have, "err-nil:") && !strings.HasPrefix(have, "err-set:") && !impliedByExit(parts[0], have) {
					extra = append(extra, have)
				}
			}
			if len(extra) == 0 && len(rks) != len(cks) {
				c.PassTrivial(parts[0], "no-new-skip "+parts[1]+"#"+ord, c.Pos(poss[ck]), "guards recombined from those of the reference sites (the number of such steps changed)")
				continue
			}
			if len(extra) == 0 {
				// a dropped check: a kind that guards every reference site of this step and not this one
				var dropped []string
				for w, n := range everywhere {
					if n == len(rks) && strings.HasPrefix(w, "err-nil:") && !haveK[w] && !errTestWidened(w, haveK) && !excusedDrop(w, haveK) {
						dropped = append(dropped, w)
					}
				}
				sort.Strings(dropped)
				if len(dropped) > 0 {
					c.Fail(parts[0], "no-new-skip "+parts[1]+"#"+ord, c.Pos(poss[ck]), fmt.Sprintf("the step `%s` is reached on the reference tree only under a condition of kind %s (for instance: only after the error was found nil, only when the lookup succeeded); now it is reached without that condition – a check was dropped, or the step moved in front of it", parts[1], strings.Join(dropped, ", ")))
					continue
				}
				// every guard occurs at some reference site of this step, but more sites than before are
				// guarded that way (or less): with as many sites as on the reference tree, one of them changed sides
				for _, have := range sites[ck] {
					if !alwaysOK[have] && !strings.HasPrefix(have, "err-nil:") && !strings.HasPrefix(have, "err-set:") && !impliedByExit(parts[0], have) {
						extra = append(extra, have)
					}
				}
				if len(extra) == 0 {
					c.Fail(parts[0], "no-new-skip "+parts[1]+"#"+ord, c.Pos(poss[ck]), fmt.Sprintf("the step `%s` is no longer guarded the way any of its %d occurrences is guarded on the reference tree: a check in front of it was dropped or replaced", parts[1], len(rks)))
					continue
				}
			}
			pos := condPos[ck][extra[0]]
			c.Fail(parts[0], "no-new-skip "+parts[1]+"#"+ord, c.Pos(poss[ck]), fmt.Sprintf("the step `%s` is now reached only under a condition of a kind that did not guard it on the reference tree (%s, at %s): a step that used to be taken on this path can be skipped", parts[1], strings.Join(extra, ", "), c.Pos(pos)))
		}
	}
}
