package main

import (
	"encoding/json"
	"fmt"
	"go/token"
	"go/types"
	"os"
	"path/filepath"
	"sort"
	"strings"

	"golang.org/x/tools/go/ssa"
)

// ---------------------------------------------------------------------------
// "No new way around a backend call."
//
// For every call through one of the module's own interfaces (BlobAccess,
// BlobReplicator, Authorizer, KeyLocationMap, LocationBlobMap, BlockList, …)
// the *kinds* of branch conditions that dominate the call are computed
// (error-nil test, loop bound, NOT_FOUND test, length/size comparison, boolean
// helper such as Empty()/IsOlder(), …).  The kinds found on the reference tree
// (the pinned tree with the fix: commits; /verif/reference/skipconds.json,
// generated once with `bbcheck -gen-reference` and committed) are the
// reference through time: a site that exists in both trees may not be guarded
// by a kind of condition that did not guard it before, apart from error tests
// and loop bounds.  This is what a "fast path" or "optimisation" that skips a
// step looks like (size == 0, len == 1, Empty(), a cached flag); equivalent
// rewrites keep the kinds (polarity, operand order, if/switch form and loop
// form do not matter; a call moved into another function is a different site
// and is not judged).

type skipRef struct {
	Note  string              `json:"note"`
	Sites map[string][]string `json:"sites"`
}

var skipGroups = groupsOf([][]string{
	{"R01.11", "local"},
	{"R09.7", "buffer"},
	{"R11.7", "mirrored"},
	{"R12.9", "sharding"},
	{"R13.7", "completeness"},
	{"R14.8", "grpc"},
	{"R17.7", "replication"},
	{"R18.8", "top"},
	{"R20.14", "digest"},
	{"R02.12", "config"},
})

func init() {
	for i := range skipGroups {
		g := skipGroups[i]
		register(&Rule{
			ID: g.rule, Props: g.props, Engine: "condition-kind drift against the reference tree (SSA dominance)",
			Text:  "no new way around a step (" + strings.Join(g.pkgs, ", ") + "): every step – a call through an interface of the module or of a dependency (backends, replicators, authorizers, index and block-list operations, gRPC streams), a call of a function of the module that is not a getter, a store to a struct field, an append, a map update, a channel send or close, and every construction of an error (a rejection) – that exists on the reference tree at the same site (function, kind of step, position among the steps of that kind; by kind alone when their number changed) is dominated only by the kinds of condition that dominated it there – plus error tests and loop bounds; a length / size / emptiness test, a boolean helper or a flag that newly decides whether the call happens is how a fast path that skips the step looks",
			Floor: 1, MustExist: false, Run: func(c *Ctx) { runSkipCond(c, g.pkgs) },
		})
	}
}

// refDir: the committed reference tables live next to the checker (…/verif/reference).
var refDir = func() string {
	if exe, err := os.Executable(); err == nil {
		d := filepath.Join(filepath.Dir(filepath.Dir(exe)), "reference")
		if st, err := os.Stat(d); err == nil && st.IsDir() {
			return d
		}
	}
	return "/verif/reference"
}()

func moduleIface(t types.Type) *types.Named {
	n, ok := t.(*types.Named)
	if !ok || n.Obj().Pkg() == nil {
		return nil
	}
	// the module's own interfaces, and those of its dependencies (gRPC streams
	// and clients, …) – not the standard library's (io.Writer, context.Context, …)
	if path := n.Obj().Pkg().Path(); !strings.HasPrefix(path, modPath) && !strings.Contains(strings.SplitN(path, "/", 2)[0], ".") {
		return nil
	}
	if _, ok := n.Underlying().(*types.Interface); !ok {
		return nil
	}
	return n
}

func isLoopHeader(b *ssa.BasicBlock) bool {
	for _, p := range b.Preds {
		if b.Dominates(p) {
			return true
		}
	}
	return false
}

func condKind(cond ssa.Value) string {
	for {
		if u, ok := cond.(*ssa.UnOp); ok && u.Op == token.NOT {
			cond = u.X
			continue
		}
		break
	}
	if x, _, ok := nilTest(cond); ok {
		if isErrorType(x.Type()) {
			return "err-nil"
		}
		return "nil-test"
	}
	involves := func(v ssa.Value, pred func(x ssa.Value) bool) bool {
		found := false
		backwardSlice(v, func(x ssa.Value) bool {
			if pred(x) {
				found = true
			}
			_, isCall := x.(*ssa.Call)
			return !found && (!isCall || x == v)
		})
		return found
	}
	switch x := cond.(type) {
	case *ssa.Extract:
		switch t := x.Tuple.(type) {
		case *ssa.Next:
			return "loop"
		case *ssa.Lookup:
			return "comma-ok"
		case *ssa.TypeAssert:
			return "comma-ok"
		case *ssa.UnOp:
			if t.Op == token.ARROW {
				return "comma-ok"
			}
		case *ssa.Call:
			return "result:" + calleeName(t.Common())
		case *ssa.Select:
			return "select"
		}
		return "extract"
	case *ssa.Call:
		return "call:" + calleeName(x.Common())
	case *ssa.Phi, *ssa.Parameter:
		return "flag"
	case *ssa.BinOp:
		for _, side := range []ssa.Value{x.X, x.Y} {
			if c, ok := side.(*ssa.Call); ok && isPkgFuncCall(c.Common(), "google.golang.org/grpc/status", "Code") {
				return "status-code"
			}
			if isIOEOF(side) {
				return "eof"
			}
			if ex, ok := side.(*ssa.Extract); ok {
				if _, isSel := ex.Tuple.(*ssa.Select); isSel {
					return "select"
				}
			}
		}
		if !isIntVal(x.X) {
			if bt, ok := x.X.Type().Underlying().(*types.Basic); ok && bt.Info()&types.IsString != 0 {
				return "string-compare"
			}
			if isBoolType(x.X) {
				return "flag"
			}
			return "value-compare"
		}
		// loop bound: one side is a phi of a loop header (or derived from it by +const)
		for _, side := range []ssa.Value{x.X, x.Y} {
			s := side
			if bo, ok := s.(*ssa.BinOp); ok {
				s = bo.X
			}
			if phi, ok := s.(*ssa.Phi); ok && isLoopHeader(phi.Block()) {
				return "loop"
			}
		}
		sizeLike := func(v ssa.Value) bool {
			return involves(v, func(y ssa.Value) bool {
				c, ok := y.(*ssa.Call)
				if !ok {
					return false
				}
				if bi, ok := c.Call.Value.(*ssa.Builtin); ok {
					return bi.Name() == "len" || bi.Name() == "cap"
				}
				n := calleeName(c.Common())
				return strings.HasSuffix(n, "Length") || strings.HasSuffix(n, "GetSizeBytes") || strings.HasSuffix(n, "Len")
			})
		}
		if sizeLike(x.X) || sizeLike(x.Y) {
			return "size-compare"
		}
		fieldNames := map[string]bool{}
		for _, side := range []ssa.Value{x.X, x.Y} {
			involves(side, func(y ssa.Value) bool {
				if n := canonLoadedFieldName(y); n != "" {
					fieldNames[n] = true
				}
				return false
			})
		}
		if len(fieldNames) > 0 {
			var ns []string
			for n := range fieldNames {
				ns = append(ns, n)
			}
			sort.Strings(ns)
			return "field-compare:" + strings.Join(ns, ",")
		}
		return "int-compare"
	case *ssa.UnOp:
		if n := canonLoadedFieldName(x); n != "" {
			return "flag:" + n
		}
		return "flag"
	case *ssa.Field, *ssa.FieldAddr:
		return "flag"
	}
	return "other"
}

// collectSkipSites: site key -> sorted set of condition kinds.
func collectSkipSites(p *Program, pkgs []string) (map[string][]string, map[string]token.Pos, map[string]map[string]token.Pos) {
	sites := map[string][]string{}
	poss := map[string]token.Pos{}
	condPos := map[string]map[string]token.Pos{}
	for _, rel := range pkgs {
		for _, tf := range p.pkgFuncs(rel) {
			withAnon(tf, func(g *ssa.Function) {
				fkey := refKey(g)
				if fkey == "" {
					return
				}
				ord := map[string]int{}
				allInstrs(g, func(ins ssa.Instruction) {
					base := ""
					var sitePos token.Pos
					var siteBlock *ssa.BasicBlock
					switch x := ins.(type) {
					case *ssa.Store:
						// a step that records something in a structure
						if fa, ok := x.Addr.(*ssa.FieldAddr); ok {
							// initialising a value the function has just allocated is not a recording step
							root := ssa.Value(fa)
							for {
								if f2, ok := root.(*ssa.FieldAddr); ok {
									root = f2.X
									continue
								}
								break
							}
							if _, fresh := root.(*ssa.Alloc); !fresh {
								base = fkey + "|store " + canonFieldKey(fa.X.Type(), fa.Field)
								sitePos, siteBlock = x.Pos(), x.Block()
							}
						}
					case *ssa.MapUpdate:
						base = fkey + "|map update " + typeKey(x.Map.Type())
						sitePos, siteBlock = x.Pos(), x.Block()
					case *ssa.Send:
						base = fkey + "|send " + typeKey(x.Chan.Type())
						sitePos, siteBlock = x.Pos(), x.Block()
					case *ssa.Call:
						cl := x
						sitePos, siteBlock = cl.Pos(), cl.Block()
						if bi, isB := cl.Call.Value.(*ssa.Builtin); isB {
							switch bi.Name() {
							case "append":
								base = fkey + "|append " + typeKey(cl.Type())
							case "close", "delete":
								base = fkey + "|" + bi.Name() + " " + typeKey(cl.Call.Args[0].Type())
							}
						} else if cl.Call.IsInvoke() {
							if n := moduleIface(cl.Call.Value.Type()); n != nil {
								base = fkey + "|" + n.Obj().Name() + "." + cl.Call.Method.Name()
							}
						} else if sc := cl.Call.StaticCallee(); sc != nil && sc.Pkg != nil && sc.Object() != nil {
							switch {
							case isErrorConstructor(sc):
								// a rejection: a new condition around it means fewer requests are rejected
								base = fkey + "|reject " + sc.Pkg.Pkg.Name() + "." + sc.Name()
							case strings.HasPrefix(sc.Pkg.Pkg.Path(), modPath) && !pureLooking(sc.Name()):
								// a function or method of the module that does something (not a getter)
								short := sc.Name()
								if r := sc.Signature.Recv(); r != nil {
									rt := r.Type()
									if p, ok := rt.(*types.Pointer); ok {
										rt = p.Elem()
									}
									if nn, ok := rt.(*types.Named); ok {
										short = nn.Obj().Name() + "." + short
									}
								} else {
									short = sc.Pkg.Pkg.Name() + "." + short
								}
								base = fkey + "|" + short
							}
						}
					}
					if base == "" {
						return
					}
					key := fmt.Sprintf("%s|%d", base, ord[base])
					ord[base]++
					set := map[string]bool{}
					cp := map[string]token.Pos{}
					// the conditions that dominate the call, and – for a call inside a
					// function literal – those that dominate the creation of the literal
					blocks := []*ssa.BasicBlock{siteBlock}
					for inner := g; inner.Parent() != nil; inner = inner.Parent() {
						allInstrs(inner.Parent(), func(pi ssa.Instruction) {
							if mc, ok := pi.(*ssa.MakeClosure); ok && mc.Fn == ssa.Value(inner) {
								blocks = append(blocks, mc.Block())
							}
						})
					}
					for _, blk := range blocks {
						edgeFacts(blk, func(cond ssa.Value, val bool) bool {
							if _, lowered := loweredBoolPhi(cond); lowered {
								// the false side of a named `a && b` (or the true side of `a || b`): the unnamed
								// form knows nothing there either
								return true
							}
							k := condKind(cond)
							set[k] = true
							if _, ok := cp[k]; !ok {
								cp[k] = cond.Pos()
								if !cp[k].IsValid() {
									cp[k] = sitePos
								}
							}
							return true
						})
					}
					var ks []string
					for k := range set {
						ks = append(ks, k)
					}
					sort.Strings(ks)
					sites[key] = ks
					poss[key] = sitePos
					condPos[key] = cp
				})
			})
		}
	}
	return sites, poss, condPos
}

// isErrorConstructor: status.Error(f), errors.New, fmt.Errorf and the module's StatusWrap* helpers.
func isErrorConstructor(sc *ssa.Function) bool {
	if sc.Pkg == nil {
		return false
	}
	switch sc.Pkg.Pkg.Path() {
	case "google.golang.org/grpc/status":
		return sc.Name() == "Error" || sc.Name() == "Errorf"
	case "errors":
		return sc.Name() == "New"
	case "fmt":
		return sc.Name() == "Errorf"
	case modPath + "/pkg/util":
		return strings.HasPrefix(sc.Name(), "StatusWrap")
	}
	return false
}

func allSkipPkgs() []string {
	var out []string
	for _, g := range skipGroups {
		out = append(out, g.pkgs...)
	}
	return out
}

// genSkipReference writes the reference table from the tree at repo.
func genSkipReference(repo string) error {
	p, err := LoadProgram(repo, BuildConfig{"linux", "amd64"}, false, nil)
	if err != nil {
		return err
	}
	sites, _, _ := collectSkipSites(p, allSkipPkgs())
	ref := skipRef{Note: "kinds of branch conditions that dominate each call through a module interface on the reference tree (pinned tree + fix: commits); generated by `bbcheck -gen-reference`, never written by a check", Sites: sites}
	b, _ := json.MarshalIndent(ref, "", " ")
	if err := os.MkdirAll(refDir, 0o755); err != nil {
		return err
	}
	return os.WriteFile(filepath.Join(refDir, "skipconds.json"), append(b, '\n'), 0o644)
}

var skipRefCache *skipRef

func loadSkipRef() (*skipRef, error) {
	if skipRefCache != nil {
		return skipRefCache, nil
	}
	b, err := os.ReadFile(filepath.Join(refDir, "skipconds.json"))
	if err != nil {
		return nil, err
	}
	var r skipRef
	if err := json.Unmarshal(b, &r); err != nil {
		return nil, err
	}
	skipRefCache = &r
	return &r, nil
}

func runSkipCond(c *Ctx, pkgs []string) {
	ref, err := loadSkipRef()
	if err != nil {
		c.Broken("reference table of condition kinds cannot be read: %v", err)
		return
	}
	alwaysOK := map[string]bool{"err-nil": true, "loop": true}
	sites, poss, condPos := collectSkipSites(c.Program, pkgs)
	var keys []string
	for k := range sites {
		keys = append(keys, k)
	}
	sort.Strings(keys)
	// Sites of one kind of step in one function are matched as a set, not by position: every
	// current site needs a reference site of its own whose guards cover its guards (swapping two
	// branches, or reordering two independent statements, permutes the sites).  When the number
	// of sites changed, any reference site may justify a current one.
	byBase := func(m map[string][]string) map[string][]string {
		out := map[string][]string{}
		for k := range m {
			b := k[:strings.LastIndex(k, "|")]
			out[b] = append(out[b], k)
		}
		for b := range out {
			sort.Strings(out[b])
		}
		return out
	}
	refBy, curBy := byBase(ref.Sites), byBase(sites)
	var bases []string
	for b := range curBy {
		bases = append(bases, b)
	}
	sort.Strings(bases)
	covers := func(refKey, curKey string) bool {
		al := map[string]bool{}
		for _, w := range ref.Sites[refKey] {
			al[w] = true
		}
		for _, have := range sites[curKey] {
			if !al[have] && !alwaysOK[have] {
				return false
			}
		}
		return true
	}
	for _, b := range bases {
		rks, cks := refBy[b], curBy[b]
		if len(rks) == 0 {
			continue // a new or moved kind of step: nothing to compare with
		}
		parts := strings.SplitN(b, "|", 2)
		unmatched := map[string]bool{}
		if len(rks) == len(cks) {
			// bipartite matching (augmenting paths; the sets are tiny)
			matchOfRef := map[string]string{}
			var try func(ck string, seen map[string]bool) bool
			try = func(ck string, seen map[string]bool) bool {
				for _, rk := range rks {
					if seen[rk] || !covers(rk, ck) {
						continue
					}
					seen[rk] = true
					if prev, taken := matchOfRef[rk]; !taken || try(prev, seen) {
						matchOfRef[rk] = ck
						return true
					}
				}
				return false
			}
			for _, ck := range cks {
				if !try(ck, map[string]bool{}) {
					unmatched[ck] = true
				}
			}
		} else {
			for _, ck := range cks {
				ok := false
				for _, rk := range rks {
					if covers(rk, ck) {
						ok = true
						break
					}
				}
				if !ok {
					unmatched[ck] = true
				}
			}
		}
		for _, ck := range cks {
			ord := ck[strings.LastIndex(ck, "|")+1:]
			if !unmatched[ck] {
				c.Pass(parts[0], "no-new-skip "+parts[1]+"#"+ord, c.Pos(poss[ck]), "guarded by the same kinds of condition as on the reference tree")
				continue
			}
			// what is new: a kind that guards no reference site of this step
			anywhere := map[string]bool{}
			for _, rk := range rks {
				for _, w := range ref.Sites[rk] {
					anywhere[w] = true
				}
			}
			var extra []string
			for _, have := range sites[ck] {
				if !anywhere[have] && !alwaysOK[have] {
					extra = append(extra, have)
				}
			}
			if len(extra) == 0 && len(rks) != len(cks) {
				c.PassTrivial(parts[0], "no-new-skip "+parts[1]+"#"+ord, c.Pos(poss[ck]), "guards recombined from those of the reference sites (the number of such steps changed)")
				continue
			}
			if len(extra) == 0 {
				// every guard occurs at some reference site of this step, but more sites than before are
				// guarded that way: with as many sites as on the reference tree, one of them became conditional
				for _, have := range sites[ck] {
					if !alwaysOK[have] {
						extra = append(extra, have)
					}
				}
			}
			pos := condPos[ck][extra[0]]
			c.Fail(parts[0], "no-new-skip "+parts[1]+"#"+ord, c.Pos(poss[ck]), fmt.Sprintf("the step `%s` is now reached only under a condition of a kind that did not guard it on the reference tree (%s, at %s): a step that used to be taken on this path can be skipped", parts[1], strings.Join(extra, ", "), c.Pos(pos)))
		}
	}
}
