package main

import (
	"encoding/json"
	"fmt"
	"go/token"
	"go/types"
	"os"
	"path/filepath"
	"sort"
	"strings"

	"golang.org/x/tools/go/ssa"
)

// ---------------------------------------------------------------------------
// "No new way around a backend call."
//
// For every call through one of the module's own interfaces (BlobAccess,
// BlobReplicator, Authorizer, KeyLocationMap, LocationBlobMap, BlockList, …)
// the *kinds* of branch conditions that dominate the call are computed
// (error-nil test, loop bound, NOT_FOUND test, length/size comparison, boolean
// helper such as Empty()/IsOlder(), …).  The kinds found on the reference tree
// (the pinned tree with the fix: commits; /verif/reference/skipconds.json,
// generated once with `bbcheck -gen-reference` and committed) are the
// reference through time: a site that exists in both trees may not be guarded
// by a kind of condition that did not guard it before, apart from error tests
// and loop bounds.  This is what a "fast path" or "optimisation" that skips a
// step looks like (size == 0, len == 1, Empty(), a cached flag); equivalent
// rewrites keep the kinds (polarity, operand order, if/switch form and loop
// form do not matter; a call moved into another function is a different site
// and is not judged).

type skipRef struct {
	Note  string              `json:"note"`
	Sites map[string][]string `json:"sites"`
}

var skipGroups = []struct {
	rule  string
	props []string
	pkgs  []string
	files func(base string) bool
}{
	{"R01.11", []string{"C01", "C02", "C03", "C04", "C05", "C06", "C07", "C08", "C10"}, []string{"pkg/blobstore/local"}, nil},
	{"R09.7", []string{"C09", "C15", "C16", "C10", "C01", "C08", "C04"}, []string{"pkg/blobstore/buffer"}, nil},
	{"R11.7", []string{"C11"}, []string{"pkg/blobstore/mirrored"}, nil},
	{"R12.9", []string{"C12"}, []string{"pkg/blobstore/sharding"}, nil},
	{"R13.7", []string{"C13"}, []string{"pkg/blobstore/completenesschecking"}, nil},
	{"R14.8", []string{"C14"}, []string{"pkg/blobstore/grpcservers", "pkg/blobstore/grpcclients"}, nil},
	{"R17.7", []string{"C17", "C11"}, []string{"pkg/blobstore/replication", "pkg/blobstore/readcaching", "pkg/blobstore/readfallback"}, nil},
	{"R18.8", []string{"C18", "C19", "C17"}, []string{"pkg/blobstore", "pkg/auth"}, nil},
}

func init() {
	for i := range skipGroups {
		g := skipGroups[i]
		register(&Rule{
			ID: g.rule, Props: g.props, Engine: "condition-kind drift against the reference tree (SSA dominance)",
			Text: "no new way around a step (" + strings.Join(g.pkgs, ", ") + "): every call through one of the module's own interfaces (backends, replicators, authorizers, index and block-list operations) that exists on the reference tree at the same site (function, interface method, ordinal) is dominated only by the kinds of condition that dominated it there – plus error tests and loop bounds; a length / size / emptiness test, a boolean helper or a flag that newly decides whether the call happens is how a fast path that skips the step looks",
			Floor: 1, MustExist: false, Run: func(c *Ctx) { runSkipCond(c, g.pkgs) },
		})
	}
}

// refDir: the committed reference tables live next to the checker (…/verif/reference).
var refDir = func() string {
	if exe, err := os.Executable(); err == nil {
		d := filepath.Join(filepath.Dir(filepath.Dir(exe)), "reference")
		if st, err := os.Stat(d); err == nil && st.IsDir() {
			return d
		}
	}
	return "/verif/reference"
}()

func moduleIface(t types.Type) *types.Named {
	n, ok := t.(*types.Named)
	if !ok || n.Obj().Pkg() == nil {
		return nil
	}
	// the module's own interfaces, and those of its dependencies (gRPC streams
	// and clients, …) – not the standard library's (io.Writer, context.Context, …)
	if path := n.Obj().Pkg().Path(); !strings.HasPrefix(path, modPath) && !strings.Contains(strings.SplitN(path, "/", 2)[0], ".") {
		return nil
	}
	if _, ok := n.Underlying().(*types.Interface); !ok {
		return nil
	}
	return n
}

func isLoopHeader(b *ssa.BasicBlock) bool {
	for _, p := range b.Preds {
		if b.Dominates(p) {
			return true
		}
	}
	return false
}

func condKind(cond ssa.Value) string {
	for {
		if u, ok := cond.(*ssa.UnOp); ok && u.Op == token.NOT {
			cond = u.X
			continue
		}
		break
	}
	if x, _, ok := nilTest(cond); ok {
		if isErrorType(x.Type()) {
			return "err-nil"
		}
		return "nil-test"
	}
	involves := func(v ssa.Value, pred func(x ssa.Value) bool) bool {
		found := false
		backwardSlice(v, func(x ssa.Value) bool {
			if pred(x) {
				found = true
			}
			_, isCall := x.(*ssa.Call)
			return !found && (!isCall || x == v)
		})
		return found
	}
	switch x := cond.(type) {
	case *ssa.Extract:
		switch t := x.Tuple.(type) {
		case *ssa.Next:
			return "loop"
		case *ssa.Lookup:
			return "comma-ok"
		case *ssa.TypeAssert:
			return "comma-ok"
		case *ssa.UnOp:
			if t.Op == token.ARROW {
				return "comma-ok"
			}
		case *ssa.Call:
			return "result:" + calleeName(t.Common())
		case *ssa.Select:
			return "select"
		}
		return "extract"
	case *ssa.Call:
		return "call:" + calleeName(x.Common())
	case *ssa.Phi, *ssa.Parameter:
		return "flag"
	case *ssa.BinOp:
		for _, side := range []ssa.Value{x.X, x.Y} {
			if c, ok := side.(*ssa.Call); ok && isPkgFuncCall(c.Common(), "google.golang.org/grpc/status", "Code") {
				return "status-code"
			}
			if isIOEOF(side) {
				return "eof"
			}
			if ex, ok := side.(*ssa.Extract); ok {
				if _, isSel := ex.Tuple.(*ssa.Select); isSel {
					return "select"
				}
			}
		}
		if !isIntVal(x.X) {
			if bt, ok := x.X.Type().Underlying().(*types.Basic); ok && bt.Info()&types.IsString != 0 {
				return "string-compare"
			}
			if isBoolType(x.X) {
				return "flag"
			}
			return "value-compare"
		}
		// loop bound: one side is a phi of a loop header (or derived from it by +const)
		for _, side := range []ssa.Value{x.X, x.Y} {
			s := side
			if bo, ok := s.(*ssa.BinOp); ok {
				s = bo.X
			}
			if phi, ok := s.(*ssa.Phi); ok && isLoopHeader(phi.Block()) {
				return "loop"
			}
		}
		sizeLike := func(v ssa.Value) bool {
			return involves(v, func(y ssa.Value) bool {
				c, ok := y.(*ssa.Call)
				if !ok {
					return false
				}
				if bi, ok := c.Call.Value.(*ssa.Builtin); ok {
					return bi.Name() == "len" || bi.Name() == "cap"
				}
				n := calleeName(c.Common())
				return strings.HasSuffix(n, "Length") || strings.HasSuffix(n, "GetSizeBytes") || strings.HasSuffix(n, "Len")
			})
		}
		if sizeLike(x.X) || sizeLike(x.Y) {
			return "size-compare"
		}
		fieldNames := map[string]bool{}
		for _, side := range []ssa.Value{x.X, x.Y} {
			involves(side, func(y ssa.Value) bool {
				if f, _ := loadedField(y); f != nil {
					fieldNames[f.Name()] = true
				}
				return false
			})
		}
		if len(fieldNames) > 0 {
			var ns []string
			for n := range fieldNames {
				ns = append(ns, n)
			}
			sort.Strings(ns)
			return "field-compare:" + strings.Join(ns, ",")
		}
		return "int-compare"
	case *ssa.UnOp:
		if f, _ := loadedField(x); f != nil {
			return "flag:" + f.Name()
		}
		return "flag"
	case *ssa.Field, *ssa.FieldAddr:
		return "flag"
	}
	return "other"
}

// collectSkipSites: site key -> sorted set of condition kinds.
func collectSkipSites(p *Program, pkgs []string) (map[string][]string, map[string]token.Pos, map[string]map[string]token.Pos) {
	sites := map[string][]string{}
	poss := map[string]token.Pos{}
	condPos := map[string]map[string]token.Pos{}
	for _, rel := range pkgs {
		for _, tf := range p.pkgFuncs(rel) {
			withAnon(tf, func(g *ssa.Function) {
				ord := map[string]int{}
				allInstrs(g, func(ins ssa.Instruction) {
					cl, ok := ins.(*ssa.Call)
					if !ok || !cl.Call.IsInvoke() {
						return
					}
					n := moduleIface(cl.Call.Value.Type())
					if n == nil {
						return
					}
					base := FuncName(g) + "|" + n.Obj().Name() + "." + cl.Call.Method.Name()
					key := fmt.Sprintf("%s|%d", base, ord[base])
					ord[base]++
					set := map[string]bool{}
					cp := map[string]token.Pos{}
					// the conditions that dominate the call, and – for a call inside a
					// function literal – those that dominate the creation of the literal
					blocks := []*ssa.BasicBlock{cl.Block()}
					for inner := g; inner.Parent() != nil; inner = inner.Parent() {
						allInstrs(inner.Parent(), func(pi ssa.Instruction) {
							if mc, ok := pi.(*ssa.MakeClosure); ok && mc.Fn == ssa.Value(inner) {
								blocks = append(blocks, mc.Block())
							}
						})
					}
					for _, blk := range blocks {
						edgeFacts(blk, func(cond ssa.Value, val bool) bool {
							k := condKind(cond)
							set[k] = true
							if _, ok := cp[k]; !ok {
								cp[k] = cond.Pos()
								if !cp[k].IsValid() {
									cp[k] = cl.Pos()
								}
							}
							return true
						})
					}
					var ks []string
					for k := range set {
						ks = append(ks, k)
					}
					sort.Strings(ks)
					sites[key] = ks
					poss[key] = cl.Pos()
					condPos[key] = cp
				})
			})
		}
	}
	return sites, poss, condPos
}

func allSkipPkgs() []string {
	var out []string
	for _, g := range skipGroups {
		out = append(out, g.pkgs...)
	}
	return out
}

// genSkipReference writes the reference table from the tree at repo.
func genSkipReference(repo string) error {
	p, err := LoadProgram(repo, BuildConfig{"linux", "amd64"}, false, nil)
	if err != nil {
		return err
	}
	sites, _, _ := collectSkipSites(p, allSkipPkgs())
	ref := skipRef{Note: "kinds of branch conditions that dominate each call through a module interface on the reference tree (pinned tree + fix: commits); generated by `bbcheck -gen-reference`, never written by a check", Sites: sites}
	b, _ := json.MarshalIndent(ref, "", " ")
	if err := os.MkdirAll(refDir, 0o755); err != nil {
		return err
	}
	return os.WriteFile(filepath.Join(refDir, "skipconds.json"), append(b, '\n'), 0o644)
}

var skipRefCache *skipRef

func loadSkipRef() (*skipRef, error) {
	if skipRefCache != nil {
		return skipRefCache, nil
	}
	b, err := os.ReadFile(filepath.Join(refDir, "skipconds.json"))
	if err != nil {
		return nil, err
	}
	var r skipRef
	if err := json.Unmarshal(b, &r); err != nil {
		return nil, err
	}
	skipRefCache = &r
	return &r, nil
}

func runSkipCond(c *Ctx, pkgs []string) {
	ref, err := loadSkipRef()
	if err != nil {
		c.Broken("reference table of condition kinds cannot be read: %v", err)
		return
	}
	alwaysOK := map[string]bool{"err-nil": true, "loop": true}
	sites, poss, condPos := collectSkipSites(c.Program, pkgs)
	var keys []string
	for k := range sites {
		keys = append(keys, k)
	}
	sort.Strings(keys)
	for _, k := range keys {
		want, known := ref.Sites[k]
		parts := strings.SplitN(k, "|", 3)
		if !known {
			continue // a new or moved site: nothing to compare with
		}
		allowed := map[string]bool{}
		for _, w := range want {
			allowed[w] = true
		}
		var extra []string
		for _, have := range sites[k] {
			if !allowed[have] && !alwaysOK[have] {
				extra = append(extra, have)
			}
		}
		if len(extra) == 0 {
			c.Pass(parts[0], "no-new-skip "+parts[1]+"#"+parts[2], c.Pos(poss[k]), "guarded by the same kinds of condition as on the reference tree")
			continue
		}
		pos := condPos[k][extra[0]]
		c.Fail(parts[0], "no-new-skip "+parts[1]+"#"+parts[2], c.Pos(poss[k]), fmt.Sprintf("the call %s is now reached only under a condition of a kind that did not guard it on the reference tree (%s, at %s): a step that used to be taken on this path can be skipped", parts[1], strings.Join(extra, ", "), c.Pos(pos)))
	}
}
